/* C11 lemma F4 / C10 — _dbus_message_loader_get_buffer + _dbus_message_loader_return_buffer (dbus/dbus-message.c, REAL code),
 * hybrid route: the scan loop is closed by a CBMC loop contract (contracts/c10_loader_buffer.ovl);
 * _dbus_header_have_message_untrusted is bound to its contract (the one ENFORCED by unit C01.have_message, incl. its
 * precondition: start >= 0, start % 8 == 0, 16 <= len <= bytes available from start).
 *
 * Oracle: doc comments ("Gets the buffer to use for reading data from the network ... The buffer must be returned with
 * _dbus_message_loader_return_buffer() even if no bytes are successfully read", "max_to_read: how many bytes should be
 * read", "may_read_fds: whether fds may be read") and the comments in the function: "If we aren't holding onto any fds, we
 * can read as much as we want"; "We don't want to start on the next message until this one is out of the way"; "Only read
 * the rest of the DBUS_MINIMUM_HEADER_SIZE for now"; "Read the rest of the message."  Property C11: "read-size hint that
 * avoids running past a message carrying fds".
 *
 *  ensures  *buffer is the loader's own string, buffer_outstanding set; return_buffer takes exactly that string back once
 *  ensures  no descriptors pending                       => max_to_read == DBUS_MAXIMUM_MESSAGE_LENGTH, fds may be read
 *  ensures  descriptors pending, B = end of the last complete frame in the buffer, rem = len - B:
 *             rem == 0                                   => unrestricted (we are at a message boundary)
 *             0 < rem < 16                               => max_to_read == 16 - rem, no fds
 *             rem >= 16, frame at B invalid              => unrestricted ("we're going to disconnect the sender anyway")
 *             rem >= 16, frame at B valid but incomplete => len + max_to_read == B + its length (the read ends exactly at the end
 *                                                           of that message), max_to_read > 0, no fds
 *  ensures  every call of _dbus_header_have_message_untrusted meets that function's precondition
 */
#include <config.h>
#include "dbus/dbus-internals.h"
#include "verif_prelude.h"
#include "verif_ghost.h"
_Bool nondet_bool (void); int nondet_int (void); unsigned nondet_uint (void); long nondet_long (void);
#define PRE(c, what) __CPROVER_assert ((c), "precondition of " what)
#define POST(c, what) __CPROVER_assert ((c), what)
#ifndef IMP
#define IMP(a, b) (!(a) || (b))
#endif
#define REACH(tag) __CPROVER_assert (0, "REACH:" tag)
struct c10_f4_ghost {
  long boundary;          /* sum of the lengths of the complete valid frames found so far == start of the frame under inspection */
  int last;               /* verdict on the frame at `boundary`: 0 none yet / complete, 1 invalid, 2 valid but incomplete */
  long need;              /* length of that frame (valid ones) */
  unsigned long calls;
};
struct c10_f4_ghost G4;
int verif_len0;           /* length of loader->data (constant during the call) */
#ifndef VERIF_F4_FULL
#define VERIF_F4_FULL 0
#endif
#include VERIF_TU
long verif_gk, verif_gk2, verif_w, verif_w2; int verif_flag;
void _dbus_real_assert (dbus_bool_t condition, const char *condition_text, const char *file, int line, const char *func)
{ __CPROVER_assert (condition, "dbus assertion (inline helper)"); __CPROVER_assume (condition); }

static DBusMessageLoader L;
int verif_stub_string_get_length (const DBusString *s) { PRE (s == &L.data, "_dbus_string_get_length: the loader's buffer"); return verif_len0; }
/* CONTRACT of _dbus_header_have_message_untrusted as enforced by C01.have_message (harness/c01_have.c):
 *   requires start >= 0, start < 0x3fffffff, start % 8 == 0, 16 <= len <= length(str) - start, 0 <= max <= 2^27
 *   ensures  verdict and lengths are a function of the 16 bytes at start (here: arbitrary, the bytes are arbitrary);
 *            VALID => header_len >= 16, header_len % 8 == 0, body_len >= 0, header_len + body_len <= max;
 *            result == (VALID && header_len + body_len <= len) */
dbus_bool_t verif_stub_have_message (int max, DBusValidity *validity, int *byte_order, int *fields_array_len, int *header_len, int *body_len, const DBusString *str, int start, int len)
{
  PRE (str == &L.data && (long) max == L.max_message_size, "_dbus_header_have_message_untrusted: the loader's buffer and its max_message_size");
  PRE ((long) start == G4.boundary && len == verif_len0 - start, "_dbus_header_have_message_untrusted: called at a frame boundary with all bytes behind it");
  PRE (start >= 0 && start < 0x3fffffff && len >= 16 && len <= verif_len0 - start, "_dbus_header_have_message_untrusted: 16 <= len <= bytes available from start (C01.have_message requires)");
  PRE (start % 8 == 0, "_dbus_header_have_message_untrusted: start is 8-aligned (C01.have_message requires; the function asserts it and its 32-bit reads round the position up to 4)");
  G4.calls++;
  int v = nondet_int (), hl = nondet_int (), bl = nondet_int ();
  if (v == DBUS_VALID)
    {
      __CPROVER_assume (hl >= 16 && hl % 8 == 0 && bl >= 0 && (long) hl + bl <= (long) max);
#if !VERIF_F4_FULL
      /* green variant: the complete frames in the buffer leave their successor 8-aligned and are longer than the fixed header
       * (what holds whenever the scan loop does not have to skip anything: LOADER_INV after a successful
       * _dbus_message_loader_queue_messages).  The variant without this assumption is unit C11.F4.loader_buffer_full. */
      __CPROVER_assume (hl + bl > len || ((hl + bl) % 8 == 0 && hl + bl > DBUS_MINIMUM_HEADER_SIZE));
#endif
      *header_len = hl; *body_len = bl; *fields_array_len = nondet_int (); *byte_order = nondet_int (); *validity = DBUS_VALID;
      if (hl + bl <= len) { G4.boundary += hl + bl; G4.last = 0; return TRUE; }
      G4.last = 2; G4.need = (long) hl + bl; return FALSE;
    }
  *validity = (DBusValidity) v; G4.last = 1; *byte_order = nondet_int ();
  return FALSE;
}

void harness (void)
{
  /* hybrid route: statics start arbitrary -> set everything */
  verif_len0 = nondet_int (); __CPROVER_assume (verif_len0 >= 0 && verif_len0 < 0x3fffffff);   /* LOADER_INV: at most one incomplete frame (<= 128 MiB) plus what later reads appended */
  G4.boundary = 0; G4.last = 0; G4.need = 0; G4.calls = 0;
  L.refcount = 1; L.messages = NULL; L.corrupted = 0; L.corruption_reason = DBUS_VALID; L.buffer_outstanding = 0; L.unix_fds_outstanding = 0;
  L.max_message_size = nondet_long (); __CPROVER_assume (L.max_message_size >= 0 && L.max_message_size <= DBUS_MAXIMUM_MESSAGE_LENGTH);
  L.n_unix_fds = nondet_uint (); L.n_unix_fds_allocated = nondet_uint (); __CPROVER_assume (L.n_unix_fds <= L.n_unix_fds_allocated);
  L.unix_fds = NULL; L.unix_fds_change = NULL; L.unix_fds_change_data = NULL;
  DBusString *buffer = NULL; int max_to_read = nondet_int (); dbus_bool_t may_read_fds = nondet_int ();
  _Bool want_hint = nondet_bool ();          /* recover_unused_bytes and the decoding path pass NULL, NULL */
  if (want_hint) _dbus_message_loader_get_buffer (&L, &buffer, &max_to_read, &may_read_fds);
  else _dbus_message_loader_get_buffer (&L, &buffer, NULL, NULL);
  POST (buffer == &L.data && L.buffer_outstanding, "get_buffer: hands out the loader's own string and marks it outstanding");
  long rem = (long) verif_len0 - G4.boundary;
  if (want_hint)
    {
      POST (max_to_read >= 1 && max_to_read <= DBUS_MAXIMUM_MESSAGE_LENGTH, "get_buffer: 1 <= max_to_read <= DBUS_MAXIMUM_MESSAGE_LENGTH");
      POST (IMP (L.n_unix_fds == 0, max_to_read == DBUS_MAXIMUM_MESSAGE_LENGTH && may_read_fds && G4.calls == 0), "get_buffer: no descriptors pending => read as much as we want, buffer not inspected");
      POST (IMP (L.n_unix_fds > 0 && rem == 0, max_to_read == DBUS_MAXIMUM_MESSAGE_LENGTH && may_read_fds), "get_buffer: at a message boundary => unrestricted");
      POST (IMP (L.n_unix_fds > 0 && rem > 0 && rem < DBUS_MINIMUM_HEADER_SIZE, max_to_read == DBUS_MINIMUM_HEADER_SIZE - rem && !may_read_fds), "get_buffer: fixed header incomplete => only the rest of the 16 bytes, no fds");
      POST (IMP (L.n_unix_fds > 0 && rem >= DBUS_MINIMUM_HEADER_SIZE && G4.last == 2, (long) verif_len0 + max_to_read == G4.boundary + G4.need && !may_read_fds),
            "get_buffer: valid incomplete message => the read ends exactly at the end of that message, no fds");
      POST (IMP (L.n_unix_fds > 0 && rem >= DBUS_MINIMUM_HEADER_SIZE, G4.last == 1 || G4.last == 2), "get_buffer: the scan stops only at an invalid or incomplete frame, at a short tail, or at the end");
      POST (IMP (L.n_unix_fds > 0 && rem > 0 && G4.last != 1, !may_read_fds && (long) verif_len0 + max_to_read <= G4.boundary + (rem < DBUS_MINIMUM_HEADER_SIZE ? DBUS_MINIMUM_HEADER_SIZE : G4.need)),
            "get_buffer (F4): with descriptors pending a read never runs past the end of the message in progress, and brings no further descriptors");
      if (L.n_unix_fds > 0 && G4.calls >= 2 && G4.last == 2) REACH ("skipped-complete-frames-then-partial");
      if (L.n_unix_fds > 0 && G4.last == 1) REACH ("invalid-frame"); if (L.n_unix_fds > 0 && rem > 0 && rem < 16) REACH ("short-tail");
      if (L.n_unix_fds > 0 && rem == 0 && G4.calls >= 1) REACH ("ends-at-boundary"); if (L.n_unix_fds == 0) REACH ("fast-path");
    }
  else REACH ("no-hint");
  _dbus_message_loader_return_buffer (&L, buffer);
  POST (!L.buffer_outstanding, "return_buffer: the loader's string is handed back, once");
}
