/* C08.process_command / C08.do_work / C08.unused — line framing of the handshake (dbus/dbus-auth.c, real code).
 *
 *  process_command (1)   [spec: "The protocol is a line-based protocol, where each line ends with \r\n. Each line begins with
 *                         an all-caps ASCII command name ..., a space, then any arguments for the command, then the \r\n ending
 *                         the line. ... All bytes must be in the ASCII character set."; BEGIN: "The first octet received by the
 *                         server after the \r\n of the BEGIN command from the client must be the first octet of the
 *                         authenticated/encrypted stream of D-Bus messages."]
 *     requires  AUTH_INV, a non-terminal state
 *     ensures   no "\r\n" buffered      => FALSE and nothing at all changes (no handler, no reply, buffer, needed_memory)
 *     ensures   TRUE                    => exactly the first line and its CRLF left the FRONT of the incoming buffer
 *                                          (len' = len - (eol + 2), nothing else edited); needed_memory cleared
 *     ensures   FALSE after a CRLF      => (out of memory) incoming buffer untouched, needed_memory set, no reply queued
 *     ensures   line not ASCII          => no state handler runs; TRUE => one ERROR queued, state unchanged
 *     ensures   the state handler runs at most once, on an ASCII-validated line, with the command looked up from the first
 *               word and the rest of the line (after the blanks) as arguments
 *     ensures   AUTH_INV; temporaries freed
 *  _dbus_auth_do_work (2) loop closed by induction over the contract of process_command (verif_stub_process_command_ind, c08_cmd_stubs.h)
 *     ensures   AUTH_INV
 *     ensures   result AUTHENTICATED     => state Authenticated, g_mech_ok, nothing left to send, no pending OOM
 *     ensures   result NEED_DISCONNECT   => state NeedDisconnect
 *     ensures   non-terminal state afterwards => buffered incoming <= 16384 (MAX_BUFFER)
 *     ensures   more than 16384 bytes buffered (either direction) at entry in a non-terminal state => NeedDisconnect, no command processed
 *     ensures   terminal state at entry  => no command processed (bytes after BEGIN are never read as handshake)
 *     ensures   bytes leave the incoming buffer only as whole lines from the front, one per processed command
 *  unused bytes (3)      _dbus_auth_get_unused_bytes / _dbus_auth_delete_unused_bytes / _dbus_auth_get_bytes_to_send / _dbus_auth_bytes_sent
 */
#include "c08_model.h"
#include "c08_inv.h"
#include VERIF_TU
#include "c08_auth.h"
#include "c08_cmd_stubs.h"

#ifndef VERIF_FN
#define VERIF_FN 1
#endif

void harness (void)
{
  DBusAuthServer S; DBusAuth *auth = &S.base;
  c08_make_auth (&S);
  __CPROVER_assume (AUTH_INV (auth));
  struct c08_snap old = c08_take (auth);
  unsigned old_needed = auth->needed_memory;
  G.sent = 0; G.last = 0; G.handler_calls = 0; G.send_error_calls = 0; G.process_command_calls = 0;
  g_find_calls = 0; g_lookup_calls = 0;

#if VERIF_FN == 1
  __CPROVER_assume (IS_LIVE_STATE (ST (auth)));
  dbus_bool_t ret = process_command (auth);
  ASSERT_AUTH_INV (auth);
  POST (g_find_calls == 1 && g_find_from == 0, "process_command: looks for the first CRLF from the start of the buffer");
  POST (IMP (!g_find_found, !ret && G.handler_calls == 0 && G.sent == 0 && SLEN (&auth->incoming) == old.in_len && g_in_deleted == 0 && auth->needed_memory == old_needed && ST (auth) == old.state),
        "process_command: no complete line buffered => FALSE, nothing changes");
  POST (IMP (ret, g_find_found && SLEN (&auth->incoming) == old.in_len - (g_find_k + 2) && g_in_deleted == g_find_k + 2 && !g_in_other_edit && !auth->needed_memory),
        "process_command: TRUE => exactly the line and its CRLF are consumed from the front");
  POST (IMP (!ret, SLEN (&auth->incoming) == old.in_len && g_in_deleted == 0 && !g_in_other_edit && G.sent == 0 && ST (auth) == old.state && S.failures == old.failures),
        "process_command: FALSE => incoming untouched, no reply, state unchanged");
  POST (IMP (!ret && g_find_found, auth->needed_memory), "process_command: FALSE on a complete line => waiting for memory");
  POST (G.handler_calls <= 1 && IMP (G.handler_calls == 1, g_ascii_result && g_lookup_calls == 1 && G.handler_cmd == g_lookup_result && g_handler_args_is_temp),
        "process_command: the state handler runs at most once, on an ASCII line, with the looked-up command");
  POST (IMP (g_ascii_calls == 1 && !g_ascii_result, G.handler_calls == 0 && g_lookup_calls == 0 && G.send_error_calls == 1 && ST (auth) == old.state && IMP (ret, G.sent == 1 && G.last == SPEC_REPLY_ERROR)),
        "process_command: non-ASCII line => ERROR, no handler, state unchanged, line consumed");
  POST (IMP (ret, G.handler_calls + G.send_error_calls == 1 && G.sent <= 1), "process_command: TRUE => one command handled, at most one reply");
  POST (IMP (ST (auth) == S_AUTHD, ret && SLEN (&auth->incoming) == old.in_len - (g_find_k + 2)), "process_command: after BEGIN everything behind its CRLF is still in the buffer");
  POST (g_str_live == 0, "process_command: temporaries freed");
  if (ret && ST (auth) == S_AUTHD) REACH ("begin-consumed");
  if (ret && G.send_error_calls == 1) REACH ("non-ascii");
  if (!ret && !g_find_found) REACH ("incomplete-line");
  if (!ret && g_find_found) REACH ("oom");
  if (ret && G.handler_calls == 1 && SLEN (&auth->incoming) > 0) REACH ("handled-with-leftover");
#elif VERIF_FN == 2
  g_pc_lines = 0; g_pc_consumed = 0; g_pc_last_was_begin = 0;
  g_pc_call_no = 0; g_entry.in_len = old.in_len; g_entry.out_len = old.out_len; g_entry.failures = old.failures; g_entry.max_failures = S.max_failures; g_entry.state = old.state;
  DBusAuthState r = _dbus_auth_do_work (auth);
  ASSERT_AUTH_INV (auth);
  POST (r == DBUS_AUTH_STATE_WAITING_FOR_INPUT || r == DBUS_AUTH_STATE_WAITING_FOR_MEMORY || r == DBUS_AUTH_STATE_HAVE_BYTES_TO_SEND || r == DBUS_AUTH_STATE_NEED_DISCONNECT || r == DBUS_AUTH_STATE_AUTHENTICATED,
        "do_work: result is a proper DBusAuthState");
  POST (IMP (r == DBUS_AUTH_STATE_AUTHENTICATED, ST (auth) == S_AUTHD && g_mech_ok != 0 && SLEN (&auth->outgoing) == 0 && !auth->needed_memory), "do_work: AUTHENTICATED => state Authenticated after a mechanism succeeded, nothing left to send");
  POST (IMP (r == DBUS_AUTH_STATE_NEED_DISCONNECT, ST (auth) == S_DISC), "do_work: NEED_DISCONNECT => state NeedDisconnect");
  POST (IMP (r == DBUS_AUTH_STATE_WAITING_FOR_INPUT, IS_LIVE_STATE (ST (auth)) && SLEN (&auth->outgoing) == 0 && !auth->needed_memory), "do_work: WAITING_FOR_INPUT => non-terminal, nothing to send");
  POST (IMP (IS_LIVE_STATE (ST (auth)), SLEN (&auth->incoming) <= SPEC_AUTH_MAX_BUFFER), "do_work: a conversation that goes on buffers at most 16384 bytes of input");
  POST (IMP (IS_LIVE_STATE (old.state) && (old.in_len > SPEC_AUTH_MAX_BUFFER || old.out_len > SPEC_AUTH_MAX_BUFFER), ST (auth) == S_DISC && G.process_command_calls == 0 && SLEN (&auth->incoming) == old.in_len),
        "do_work: more than 16384 bytes buffered => NeedDisconnect, nothing processed");
  POST (IMP (!IS_LIVE_STATE (old.state), G.process_command_calls == 0 && ST (auth) == old.state && SLEN (&auth->incoming) == old.in_len && G.sent == 0), "do_work: terminal state => no command processed, buffer untouched");
  POST (SLEN (&auth->incoming) == old.in_len - g_pc_consumed && g_pc_consumed >= 0, "do_work: bytes leave the incoming buffer only as whole lines taken by process_command");
  POST (IMP (ST (auth) == S_AUTHD && old.state != S_AUTHD, g_pc_last_was_begin), "do_work: nothing is processed after the command that authenticated (BEGIN)");
  POST (S.failures >= old.failures && S.failures <= S.max_failures, "do_work: failures only grow, never beyond the maximum");
  if (r == DBUS_AUTH_STATE_AUTHENTICATED) REACH ("authenticated");
  if (r == DBUS_AUTH_STATE_NEED_DISCONNECT && old.in_len > SPEC_AUTH_MAX_BUFFER) REACH ("too-much-buffered");
  if (r == DBUS_AUTH_STATE_NEED_DISCONNECT && S.failures == S.max_failures && old.failures < S.max_failures) REACH ("too-many-rejections");
  if (r == DBUS_AUTH_STATE_WAITING_FOR_MEMORY) REACH ("oom");
  if (r == DBUS_AUTH_STATE_HAVE_BYTES_TO_SEND) REACH ("bytes-to-send");
  if (r == DBUS_AUTH_STATE_WAITING_FOR_INPUT && G.process_command_calls >= 2) REACH ("several-commands");
#elif VERIF_FN == 3
  const DBusString *unused = NULL; static DBusString sentinel; const DBusString *tosend = &sentinel;
  _dbus_auth_get_unused_bytes (auth, &unused);
  POST (IMP (ST (auth) == S_AUTHD || ST (auth) == S_DISC, unused == &auth->incoming), "get_unused_bytes: in a terminal state the leftover is the incoming buffer itself (what follows the BEGIN line)");
  POST (IMP (IS_LIVE_STATE (ST (auth)), unused == NULL), "get_unused_bytes: nothing is handed out while the handshake goes on");
  POST (SLEN (&auth->incoming) == old.in_len && g_in_deleted == 0, "get_unused_bytes: does not consume");
  _dbus_auth_delete_unused_bytes (auth);
  POST (IMP (ST (auth) == S_AUTHD || ST (auth) == S_DISC, SLEN (&auth->incoming) == 0), "delete_unused_bytes: terminal state => buffer emptied");
  POST (IMP (IS_LIVE_STATE (ST (auth)), SLEN (&auth->incoming) == old.in_len), "delete_unused_bytes: handshake bytes are never dropped");
  dbus_bool_t have = _dbus_auth_get_bytes_to_send (auth, &tosend);
  POST (have == (old.out_len > 0) && (have ? tosend == &auth->outgoing : tosend == NULL), "get_bytes_to_send: the outgoing buffer iff it is non-empty");
  if (have)
    {
      int n = nondet_int (); __CPROVER_assume (n >= 0 && n <= old.out_len);
      _dbus_auth_bytes_sent (auth, n);
      POST (SLEN (&auth->outgoing) == old.out_len - n, "bytes_sent: exactly the written prefix leaves the outgoing buffer");
    }
  POST (ST (auth) == old.state && S.failures == old.failures && g_mech_ok == old.mech_ok && CRED_EQ (auth->authorized_identity, &old.authz), "buffer accessors do not touch the conversation state");
  if (unused) REACH ("unused-handed-out"); else REACH ("unused-withheld");
  if (have) REACH ("bytes-to-send");
#endif
}
