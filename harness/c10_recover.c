/* C11 lemma F5 — recover_unused_bytes (dbus/dbus-transport.c, REAL code, static reached by #include), BOTH branches, stated on
 * the ARGUMENTS of the string operations so that, with the byte-level contracts proved in C14.str.copy / C14.str.move
 * ("TRUE => dest = dest[0..insert_at) ++ source[start..) ++ dest[insert_at..); FALSE => unchanged"), the byte-level statement
 * follows: TRUE => loader buffer' = loader buffer ++ (decoded) unused handshake bytes.
 * (C08.recover proves the length-level statement of the plain branch; C08.dispatch_status that recovery happens at most once per
 * transport and before any framing.  Those are referenced, not repeated.)
 *
 * Oracle: property C11 ("one-time transfer of leftover handshake bytes"; "all partitions of the handshake-to-message boundary
 * where message bytes arrive in the same read as BEGIN"); doc of _dbus_auth_get_unused_bytes ("Returns leftover bytes that were
 * not used as part of the auth conversation. These bytes will be part of the message stream instead") and
 * _dbus_auth_delete_unused_bytes ("Gets rid of unused bytes returned by _dbus_auth_get_unused_bytes() after we've gotten them and
 * successfully moved them elsewhere").
 *
 *  ensures  TRUE  => exactly one append: the whole source from offset 0 (plain: the unused-bytes string itself; encoded: the
 *                    plaintext that _dbus_auth_decode_data produced from the unused-bytes string), inserted at the END of the
 *                    loader's own buffer while it is handed out; then _dbus_auth_delete_unused_bytes exactly once
 *  ensures  FALSE => nothing appended, nothing deleted: loader buffer and unused bytes are what they were
 *  ensures  the loader buffer is obtained without a read hint (NULL, NULL) at most once; the temporary plaintext string is freed
 *  ensures  (VERIF_STRICT) the loader buffer is handed back on EVERY path — fails in the encoded branch when the move runs out of
 *           memory (finder unit; dead code today: no mechanism has a decode function, C08.find_mech)
 */
#include <config.h>
#include "dbus/dbus-internals.h"
#include "verif_prelude.h"
#include "verif_ghost.h"
_Bool nondet_bool (void); int nondet_int (void);
#define PRE(c, what) __CPROVER_assert ((c), "precondition of " what)
#define POST(c, what) __CPROVER_assert ((c), what)
#ifndef IMP
#define IMP(a, b) (!(a) || (b))
#endif
#define REACH(tag) __CPROVER_assert (0, "REACH:" tag)
#ifndef VERIF_STRICT
#define VERIF_STRICT 0
#endif
#include VERIF_TU
long verif_gk, verif_gk2, verif_w, verif_w2; int verif_flag;
void _dbus_real_assert (dbus_bool_t condition, const char *condition_text, const char *file, int line, const char *func)
{ __CPROVER_assert (condition, "dbus assertion (inline helper)"); __CPROVER_assume (condition); }

static DBusTransport T; static char o_auth, o_loader; static DBusString s_unused, s_loader_buf;
struct c10_f5_ghost {
  _Bool dec, outstanding, pt_live, pt_decoded, move_failed;
  const DBusString *pt;                    /* the function's temporary plaintext string */
  int buf_len, unused_len, pt_len, decoded_len;
  int gets, returns, get_unused, appends, deletes, inits, frees;
  int appended_what;                       /* 1: the unused-bytes string, 2: the decoded plaintext */
} G5;
#define MAXS 0x10000000
dbus_bool_t _dbus_auth_needs_decoding (DBusAuth *a) { PRE (a == (DBusAuth *) &o_auth, "_dbus_auth_needs_decoding: this transport's auth"); return G5.dec; }
dbus_bool_t _dbus_string_init (DBusString *s) { PRE (!G5.pt_live, "_dbus_string_init: temporary not yet live"); if (nondet_bool ()) return FALSE; G5.pt = s; G5.pt_live = 1; G5.pt_len = 0; G5.inits++; return TRUE; }
void _dbus_string_free (DBusString *s) { PRE (G5.pt_live && s == (DBusString *) G5.pt, "_dbus_string_free: the live temporary"); G5.pt_live = 0; G5.frees++; }
void _dbus_auth_get_unused_bytes (DBusAuth *a, const DBusString **str) { PRE (a == (DBusAuth *) &o_auth && str != NULL, "_dbus_auth_get_unused_bytes"); G5.get_unused++; *str = &s_unused; }
/* ASSUMED: "Called post-authentication, decodes a block of bytes received from the peer" — appends the plaintext or fails (OOM) leaving it unchanged */
dbus_bool_t _dbus_auth_decode_data (DBusAuth *a, const DBusString *encoded, DBusString *plaintext)
{
  PRE (encoded == &s_unused && G5.pt_live && plaintext == (DBusString *) G5.pt && G5.pt_len == 0, "_dbus_auth_decode_data: the unused bytes into the empty temporary");
  if (nondet_bool ()) return FALSE;
  int n = nondet_int (); __CPROVER_assume (n >= 0 && n <= MAXS); G5.decoded_len = n; G5.pt_len = n; G5.pt_decoded = 1; return TRUE;
}
void _dbus_message_loader_get_buffer (DBusMessageLoader *l, DBusString **buffer, int *max_to_read, dbus_bool_t *may_read_unix_fds)
{
  PRE (l == (DBusMessageLoader *) &o_loader && !G5.outstanding, "_dbus_message_loader_get_buffer: this transport's loader, buffer not outstanding");
  PRE (max_to_read == NULL && may_read_unix_fds == NULL, "_dbus_message_loader_get_buffer: no read hint wanted (nothing is read from the socket here)");
  G5.outstanding = 1; G5.gets++; *buffer = &s_loader_buf;
}
void _dbus_message_loader_return_buffer (DBusMessageLoader *l, DBusString *buffer) { PRE (G5.outstanding && buffer == &s_loader_buf, "_dbus_message_loader_return_buffer: the outstanding buffer"); G5.outstanding = 0; G5.returns++; }
int _dbus_string_get_length (const DBusString *s)
{ PRE (s == &s_loader_buf || s == &s_unused || (G5.pt_live && s == G5.pt), "_dbus_string_get_length: one of the three strings"); return s == &s_loader_buf ? G5.buf_len : s == &s_unused ? G5.unused_len : G5.pt_len; }
/* CONTRACT C14.str.copy (enforced): source never modified; TRUE => dest = dest[0..insert_at) ++ source[start..) ++ rest; FALSE => dest unchanged */
dbus_bool_t _dbus_string_copy (const DBusString *source, int start, DBusString *dest, int insert_at)
{
  PRE (source == &s_unused && start == 0, "_dbus_string_copy: the WHOLE unused-bytes string (from offset 0)");
  PRE (dest == &s_loader_buf && G5.outstanding && insert_at == G5.buf_len, "_dbus_string_copy: at the END of the loader's buffer, while it is handed out");
  PRE (G5.appends == 0, "_dbus_string_copy: the leftover bytes are appended at most once");
  if (nondet_bool ()) return FALSE;
  G5.buf_len += G5.unused_len; G5.appends++; G5.appended_what = 1; return TRUE;
}
/* CONTRACT C14.str.move (enforced): TRUE => dest as copy and source truncated at start; FALSE => both unchanged */
dbus_bool_t _dbus_string_move (DBusString *source, int start, DBusString *dest, int insert_at)
{
  PRE (G5.pt_live && source == (DBusString *) G5.pt && G5.pt_decoded && start == 0, "_dbus_string_move: the WHOLE decoded plaintext (from offset 0)");
  PRE (dest == &s_loader_buf && G5.outstanding && insert_at == G5.buf_len, "_dbus_string_move: at the END of the loader's buffer, while it is handed out");
  PRE (G5.appends == 0, "_dbus_string_move: the leftover bytes are appended at most once");
  if (nondet_bool ()) { G5.move_failed = 1; return FALSE; }
  G5.buf_len += G5.pt_len; G5.pt_len = 0; G5.appends++; G5.appended_what = 2; return TRUE;
}
/* "Gets rid of unused bytes ... after we've gotten them and successfully moved them elsewhere" */
void _dbus_auth_delete_unused_bytes (DBusAuth *a)
{
  PRE (a == (DBusAuth *) &o_auth && G5.appends == 1 && G5.deletes == 0, "_dbus_auth_delete_unused_bytes: only after the bytes were appended to the loader, once");
  G5.deletes++; G5.unused_len = 0;
}

void harness (void)
{
  T.refcount = 1; T.vtable = NULL; T.auth = (DBusAuth *) &o_auth; T.loader = (DBusMessageLoader *) &o_loader; T.connection = NULL; T.authenticated = 1; T.disconnected = nondet_bool (); T.unused_bytes_recovered = 0;
  G5.dec = nondet_bool (); G5.outstanding = 0; G5.pt_live = 0; G5.pt_decoded = 0; G5.move_failed = 0; G5.pt = NULL;
  G5.buf_len = nondet_int (); G5.unused_len = nondet_int (); __CPROVER_assume (G5.buf_len >= 0 && G5.buf_len <= MAXS && G5.unused_len >= 0 && G5.unused_len <= MAXS);
  G5.pt_len = 0; G5.decoded_len = 0; G5.gets = G5.returns = G5.get_unused = G5.appends = G5.deletes = G5.inits = G5.frees = 0; G5.appended_what = 0;
  int buf0 = G5.buf_len, unused0 = G5.unused_len;
  dbus_bool_t ret = recover_unused_bytes (&T);
  POST (IMP (ret, G5.appends == 1 && G5.deletes == 1 && G5.unused_len == 0), "recover_unused_bytes (F5): TRUE => the leftover bytes were appended exactly once and then deleted from the auth conversation exactly once");
  POST (IMP (ret, G5.appended_what == (G5.dec ? 2 : 1) && G5.buf_len == buf0 + (G5.dec ? G5.decoded_len : unused0)), "recover_unused_bytes (F5): TRUE => what was appended is the whole unused-bytes string (plain) resp. its whole decoding (encoded)");
  POST (IMP (!ret, G5.appends == 0 && G5.deletes == 0 && G5.buf_len == buf0 && G5.unused_len == unused0), "recover_unused_bytes (F5): FALSE => neither appended nor deleted: loader buffer and unused bytes untouched");
  POST (G5.gets <= 1 && G5.get_unused <= 1, "recover_unused_bytes: loader buffer and unused bytes obtained at most once");
  POST (!G5.pt_live && G5.inits == G5.frees, "recover_unused_bytes: the temporary plaintext string is freed on every path");
#if VERIF_STRICT
  POST (!G5.outstanding && G5.gets == G5.returns, "recover_unused_bytes: the loader buffer is handed back on every path");
#else
  POST (IMP (!(G5.dec && G5.move_failed), !G5.outstanding && G5.gets == G5.returns), "recover_unused_bytes: the loader buffer is handed back (all paths but: encoded branch, move out of memory — finder C11.F5.recover_strict)");
#endif
  POST (T.unused_bytes_recovered == 0, "recover_unused_bytes: the recovered flag is the caller's business (C08.dispatch_status)");
  if (ret && !G5.dec && unused0 > 0) REACH ("plain-moved"); if (ret && G5.dec) REACH ("decoded-moved"); if (!ret && !G5.dec) REACH ("plain-oom"); if (!ret && G5.dec && G5.move_failed) REACH ("encoded-move-oom");
  if (!ret && G5.dec && G5.inits == 0) REACH ("encoded-init-oom");
}
