/* C13: the accept gate and the per-connection transport limits of bus/bus.c.
 *   VERIF_OP 1  bus_context_check_all_watches        (B: <= 3 listening servers, loop unwound)
 *            2  bus_context_add_incoming_connection  (P, loop-free, T)
 * Oracle: dbus-daemon(1) <limit> "max_incomplete_connections" (no further connection is accepted while that many
 * are unauthenticated), "max_message_size", "max_incoming_bytes", "max_message_unix_fds", "max_incoming_unix_fds". */
#include <config.h>
#include "dbus/dbus-internals.h"
#include VERIF_TU
#include "c04_common.h"

static char c_conns, c_conn, srv[3]; static DBusList sl[3];
#define CONNS ((BusConnections *) &c_conns)
#define CONN  ((DBusConnection *) &c_conn)
int in_n_incomplete, in_k; _Bool in_setup_ok;
struct { int toggles[3]; _Bool toggle_val[3]; int bad_toggle, setup, close, max_recv, max_msg, max_recv_fds, max_msg_fds, anon; long v_recv, v_msg, v_recv_fds, v_msg_fds; dbus_bool_t v_anon; } G;

int bus_connections_get_n_incomplete (BusConnections *c) { PRE (c == CONNS, "bus_connections_get_n_incomplete"); return in_n_incomplete; }
DBusList *_dbus_list_get_first_link (DBusList **list) { return *list; }
void _dbus_server_toggle_all_watches (DBusServer *s, dbus_bool_t enabled)
{ int i, hit = 0; for (i = 0; i < 3; i++) if (s == (DBusServer *) &srv[i] && i < in_k) { G.toggles[i]++; G.toggle_val[i] = enabled != 0; hit = 1; } if (!hit) G.bad_toggle++; }
dbus_bool_t bus_connections_setup_connection (BusConnections *c, DBusConnection *n) { PRE (c == CONNS && n == CONN, "bus_connections_setup_connection"); G.setup++; return in_setup_ok; }
void dbus_connection_close (DBusConnection *c) { PRE (c == CONN, "dbus_connection_close"); G.close++; }
void dbus_connection_set_max_received_size (DBusConnection *c, long v) { PRE (c == CONN && G.setup == 1 && in_setup_ok, "dbus_connection_set_max_received_size"); G.max_recv++; G.v_recv = v; }
void dbus_connection_set_max_message_size (DBusConnection *c, long v) { PRE (c == CONN && G.setup == 1 && in_setup_ok, "dbus_connection_set_max_message_size"); G.max_msg++; G.v_msg = v; }
void dbus_connection_set_max_received_unix_fds (DBusConnection *c, long v) { PRE (c == CONN && G.setup == 1 && in_setup_ok, "dbus_connection_set_max_received_unix_fds"); G.max_recv_fds++; G.v_recv_fds = v; }
void dbus_connection_set_max_message_unix_fds (DBusConnection *c, long v) { PRE (c == CONN && G.setup == 1 && in_setup_ok, "dbus_connection_set_max_message_unix_fds"); G.max_msg_fds++; G.v_msg_fds = v; }
void dbus_connection_set_allow_anonymous (DBusConnection *c, dbus_bool_t v) { PRE (c == CONN, "dbus_connection_set_allow_anonymous"); G.anon++; G.v_anon = v; }

void harness (void)
{
  static BusContext ctx; int i;
  ctx.connections = CONNS; ctx.servers = NULL;
  ctx.limits.max_incomplete_connections = nondet_int (); ctx.limits.max_incoming_bytes = nondet_long (); ctx.limits.max_message_size = nondet_long ();
  ctx.limits.max_incoming_unix_fds = nondet_long (); ctx.limits.max_message_unix_fds = nondet_long (); ctx.allow_anonymous = nondet_bool ();
  in_n_incomplete = nondet_int (); in_k = nondet_int (); in_setup_ok = nondet_bool ();
  __CPROVER_assume (in_n_incomplete >= 0 && in_k >= 0 && in_k <= 3);
#if VERIF_OP == 1
  for (i = 0; i < 3; i++) if (i < in_k) { sl[i].data = &srv[i]; sl[i].next = &sl[(i + 1) % in_k]; sl[i].prev = &sl[(i + in_k - 1) % in_k]; }
  if (in_k > 0) ctx.servers = &sl[0];
  dbus_bool_t was = nondet_bool (); ctx.watches_enabled = was;       /* the code keeps it to TRUE / FALSE */
  bus_context_check_all_watches (&ctx);
  dbus_bool_t want = in_n_incomplete < ctx.limits.max_incomplete_connections;
  POST (ctx.watches_enabled == want, "gate.post1 accepting iff n_incomplete < max_incomplete_connections");
  POST (G.bad_toggle == 0, "gate.post2 only this context's servers are toggled");
  for (i = 0; i < 3; i++) if (i < in_k)
    POST (G.toggles[i] == (was != want ? 1 : 0) && IMP (G.toggles[i] == 1, G.toggle_val[i] == want), "gate.post3 on a change every listening server is toggled once to the new state, otherwise none");
  if (want && !was) REACH ("re-enabled"); if (!want && was) REACH ("paused"); if (want == was) REACH ("unchanged"); if (in_k == 3 && want != was) REACH ("three-servers");
#else
  dbus_bool_t ret = bus_context_add_incoming_connection (&ctx, CONN);
  POST (G.setup == 1 && ret == (in_setup_ok != 0), "inc.post1 connection registered once; result = registration result");
  POST (IMP (ret, G.max_msg == 1 && G.v_msg == ctx.limits.max_message_size), "inc.post2 max_message_size pushed into the new connection (once, configured value)");
  POST (IMP (ret, G.max_recv == 1 && G.v_recv == ctx.limits.max_incoming_bytes && G.max_recv_fds == 1 && G.v_recv_fds == ctx.limits.max_incoming_unix_fds
             && G.max_msg_fds == 1 && G.v_msg_fds == ctx.limits.max_message_unix_fds), "inc.post3 max_incoming_bytes / max_incoming_unix_fds / max_message_unix_fds pushed likewise");
  POST (IMP (ret, G.close == 0) && IMP (!ret, G.close == 1 && G.max_msg == 0 && G.max_recv == 0 && G.max_recv_fds == 0 && G.max_msg_fds == 0), "inc.post4 a connection that could not be registered is closed and gets no limits");
  if (ret) REACH ("accepted"); else REACH ("rejected");
#endif
}
