/* C15: the file-descriptor step of load_message (dbus/dbus-message.c, static).  P-stub route: the
 * real function on the pristine TU; header loader / body validator / list / string callees are
 * contracts written as stubs with arbitrary verdicts.  Only the fd clauses are stated here (the
 * framing clauses of the same function are lemma F2 of C11, tool/units/c11.py).
 *
 * Oracle: D-Bus specification, "Header Fields" table, UNIX_FDS: "The number of Unix file descriptors
 * that accompany the message. If omitted, it is assumed that no Unix file descriptors accompany the
 * message. The actual file descriptors need to be transferred via platform specific mechanism
 * out-of-band. They must be sent at the same time as part of the message itself."  Property C15:
 * "arrive ... in the same order and in the number announced in the header"; "every descriptor ...
 * closed exactly once" (so a descriptor is never owned by loader and message at once, never lost). */
#include <config.h>
#include "dbus/dbus-internals.h"
#include "verif_prelude.h"
#include <string.h>
#include <stdlib.h>
#include VERIF_TU
#include "../stubs/c15_msg_stubs.c"
long verif_gk;   /* ghost index: never assigned */
/* ---- callee contracts ---- */
/* minimal length model of the three strings involved, only to discharge the function's own framing
 * assertions (the framing contract itself is C11 lemma F2, not restated here) */
static const DBusString *s_hdr, *s_body, *s_data; static int len_hdr, len_body, len_data;
int _dbus_string_get_length (const DBusString *s) { PRE(s == s_hdr || s == s_body || s == s_data, "_dbus_string_get_length: a string of this loader/message"); return s == s_hdr ? len_hdr : s == s_body ? len_body : len_data; }
dbus_bool_t _dbus_header_load (DBusHeader *header, DBusValidationMode mode, DBusValidity *validity, int byte_order, int fields_array_len, int header_len, int body_len, const DBusString *str)
{ PRE(mode == DBUS_VALIDATION_MODE_DATA_IS_UNTRUSTED, "_dbus_header_load: untrusted mode");
  if (G.header_ok) { *validity = DBUS_VALID; len_hdr = header_len; return 1; }
  *validity = G.header_oom ? DBUS_VALIDITY_UNKNOWN_OOM_ERROR : G.header_bad_code; return 0; }
dbus_bool_t _dbus_header_get_field_raw (DBusHeader *header, int field, const DBusString **str, int *pos) { if (nondet_bool()) { *str = nondet_ptr(); *pos = nondet_int(); __CPROVER_assume(*pos >= 0 && *pos < 0x7ffffff); return 1; } return 0; }
DBusValidity _dbus_validate_body_with_reason (const DBusString *expected_signature, int expected_signature_start, int byte_order, int *bytes_remaining, const DBusString *value_str, int value_pos, int len)
{ PRE(bytes_remaining == NULL, "_dbus_validate_body_with_reason: whole body"); return G.body_ok ? DBUS_VALID : G.body_bad_code; }
/* contract: the header's UNIX_FDS field, if present, is a UINT32; absent => *value untouched, FALSE */
dbus_bool_t _dbus_header_get_field_basic (DBusHeader *header, int field, int type, void *value)
{ PRE(field == DBUS_HEADER_FIELD_UNIX_FDS && type == DBUS_TYPE_UINT32 && value != NULL, "_dbus_header_get_field_basic(UNIX_FDS, UINT32)");
  if (G.has_fds_field) { *(dbus_uint32_t *)value = G.announced; return 1; } return 0; }
static char list_node;
dbus_bool_t _dbus_list_append (DBusList **list, void *data) { if (nondet_bool()) return 0; G.appended++; *list = (DBusList *)&list_node; return 1; }
/* C11/C05: a complete message joins the END of the loader's queue (the transport pops the first: C11.loader_queue) */
dbus_bool_t _dbus_list_prepend (DBusList **list, void *data) { __CPROVER_assert (0, "order: a loaded message is never put in FRONT of earlier loaded messages"); return 0; }
void _dbus_list_prepend_link (DBusList **list, DBusList *link) { __CPROVER_assert (0, "order: a loaded message is never put in FRONT of earlier loaded messages"); }
DBusList *_dbus_list_find_last (DBusList **list, void *data) { return G.appended > G.removed_last ? (DBusList *)&list_node : NULL; }
dbus_bool_t _dbus_list_remove_last (DBusList **list, void *data) { if (G.appended > G.removed_last) { G.removed_last++; return 1; } return 0; }
dbus_bool_t _dbus_string_copy_len (const DBusString *source, int start, int len, DBusString *dest, int insert_at) { PRE(source == s_data && dest == s_body && insert_at == 0 && start >= 0 && len >= 0 && start + len <= len_data, "_dbus_string_copy_len"); if (nondet_bool()) return 0; G.body_copied++; len_body = len; return 1; }
void _dbus_string_delete (DBusString *str, int start, int len) { PRE(str == s_data && start >= 0 && len >= 0 && start + len <= len_data, "_dbus_string_delete"); G.data_deleted++; len_data -= len; }
dbus_bool_t _dbus_string_compact (DBusString *str, int max_waste) { return nondet_bool(); }
static void change_cb (void *data) { G.change_cb++; }

#ifndef VERIF_CAP
#define VERIF_CAP 1024u      /* capacity of the loader array in the harness: 64 x DBUS_DEFAULT_MESSAGE_UNIX_FDS. The function is loop-free and the movers are contracts, so the bound only keeps CBMC's counterexample traces (--json-ui) small */
#endif
void harness (void)
{
  DBusMessageLoader L; DBusMessage M;
  unsigned cap = nondet_unsigned(), old_n = nondet_unsigned();
  __CPROVER_assume(cap <= VERIF_CAP && old_n <= cap);
  /* loader fd state: representation invariant LOADER_FD_INV = n_unix_fds <= n_unix_fds_allocated, array of that capacity (NULL iff 0) */
  L.unix_fds = cap ? malloc(cap * sizeof(int)) : NULL; __CPROVER_assume(cap == 0 || L.unix_fds != NULL);
  L.n_unix_fds_allocated = cap; L.n_unix_fds = old_n; L.unix_fds_outstanding = 0;
  L.corrupted = 0; L.corruption_reason = DBUS_VALID; L.messages = NULL;
  L.unix_fds_change = nondet_bool() ? change_cb : NULL; L.unix_fds_change_data = NULL;
  /* message as dbus_message_new_empty_header leaves it: no fds; array NULL or a recycled allocation */
  unsigned old_alloc = nondet_unsigned(); __CPROVER_assume(old_alloc <= 4);
  M.unix_fds = old_alloc ? malloc(old_alloc * sizeof(int)) : NULL; M.n_unix_fds = 0; M.n_unix_fds_allocated = 0;
  int *old_msg_array = M.unix_fds;
  /* ghost inputs */
  G.header_ok = nondet_bool(); G.header_oom = nondet_bool(); G.body_ok = nondet_bool(); G.has_fds_field = nondet_bool(); G.announced = nondet_unsigned();
  G.header_bad_code = nondet_int(); G.body_bad_code = nondet_int();
  __CPROVER_assume(G.header_bad_code != DBUS_VALID && G.header_bad_code != DBUS_VALIDITY_UNKNOWN_OOM_ERROR && G.body_bad_code != DBUS_VALID);
  G.appended = G.removed_last = G.change_cb = G.body_copied = G.data_deleted = G.frees = 0;
  unsigned n = G.has_fds_field ? G.announced : 0;      /* spec: "If omitted, it is assumed that no Unix file descriptors accompany the message" */
  /* ghost index: remember the descriptors at two arbitrary positions */
  long k = verif_gk;
  int *old_array = L.unix_fds;
  int old_at_k = (k >= 0 && k < (long)old_n) ? L.unix_fds[k] : 0;                 /* old loader[k] */
  int old_at_nk = (k >= 0 && (unsigned long)k + n < old_n) ? L.unix_fds[k + n] : 0;     /* old loader[n+k] */

  /* framing precondition of load_message (established by _dbus_header_have_message_untrusted, C01.1) */
  int header_len = nondet_int(), body_len = nondet_int();
  s_hdr = &M.header.data; s_body = &M.body; s_data = &L.data; len_hdr = 0; len_body = 0; len_data = nondet_int();
  __CPROVER_assume(header_len >= 16 && body_len >= 0 && header_len <= 0x8000000 && body_len <= 0x8000000 && header_len + body_len <= len_data);

  dbus_bool_t ret = load_message (&L, &M, nondet_int(), nondet_int(), header_len, body_len);

  _Bool reached_fd_step = G.header_ok && G.body_ok;
  /* A: more announced than received => corrupt, MISSING_UNIX_FDS, nothing moved */
  if (reached_fd_step && n > old_n)
    {
      __CPROVER_assert(!ret && L.corrupted && L.corruption_reason == DBUS_INVALID_MISSING_UNIX_FDS, "postA1 announced > available => corrupted with DBUS_INVALID_MISSING_UNIX_FDS");
      __CPROVER_assert(L.n_unix_fds == old_n && M.n_unix_fds == 0 && IMP(k >= 0 && k < (long)old_n, L.unix_fds[k] == old_at_k), "postA2 missing fds => loader descriptors untouched, none attached");
      REACH("missing-fds");
    }
  /* B: success => exactly the announced number moved, in order, rest shifted in order */
  if (ret)
    {
      __CPROVER_assert(reached_fd_step && n <= old_n, "postB0 a message is produced only from a valid header and body with enough descriptors");
      __CPROVER_assert(M.n_unix_fds == n, "postB1 message carries exactly the announced number of descriptors");
      __CPROVER_assert(L.n_unix_fds == old_n - n, "postB2 loader gives up exactly the announced number");
      __CPROVER_assert(IMP(k >= 0 && k < (long)n, M.unix_fds[k] == old_at_k), "postB3 the first n descriptors are attached in order (ghost index)");
      __CPROVER_assert(IMP(k >= 0 && (unsigned long)k < old_n - n, L.unix_fds[k] == old_at_nk), "postB4 the remaining descriptors stay in the loader in order (ghost index)");
      __CPROVER_assert(IMP(n == 0, M.unix_fds == NULL) && IMP(n > 0, M.n_unix_fds_allocated == n && M.unix_fds != old_array), "postB5 message owns its own array of n entries (NULL when none)");
      __CPROVER_assert(!L.corrupted, "postB6 success never marks the loader corrupted");
      __CPROVER_assert(G.change_cb == ((n > 0 && L.unix_fds_change) ? 1 : 0), "postB7 pending-fd change notification exactly when descriptors left the loader");
      if (n == 0) REACH("ok-no-fds"); else if (n == old_n) REACH("ok-all-fds"); else REACH("ok-some-fds");
      if (n >= 3 && old_n - n >= 2) REACH("ok-3-of-5");
    }
  /* D: conservation on every return: no descriptor lost or duplicated */
  __CPROVER_assert(M.n_unix_fds <= old_n && L.n_unix_fds == old_n - M.n_unix_fds, "postD1 conservation: loader count + message count == descriptors received");
  __CPROVER_assert(IMP(k >= 0 && k < (long)M.n_unix_fds, M.unix_fds[k] == old_at_k), "postD2 conservation: attached descriptors are the first ones received, in order");
  __CPROVER_assert(M.n_unix_fds == 0 || M.n_unix_fds == n, "postD3 all or nothing is attached");
  __CPROVER_assert(IMP(old_msg_array != NULL && reached_fd_step && n <= old_n, G.frees >= 1 && G.freed[0] == old_msg_array), "postD4 a recycled array is released, not leaked");
#ifdef VERIF_ATOMIC
  /* C: failure => loader descriptors unchanged (count and content) */
  if (!ret)
    {
      __CPROVER_assert(L.n_unix_fds == old_n, "postC1 failure leaves the loader's descriptor count unchanged");
      __CPROVER_assert(IMP(k >= 0 && k < (long)old_n, L.unix_fds[k] == old_at_k), "postC2 failure leaves the loader's descriptors unchanged (ghost index)");
      __CPROVER_assert(M.n_unix_fds == 0, "postC3 failure attaches nothing to the discarded message");
    }
#endif
  /* E: C14 / C01 / C11: corruption is declared only for bytes that are invalid; a validator that merely ran out of memory
   * (DBUS_VALIDITY_UNKNOWN_OOM_ERROR, header or body) is an out-of-memory return, after which the retry can succeed */
  __CPROVER_assert(IMP((!G.header_ok && G.header_oom) || (G.header_ok && !G.body_ok && G.body_bad_code == DBUS_VALIDITY_UNKNOWN_OOM_ERROR), !ret && !L.corrupted),
                   "load.oom2 a validator that ran out of memory (header or body) is reported as out-of-memory, never as a corrupt stream");
  __CPROVER_assert(IMP(L.corrupted, L.corruption_reason != DBUS_VALID && L.corruption_reason != DBUS_VALIDITY_UNKNOWN_OOM_ERROR), "load.oom3 a corruption reason is a real invalidity code");
  if (G.header_ok && !G.body_ok && G.body_bad_code == DBUS_VALIDITY_UNKNOWN_OOM_ERROR) REACH("body-validator-oom");
  if (!ret && L.corrupted) REACH("corrupt"); 
  if (!ret && !L.corrupted) REACH("oom");
  /* an out-of-memory failure after the fd array was allocated (the descriptors must still be with the loader: fix in load_message, postC) */
  if (!ret && !L.corrupted && M.unix_fds != NULL) REACH("oom-after-fd-array-allocated");
}
