/* Ghost state of the C01.p.body unit (harness/c01p_body.c, stubs/c01p_stubs.c, contracts/c01p_body.ovl).
 *
 * Abstract state of a types-only DBusTypeReader, as far as validate_body_helper can observe it through the reader API:
 *   cur  = the type code _dbus_type_reader_get_current_type returns (one of the 16 type codes of the specification,
 *          containers as DBUS_TYPE_STRUCT / DBUS_TYPE_DICT_ENTRY, or DBUS_TYPE_INVALID at the end of the block/container)
 *   elem = what _dbus_type_reader_get_element_type returns while cur == DBUS_TYPE_ARRAY (arbitrary int otherwise)
 * Two readers exist in one activation of validate_body_helper: the parameter (`verif_reader`, slot _r) and the one
 * block-local `sub` reader alive at a time (slot _s).  validate_body_helper never reads a DBusTypeReader field itself. */
#ifndef C01P_GHOST_H
#define C01P_GHOST_H
#include "dbus/dbus-protocol.h"
#include "dbus/dbus-marshal-recursive.h"
extern DBusTypeReader *verif_reader;
extern int verif_cur_r, verif_elem_r, verif_cur_s, verif_elem_s;
extern int verif_depth0, verif_bo0;           /* total_depth and byte_order of the activation under contract */
extern long verif_p0_off, verif_end_off;      /* offsets of p and end at entry */
extern const unsigned char *verif_base;       /* the buffer object */
extern int verif_site2, verif_site3, verif_site4;   /* which recursive call sites were taken (vacuity guard only) */
/* the one constant DBusString alive at a time (block-local `str` / `sig`): identity, data pointer, length.
 * (Ghost record instead of the DBusRealString fields: DFCC does not track address-taken block locals of a loop that
 * also contains contract loops, so a callee writing through &str fails its frame check spuriously -- measured.) */
extern const DBusString *verif_cs; extern const unsigned char *verif_cs_ptr; extern int verif_cs_len;
/* set by injected ghost statements when a byte-read site of validate_body_helper reads at or after `end` */
extern int verif_overread;
#define VERIF_IS_TYPE(t) ((t)==DBUS_TYPE_BYTE||(t)==DBUS_TYPE_BOOLEAN||(t)==DBUS_TYPE_INT16||(t)==DBUS_TYPE_UINT16||(t)==DBUS_TYPE_INT32|| \
  (t)==DBUS_TYPE_UINT32||(t)==DBUS_TYPE_INT64||(t)==DBUS_TYPE_UINT64||(t)==DBUS_TYPE_DOUBLE||(t)==DBUS_TYPE_STRING||(t)==DBUS_TYPE_OBJECT_PATH|| \
  (t)==DBUS_TYPE_SIGNATURE||(t)==DBUS_TYPE_UNIX_FD||(t)==DBUS_TYPE_ARRAY||(t)==DBUS_TYPE_VARIANT||(t)==DBUS_TYPE_STRUCT||(t)==DBUS_TYPE_DICT_ENTRY)
#ifdef VERIF_TYPE_SUBSET     /* development only: restrict the reader's type codes to debug contracts cheaply */
#define VERIF_CUR_OK(t) ((t)==DBUS_TYPE_INVALID || (VERIF_IS_TYPE(t) && VERIF_TYPE_SUBSET(t)))
#else
#define VERIF_CUR_OK(t) ((t)==DBUS_TYPE_INVALID || VERIF_IS_TYPE(t))
#endif
#endif
