/* Ghost state of the C01.p.body unit (harness/c01p_body.c, stubs/c01p_stubs.c, contracts/c01p_body.ovl).
 *
 * Abstract state of a types-only DBusTypeReader, as far as validate_body_helper can observe it through the reader API:
 *   cur  = the type code _dbus_type_reader_get_current_type returns (one of the 16 type codes of the specification,
 *          containers as DBUS_TYPE_STRUCT / DBUS_TYPE_DICT_ENTRY, or DBUS_TYPE_INVALID at the end of the block/container)
 *   elem = what _dbus_type_reader_get_element_type returns while cur == DBUS_TYPE_ARRAY (arbitrary int otherwise)
 * Two readers exist in one activation of validate_body_helper: the parameter (`verif_reader`, slot _r) and the one
 * block-local `sub` reader alive at a time (slot _s).  validate_body_helper never reads a DBusTypeReader field itself. */
#ifndef C01P_GHOST_H
#define C01P_GHOST_H
#include "dbus/dbus-protocol.h"
#include "dbus/dbus-marshal-recursive.h"
/* constants of the activation under contract (set once by the harness, never assigned afterwards) */
struct verif_k_s { DBusTypeReader *reader;        /* identity of the parameter reader */
                   int depth0, bo0;               /* total_depth and byte_order of the activation */
                   long p0_off, end_off;          /* offsets of p and end at entry */
                   const unsigned char *base; };  /* the buffer object */
/* mutable ghost state (one assigns target for the loop contracts) */
struct verif_g_s { int cur_r, elem_r, cur_s, elem_s;
                   int site2, site3, site4;       /* which recursive call sites were taken (vacuity guard only) */
                   /* the one constant DBusString alive at a time (block-local `str` / `sig`): identity, data pointer, length.
                    * (Ghost record instead of the DBusRealString fields: DFCC does not track address-taken block locals of a
                    * loop that also contains contract loops, so a callee writing through &str fails its frame check
                    * spuriously -- measured.) */
                   const DBusString *cs; const unsigned char *cs_ptr; int cs_len; };
extern struct verif_k_s verif_k; extern struct verif_g_s verif_g;
#define verif_reader verif_k.reader
#define verif_depth0 verif_k.depth0
#define verif_bo0 verif_k.bo0
#define verif_p0_off verif_k.p0_off
#define verif_end_off verif_k.end_off
#define verif_base verif_k.base
#define verif_cur_r verif_g.cur_r
#define verif_elem_r verif_g.elem_r
#define verif_cur_s verif_g.cur_s
#define verif_elem_s verif_g.elem_s
#define verif_site2 verif_g.site2
#define verif_site3 verif_g.site3
#define verif_site4 verif_g.site4
#define verif_cs verif_g.cs
#define verif_cs_ptr verif_g.cs_ptr
#define verif_cs_len verif_g.cs_len
/* set by injected ghost statements when a byte-read site of validate_body_helper reads at or after `end` */
extern int verif_overread;
#define VERIF_IS_TYPE(t) ((t)==DBUS_TYPE_BYTE||(t)==DBUS_TYPE_BOOLEAN||(t)==DBUS_TYPE_INT16||(t)==DBUS_TYPE_UINT16||(t)==DBUS_TYPE_INT32|| \
  (t)==DBUS_TYPE_UINT32||(t)==DBUS_TYPE_INT64||(t)==DBUS_TYPE_UINT64||(t)==DBUS_TYPE_DOUBLE||(t)==DBUS_TYPE_STRING||(t)==DBUS_TYPE_OBJECT_PATH|| \
  (t)==DBUS_TYPE_SIGNATURE||(t)==DBUS_TYPE_UNIX_FD||(t)==DBUS_TYPE_ARRAY||(t)==DBUS_TYPE_VARIANT||(t)==DBUS_TYPE_STRUCT||(t)==DBUS_TYPE_DICT_ENTRY)
/* Case split of the proof over the type code that the loop head of validate_body_helper sees (one unit per class, see
 * tool/units/c01p.py): the stub of _dbus_type_reader_get_current_type assumes VERIF_CASE(code) for the reader under contract.
 * An execution of the loop-contract-transformed function evaluates that call at most once (base case: none; arbitrary
 * iteration / exit: once), so the units together cover every execution iff the classes cover all type codes: obligation
 * "cases.cover" in every unit. */
#define VERIF_CLASS_FIXED(t) ((t)==DBUS_TYPE_BYTE||(t)==DBUS_TYPE_BOOLEAN||(t)==DBUS_TYPE_INT16||(t)==DBUS_TYPE_UINT16||(t)==DBUS_TYPE_INT32|| \
  (t)==DBUS_TYPE_UINT32||(t)==DBUS_TYPE_INT64||(t)==DBUS_TYPE_UINT64||(t)==DBUS_TYPE_DOUBLE||(t)==DBUS_TYPE_UNIX_FD)
#define VERIF_CLASS_STRING(t) ((t)==DBUS_TYPE_STRING||(t)==DBUS_TYPE_OBJECT_PATH||(t)==DBUS_TYPE_SIGNATURE)
#define VERIF_CLASS_ARRAY(t) ((t)==DBUS_TYPE_ARRAY)
#define VERIF_CLASS_VARIANT(t) ((t)==DBUS_TYPE_VARIANT)
#define VERIF_CLASS_STRUCT(t) ((t)==DBUS_TYPE_STRUCT||(t)==DBUS_TYPE_DICT_ENTRY)
#define VERIF_CLASSES_COVER(t) ((t)==DBUS_TYPE_INVALID||VERIF_CLASS_FIXED(t)||VERIF_CLASS_STRING(t)||VERIF_CLASS_ARRAY(t)||VERIF_CLASS_VARIANT(t)||VERIF_CLASS_STRUCT(t))
#ifdef VERIF_TYPE_SUBSET     /* development only: restrict the reader's type codes to debug contracts cheaply */
#define VERIF_CUR_OK(t) ((t)==DBUS_TYPE_INVALID || (VERIF_IS_TYPE(t) && VERIF_TYPE_SUBSET(t)))
#else
#define VERIF_CUR_OK(t) ((t)==DBUS_TYPE_INVALID || VERIF_IS_TYPE(t))
#endif
#endif
