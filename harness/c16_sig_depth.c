/* C16/C01 (P, hybrid: loop contract + list stub): the limit arithmetic of _dbus_validate_signature_with_reason
 * for signatures of ANY length (the parts the bounded equivalence units cannot reach):
 *   - at every iteration at most 32 structs, 32 dict entries and 32 consecutive arrays are open
 *     (specification: "The maximum depth of container type nesting is 32 array type codes and 32 open parentheses"),
 *   - the open-bracket stack index equals struct_depth + dict_entry_depth (never overruns its 65 slots),
 *   - the element-count stack holds 1 + struct_depth + dict_entry_depth entries (pop never sees it empty),
 *   - VALID => length <= 255 and every byte is a type code of the specification's alphabet,
 *   - the loop terminates.
 * The element counts themselves are abstracted (pop returns an arbitrary count): acceptance is NOT decided here. */
#include <config.h>
#include "dbus/dbus-internals.h"
#include "verif_prelude.h"
#include "verif_ghost.h"
#include "dbus/dbus-string.h"
#define DBUS_CAN_USE_DBUS_STRING_PRIVATE 1
#include "dbus/dbus-string-private.h"
#include "dbus/dbus-list.h"
#define VERIF_IS_TYPECODE(c) ((c)=='y'||(c)=='b'||(c)=='n'||(c)=='q'||(c)=='i'||(c)=='u'||(c)=='x'||(c)=='t'||(c)=='d'||(c)=='s'||(c)=='o'||(c)=='g'||(c)=='h'||(c)=='v'||(c)=='a'||(c)=='('||(c)==')'||(c)=='{'||(c)=='}')
extern int verif_sp;
#include VERIF_TU
long verif_gk, verif_gk2, verif_w, verif_w2; int verif_flag; int verif_sp;
_Bool nondet_bool (void); int nondet_int (void); long nondet_long (void);
static DBusList verif_link;
dbus_bool_t verif_stub_list_append (DBusList **list, void *data) { if (nondet_bool ()) return 0; verif_sp++; *list = &verif_link; return 1; }
void *verif_stub_list_pop_last (DBusList **list)
{ __CPROVER_assert (verif_sp > 0, "precondition of _dbus_list_pop_last here: the element-count stack is not empty");
  verif_sp--; if (verif_sp == 0) *list = NULL;
  /* abstraction of the counts: a count is 0 or a popped count + 1, once per processed byte, and at most 255 bytes are processed */
  { long v = nondet_long (); __CPROVER_assume (v >= 0 && v <= DBUS_MAXIMUM_SIGNATURE_LENGTH); return (void *) v; } }
void verif_stub_list_clear (DBusList **list) { verif_sp = 0; *list = NULL; }
#define REAL(s) ((const DBusRealString *)(s))
void harness (void)
{
  DBusRealString rs; int len = nondet_int (); int start = nondet_int (); int slen = nondet_int (); DBusValidity r;
  __CPROVER_assume (slen >= 0 && slen <= _DBUS_STRING_MAX_LENGTH && start >= 0 && len >= 0 && start <= slen && len <= slen - start);
  unsigned char *buf = __CPROVER_allocate (slen + 1, 0);
  rs.str = buf; rs.len = slen; rs.allocated = slen + 8; rs.constant = 1; rs.locked = 1; rs.valid = 1; rs.align_offset = 0;
  verif_sp = 0;
  r = _dbus_validate_signature_with_reason ((DBusString *) &rs, start, len);
  __CPROVER_assert (r != DBUS_VALID || len <= DBUS_MAXIMUM_SIGNATURE_LENGTH, "sig.len VALID => at most 255 bytes");
  __CPROVER_assert (r != DBUS_VALID || G_AT (verif_gk, len, VERIF_IS_TYPECODE (buf[start + verif_gk])), "sig.alphabet VALID => every byte is a type code");
  __CPROVER_assert (verif_sp == 0, "sig.stack element-count stack released on every path");
  if (r == DBUS_VALID && len > 40) __CPROVER_assert (0, "REACH:valid-long");
  if (r == DBUS_INVALID_EXCEEDED_MAXIMUM_DICT_ENTRY_RECURSION) __CPROVER_assert (0, "REACH:dict-depth-limit");
  if (r == DBUS_INVALID_EXCEEDED_MAXIMUM_STRUCT_RECURSION) __CPROVER_assert (0, "REACH:struct-depth-limit");
  if (r == DBUS_VALIDITY_UNKNOWN_OOM_ERROR) __CPROVER_assert (0, "REACH:oom");
}
