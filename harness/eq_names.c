/* W / finder unit: a real scanner against the reference recogniser on a fully symbolic buffer
 * of at most VERIF_N bytes.  -DVERIF_FN=<n> selects the function. Inputs are written through
 * explicit assignments so that they show up in the counterexample trace (replay). */
#include "verif_str.h"
#include "dbus/dbus-marshal-validate.h"
#include "grammar_ref.h"
long verif_gk, verif_gk2, verif_w, verif_w2; int verif_flag;
#ifndef VERIF_N
#define VERIF_N 12
#endif
unsigned char in_buf[VERIF_N + 8];
int in_len;
unsigned char nondet_uchar (void); int nondet_int (void);
void harness (void)
{
  DBusRealString rs; int i; dbus_bool_t got; int want;
  in_len = nondet_int ();
  __CPROVER_assume (in_len >= 0 && in_len <= VERIF_N);
  for (i = 0; i < VERIF_N; i++) in_buf[i] = nondet_uchar ();
  in_buf[in_len] = 0;
  rs.str = in_buf; rs.len = in_len; rs.allocated = VERIF_N + 8; rs.constant = 1; rs.locked = 1; rs.valid = 1; rs.align_offset = 0;
#if VERIF_FN == 1
  got = _dbus_validate_member ((DBusString *) &rs, 0, in_len); want = ref_member (in_buf, in_len);
#elif VERIF_FN == 2
  got = _dbus_validate_interface ((DBusString *) &rs, 0, in_len); want = ref_interface (in_buf, in_len);
#elif VERIF_FN == 3
  got = _dbus_validate_error_name ((DBusString *) &rs, 0, in_len); want = ref_interface (in_buf, in_len);
#elif VERIF_FN == 4
  got = _dbus_validate_bus_name ((DBusString *) &rs, 0, in_len); want = ref_bus_name_full (in_buf, in_len, 0);
#elif VERIF_FN == 5
  got = _dbus_validate_bus_namespace ((DBusString *) &rs, 0, in_len); want = ref_bus_name_full (in_buf, in_len, 1);
#elif VERIF_FN == 6
  got = _dbus_validate_path ((DBusString *) &rs, 0, in_len); want = ref_path (in_buf, in_len);
#elif VERIF_FN == 7
  got = _dbus_string_validate_utf8 ((DBusString *) &rs, 0, in_len); want = ref_utf8 (in_buf, in_len);
#endif
  __CPROVER_assert ((got != 0) == (want != 0), "real scanner agrees with the reference recogniser");
  if (got) REACH("accept"); else REACH("reject");
}
