/* C04 (B, <= 3 registered names): bus_registry_list_services (bus/services.c), the source of ListNames.
 * Property C04 "... ListNames ... always agree with that state".  Contract: TRUE => *listp is a NULL-terminated array of
 * exactly the registered names (one copy of each service's name, none missing, none twice), *array_len their number;
 * FALSE (allocation failed) => every copy already made is freed, the array is freed, nothing is returned; the registry
 * is not modified.  The hash table is a ghost table of <= 3 services iterated in slot order. */
#include <config.h>
#include "dbus/dbus-internals.h"
#include VERIF_TU
#include "c04_common.h"
#define NT 3
static char o_hash; static BusRegistry R; static BusService svc[NT]; static char nm0[] = "a.a", nm1[] = "b.b", nm2[] = "c.c"; static char *const nm[NT] = { nm0, nm1, nm2 };
static struct { _Bool present[NT]; int it, dups, dup_of[NT + 1], frees, arr_frees, arr_allocs, freed_dup[NT + 1]; char *dup_ptr[NT + 1]; char **arr; } G;
static char copies[NT][4];
int _dbus_hash_table_get_n_entries (DBusHashTable *t) { int i, n = 0; PRE (t == (DBusHashTable *) &o_hash, "_dbus_hash_table_get_n_entries: the service table"); for (i = 0; i < NT; i++) n += G.present[i]; return n; }
void _dbus_hash_iter_init (DBusHashTable *t, DBusHashIter *iter) { PRE (t == (DBusHashTable *) &o_hash, "_dbus_hash_iter_init: the service table"); G.it = -1; }
dbus_bool_t _dbus_hash_iter_next (DBusHashIter *iter) { int i; for (i = 0; i < NT; i++) if (i > G.it && G.present[i]) { G.it = i; return 1; } G.it = NT; return 0; }
void *_dbus_hash_iter_get_value (DBusHashIter *iter) { PRE (G.it >= 0 && G.it < NT, "_dbus_hash_iter_get_value: positioned"); __CPROVER_assume (G.it >= 0 && G.it < NT); return &svc[G.it]; }
void *dbus_malloc (size_t n) { int k = _dbus_hash_table_get_n_entries ((DBusHashTable *) &o_hash); PRE (n == (size_t) (k + 1) * sizeof (char *), "dbus_malloc: room for every registered name and the terminator"); if (nondet_bool ()) return NULL; G.arr_allocs++; G.arr = malloc (n); __CPROVER_assume (G.arr != NULL); return G.arr; }
char *_dbus_strdup (const char *s) { int i, k = -1; for (i = 0; i < NT; i++) if (s == nm[i]) k = i; PRE (k >= 0 && G.dups < NT, "_dbus_strdup: the name of a registered service"); __CPROVER_assume (k >= 0 && G.dups < NT);
  if (nondet_bool ()) return NULL; G.dup_of[G.dups] = k; G.dup_ptr[G.dups] = copies[G.dups]; return copies[G.dups++]; }
void dbus_free (void *p) { int i; if (p == (void *) G.arr && p != NULL) { G.arr_frees++; return; } for (i = 0; i < NT; i++) if (i < G.dups && p == (void *) G.dup_ptr[i]) { G.freed_dup[i]++; G.frees++; return; } PRE (p == NULL, "dbus_free: a copy made here or the array"); }
void harness (void)
{
  int i, n = 0, len = -7; char **list = NULL; _Bool was[NT];
  R.service_hash = (DBusHashTable *) &o_hash;
  for (i = 0; i < NT; i++) { G.present[i] = nondet_bool (); was[i] = G.present[i]; n += G.present[i]; svc[i].name = nm[i]; svc[i].registry = &R; }
  dbus_bool_t r = bus_registry_list_services (&R, &list, &len);
  if (r)
    {
      int seen[NT] = { 0, 0, 0 };
      POST (len == n && list == G.arr && G.dups == n, "rl.post1 TRUE: one copy per registered name, *array_len their number");
      for (i = 0; i < NT; i++) if (i < n) { POST (list[i] == G.dup_ptr[i], "rl.post2 entry i is the i-th copy"); __CPROVER_assume (G.dup_of[i] >= 0 && G.dup_of[i] < NT); seen[G.dup_of[i]]++; }
      POST (list[n] == NULL, "rl.post3 NULL-terminated right after the last name");
      for (i = 0; i < NT; i++) POST (seen[i] == (was[i] ? 1 : 0), "rl.post4 every registered name appears exactly once, no other name appears");
      POST (G.frees == 0 && G.arr_frees == 0, "rl.post5 nothing freed on success");
      if (n == 3) REACH ("three-names"); if (n == 0) REACH ("empty-registry");
    }
  else
    {
      POST (G.frees == G.dups && G.arr_frees == G.arr_allocs, "rl.post6 FALSE: every copy already made and the array are freed");
      for (i = 0; i < NT; i++) POST (IMP (i < G.dups, G.freed_dup[i] == 1), "rl.post7 each copy freed exactly once");
      POST (list == NULL && len == -7, "rl.post8 FALSE: nothing returned");
      if (G.dups == 2) REACH ("oom-at-third-name"); if (G.arr_allocs == 0) REACH ("oom-array");
    }
  for (i = 0; i < NT; i++) POST (G.present[i] == was[i] && svc[i].name == nm[i], "rl.post9 the registry is not modified");
}
