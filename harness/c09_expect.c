/* C09: bus_connections_expect_reply + its cancel hook cancel_pending_reply (bus/connection.c) on the real expire
 * list (bus/expirelist.c, dbus/dbus-list.c) with <= 3 pending entries; every allocation may fail.
 * Oracle: property C09 ("a call flagged as expecting no reply opens no reply slot"; "calls reusing an outstanding
 * serial"; "the per-connection pending-reply limit"), dbus-daemon(1) <limit name="max_replies_per_connection">
 * ("max number of pending method replies per connection (number of calls-in-progress)"), DESIGN 6 C09. */
#include "c09_common.h"

void harness (void)
{
  DBusError err; err.name = NULL; err.message = NULL;
  build_world (); __CPROVER_assume (no_duplicates ());
  g_no_reply = nondet_bool (); g_serial = nondet_uint (); g_limit = nondet_int ();
  DBusConnection *caller = pick_conn (), *callee = pick_conn ();
  int dup = find_triple (g_serial, caller, callee);
  int count = 0; for (int i = 0; i < 3; i++) if (i < n0 && e_get[i] == caller) count++;

  dbus_bool_t ret = bus_connections_expect_reply (&CS, TXN, caller, callee, MSG, &err);

  BusPendingReply *s[5]; int m = snapshot (s);
  __CPROVER_assert (ret == 0 || ret == 1, "post0 boolean");
  __CPROVER_assert ((ret != 0) == !ERR_SET (&err), "post1 FALSE iff error set");
  if (g_no_reply)
    __CPROVER_assert (ret && list_unchanged () && g_hooks == 0, "post2 NO_REPLY_EXPECTED: TRUE, no slot, list unchanged, no hook");
  else if (dup >= 0)
    __CPROVER_assert (!ret && IS_ACCESS_DENIED (&err) && list_unchanged () && g_hooks == 0, "post3 outstanding (serial, caller, callee) reused: AccessDenied, list unchanged");
  else if (count >= g_limit)
    __CPROVER_assert (!ret && IS_LIMITS_EXCEEDED (&err) && list_unchanged () && g_hooks == 0, "post4 caller already has max_replies_per_connection slots: LimitsExceeded, list unchanged");
  else if (!ret)
    __CPROVER_assert (IS_NO_MEMORY (&err) && list_unchanged () && g_hooks == 0, "post5 otherwise FALSE only for OOM: NoMemory, list unchanged, no hook left behind");
  else
    {
      /* exactly one new entry; all old entries still there, same relative order, untouched */
      int newpos = -1, k = 0, ok = (m == n0 + 1);
      for (int i = 0; i < 4; i++) if (i < m)
        {
          if (k < n0 && s[i] == E[k]) { if (!entry_intact (k)) ok = 0; k++; }
          else if (newpos < 0) newpos = i;
          else ok = 0;
        }
      __CPROVER_assert (ok && k == n0 && newpos >= 0, "post6 success: exactly one entry added, the others unchanged and in order");
      BusPendingReply *nw = s[newpos < 0 ? 0 : newpos];
      __CPROVER_assert (nw->reply_serial == g_serial && nw->will_get_reply == caller && nw->will_send_reply == callee, "post7 the new slot is (serial of the call, caller, callee)");
      __CPROVER_assert (nw->expire_item.added_tv_sec == g_now_sec && nw->expire_item.added_tv_usec == g_now_usec, "post8 the slot's clock starts now");
      __CPROVER_assert (g_timeout_enabled, "post9 the expiry timer is armed");
      __CPROVER_assert (g_hooks == 1 && g_hook_fn == cancel_pending_reply && g_hook_free == cancel_pending_reply_data_free, "post10 one cancel hook registered");
      /* list invariant preserved */
      int still_unique = 1; for (int i = 0; i < 3; i++) if (i < n0 && e_serial[i] == g_serial && e_get[i] == caller && e_send[i] == callee) still_unique = 0;
      __CPROVER_assert (still_unique, "post11 no two slots with the same (serial, caller, callee)");
      int cnt_after = 0; for (int i = 0; i < 4; i++) if (i < m && s[i]->will_get_reply == caller) cnt_after++;
      __CPROVER_assert (cnt_after <= g_limit, "post12 the caller never holds more than max_replies_per_connection slots");
      REACH ("slot-recorded");
      /* transaction cancelled: the hook removes exactly the new slot */
      if (nondet_bool ())
        {
          g_hook_fn (g_hook_data); g_hook_free (g_hook_data);
          __CPROVER_assert (list_unchanged (), "post13 cancelling the transaction removes exactly the new slot");
          REACH ("cancelled");
        }
      else
        {
          g_hook_free (g_hook_data);                      /* transaction executed: hook data freed, slot stays */
          BusPendingReply *s2[5]; int m2 = snapshot (s2);
          __CPROVER_assert (m2 == n0 + 1 && s2[newpos < 0 ? 0 : newpos] == nw, "post14 executing the transaction keeps the slot");
        }
    }
  if (g_no_reply) REACH ("no-reply"); if (!ret && dup >= 0) REACH ("duplicate"); if (!ret && IS_LIMITS_EXCEEDED (&err)) REACH ("limit");
  if (!ret && IS_NO_MEMORY (&err)) REACH ("oom"); if (ret && n0 == 3 && !g_no_reply) REACH ("fourth-entry");
}
