/* C11 lemma F2 (P-stub): the real static load_message() of dbus/dbus-message.c.
 *  success  => exactly header_len + body_len bytes are deleted from the FRONT of loader->data (one delete),
 *              the header was loaded and the body validated on exactly that frame before anything was
 *              queued or consumed, the body was copied out of [header_len, header_len+body_len) before the
 *              delete, one message is appended, corrupted stays FALSE;
 *  failure  => loader->data untouched, message list unchanged (an append is undone), and
 *              (corrupted && reason != VALID)  xor  out-of-memory.
 * Callees are bound to contracts written as stubs over the ghost record G_ld. */
#include <config.h>
#include "dbus/dbus-internals.h"
#include "verif_prelude.h"
#include "verif_ghost.h"
#include VERIF_TU
#include "c11_loader.h"
#ifndef IMP
#define IMP(a, b) (!(a) || (b))
#endif
long verif_gk, verif_gk2, verif_w, verif_w2; int verif_flag;
struct verif_loader_ghost G_ld;
_Bool nondet_bool (void); int nondet_int (void); unsigned nondet_uint (void);
static DBusMessageLoader *the_loader; static DBusMessage *the_message; static int in_hl, in_bl, in_fal, in_bo; static unsigned g_nfds;
#define PRE(c, what) __CPROVER_assert ((c), "precondition of " what)

int verif_stub_string_get_length (const DBusString *s)
{ if (s == &the_loader->data) return G_ld.len; if (s == &the_message->header.data) return G_ld.hlen; if (s == &the_message->body) return G_ld.blen; __CPROVER_assert (0, "length of an unexpected string"); return 0; }
dbus_bool_t verif_stub_header_load (DBusHeader *header, DBusValidationMode mode, DBusValidity *validity, int byte_order, int fields_array_len, int header_len, int body_len, const DBusString *str)
{ PRE (header == &the_message->header && str == &the_loader->data && mode == DBUS_VALIDATION_MODE_DATA_IS_UNTRUSTED, "_dbus_header_load: untrusted mode, this loader's buffer");
  PRE (byte_order == in_bo && fields_array_len == in_fal && header_len == in_hl && body_len == in_bl, "_dbus_header_load: the frame that was measured");
  PRE (G_ld.deletes == 0 && G_ld.appended == 0, "_dbus_header_load: nothing consumed or queued yet");
  G_ld.header_loads++;
  if (nondet_bool ()) { *validity = DBUS_VALID; G_ld.hlen = header_len; return 1; }
  { int v = nondet_int (); __CPROVER_assume (v != DBUS_VALID); *validity = v; return 0; } }
void verif_stub_get_const_signature (DBusHeader *header, const DBusString **type_str_p, int *type_pos_p)
{ static DBusString sigstr; *type_str_p = &sigstr; *type_pos_p = nondet_int (); }
DBusValidity verif_stub_validate_body (const DBusString *expected_signature, int expected_signature_start, int byte_order, int *bytes_remaining, const DBusString *value_str, int value_pos, int len)
{ PRE (value_str == &the_loader->data && value_pos == in_hl && len == in_bl && bytes_remaining == NULL && byte_order == in_bo, "_dbus_validate_body_with_reason: exactly the body of the measured frame, exact length");
  PRE (G_ld.header_loads == 1 && G_ld.appended == 0 && G_ld.deletes == 0 && G_ld.copies == 0, "_dbus_validate_body_with_reason: after the header, before anything is queued");
  G_ld.body_validations++; return nondet_int (); }
dbus_bool_t verif_stub_header_get_field_basic (DBusHeader *header, int field, int type, void *value)
{ if (nondet_bool ()) { *(dbus_uint32_t *) value = g_nfds; return 1; } return 0; }
void verif_stub_dbus_free (void *m) { }
void *verif_stub_memdup (const void *mem, size_t n_bytes) { static int fds_copy[4]; return nondet_bool () ? fds_copy : NULL; }
void *verif_stub_memmove (void *d, const void *s, size_t n) { return d; }
dbus_bool_t verif_stub_list_append (DBusList **list, void *data)
{ static DBusList link; PRE (list == &the_loader->messages && data == the_message, "_dbus_list_append: this message onto this loader");
  PRE (G_ld.body_validations == 1, "_dbus_list_append: only a validated message is queued");
  if (nondet_bool ()) return 0; G_ld.appended++; *list = &link; return 1; }
dbus_bool_t verif_stub_list_remove_last (DBusList **list, void *data)
{ if (G_ld.appended > G_ld.removed && data == the_message) { G_ld.removed++; return 1; } return 0; }
DBusList *verif_stub_list_find_last (DBusList **list, void *data) { static DBusList l; return (G_ld.appended > G_ld.removed) ? &l : NULL; }
dbus_bool_t verif_stub_string_copy_len (const DBusString *source, int start, int len, DBusString *dest, int insert_at)
{ PRE (source == &the_loader->data && start == in_hl && len == in_bl && dest == &the_message->body && insert_at == 0, "_dbus_string_copy_len: the body bytes of the measured frame");
  PRE (G_ld.deletes == 0, "_dbus_string_copy_len: before the frame is deleted");
  if (nondet_bool ()) return 0; G_ld.copies++; G_ld.blen = len; return 1; }
void verif_stub_string_delete (DBusString *str, int start, int len)
{ PRE (str == &the_loader->data && start == 0 && len <= G_ld.len && len >= 0, "_dbus_string_delete: from the front of the loader buffer");
  PRE (G_ld.copies == 1 && G_ld.appended == 1, "_dbus_string_delete: only after the body was copied and the message queued");
  G_ld.deletes++; G_ld.consumed += len; G_ld.len -= len; }
dbus_bool_t verif_stub_string_compact (DBusString *str, int max_waste) { return nondet_bool (); }
void verif_stub_verbose_bytes (const DBusString *str, int start, int len) { }

void harness (void)
{
  DBusMessageLoader L; DBusMessage M; dbus_bool_t r; int len0;
  the_loader = &L; the_message = &M;
  L.corrupted = 0; L.corruption_reason = DBUS_VALID; L.messages = NULL; L.n_unix_fds = nondet_uint (); L.unix_fds = NULL; L.unix_fds_change = NULL;
  M.unix_fds = NULL; M.n_unix_fds = 0;
  in_hl = nondet_int (); in_bl = nondet_int (); in_fal = nondet_int (); in_bo = nondet_int (); g_nfds = 0; /* fd clauses: unit C15.load_message_fds */
  G_ld.len = nondet_int (); G_ld.hlen = 0; G_ld.blen = 0; G_ld.consumed = 0; G_ld.deletes = 0; G_ld.header_loads = 0; G_ld.body_validations = 0; G_ld.copies = 0; G_ld.appended = 0; G_ld.removed = 0;
  /* precondition = what the loader loop (F3) establishes from the contract of _dbus_header_have_message_untrusted */
  __CPROVER_assume (in_hl >= 16 && in_bl >= 0 && in_hl <= 0x8000000 && in_bl <= 0x8000000 && G_ld.len >= 0 && in_hl + in_bl <= G_ld.len);
  len0 = G_ld.len;
  r = load_message (&L, &M, in_bo, in_fal, in_hl, in_bl);
  __CPROVER_assert (IMP (r, G_ld.deletes == 1 && G_ld.consumed == in_hl + in_bl && G_ld.len == len0 - (in_hl + in_bl)), "F2 success consumes exactly header_len + body_len bytes from the front");
  __CPROVER_assert (IMP (r, G_ld.header_loads == 1 && G_ld.body_validations == 1 && G_ld.copies == 1), "F2 success: header loaded, body validated and copied exactly once");
  __CPROVER_assert (IMP (r, G_ld.appended == 1 && G_ld.removed == 0 && !L.corrupted && L.corruption_reason == DBUS_VALID), "F2 success queues one message and leaves the loader uncorrupted");
  __CPROVER_assert (IMP (r, G_ld.hlen == in_hl && G_ld.blen == in_bl), "F2 success: message holds exactly the frame's header and body");
  __CPROVER_assert (IMP (!r, G_ld.deletes == 0 && G_ld.len == len0), "F2 failure leaves the loader buffer untouched");
  __CPROVER_assert (IMP (!r, G_ld.appended == G_ld.removed), "F2 failure leaves the message queue unchanged");
  __CPROVER_assert (IMP (!r, (L.corrupted != 0) == (L.corruption_reason != DBUS_VALID)), "F2 failure: corrupted iff a reason is recorded");
  if (r) __CPROVER_assert (0, "REACH:loaded"); else if (L.corrupted) __CPROVER_assert (0, "REACH:corrupt"); else __CPROVER_assert (0, "REACH:oom");
  if (!r && G_ld.appended == 1) __CPROVER_assert (0, "REACH:append-undone");
}
