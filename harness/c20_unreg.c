/* C20.unreg — one trie level of unregister_and_free_path_recurse with the REAL unregister_subtree and
 * attempt_child_removal inlined (dbus/dbus-object-tree.c).  Hybrid route: loop contract for the binary
 * search (contracts/c20_objtree.ovl), the recursive call bound to the function's own one-level contract,
 * strcmp / memmove as in C20.find, _dbus_object_subtree_unref by contract (real body: unit C20.unref).
 * Oracle [P] "pruning of empty nodes on unregister", doc comment of the function: "An ancestor node is
 * eligible for removal if and only if 1) it has no children, i.e., it has become childless and 2) it is not
 * itself a registered handler."  Array compacted, order kept. */
#include "c20_common.h"
#ifndef VERIF_MAX_CHILDREN
#define VERIF_MAX_CHILDREN (1 << 28)
#endif
static const char *g_key; static DBusObjectSubtree *g_child;
VERIF_FSR_PROTO(2) { __CPROVER_assert (0, "outside this unit"); return NULL; }
VERIF_FSR_PROTO(3) { __CPROVER_assert (0, "outside this unit"); return NULL; }
VERIF_FSR_PROTO(4) { __CPROVER_assert (0, "outside this unit"); return NULL; }

int strcmp (const char *a, const char *b)
{
  PRE (a == g_key && a != NULL, "strcmp: first argument is path[0]");
  PRE (0 <= verif_k && verif_k < verif_n0, "strcmp: compared index is inside the children array");
  PRE (b == (const char *) g_node->subtrees[verif_k]->name, "strcmp: second argument is the name of child k");
  verif_cmp_calls = 1;
  int v = nondet_int (); int s = OT_CMP_SIGN (verif_k, verif_c, verif_present);
  __CPROVER_assume ((s > 0) == (v > 0) && (s < 0) == (v < 0));
  return v;
}
static void h_unreg (DBusConnection *c, void *d) { }
static void h_unreg2 (DBusConnection *c, void *d) { }
static DBusHandlerResult h_msg (DBusConnection *c, DBusMessage *m, void *d) { return DBUS_HANDLER_RESULT_HANDLED; }
/* the function's own contract one level down (see the top-level postconditions below, which state the same) */
VERIF_UFR_PROTO(10)
{
  verif_rec.calls++; verif_rec.subtree = subtree; verif_rec.path = path; verif_rec.p3 = continue_removal_attempts;
  verif_rec.p4 = unregister_function_out; verif_rec.p5 = user_data_out;
  PRE (continue_removal_attempts != NULL && *continue_removal_attempts == TRUE && unregister_function_out != NULL && user_data_out != NULL, "recursive call: the function's entry assertions");
  PRE (subtree == g_child, "recursive call: into the child named path[0]");
  dbus_bool_t freed = nondet_bool ();
  if (freed)
    {
      *unregister_function_out = nondet_bool () ? h_unreg2 : NULL; *user_data_out = nondet_ptr ();
      if (nondet_bool ())
        { /* the child is the node of the path: it had a handler, which is now cleared */
          __CPROVER_assume (g_child->message_function != NULL);
          g_child->message_function = NULL; g_child->unregister_function = NULL; g_child->user_data = NULL;
        }
      else
        { /* the node of the path is deeper: the child may have lost the child it descended into */
          __CPROVER_assume (g_child->n_subtrees > 0);
          dbus_bool_t cont = nondet_bool ();
          if (cont) g_child->n_subtrees -= 1;
          *continue_removal_attempts = cont;
        }
    }
  verif_rec.freed = freed; verif_rec.cont_after = *continue_removal_attempts;
  verif_rec.ch_n_after = g_child->n_subtrees; verif_rec.ch_mf_after = (void *) g_child->message_function;
  return freed;
}
/* contract of _dbus_object_subtree_unref: requires a positive refcount; releases one reference */
void verif_stub_subtree_unref (DBusObjectSubtree *s)
{
  PRE (s != NULL && s->refcount.value > 0, "_dbus_object_subtree_unref: positive refcount");
  PRE (IMP (s->refcount.value == 1, s->message_function == NULL && s->unregister_function == NULL), "_dbus_object_subtree_unref: a node that is finalized has no handler left");
  verif_rec.unref_calls++; verif_rec.unref_arg = s; verif_rec.ch_n_at_unref = s->n_subtrees; verif_rec.ch_mf_at_unref = (void *) s->message_function;
  verif_rec.ch_parent_at_unref = s->parent;
}

void harness (void)
{
  DBusObjectSubtree *n = malloc (sizeof (DBusObjectSubtree)); __CPROVER_assume (n != NULL);
  int nn = nondet_int (), mx = nondet_int ();
  __CPROVER_assume (0 <= nn && nn <= mx && mx <= VERIF_MAX_CHILDREN);
  n->n_subtrees = nn; n->max_subtrees = mx;
  n->subtrees = (mx == 0) ? NULL : malloc ((size_t) mx * sizeof (DBusObjectSubtree *)); __CPROVER_assume (mx == 0 || n->subtrees != NULL);
  n->message_function = nondet_bool () ? h_msg : NULL; n->unregister_function = nondet_bool () ? h_unreg : NULL;
  /* tree invariant "no dangling node": an unregistered node other than the root has children */
  __CPROVER_assume (n->message_function != NULL || n->parent == NULL || nn > 0);
  __CPROVER_assume (IMP (n->message_function == NULL, n->unregister_function == NULL && n->user_data == NULL));
  verif_c = nondet_int (); verif_present = nondet_int ();
  __CPROVER_assume (OT_CUT_OK (nn, verif_c, verif_present));
  DBusObjectSubtree *child = malloc (sizeof (DBusObjectSubtree)); __CPROVER_assume (child != NULL);
  __CPROVER_assume (VERIF_CHILD_OK (child, n));
  g_child = NULL; verif_childp = NULL;
  if (verif_present) { n->subtrees[verif_c] = child; g_child = child; verif_childp = child; }
  verif_n0 = nn; verif_gk = nondet_long (); verif_k = -1; verif_cmp_calls = 0; g_node = n; g_oom_possible = 1;
  char keybuf[4]; const char *path[2]; path[0] = nondet_bool () ? NULL : keybuf; path[1] = nondet_ptr (); g_key = path[0];
  dbus_bool_t cont = TRUE; DBusObjectPathUnregisterFunction fn_out = nondet_bool () ? h_unreg2 : NULL; void *ud_out = nondet_ptr ();
  verif_fn0 = fn_out; verif_ud0 = ud_out;
  verif_rec.calls = 0; verif_rec.unref_calls = 0; verif_rec.freed = 0;
  verif_old_g = (0 <= verif_gk && verif_gk < nn) ? n->subtrees[verif_gk] : NULL;
  verif_old_gp1 = (0 <= verif_gk && verif_gk < nn - 1) ? n->subtrees[verif_gk + 1] : NULL;
  DBusObjectSubtree **old_arr = n->subtrees; DBusObjectSubtree before = *n;

  dbus_bool_t r = verif_ufr_9 (n, path, &cont, &fn_out, &ud_out);      /* the REAL unregister_and_free_path_recurse */

#define ARRAY_SAME (n->n_subtrees == nn && n->max_subtrees == mx && n->subtrees == old_arr && IMP (0 <= verif_gk && verif_gk < nn, n->subtrees[verif_gk] == verif_old_g))
#define HANDLER_SAME (n->message_function == before.message_function && n->unregister_function == before.unregister_function && n->user_data == before.user_data)
  __CPROVER_assert (r == TRUE || r == FALSE, "post0 boolean");
  __CPROVER_assert (n->parent == before.parent && n->invoke_as_fallback == before.invoke_as_fallback && n->refcount.value == before.refcount.value, "post0 parent, fallback flag, refcount untouched");
  __CPROVER_assert (IMP (!r, ARRAY_SAME && HANDLER_SAME && cont == TRUE && fn_out == verif_fn0 && ud_out == verif_ud0 && verif_rec.unref_calls == 0), "post0 not found below: nothing changed, outputs untouched");
  __CPROVER_assert (IMP (r && n->n_subtrees == 0 && n->message_function == NULL && n->parent != NULL, cont == TRUE), "post0 if this node is left dangling the caller is told to continue pruning");
  if (path[0] == NULL)
    {
      __CPROVER_assert (r == (before.message_function != NULL), "postA path exhausted: found iff this node has a handler");
      __CPROVER_assert (IMP (r, n->message_function == NULL && n->unregister_function == NULL && n->user_data == NULL
                                && fn_out == before.unregister_function && ud_out == before.user_data), "postA handler cleared, its unregister function and user data handed out");
      __CPROVER_assert (ARRAY_SAME && cont == TRUE && verif_rec.calls == 0 && verif_rec.unref_calls == 0, "postA children untouched, pruning left to the caller");
      if (r) REACH ("unregistered-here"); else REACH ("exhausted-no-handler");
    }
  else if (verif_present)
    {
      __CPROVER_assert (verif_rec.calls == 1 && verif_rec.subtree == child && verif_rec.path == path + 1 && verif_rec.p3 == &cont && verif_rec.p4 == &fn_out && verif_rec.p5 == &ud_out,
                        "postB recursion into exactly the child named path[0] with path+1");
      __CPROVER_assert (r == verif_rec.freed && HANDLER_SAME, "postB result is the deeper result; this node's handler untouched");
      _Bool attempt = verif_rec.freed && verif_rec.cont_after;
      _Bool eligible = verif_rec.ch_n_after == 0 && verif_rec.ch_mf_after == NULL;
      if (attempt && eligible)
        {
          __CPROVER_assert (n->n_subtrees == nn - 1 && n->max_subtrees == mx && n->subtrees == old_arr, "postB childless unregistered child removed");
          __CPROVER_assert (IMP (0 <= verif_gk && verif_gk < nn - 1, n->subtrees[verif_gk] == (verif_gk < verif_c ? verif_old_g : verif_old_gp1)), "postB array compacted, order kept");
          __CPROVER_assert (verif_rec.unref_calls == 1 && verif_rec.unref_arg == child && verif_rec.ch_parent_at_unref == NULL, "postB removed child detached and released once");
          __CPROVER_assert (cont == TRUE, "postB pruning continues upward");
          REACH ("pruned");
        }
      else
        {
          __CPROVER_assert (ARRAY_SAME && verif_rec.unref_calls == 0 && child->parent == n, "postB child kept: it has children or a handler, or pruning had stopped, or nothing was found");
          __CPROVER_assert (cont == (attempt ? FALSE : verif_rec.cont_after), "postB pruning stops here iff the child could not be removed");
          if (attempt) REACH ("kept-not-eligible"); else if (verif_rec.freed) REACH ("kept-pruning-stopped"); else REACH ("not-found-below");
        }
    }
  else
    {
      __CPROVER_assert (!r && verif_rec.calls == 0, "postC no child named path[0]: FALSE, no recursion");
      REACH ("absent");
    }
}
