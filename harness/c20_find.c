/* C20.find — one trie level of find_subtree_recurse (dbus/dbus-object-tree.c), real body.
 *
 * Route: hybrid.  The binary-search loop is closed by the loop contract in contracts/c20_objtree.ovl
 * (no unwinding); the three recursive calls are bound to the function's OWN one-level contract,
 * written below as a stub (see c20_common.h for how only the recursive calls are rebound);
 * strcmp is a contract stub over an abstract strict total order (spec/objtree_ref.h);
 * allocate_subtree_object is a contract stub (its real body is the B unit C20.alloc).
 * memmove is a contract stub stated for the ghost index (c20_common.h); realloc/calloc/free are CBMC's
 * built-in models; the children array has SYMBOLIC size (no bound other than 2^28 entries).
 *
 * Children are arbitrary pointer values: this level never dereferences a child (it only forms the
 * address of its name and passes the child down), so any dereference would be a failed pointer check.
 */
#include "c20_common.h"

#ifndef VERIF_MAX_CHILDREN
#define VERIF_MAX_CHILDREN (1 << 28)   /* 2*max_subtrees and max*sizeof(ptr) stay in range: ledger */
#endif

static const char *g_key;
static DBusObjectSubtree *g_new_child;
static int g_alloc_calls;

/* contract of strcmp on (key, name of child k): only the sign is specified, and the sign is the one the
 * strictly sorted children array dictates for index k */
int strcmp (const char *a, const char *b)
{
  PRE (a == g_key && a != NULL, "strcmp: first argument is path[0]");
  PRE (0 <= verif_k && verif_k < verif_n0, "strcmp: compared index is inside the children array");
  PRE (b == (const char *) g_node->subtrees[verif_k]->name, "strcmp: second argument is the name of child k");
  verif_cmp_calls = 1;
  int v = nondet_int ();
  int s = OT_CMP_SIGN (verif_k, verif_c, verif_present);
  __CPROVER_assume ((s > 0) == (v > 0) && (s < 0) == (v < 0));
  return v;
}

/* contract of allocate_subtree_object: NULL (no memory) or a fresh zero-filled node named `name` */
DBusObjectSubtree *verif_stub_allocate_subtree_object (const char *name)
{
  PRE (name != NULL && name == g_key, "allocate_subtree_object: the new child is named path[0]");
  g_alloc_calls++;
  DBusObjectSubtree *s = dbus_malloc0 (sizeof (DBusObjectSubtree) + 8);
  if (s != NULL) g_new_child = s;
  return s;
}

/* the function's own contract, one level down: arbitrary result; writes *exact_match (always, when
 * asked: every path of the contract below sets it) and possibly *index_in_parent */
static DBusObjectSubtree *verif_rec_contract (int site, DBusObjectSubtree *subtree, const char **path,
    dbus_bool_t create, int *iip, dbus_bool_t *em)
{
  verif_rec.calls++; verif_rec.site = site; verif_rec.subtree = subtree; verif_rec.path = path;
  verif_rec.create = create; verif_rec.iip = iip; verif_rec.em = em;
  if (iip != NULL) { verif_rec.iip_at_call = *iip; if (nondet_bool ()) *iip = nondet_int (); }
  if (em != NULL) { verif_rec.em_val = nondet_bool (); *em = verif_rec.em_val; }
  verif_rec.result = nondet_ptr ();
  return verif_rec.result;
}
VERIF_FSR_PROTO(2) { return verif_rec_contract (1, subtree, path, create_if_not_found, index_in_parent, exact_match); }
VERIF_FSR_PROTO(3) { return verif_rec_contract (2, subtree, path, create_if_not_found, index_in_parent, exact_match); }
VERIF_FSR_PROTO(4) { return verif_rec_contract (3, subtree, path, create_if_not_found, index_in_parent, exact_match); }
VERIF_UFR_PROTO(10) { __CPROVER_assert (0, "outside this unit"); return 0; }

void harness (void)
{
  /* ---- NODE_OK(n): n_subtrees <= max_subtrees entries, strictly sorted (as cut c / present) ---- */
  DBusObjectSubtree *n = malloc (sizeof (DBusObjectSubtree)); __CPROVER_assume (n != NULL);
  int nn = nondet_int (), mx = nondet_int ();
  __CPROVER_assume (0 <= nn && nn <= mx && mx <= VERIF_MAX_CHILDREN);
  n->n_subtrees = nn; n->max_subtrees = mx;
  n->subtrees = (mx == 0) ? NULL : malloc ((size_t) mx * sizeof (DBusObjectSubtree *)); __CPROVER_assume (mx == 0 || n->subtrees != NULL);
  dbus_bool_t fallback = n->invoke_as_fallback;
  verif_c = nondet_int (); verif_present = nondet_int ();
  __CPROVER_assume (OT_CUT_OK (nn, verif_c, verif_present));
  verif_n0 = nn; verif_gk = nondet_long (); verif_k = -1; verif_cmp_calls = 0; g_oom_possible = 1;
  g_alloc_calls = 0; g_new_child = NULL; g_node = n;
  /* ---- arguments ---- */
  char keybuf[4]; const char *path[2];
  path[0] = nondet_bool () ? NULL : keybuf; path[1] = nondet_ptr ();
  g_key = path[0];
  dbus_bool_t create = nondet_bool ();
#ifdef VERIF_ONLYCREATE
  __CPROVER_assume (create && path[0] != NULL && !verif_present);
#endif
#ifdef VERIF_NOCREATE
  __CPROVER_assume (!create);
#endif
  dbus_bool_t em_store = nondet_bool (); int iip_store = nondet_int ();
  dbus_bool_t *em = nondet_bool () ? &em_store : NULL; int *iip = nondet_bool () ? &iip_store : NULL;
  __CPROVER_assume (!(em != NULL && create));          /* the function's own entry assertion */
  verif_rec.calls = 0; verif_rec.site = 0; verif_iip0 = iip_store; verif_em0 = em_store; verif_rec.iip_at_call = -1;
  /* snapshots at the ghost index */
  DBusObjectSubtree **old_arr = n->subtrees;
  DBusObjectSubtree *old_g = (0 <= verif_gk && verif_gk < nn) ? n->subtrees[verif_gk] : NULL;
  DBusObjectSubtree *old_gm1 = (1 <= verif_gk && verif_gk <= nn) ? n->subtrees[verif_gk - 1] : NULL;
  DBusObjectSubtree *old_c = (verif_c < nn) ? n->subtrees[verif_c] : NULL;

  DBusObjectSubtree *r = verif_fsr_1 (n, path, create, iip, em);       /* the REAL find_subtree_recurse */

#define UNCHANGED (n->n_subtrees == nn && n->max_subtrees == mx && n->subtrees == old_arr && \
                   IMP (0 <= verif_gk && verif_gk < nn, n->subtrees[verif_gk] == old_g) && g_alloc_calls == 0)
  __CPROVER_assert (IMP (em != NULL, em_store == 0 || em_store == 1), "post0 *exact_match is a boolean");
  __CPROVER_assert (n->invoke_as_fallback == fallback, "post0 fallback flag untouched");
  if (path[0] == NULL)
    {
      __CPROVER_assert (r == n && IMP (em != NULL, em_store == TRUE), "postA path exhausted: this node, exact match");
      __CPROVER_assert (verif_rec.calls == 0 && verif_cmp_calls == 0 && UNCHANGED && iip_store == verif_iip0, "postA nothing searched, nothing changed");
      REACH ("exhausted");
    }
  else if (verif_present)
    {
      __CPROVER_assert (verif_rec.calls == 1 && verif_rec.subtree == old_c && verif_rec.path == path + 1 && verif_rec.create == create
                        && verif_rec.iip == iip && verif_rec.em == em, "postB recursion into exactly the child named path[0], with path+1 and the same mode");
      __CPROVER_assert (IMP (iip != NULL, verif_rec.iip_at_call == verif_c), "postB index_in_parent holds the child's index when descending");
      __CPROVER_assert (UNCHANGED, "postB node unchanged");
      if (em != NULL)
        {
          __CPROVER_assert (verif_rec.site == 1, "postB deepest-match call site");
          if (verif_rec.result == NULL && fallback)
            { __CPROVER_assert (r == n && em_store == FALSE, "postB nothing deeper and this node is a fallback: this node, not exact"); REACH ("fallback-here"); }
          else
            { __CPROVER_assert (r == verif_rec.result && em_store == verif_rec.em_val, "postB otherwise the deeper result (NULL included), exact flag as set below"); REACH ("deeper"); }
          if (verif_rec.result == NULL && !fallback) REACH ("deeper-null-no-fallback");
        }
      else
        { __CPROVER_assert (r == verif_rec.result, "postB plain mode: the deeper result"); REACH ("plain-descend"); }
    }
  else if (!create)
    {
      __CPROVER_assert (verif_rec.calls == 0 && UNCHANGED && iip_store == verif_iip0, "postC no such child: no recursion, nothing changed");
      __CPROVER_assert (r == ((em != NULL && fallback) ? n : NULL) && IMP (em != NULL, em_store == FALSE),
                        "postC no such child: this node iff deepest-match mode and fallback, else NULL; not exact");
      if (r == n) REACH ("absent-fallback"); else REACH ("absent-null");
    }
  else if (verif_rec.calls == 0)
    {
      /* create mode, out of memory */
      __CPROVER_assert (r == NULL, "postD create without memory returns NULL");
      __CPROVER_assert (n->n_subtrees == nn && IMP (0 <= verif_gk && verif_gk < nn, n->subtrees[verif_gk] == old_g), "postD children unchanged when creation fails");
      __CPROVER_assert (n->max_subtrees == mx && n->subtrees == old_arr, "postD array not replaced when creation fails");
      REACH ("create-oom");
    }
  else
    {
      DBusObjectSubtree *ch = g_new_child;
      __CPROVER_assert (g_alloc_calls == 1 && ch != NULL && verif_rec.calls == 1 && verif_rec.site == 3, "postE one new child, one recursion");
      __CPROVER_assert (n->n_subtrees == nn + 1 && n->n_subtrees <= n->max_subtrees && n->max_subtrees >= mx && n->max_subtrees <= VERIF_MAX_CHILDREN * 2 && n->subtrees != NULL, "postE NODE_OK sizes");
      __CPROVER_assert (IMP (0 <= verif_gk && verif_gk <= nn, n->subtrees[verif_gk] == (verif_gk < verif_c ? old_g : verif_gk == verif_c ? ch : old_gm1)),
                        "postE new child inserted at the sorted position, others keep their order");
      __CPROVER_assert (ch->parent == n && ch->n_subtrees == 0 && ch->max_subtrees == 0 && ch->subtrees == NULL && ch->message_function == NULL
                        && ch->unregister_function == NULL && ch->user_data == NULL && ch->invoke_as_fallback == 0 && ch->refcount.value == 1,
                        "postE new child is an empty unregistered node whose parent is this node");
      __CPROVER_assert (verif_rec.subtree == ch && verif_rec.path == path + 1 && verif_rec.create == create && verif_rec.iip == iip && verif_rec.em == NULL, "postE recursion into the new child with path+1");
      __CPROVER_assert (IMP (iip != NULL, verif_rec.iip_at_call == verif_c), "postE index_in_parent holds the new child's index");
      __CPROVER_assert (r == verif_rec.result, "postE result is the deeper result");
      if (mx == nn) REACH ("create-grow"); else REACH ("create-inplace");
      if (verif_c < nn) REACH ("create-middle"); else REACH ("create-end");
    }
}
