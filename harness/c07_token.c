/* C07: the rule-text tokenizer of bus/signals.c: find_key (VERIF_FN=1), find_value (2), tokenize_rule (3).
 * Hybrid route: loop contracts from contracts/c07_signals.ovl (no loop of these functions is unwound), callees as
 * contract stubs:
 *   _dbus_string_get_const_data / _get_length            ghost view of the rule text (verif_len bytes + NUL, exact-size block)
 *   _dbus_string_append_len / _append_byte / _set_length  may fail (OOM); count bytes in verif_key_len / verif_value_len
 *   _dbus_string_init / _free / _steal_data               (tokenize_rule only)
 *   dbus_set_error (variadic: remapped to verif_set_error(e, name) by macro: the message text is dropped), dbus_set_error_const
 *   find_key / find_value                                 (tokenize_rule only) by the contracts proved in units C07.find_key / C07.find_value
 * Postconditions: memory safety for every rule text of every length; cursor results inside the text; error protocol
 * (FALSE <=> error set); at most MAX_RULE_TOKENS tokens, the sentinel slot is never written;
 * -DVERIF_POST_CONSUMED (tokenize_rule): TRUE => the whole rule text was tokenized ("a string of comma separated
 * key/value pairs": nothing of the text may be ignored).
 */
#include <config.h>
#include "dbus/dbus-internals.h"
#include "verif_prelude.h"
#define C07_GHOST_DEFINE
#include "c07_ghost.h"
#include <stdlib.h>
void verif_set_error (DBusError *e, const char *name);
#define dbus_set_error(e, name, ...) verif_set_error (e, name)
#include VERIF_TU
#undef dbus_set_error
#include "c07_common.h"
void _dbus_real_assert (dbus_bool_t condition, const char *condition_text, const char *file, int line, const char *func)
{ __CPROVER_assert (condition, "dbus assertion (error protocol / internal)"); __CPROVER_assume (condition); }
void _dbus_verbose_real (const char *file, const int line, const char *function, const char *format, ...) {}

static const DBusString *g_text; static char *g_buf;         /* the rule text and its bytes */
static DBusString *g_key, *g_value;                          /* the two work strings */
static const char some_text[] = "e";
#define ERR_SET(e) ((e)->name != NULL)
/* ---- DBusError contracts ---- */
dbus_bool_t verif_stub_error_is_set (const DBusError *e) { PRE (e != NULL, "dbus_error_is_set"); return ERR_SET (e); }
void verif_set_error (DBusError *e, const char *name) { PRE (name != NULL && (e == NULL || !ERR_SET (e)), "dbus_set_error: error not already set"); if (e) { e->name = name; e->message = some_text; } }
void verif_stub_set_error_const (DBusError *e, const char *name, const char *message) { PRE (name != NULL && (e == NULL || !ERR_SET (e)), "dbus_set_error_const: error not already set"); if (e) { e->name = name; e->message = message; } }
/* ---- DBusString contracts ---- */
const char *verif_stub_get_const_data (const DBusString *s) { PRE (s == g_text, "_dbus_string_get_const_data: the rule text"); return g_buf; }
int verif_stub_get_length (const DBusString *s)
{ PRE (s == g_text || s == g_key || s == g_value, "_dbus_string_get_length: a live string"); return s == g_text ? (int) verif_len : s == g_key ? (int) verif_key_len : (int) verif_value_len; }
dbus_bool_t verif_stub_append_len (DBusString *s, const char *buffer, int len)
{
  PRE (s == g_key || s == g_value, "_dbus_string_append_len: a live work string");
  PRE (len >= 0 && __CPROVER_same_object (buffer, g_buf) && __CPROVER_POINTER_OFFSET (buffer) + len <= __CPROVER_POINTER_OFFSET (g_buf) + verif_len,
       "_dbus_string_append_len: len >= 0 and [buffer, buffer+len) inside the rule text");
  verif_appends++;
  if (nondet_bool ()) return FALSE;
  if (s == g_key) verif_key_len += len; else verif_value_len += len;
  return TRUE;
}
dbus_bool_t verif_stub_append_byte (DBusString *s, unsigned char byte)
{
  PRE (s == g_key || s == g_value, "_dbus_string_append_byte: a live work string");
  if (nondet_bool ()) return FALSE;
  verif_appends++;
  if (s == g_key) verif_key_len += 1; else verif_value_len += 1;
  return TRUE;
}
dbus_bool_t verif_stub_set_length (DBusString *s, int length)
{
  PRE (s == g_key || s == g_value, "_dbus_string_set_length: a live work string");
  PRE (length >= 0 && length <= (s == g_key ? verif_key_len : verif_value_len), "_dbus_string_set_length: shrinking to a length >= 0 (cannot fail)");
  if (s == g_key) verif_key_len = length; else verif_value_len = length;
  return TRUE;
}

#if VERIF_FN == 3
static int g_inits, g_frees;
dbus_bool_t verif_stub_string_init (DBusString *s)
{
  PRE (s != NULL && g_inits < 2, "_dbus_string_init");
  if (nondet_bool ()) return FALSE;
  if (g_inits == 0) { g_key = s; verif_key_len = 0; } else { g_value = s; verif_value_len = 0; }
  g_inits++; return TRUE;
}
void verif_stub_string_free (DBusString *s) { PRE (s == g_key || s == g_value, "_dbus_string_free: an initialised string"); g_frees++; }
/* _dbus_string_steal_data: TRUE => *data_return is a fresh non-NULL block, the string is empty again; FALSE => nothing
 * (the block comes from a static pool: DFCC forbids allocation inside a contract loop) */
dbus_bool_t verif_stub_steal_data (DBusString *s, char **data_return)
{
  PRE ((s == g_key || s == g_value) && data_return != NULL, "_dbus_string_steal_data: a live work string");
  if (nondet_bool ()) return FALSE;
  int k = nondet_int (); __CPROVER_assume (k >= 0 && k < (int) sizeof verif_pool);
  *data_return = &verif_pool[k]; verif_tok_steals++;
  if (s == g_key) verif_key_len = 0; else verif_value_len = 0;
  return TRUE;
}
void verif_stub_dbus_free (void *p) { PRE (p == NULL || __CPROVER_same_object (p, verif_pool), "dbus_free: NULL or a block obtained from _dbus_string_steal_data"); }
/* contracts of find_key / find_value as enforced by units C07.find_key / C07.find_value */
dbus_bool_t verif_stub_find_key (const DBusString *str, int start, DBusString *key, int *value_pos, DBusError *error)
{
  PRE (str == g_text && key == g_key && value_pos != NULL && error != NULL && !ERR_SET (error), "find_key: rule text, key string, clear error");
  PRE (start >= 0 && start <= verif_len, "find_key: 0 <= start <= length of the rule text");
  if (nondet_bool ()) { error->name = some_text; error->message = some_text; return FALSE; }
  int vp = nondet_int (); __CPROVER_assume (vp >= start && vp <= verif_len);
  int kl = nondet_int (); __CPROVER_assume (kl >= 0 && kl <= vp - start);
  /* an empty key is reported with the cursor still on the byte that stopped the scan; a non-empty one consumed its '=' */
  __CPROVER_assume (kl == 0 || vp >= start + kl + 1);
  verif_flag = (kl == 0 && vp < verif_len);      /* ghost: "empty key, text not exhausted" (used by the consumed-text postcondition) */
  verif_key_len += kl; *value_pos = vp; return TRUE;
}
dbus_bool_t verif_stub_find_value (const DBusString *str, int start, const char *key, DBusString *value, int *value_end, DBusError *error)
{
  PRE (str == g_text && value == g_value && value_end != NULL && error != NULL && !ERR_SET (error), "find_value: rule text, value string, clear error");
  PRE (start >= 0 && start <= verif_len, "find_value: 0 <= start <= length of the rule text");
  if (nondet_bool ()) { error->name = some_text; error->message = some_text; return FALSE; }
  int ve = nondet_int (); __CPROVER_assume (ve >= start && ve <= verif_len);
  long vl = nondet_long (); __CPROVER_assume (vl >= 0 && vl <= 2 * (long) (ve - start) + 1);
  verif_value_len += vl; *value_end = ve; return TRUE;
}
#endif

#define C07_STRING_MAX (0x7fffffff - 8)   /* _DBUS_STRING_MAX_LENGTH = _DBUS_INT32_MAX - _DBUS_STRING_ALLOCATION_PADDING */
static void mk_text (DBusString *text)
{
  /* the rule text: any length, any bytes (interior NULs included), NUL at [len]; exact-size block */
  verif_len = nondet_long (); __CPROVER_assume (verif_len >= 0 && verif_len <= C07_STRING_MAX);
  g_buf = malloc (verif_len + 1); __CPROVER_assume (g_buf != NULL); g_buf[verif_len] = 0;
  g_text = text;
}

void harness (void)
{
  DBusString text, key, value; DBusError err; err.name = NULL; err.message = NULL;
  mk_text (&text);
  verif_appends = 0; verif_tok_steals = 0; verif_flag = 0; verif_gk = nondet_long ();
#if VERIF_FN == 1
  g_key = &key; g_value = &value; verif_key_len = nondet_long (); __CPROVER_assume (verif_key_len == 0);   /* tokenize_rule: key is empty at each call */
  verif_value_len = 0;
  int start = nondet_int (); __CPROVER_assume (start >= 0 && start <= verif_len);
  int vp = nondet_int (); int vp0 = vp;
  dbus_bool_t ok = find_key (&text, start, &key, &vp, &err);
  __CPROVER_assert (ok == 0 || ok == 1, "post0 boolean");
  __CPROVER_assert (ok == !ERR_SET (&err), "post1 FALSE <=> error set");
  __CPROVER_assert (IMP (ok, vp >= start && vp <= verif_len), "post2 TRUE => start <= *value_pos <= length");
  __CPROVER_assert (IMP (ok, verif_key_len >= 0 && verif_key_len <= vp - start), "post3 TRUE => the key is a piece of the scanned text");
  __CPROVER_assert (IMP (ok && verif_key_len > 0, vp >= start + verif_key_len + 1 && g_buf[vp - 1] == '='), "post4 TRUE with a key => the '=' after it was consumed");
  __CPROVER_assert (IMP (!ok, vp == vp0 && verif_key_len == 0), "post5 FALSE => outputs untouched");
  __CPROVER_assert (verif_appends <= 1, "post6 at most one append");
  __CPROVER_assert (IMP (ok && verif_key_len == 0, vp == verif_len || g_buf[vp] == '=' || g_buf[vp] == 0), "post7 TRUE without a key => the cursor is at the end of the text, on an '=' or on a NUL");
  __CPROVER_assert (IMP (start < verif_len && (g_buf[start] == '=' || g_buf[start] == 0), ok && verif_key_len == 0 && vp == start), "post8 started on an '=' or a NUL => TRUE without a key and without progress (the same call repeats for ever)");
  if (ok && verif_key_len > 0) REACH ("key"); if (ok && verif_key_len == 0) REACH ("no-key"); if (!ok) REACH ("error");
  if (ok && verif_key_len == 0 && vp < verif_len) REACH ("no-key-but-text-left");
#elif VERIF_FN == 2
  g_key = &key; g_value = &value; verif_key_len = 0;
  verif_value_len = nondet_long (); __CPROVER_assume (verif_value_len >= 0 && verif_value_len <= 1024); long vl0 = verif_value_len;
  int start = nondet_int (); __CPROVER_assume (start >= 0 && start <= verif_len);
  int ve = nondet_int (); int ve0 = ve;
  dbus_bool_t ok = find_value (&text, start, some_text, &value, &ve, &err);
  __CPROVER_assert (ok == 0 || ok == 1, "post0 boolean");
  __CPROVER_assert (ok == !ERR_SET (&err), "post1 FALSE <=> error set");
  __CPROVER_assert (IMP (ok, ve >= start && ve <= verif_len), "post2 TRUE => start <= *value_end <= length");
  __CPROVER_assert (IMP (ok, verif_value_len >= vl0 && verif_value_len - vl0 <= 2 * (long) (ve - start) + 1), "post3 TRUE => at most two bytes appended per byte consumed (+1 for a trailing backslash)");
  __CPROVER_assert (IMP (ok && start < verif_len && g_buf[start] != 0, ve > start), "post4 TRUE on a non-empty rest => progress");
  __CPROVER_assert (IMP (!ok, verif_value_len == vl0 && ve == ve0), "post5 FALSE => the value string is restored to its original length, *value_end untouched");
  __CPROVER_assert (IMP (ok && ve < verif_len, g_buf[ve] == 0 || (ve > start && g_buf[ve - 1] == ',')), "post6 TRUE before the end of the text => stopped behind a comma (or at an interior NUL)");
  if (ok) REACH ("value"); else REACH ("error"); if (ok && ve < verif_len) REACH ("comma");
#else
  RuleToken tokens[MAX_RULE_TOKENS + 1];
  for (int k = 0; k <= MAX_RULE_TOKENS; k++) { tokens[k].key = NULL; tokens[k].value = NULL; }    /* memset in bus_match_rule_parse */
  g_key = NULL; g_value = NULL; verif_key_len = 0; verif_value_len = 0; g_inits = 0; g_frees = 0;
  dbus_bool_t ok = tokenize_rule (&text, tokens, &err);
  __CPROVER_assert (ok == 0 || ok == 1, "post0 boolean");
  __CPROVER_assert (ok == !ERR_SET (&err), "post1 FALSE <=> error set");
  __CPROVER_assert (tokens[MAX_RULE_TOKENS].key == NULL && tokens[MAX_RULE_TOKENS].value == NULL, "post2 the sentinel slot is never written");
  __CPROVER_assert (verif_tok_steals <= 2 * MAX_RULE_TOKENS, "post3 at most MAX_RULE_TOKENS tokens");
  /* the caller's cleanup loop (and this function's own) stops at the first NULL/NULL slot: after a failure it must find
   * nothing to free a second time.  (That no token lies beyond an empty slot follows from find_key being a function of
   * (text, start): an empty key repeats for ever.  Not proved here.) */
  __CPROVER_assert (IMP (!ok, tokens[0].key == NULL && tokens[0].value == NULL), "post4 FALSE => slot 0 is NULL/NULL: the caller's cleanup loop frees nothing twice");
  __CPROVER_assert (g_frees == g_inits, "post5 both work strings are freed iff initialised");
#ifdef VERIF_POST_CONSUMED
  __CPROVER_assert (IMP (ok, verif_w2 >= verif_len && !verif_flag), "post6 TRUE => the whole rule text was tokenized (no tail ignored, no pair without key)");
#endif
  if (ok) REACH ("tokenized"); else REACH ("error"); if (ok && verif_tok_steals == 2 * MAX_RULE_TOKENS) REACH ("sixteen-tokens");
#endif
}
