/* Shared by the C04 / C13 P-stub harnesses: assertion entry points as obligations, error-object
 * contract stubs, fixed-bound string equality (no unwinding needed: constant trip count). */
#ifndef VERIF_C04_COMMON_H
#define VERIF_C04_COMMON_H
_Bool nondet_bool (void); int nondet_int (void); unsigned nondet_uint (void); long nondet_long (void);
unsigned long nondet_ulong (void); void *nondet_ptr (void);
#define PRE(c, what) __CPROVER_assert ((c), "precondition of " what)
#define POST(c, what) __CPROVER_assert ((c), what)
#define IMP(a, b) (!(a) || (b))
#define REACH(tag) __CPROVER_assert (0, "REACH:" tag)
#define ERR_SET(e) ((e)->name != NULL)
static const char some_string[] = "s";
static const char stub_error_name[] = "verif.StubError";

void _dbus_real_assert (dbus_bool_t condition, const char *condition_text, const char *file, int line, const char *func)
{ __CPROVER_assert (condition, "dbus internal assertion");
#ifndef VERIF_ASSERT_NO_ASSUME   /* hook units: keep going after a failed assertion (= the DBUS_DISABLE_ASSERT build) */
  __CPROVER_assume (condition);
#endif
}
void _dbus_real_assert_not_reached (const char *explanation, const char *file, int line)
{ __CPROVER_assert (0, "dbus assert_not_reached"); __CPROVER_assume (0); }
void _dbus_verbose_real (const char *file, const int line, const char *function, const char *format, ...) {}

/* names are < 64 bytes; constant trip count, reads stop at the first NUL */
static int verif_streq (const char *a, const char *b)
{ int i, eq = 1, done = 0;
  for (i = 0; i < 64; i++) if (!done) { if (a[i] != b[i]) { eq = 0; done = 1; } else if (a[i] == 0) done = 1; }
  return eq; }
static int err_is (const DBusError *e, const char *name) { return e->name != NULL && verif_streq (e->name, name); }

/* DBusError: contracts of the four error primitives used on these paths (dbus-errors.c is not under
 * contract here; these are its documented semantics on the name field, message text dropped). */
void dbus_error_init (DBusError *e) { PRE (e != NULL, "dbus_error_init"); e->name = NULL; e->message = NULL; }
dbus_bool_t dbus_error_is_set (const DBusError *e) { PRE (e != NULL, "dbus_error_is_set"); return ERR_SET (e); }
dbus_bool_t dbus_error_has_name (const DBusError *e, const char *name) { PRE (e != NULL && name != NULL, "dbus_error_has_name"); return err_is (e, name); }
void dbus_move_error (DBusError *src, DBusError *dest)
{ PRE (src != NULL && (dest == NULL || !ERR_SET (dest)), "dbus_move_error: destination clear");
  if (dest) { dest->name = src->name; dest->message = src->message; } src->name = NULL; src->message = NULL; }
void dbus_set_error (DBusError *e, const char *name, const char *format, ...)
{ PRE (name != NULL && (e == NULL || !ERR_SET (e)), "dbus_set_error: error clear"); if (e) { e->name = name; e->message = some_string; } }
void dbus_set_error_const (DBusError *e, const char *name, const char *message)
{ PRE (name != NULL && (e == NULL || !ERR_SET (e)), "dbus_set_error_const: error clear"); if (e) { e->name = name; e->message = some_string; } }
void dbus_error_free (DBusError *e) { PRE (e != NULL, "dbus_error_free"); e->name = NULL; e->message = NULL; }
/* a callee that fails reports NoMemory or some other (non-limit) error */
static void stub_fail (DBusError *e) { if (e) { e->name = nondet_bool () ? DBUS_ERROR_NO_MEMORY : stub_error_name; e->message = some_string; } }
#endif
