/* C08 — shared ghost models for the P-stub units on dbus/dbus-auth.c and dbus/dbus-transport*.c.
 *
 * Nothing in this file is dbus code.  It contains the *contracts*, written as stub functions
 * (assert the precondition / havoc / assume the postcondition / update ghost state), of the
 * library functions the authentication code calls:
 *
 *   DBusString      length-only model (+ typestate "initialised / freed", + which protocol line a
 *                   buffer holds).  Contract texts are the doc comments of dbus/dbus-string.c and the
 *                   _dbus_assert preconditions found there (DBUS_STRING_PREAMBLE, start/len ranges).
 *   DBusCredentials set-of-credentials model: one abstract value per credential kind; two values are
 *                   equal iff the real contents are equal.  Contract texts: doc comments of
 *                   dbus/dbus-credentials.c ("Merge all credentials found in the second object into
 *                   the first object", "Checks whether the first credentials object contains all the
 *                   credentials found in the second credentials object", ...).
 *   keyring / SHA-1 / random / user database: arbitrary results of the documented shape (ASSUMED).
 *
 * Every stub that stands for a real dbus function is an assumption unless another unit enforces
 * it; tool/units/c08.py lists them per unit.
 */
#ifndef C08_MODEL_H
#define C08_MODEL_H
#include <config.h>
#include "dbus/dbus-internals.h"
#include "verif_prelude.h"
#include "dbus/dbus-string.h"
#ifndef DBUS_CAN_USE_DBUS_STRING_PRIVATE
#define DBUS_CAN_USE_DBUS_STRING_PRIVATE 1
#endif
#include "dbus/dbus-string-private.h"
#include "dbus/dbus-credentials.h"
#include "dbus/dbus-errors.h"
#include "dbus/dbus-protocol.h"
#include "auth_states.h"

_Bool nondet_bool (void);
int nondet_int (void);
unsigned nondet_uint (void);
unsigned long nondet_ulong (void);
void *nondet_ptr (void);

#define PRE(c, what) __CPROVER_assert ((c), "precondition of " what)
#define POST(c, what) __CPROVER_assert ((c), what)
#ifndef IMP
#define IMP(a, b) (!(a) || (b))
#endif
#ifndef REACH
#define REACH(tag) __CPROVER_assert (0, "REACH:" tag)
#endif

/* the library's assertion entry points (reached only from inline functions compiled before the
 * prelude remapped _dbus_assert): proof obligations as well */
void _dbus_real_assert (dbus_bool_t condition, const char *condition_text, const char *file, int line, const char *func)
{ __CPROVER_assert (condition, "dbus assertion (inline helper)"); __CPROVER_assume (condition); }
void _dbus_real_assert_not_reached (const char *explanation, const char *file, int line)
{ __CPROVER_assert (0, "dbus assert_not_reached (inline helper)"); __CPROVER_assume (0); }

/* ------------------------------------------------------------------------------------------
 * literal helpers (arguments are string literals of the code under test: the loops below run on
 * constants and are folded by symbolic execution; bound 96 > longest literal in dbus-auth.c)
 * ------------------------------------------------------------------------------------------ */
static int lit_len (const char *s)
{ int n = 0; for (n = 0; n < 96 && s[n] != 0; n++) { } return n; }
static int lit_eq (const char *a, const char *b)
{ int i; for (i = 0; i < 96; i++) { if (a[i] != b[i]) return 0; if (a[i] == 0) return 1; } return 0; }
static int lit_starts (const char *s, const char *prefix)
{ int i; for (i = 0; i < 96 && prefix[i] != 0; i++) if (s[i] != prefix[i]) return 0; return 1; }
static int lit_ends_crlf (const char *s)
{ int n = lit_len (s); return n >= 2 && s[n - 2] == '\r' && s[n - 1] == '\n'; }
/* which server->client command (spec: "REJECTED | OK | DATA | ERROR | AGREE_UNIX_FD") a piece of
 * text starts with; the command word must be followed by a space or by the end of line */
static int lit_reply_kind (const char *s)
{
  if (lit_starts (s, "REJECTED") && (s[8] == 0 || s[8] == ' ' || s[8] == '\r')) return SPEC_REPLY_REJECTED;
  if (lit_starts (s, "OK ")) return SPEC_REPLY_OK;
  if (lit_starts (s, "DATA") && (s[4] == ' ' || s[4] == '\r')) return SPEC_REPLY_DATA;
  if (lit_starts (s, "ERROR") && (s[5] == ' ' || s[5] == '\r')) return SPEC_REPLY_ERROR;
  if (lit_starts (s, "AGREE_UNIX_FD\r")) return SPEC_REPLY_AGREE_UNIX_FD;
  return 0;
}

#ifndef C08_REAL_STRINGS
/* ------------------------------------------------------------------------------------------
 * DBusString model.  Representation inside the (real) DBusRealString record:
 *   valid      typestate: 1 between _dbus_string_init and _dbus_string_free
 *   len        the length (the only content fact the handshake control flow depends on, apart from
 *              the results of the search/compare functions, which are arbitrary but range-constrained)
 *   allocated  ghost tag, see TAG_* (what protocol text the buffer holds, provenance marks)
 *   str        unused (NULL): any dereference of string bytes by the code under test would be a
 *              reported pointer failure, i.e. the units prove the auth code goes through the API only
 * ------------------------------------------------------------------------------------------ */
#define SM(s) ((DBusRealString *) (s))
#define SLEN(s) (((const DBusRealString *) (s))->len)
#define STAG(s) (((const DBusRealString *) (s))->allocated)
#define SLIVE(s) (((const DBusRealString *) (s))->valid)
#define STR_MAX _DBUS_STRING_MAX_LENGTH

#define TAG_OPENKIND(t) ((t) & 0xf)            /* reply kind of the unterminated line at the end */
#define TAG_OPEN 0x10                          /* there is an unterminated (no CRLF yet) line at the end */
#define TAG_NLINES(t) (((t) >> 5) & 0x3)       /* number of complete lines, saturating at 3 */
#define TAG_LASTKIND(t) (((t) >> 8) & 0xf)     /* reply kind of the last complete line */
#define TAG_PROV(t) (((t) >> 16) & 0xff)       /* provenance mark (per unit) */
#define TAG_MAKE(openkind, open, nlines, lastkind, prov) \
  (((openkind) & 0xf) | ((open) ? TAG_OPEN : 0) | (((nlines) > 3 ? 3 : (nlines)) << 5) | (((lastkind) & 0xf) << 8) | (((prov) & 0xff) << 16))

int g_str_live;                 /* strings initialised and not yet freed by the code under test */
DBusString *g_watch_out;        /* the buffer whose appended lines are counted (auth->outgoing) */
int g_out_lines;                /* complete lines appended to g_watch_out */
int g_out_last;                 /* reply kind of the last of them */
int g_out_names;                /* mechanism names appended (REJECTED [mechs]) */
/* snapshot taken when the length of g_watch_out is read: restoring that length restores the text */
#define SNAPS 4
struct sm_snap { _Bool valid; int len, tag, lines, last; } g_snap[SNAPS]; int g_snap_next;
static void sm_snapshot (const DBusString *str)
{ g_snap[g_snap_next].valid = 1; g_snap[g_snap_next].len = SLEN (str); g_snap[g_snap_next].tag = STAG (str); g_snap[g_snap_next].lines = g_out_lines; g_snap[g_snap_next].last = g_out_last; g_snap_next = (g_snap_next + 1) % SNAPS; }
/* restore the watched buffer to a length that was read before (oldest matching snapshot = state when that length was first seen) */
static _Bool sm_restore (DBusString *str, int length)
{
  int k, i;
  for (k = 0; k < SNAPS; k++)
    {
      i = (g_snap_next + k) % SNAPS;
      if (g_snap[i].valid && g_snap[i].len == length)
        { SM (str)->len = length; SM (str)->allocated = g_snap[i].tag; g_out_lines = g_snap[i].lines; g_out_last = g_snap[i].last; return 1; }
    }
  return 0;
}
/* prefix deletions on the watched incoming buffer */
DBusString *g_watch_in; int g_in_deleted; _Bool g_in_other_edit;
/* relation between find_blank and skip_blank on the same string */
const DBusString *g_fb_str; int g_fb_idx; _Bool g_fb_found;
const DBusString *g_ascii_ok_str;   /* last string on which _dbus_string_validate_ascii returned TRUE */

#define STR_PRE(s, what) PRE ((s) != NULL && SLIVE (s) && SLEN (s) >= 0 && SLEN (s) <= STR_MAX, what ": initialised string")

static void sm_make (DBusString *s, int len, int tag)
{ SM (s)->str = NULL; SM (s)->len = len; SM (s)->allocated = tag; SM (s)->constant = 0; SM (s)->locked = 0; SM (s)->valid = 1; SM (s)->align_offset = 0; }

/* append a piece of text at the end of d: `pk` reply kind the piece starts with (0 none), `crlf`
 * the piece ends with CRLF, `n` its length */
static void sm_append_piece (DBusString *d, int pk, int crlf, int n)
{
  int t = STAG (d);
  int kind = (t & TAG_OPEN) ? TAG_OPENKIND (t) : pk;
  if (n == 0) return;
  SM (d)->len += n;
  if (crlf)
    {
      SM (d)->allocated = TAG_MAKE (0, 0, TAG_NLINES (t) + 1, kind, TAG_PROV (t));
      if (d == g_watch_out) { g_out_lines++; g_out_last = kind; }
    }
  else
    SM (d)->allocated = TAG_MAKE (kind, 1, TAG_NLINES (t), TAG_LASTKIND (t), TAG_PROV (t));
}
/* append the text of a whole other buffer (status in its tag) at the end of d */
static void sm_append_buffer (DBusString *d, int stag, int n)
{
  int t = STAG (d);
  if (n == 0) return;
  if (TAG_NLINES (stag) == 0)
    { sm_append_piece (d, TAG_OPENKIND (stag), 0, n); return; }
  __CPROVER_assert (!(t & TAG_OPEN) && TAG_NLINES (stag) == 1 && !(stag & TAG_OPEN), "model limit: a whole line is appended only at a line start");
  SM (d)->len += n;
  SM (d)->allocated = TAG_MAKE (0, 0, TAG_NLINES (t) + 1, TAG_LASTKIND (stag), TAG_PROV (t));
  if (d == g_watch_out) { g_out_lines++; g_out_last = TAG_LASTKIND (stag); }
}
static _Bool sm_room (const DBusString *d, int n) { return n >= 0 && n <= STR_MAX - SLEN (d); }

/* "Initializes a string. ... @returns #TRUE on success, #FALSE if no memory" */
dbus_bool_t _dbus_string_init (DBusString *str)
{
  PRE (str != NULL, "_dbus_string_init");
  if (nondet_bool ()) return FALSE;
  sm_make (str, 0, 0); g_str_live++;
  return TRUE;
}
/* "Frees a string created by _dbus_string_init()" (also legal on _DBUS_STRING_INIT_INVALID) */
void _dbus_string_free (DBusString *str)
{
  PRE (str != NULL, "_dbus_string_free");
  if (!SLIVE (str))
    { PRE (SM (str)->str == NULL && SM (str)->len == 0 && SM (str)->allocated == 0, "_dbus_string_free: live or _DBUS_STRING_INIT_INVALID (double free?)"); return; }
  STR_PRE (str, "_dbus_string_free");
  SM (str)->valid = 0; SM (str)->len = 0; SM (str)->allocated = 0; g_str_live--;
}
void _dbus_string_zero (DBusString *str) { STR_PRE (str, "_dbus_string_zero"); }
int _dbus_string_get_length (const DBusString *str)
{
  STR_PRE (str, "_dbus_string_get_length");
  if (str == g_watch_out) sm_snapshot (str);
  return SLEN (str);
}
static char g_cdata[2];
const char *_dbus_string_get_const_data (const DBusString *str) { STR_PRE (str, "_dbus_string_get_const_data"); return g_cdata; }

/* "Sets the length of a string. Can be used to truncate or lengthen the string. If the string is
 *  lengthened, the function may fail and return #FALSE." */
dbus_bool_t _dbus_string_set_length (DBusString *str, int length)
{
  STR_PRE (str, "_dbus_string_set_length"); PRE (length >= 0, "_dbus_string_set_length: length >= 0");
  if (length > SLEN (str))
    { if (nondet_bool () || length > STR_MAX) return FALSE; SM (str)->len = length; return TRUE; }
  if (length == SLEN (str)) return TRUE;
  if (str == g_watch_out)
    {
      _Bool found = sm_restore (str, length);
      __CPROVER_assert (found, "model limit: outgoing is truncated only to a length read before");
      return TRUE;
    }
  SM (str)->len = length; SM (str)->allocated = TAG_MAKE (0, 0, 0, 0, TAG_PROV (STAG (str)));
  return TRUE;
}
/* composition log: which marked buffers / one-character literals were appended to which buffer, in order */
#define SEQ_MAX 8
int g_seq[SEQ_MAX]; const DBusString *g_seq_dest[SEQ_MAX]; int g_seq_n;
static void sm_log (const DBusString *dest, int token) { if (g_seq_n < SEQ_MAX) { g_seq[g_seq_n] = token; g_seq_dest[g_seq_n] = dest; } g_seq_n++; }
/* "Appends a nul-terminated C-style string to a DBusString. @returns #FALSE if not enough memory." */
dbus_bool_t _dbus_string_append (DBusString *str, const char *buffer)
{
  STR_PRE (str, "_dbus_string_append"); PRE (buffer != NULL, "_dbus_string_append: buffer != NULL");
  int n = lit_len (buffer);
  if (nondet_bool () || !sm_room (str, n)) return FALSE;
  if (lit_eq (buffer, "EXTERNAL") || lit_eq (buffer, "DBUS_COOKIE_SHA1") || lit_eq (buffer, "ANONYMOUS")) g_out_names++;
  if (n == 1) sm_log (str, buffer[0]);
  sm_append_piece (str, lit_reply_kind (buffer), lit_ends_crlf (buffer), n);
  return TRUE;
}
/* "Appends a printf-style formatted string ... @returns #FALSE if no memory" */
dbus_bool_t _dbus_string_append_printf (DBusString *str, const char *format, ...)
{
  STR_PRE (str, "_dbus_string_append_printf"); PRE (format != NULL, "_dbus_string_append_printf");
  int n = nondet_int (); __CPROVER_assume (n >= lit_len (format) - 2 && n >= 1 && n <= 4096);
  if (nondet_bool () || !sm_room (str, n)) return FALSE;
  sm_append_piece (str, lit_reply_kind (format), lit_ends_crlf (format), n);
  return TRUE;
}
dbus_bool_t _dbus_string_append_int (DBusString *str, long value)
{
  STR_PRE (str, "_dbus_string_append_int");
  int n = nondet_int (); __CPROVER_assume (n >= 1 && n <= 21);
  if (nondet_bool () || !sm_room (str, n)) return FALSE;
  sm_append_piece (str, 0, 0, n);
  return TRUE;
}
#define COPY_PRE(source, start, dest, insert_at, what) \
  STR_PRE (source, what); STR_PRE (dest, what); PRE ((const void *) (source) != (const void *) (dest), what ": source != dest"); \
  PRE ((start) >= 0 && (start) <= SLEN (source) && (insert_at) >= 0 && (insert_at) <= SLEN (dest), what ": start/insert_at in range")
static void sm_insert (const DBusString *source, int start, int n, DBusString *dest, int insert_at)
{
  if (n == 0) return;
  if (insert_at == SLEN (dest) && start == 0 && n == SLEN (source)) { sm_append_buffer (dest, STAG (source), n); return; }
  if (insert_at == SLEN (dest)) { sm_append_piece (dest, 0, 0, n); return; }
  __CPROVER_assert (dest != g_watch_out, "model limit: text is only appended to outgoing, never inserted");
  SM (dest)->len += n;
  if (SLEN (dest) == n && start == 0 && n == SLEN (source)) SM (dest)->allocated = TAG_MAKE (TAG_OPENKIND (STAG (source)), STAG (source) & TAG_OPEN, TAG_NLINES (STAG (source)), TAG_LASTKIND (STAG (source)), TAG_PROV (STAG (dest)));
}
/* "Like _dbus_string_move(), but does not delete the section of the source string that's copied" */
dbus_bool_t _dbus_string_copy (const DBusString *source, int start, DBusString *dest, int insert_at)
{
  COPY_PRE (source, start, dest, insert_at, "_dbus_string_copy");
  int n = SLEN (source) - start;
  if (n > 0 && (nondet_bool () || !sm_room (dest, n))) return FALSE;
  if (start == 0 && insert_at == SLEN (dest) && TAG_PROV (STAG (source)) != 0) sm_log (dest, TAG_PROV (STAG (source)));
  sm_insert (source, start, n, dest, insert_at);
  return TRUE;
}
int g_copy_len_calls;
/* the first two segments cut out of a string (DBUS_COOKIE_SHA1 response: challenge, hash) */
const DBusString *g_cut_src[3]; int g_cut_start[3], g_cut_len[3]; const DBusString *g_cut_dest[3];
dbus_bool_t _dbus_string_copy_len (const DBusString *source, int start, int len, DBusString *dest, int insert_at)
{
  COPY_PRE (source, start, dest, insert_at, "_dbus_string_copy_len");
  PRE (len >= 0 && len <= SLEN (source) - start, "_dbus_string_copy_len: len in range");
  g_copy_len_calls++;
  if (g_copy_len_calls <= 2) { g_cut_src[g_copy_len_calls] = source; g_cut_start[g_copy_len_calls] = start; g_cut_len[g_copy_len_calls] = len; g_cut_dest[g_copy_len_calls] = dest; }
  if (len == 0) return TRUE;
  if (nondet_bool () || !sm_room (dest, len)) return FALSE;
  sm_insert (source, start, len, dest, insert_at);
  return TRUE;
}
/* "Moves the end of one string into another string." */
dbus_bool_t _dbus_string_move (DBusString *source, int start, DBusString *dest, int insert_at)
{
  COPY_PRE (source, start, dest, insert_at, "_dbus_string_move");
  int n = SLEN (source) - start;
  if (n == 0) return TRUE;
  if (nondet_bool () || !sm_room (dest, n)) return FALSE;
  sm_insert (source, start, n, dest, insert_at);
  __CPROVER_assert (source != g_watch_out && source != g_watch_in, "model limit: watched buffers are not moved from");
  SM (source)->len = start; if (start == 0) SM (source)->allocated = TAG_MAKE (0, 0, 0, 0, TAG_PROV (STAG (source)));
  return TRUE;
}
/* "Deletes a segment of a DBusString with length len starting at start." */
void _dbus_string_delete (DBusString *str, int start, int len)
{
  STR_PRE (str, "_dbus_string_delete");
  PRE (start >= 0 && len >= 0 && start <= SLEN (str) && len <= SLEN (str) - start, "_dbus_string_delete: segment in range");
  if (str == g_watch_in) { if (start == 0) g_in_deleted += len; else if (len > 0) g_in_other_edit = 1; }
  if (str == g_watch_out && len > 0)
    { /* bytes written to the socket leave from the front; lines counted so far stay counted */
      __CPROVER_assert (start == 0, "model limit: outgoing only loses a prefix"); }
  SM (str)->len -= len;
}
dbus_bool_t _dbus_string_replace_len (const DBusString *source, int start, int len, DBusString *dest, int replace_at, int replace_len)
{
  COPY_PRE (source, start, dest, replace_at, "_dbus_string_replace_len");
  PRE (len >= 0 && len <= SLEN (source) - start && replace_len >= 0 && replace_len <= SLEN (dest) - replace_at, "_dbus_string_replace_len: ranges");
  if (nondet_bool () || !sm_room (dest, len)) return FALSE;
  SM (dest)->len += len - replace_len;
  return TRUE;
}
/* "Finds the given substring in the string, returning #TRUE and filling in the byte index where the
 *  substring was found, if it was found. Returns #FALSE if the substring wasn't found. Sets *start to
 *  the length of the string if the substring is not found." */
int g_find_calls, g_find_from, g_find_k; _Bool g_find_found;
dbus_bool_t _dbus_string_find (const DBusString *str, int start, const char *substr, int *found)
{
  STR_PRE (str, "_dbus_string_find"); PRE (substr != NULL && start >= 0 && start <= SLEN (str), "_dbus_string_find: start in range");
  int n = lit_len (substr);
  int k = nondet_int ();
  g_find_calls++; g_find_from = start;
  if (n <= SLEN (str) - start && nondet_bool ())
    { __CPROVER_assume (k >= start && k <= SLEN (str) - n); if (found) *found = k; g_find_found = 1; g_find_k = k; return TRUE; }
  if (found) *found = SLEN (str);
  g_find_found = 0; g_find_k = SLEN (str);
  return FALSE;
}
/* "Finds a blank (space or tab) in the string. Returns #TRUE if found, #FALSE otherwise. If a blank
 *  is not found sets *found to the length of the string." */
dbus_bool_t _dbus_string_find_blank (const DBusString *str, int start, int *found)
{
  STR_PRE (str, "_dbus_string_find_blank"); PRE (start >= 0 && start <= SLEN (str), "_dbus_string_find_blank: start in range");
  int k = nondet_int ();
  g_fb_str = str;
  if (start < SLEN (str) && nondet_bool ())
    { __CPROVER_assume (k >= start && k < SLEN (str)); if (found) *found = k; g_fb_idx = k; g_fb_found = 1; return TRUE; }
  if (found) *found = SLEN (str);
  g_fb_idx = SLEN (str); g_fb_found = 0;
  return FALSE;
}
/* "Skips blanks from start, storing the first non-blank in *end (blank is space or tab)." */
void _dbus_string_skip_blank (const DBusString *str, int start, int *end)
{
  STR_PRE (str, "_dbus_string_skip_blank"); PRE (start >= 0 && start <= SLEN (str), "_dbus_string_skip_blank: start in range");
  int k = nondet_int ();
  __CPROVER_assume (k >= start && k <= SLEN (str));
  if (str == g_fb_str && start == g_fb_idx) __CPROVER_assume (g_fb_found ? k > start : k == start);   /* str[start] is the blank just found */
  if (end) *end = k;
}
/* "Decodes a string from hex encoding. @param end_return return location of the end of the hex data
 *  ... @returns #TRUE if decoding was successful, #FALSE if no memory."  (each byte is two hex digits:
 *  the decoded length is the number of digit pairs begun before *end_return) */
int g_hex_decode_calls; _Bool g_hex_decode_complete;
dbus_bool_t _dbus_string_hex_decode (const DBusString *source, int start, int *end_return, DBusString *dest, int insert_at)
{
  COPY_PRE (source, start, dest, insert_at, "_dbus_string_hex_decode");
  g_hex_decode_calls++;
  if (nondet_bool ()) return FALSE;
  int e = nondet_int (); __CPROVER_assume (e >= start && e <= SLEN (source));
  int n = (e - start + 1) / 2;
  if (!sm_room (dest, n)) return FALSE;
  if (n > 0) { if (insert_at == SLEN (dest)) sm_append_piece (dest, 0, 0, n); else SM (dest)->len += n; }
  if (end_return) *end_return = e;
  g_hex_decode_complete = (e == SLEN (source));
  return TRUE;
}
/* "Encodes a string in hex, the way MD5 and SHA-1 are usually encoded. (Each byte is two hex digits.)" */
dbus_bool_t _dbus_string_hex_encode (const DBusString *source, int start, DBusString *dest, int insert_at)
{
  COPY_PRE (source, start, dest, insert_at, "_dbus_string_hex_encode");
  int n = SLEN (source) - start;
  if (nondet_bool () || n > STR_MAX / 2 || !sm_room (dest, 2 * n)) return FALSE;
  if (n > 0) { if (insert_at == SLEN (dest)) sm_append_piece (dest, 0, 0, 2 * n); else { __CPROVER_assert (dest != g_watch_out, "model limit: text is only appended to outgoing"); SM (dest)->len += 2 * n; } }
  return TRUE;
}
/* "Checks that the given range of the string is valid ASCII with no nul bytes." */
int g_ascii_calls; _Bool g_ascii_result;
dbus_bool_t _dbus_string_validate_ascii (const DBusString *str, int start, int len)
{
  STR_PRE (str, "_dbus_string_validate_ascii"); PRE (start >= 0 && start <= SLEN (str) && len >= 0, "_dbus_string_validate_ascii: range");
  g_ascii_calls++; g_ascii_result = 0;
  if (len > SLEN (str) - start) return FALSE;
  if (nondet_bool ()) { if (start == 0 && len == SLEN (str)) g_ascii_ok_str = str; g_ascii_result = 1; return TRUE; }
  return FALSE;
}
dbus_bool_t _dbus_string_validate_utf8 (const DBusString *str, int start, int len)
{
  STR_PRE (str, "_dbus_string_validate_utf8"); PRE (start >= 0 && start <= SLEN (str) && len >= 0, "_dbus_string_validate_utf8: range");
  if (len > SLEN (str) - start) return FALSE;
  return nondet_bool ();
}
/* "Tests two DBusString for equality." */
const DBusString *g_eq_a, *g_eq_b; _Bool g_eq_result; int g_eq_calls;
dbus_bool_t _dbus_string_equal (const DBusString *a, const DBusString *b)
{
  STR_PRE (a, "_dbus_string_equal"); STR_PRE (b, "_dbus_string_equal");
  dbus_bool_t r = nondet_bool ();
  if (SLEN (a) != SLEN (b)) r = FALSE;
  g_eq_a = a; g_eq_b = b; g_eq_result = r; g_eq_calls++;
  return r;
}
/* "Tests two DBusString for equality up to the given length" - a PREFIX comparison: it is not evidence of equality of
 * the whole strings (g_eq_* is not touched).  Not called by the unchanged code on the paths under contract; present so
 * that a change that compares only a prefix is refuted by the hash-equality obligations instead of leaving the unit undecided. */
dbus_bool_t _dbus_string_equal_len (const DBusString *a, const DBusString *b, int len)
{
  STR_PRE (a, "_dbus_string_equal_len"); STR_PRE (b, "_dbus_string_equal_len"); PRE (len >= 0, "_dbus_string_equal_len: length");
  return nondet_bool ();
}
/* "Checks whether a string is equal to a C string." */
const char *g_eqc_true; int g_eqc_calls;       /* the literal that compared equal last */
dbus_bool_t _dbus_string_equal_c_str (const DBusString *a, const char *c_str)
{
  STR_PRE (a, "_dbus_string_equal_c_str"); PRE (c_str != NULL, "_dbus_string_equal_c_str");
  g_eqc_calls++;
  if (SLEN (a) != lit_len (c_str)) return FALSE;
  if (nondet_bool ()) { g_eqc_true = c_str; return TRUE; }
  return FALSE;
}
/* "Checks whether a string array contains the given string." */
int g_contains_calls; _Bool g_allowed_answer;
dbus_bool_t _dbus_string_array_contains (const char **array, const char *str)
{ PRE (array != NULL && str != NULL, "_dbus_string_array_contains"); g_contains_calls++; g_allowed_answer = nondet_bool (); return g_allowed_answer; }

#else  /* the real dbus/dbus-string.c is linked (B units) */
#define STR_PRE(s, what) ((void) 0)
#endif
/* ------------------------------------------------------------------------------------------
 * DBusError (dbus-errors.c): name == NULL <=> not set
 * ------------------------------------------------------------------------------------------ */
static const char g_err_nomem[] = DBUS_ERROR_NO_MEMORY;
static const char g_err_other[] = DBUS_ERROR_FAILED;
static void model_set_error (DBusError *e, _Bool nomem)
{ if (e) { PRE (e->name == NULL, "setting an error: error not already set"); e->name = nomem ? g_err_nomem : g_err_other; e->message = g_err_other; } }
dbus_bool_t dbus_error_has_name (const DBusError *error, const char *name)
{ PRE (error != NULL && name != NULL, "dbus_error_has_name"); return error->name != NULL && lit_eq (error->name, name); }
dbus_bool_t dbus_error_is_set (const DBusError *error) { PRE (error != NULL, "dbus_error_is_set"); return error->name != NULL; }
void dbus_error_free (DBusError *error) { PRE (error != NULL, "dbus_error_free"); error->name = NULL; error->message = NULL; }
void dbus_error_init (DBusError *error) { PRE (error != NULL, "dbus_error_init"); error->name = NULL; error->message = NULL; }

/* ------------------------------------------------------------------------------------------
 * DBusCredentials model: "a set of credentials".  One abstract value per kind; 0 / UNSET = absent.
 * Two objects hold the same gids / sid / label / audit data iff the abstract values are equal.
 * ------------------------------------------------------------------------------------------ */
struct DBusCredentials { int refcount; dbus_uid_t unix_uid; dbus_pid_t pid; int gids; int sid; int label; int adt; };
#define CRED_EMPTY(c) ((c)->unix_uid == DBUS_UID_UNSET && (c)->pid == DBUS_PID_UNSET && (c)->gids == 0 && (c)->sid == 0 && (c)->label == 0 && (c)->adt == 0)
#define CRED_ANON(c) ((c)->unix_uid == DBUS_UID_UNSET && (c)->sid == 0)      /* "no user identities in the object" */
#define CRED_SAME_USER(a, b) ((a)->unix_uid == (b)->unix_uid && (a)->sid == (b)->sid)
/* "the first credentials object contains all the credentials found in the second credentials object" */
#define CRED_SUPERSET(c, s) (((s)->pid == DBUS_PID_UNSET || (s)->pid == (c)->pid) && ((s)->unix_uid == DBUS_UID_UNSET || (s)->unix_uid == (c)->unix_uid) && \
   ((s)->gids == 0 || (s)->gids == (c)->gids) && ((s)->sid == 0 || (s)->sid == (c)->sid) && ((s)->label == 0 || (s)->label == (c)->label) && ((s)->adt == 0 || (s)->adt == (c)->adt))
#define CRED_LIVE(c) ((c) != NULL && (c)->refcount > 0)
#define CRED_EQ(x, y) ((x)->unix_uid == (y)->unix_uid && (x)->pid == (y)->pid && (x)->gids == (y)->gids && (x)->sid == (y)->sid && (x)->label == (y)->label && (x)->adt == (y)->adt)
static void cred_havoc (DBusCredentials *c)
{ c->refcount = 1; c->unix_uid = nondet_ulong (); c->pid = nondet_ulong (); c->gids = nondet_int (); c->sid = nondet_int (); c->label = nondet_int (); c->adt = nondet_int ();
  __CPROVER_assume (c->gids >= 0 && c->sid >= 0 && c->label >= 0 && c->adt >= 0); }
static void cred_clear (DBusCredentials *c) { c->unix_uid = DBUS_UID_UNSET; c->pid = DBUS_PID_UNSET; c->gids = 0; c->sid = 0; c->label = 0; c->adt = 0; }

/* the identity of the server process itself (ASSUMED: what geteuid()/getpid() report) */
DBusCredentials g_myself; _Bool g_myself_out; int g_cred_new_calls, g_cred_unref_myself;
DBusCredentials *_dbus_credentials_new_from_current_process (void)
{
  if (nondet_bool ()) return NULL;
  PRE (!g_myself_out, "model limit: one current-process credentials object at a time");
  g_myself.refcount = 1; g_myself_out = 1; g_cred_new_calls++;
  return &g_myself;
}
void _dbus_credentials_unref (DBusCredentials *credentials)
{
  PRE (CRED_LIVE (credentials), "_dbus_credentials_unref: live object");
  credentials->refcount--;
  if (credentials == &g_myself && credentials->refcount == 0) { g_myself_out = 0; g_cred_unref_myself++; }
}
/* "Clear all credentials in the object." */
void _dbus_credentials_clear (DBusCredentials *credentials) { PRE (CRED_LIVE (credentials), "_dbus_credentials_clear"); cred_clear (credentials); }
/* "Merge the given credential found in the second object into the first object, overwriting the first
 *  object's value for that credential. Does nothing if the second object does not contain the specified
 *  credential. i.e., will never delete a credential from the first object. @returns #FALSE if no memory" */
dbus_bool_t _dbus_credentials_add_credential (DBusCredentials *credentials, DBusCredentialType which, DBusCredentials *other)
{
  PRE (CRED_LIVE (credentials) && CRED_LIVE (other), "_dbus_credentials_add_credential");
  if (nondet_bool ()) return FALSE;
  switch (which)
    {
    case DBUS_CREDENTIAL_UNIX_PROCESS_ID: if (other->pid != DBUS_PID_UNSET) credentials->pid = other->pid; break;
    case DBUS_CREDENTIAL_UNIX_USER_ID: if (other->unix_uid != DBUS_UID_UNSET) credentials->unix_uid = other->unix_uid; break;
    case DBUS_CREDENTIAL_UNIX_GROUP_IDS: if (other->gids != 0) credentials->gids = other->gids; break;
    case DBUS_CREDENTIAL_WINDOWS_SID: if (other->sid != 0) credentials->sid = other->sid; break;
    case DBUS_CREDENTIAL_LINUX_SECURITY_LABEL: if (other->label != 0) credentials->label = other->label; break;
    case DBUS_CREDENTIAL_ADT_AUDIT_DATA_ID: if (other->adt != 0) credentials->adt = other->adt; break;
    default: PRE (0, "_dbus_credentials_add_credential: known credential type");
    }
  return TRUE;
}
/* "Merge all credentials found in the second object into the first object, overwriting the first object
 *  if there are any overlaps. @returns #FALSE if no memory"  (on failure an arbitrary subset has been merged) */
dbus_bool_t _dbus_credentials_add_credentials (DBusCredentials *credentials, DBusCredentials *other)
{
  PRE (CRED_LIVE (credentials) && CRED_LIVE (other) && credentials != other, "_dbus_credentials_add_credentials");
  dbus_bool_t ok = !nondet_bool ();
  if ((ok || nondet_bool ()) && other->pid != DBUS_PID_UNSET) credentials->pid = other->pid;
  if ((ok || nondet_bool ()) && other->unix_uid != DBUS_UID_UNSET) credentials->unix_uid = other->unix_uid;
  if ((ok || nondet_bool ()) && other->gids != 0) credentials->gids = other->gids;
  if ((ok || nondet_bool ()) && other->adt != 0) credentials->adt = other->adt;
  if ((ok || nondet_bool ()) && other->label != 0) credentials->label = other->label;
  if ((ok || nondet_bool ()) && other->sid != 0) credentials->sid = other->sid;
  return ok;
}
/* ghost: the last evaluation of the superset test */
DBusCredentials *g_sup_a, *g_sup_b; _Bool g_sup_result; int g_sup_calls;
dbus_bool_t _dbus_credentials_are_superset (DBusCredentials *credentials, DBusCredentials *possible_subset)
{
  PRE (CRED_LIVE (credentials) && CRED_LIVE (possible_subset), "_dbus_credentials_are_superset");
  g_sup_a = credentials; g_sup_b = possible_subset; g_sup_result = CRED_SUPERSET (credentials, possible_subset); g_sup_calls++;
  return g_sup_result;
}
dbus_bool_t _dbus_credentials_are_empty (DBusCredentials *credentials) { PRE (CRED_LIVE (credentials), "_dbus_credentials_are_empty"); return CRED_EMPTY (credentials); }
dbus_bool_t _dbus_credentials_are_anonymous (DBusCredentials *credentials) { PRE (CRED_LIVE (credentials), "_dbus_credentials_are_anonymous"); return CRED_ANON (credentials); }
/* "Check whether the user-identifying credentials in two credentials objects are identical. ... any kind
 *  of user ID credentials must be the same (UNIX user ID, Windows user SID, etc.) and present in both
 *  objects for the function to return #TRUE." */
dbus_bool_t _dbus_credentials_same_user (DBusCredentials *credentials, DBusCredentials *other)
{ PRE (CRED_LIVE (credentials) && CRED_LIVE (other), "_dbus_credentials_same_user");
  /* two objects without any user identity: the doc comment says FALSE ("present in both"), the code compares the unset values; left open here */
  if (CRED_ANON (credentials) && CRED_ANON (other)) return nondet_bool ();
  return CRED_SAME_USER (credentials, other); }
dbus_bool_t _dbus_credentials_include (DBusCredentials *credentials, DBusCredentialType type)
{
  PRE (CRED_LIVE (credentials), "_dbus_credentials_include");
  switch (type)
    {
    case DBUS_CREDENTIAL_UNIX_PROCESS_ID: return credentials->pid != DBUS_PID_UNSET;
    case DBUS_CREDENTIAL_UNIX_USER_ID: return credentials->unix_uid != DBUS_UID_UNSET;
    case DBUS_CREDENTIAL_UNIX_GROUP_IDS: return credentials->gids != 0;
    case DBUS_CREDENTIAL_WINDOWS_SID: return credentials->sid != 0;
    case DBUS_CREDENTIAL_LINUX_SECURITY_LABEL: return credentials->label != 0;
    case DBUS_CREDENTIAL_ADT_AUDIT_DATA_ID: return credentials->adt != 0;
    default: PRE (0, "_dbus_credentials_include: known credential type"); return FALSE;
    }
}
dbus_pid_t _dbus_credentials_get_pid (DBusCredentials *credentials) { PRE (CRED_LIVE (credentials), "_dbus_credentials_get_pid"); return credentials->pid; }
dbus_uid_t _dbus_credentials_get_unix_uid (DBusCredentials *credentials) { PRE (CRED_LIVE (credentials), "_dbus_credentials_get_unix_uid"); return credentials->unix_uid; }
/* "Adds the credentials corresponding to the given username. Used among other purposes to parses a
 *  desired identity provided during authentication" — spec: "An authorization identity consisting entirely
 *  of ASCII decimal digits represents a numeric user ID ... Non-numeric ... login name ... normalized to the
 *  corresponding numeric user ID."  Result (ASSUMED, user database): some uid is added, or an error. */
int g_add_from_user_calls; _Bool g_userdb_ok; dbus_uid_t g_userdb_uid;   /* what the user database answered last */
dbus_bool_t _dbus_credentials_add_from_user (DBusCredentials *credentials, const DBusString *username, DBusCredentialsAddFlags flags, DBusError *error)
{
  PRE (CRED_LIVE (credentials), "_dbus_credentials_add_from_user"); STR_PRE (username, "_dbus_credentials_add_from_user");
  g_add_from_user_calls++; g_userdb_ok = 0;
  if (nondet_bool ()) { model_set_error (error, nondet_bool ()); return FALSE; }
  dbus_uid_t u = nondet_ulong ();      /* any number, INCLUDING the one that spells DBUS_UID_UNSET ("18446744073709551615"): a numeric identity is taken literally (dbus-userdb.c), so TRUE does not imply that the identity now names a user */
  credentials->unix_uid = u; g_userdb_ok = 1; g_userdb_uid = u;
  return TRUE;
}
#endif
