/* C07 (B): the quoting / key-scanning rules of the real tokenizer (find_value, find_key of bus/signals.c, pristine)
 * against the reference written from the specification's quoting paragraph (spec/match_ref.h: ref_value; white-space
 * reading of ref_parse_rule), on every text of at most C07_N bytes over the alphabet { a = ' \ , space }.
 *   VERIF_PART=1  find_value(text, 0)  vs ref_value:  accepted <=> accepted; same value bytes; same end position
 *   VERIF_PART=2  find_key(text, 0)    vs reference key scan: same classification (pair with key / nothing left /
 *                 invalid), same key bytes, same position of the value
 * (The whole tokenize_rule against a reference tokenizer was measured infeasible: out of memory at 16 GB for N = 6;
 *  the composition of the two functions is covered by the P unit C07.tokenize.)
 * DBusString is replaced by a functional model (fixed-capacity byte buffers, no allocation failure).
 * -DVERIF_EXCLUDE_KNOWN: leave out the family of texts on which the unchanged tree is known to deviate
 *   (PART 1: a backslash directly followed by a comma or by a backslash: the real tokenizer lets an unquoted
 *    backslash shield the next byte, the specification's text does not; PART 2: a pair without a key, e.g. "=").
 */
#include <config.h>
#include "dbus/dbus-internals.h"
#include "verif_prelude.h"
#include "verif_ghost.h"
#define REF_NO_GRAMMAR
#include "match_ref.h"
#include <stdlib.h>
long verif_gk, verif_gk2, verif_w, verif_w2; int verif_flag;
#include VERIF_TU
_Bool nondet_bool (void); int nondet_int (void); unsigned char nondet_uchar (void);
#define REACH(tag) __CPROVER_assert(0, "REACH:" tag)
#define IMP(a, b) (!(a) || (b))
#ifndef C07_N
#define C07_N 8
#endif
#define CAP (2 * C07_N + 2)
void _dbus_real_assert (dbus_bool_t condition, const char *condition_text, const char *file, int line, const char *func)
{ __CPROVER_assert (condition, "dbus assertion"); __CPROVER_assume (condition); }
void _dbus_verbose_real (const char *file, const int line, const char *function, const char *format, ...) {}
const char bus_no_memory_message[] = "oom";
/* ---- DBusError model ---- */
void dbus_set_error (DBusError *e, const char *name, const char *format, ...) { if (e) { e->name = name; e->message = "m"; } }
void dbus_set_error_const (DBusError *e, const char *name, const char *message) { if (e) { e->name = name; e->message = message; } }
dbus_bool_t dbus_error_is_set (const DBusError *e) { return e->name != NULL; }
/* ---- DBusString model: the rule text (read only) and two work strings ---- */
static char g_text[C07_N + 1];
unsigned char in_buf[C07_N + 1]; int in_len;      /* the text as numbers (named in_*: extracted from counterexample traces for native replay) */ static const DBusString *g_text_str;
typedef struct { char b[CAP]; int len; } WStr;
static WStr g_w[2]; static DBusString *g_wp[2]; static int g_inits;
static WStr *W (const DBusString *s) { __CPROVER_assert (s == g_wp[0] || s == g_wp[1], "model: a work string"); return s == g_wp[0] ? &g_w[0] : &g_w[1]; }
dbus_bool_t _dbus_string_init (DBusString *s) { __CPROVER_assert (g_inits < 2, "model: two work strings"); g_wp[g_inits] = s; g_w[g_inits].len = 0; g_inits++; return TRUE; }
void _dbus_string_free (DBusString *s) { }
int _dbus_string_get_length (const DBusString *s) { return s == g_text_str ? in_len : W (s)->len; }
const char *_dbus_string_get_const_data (const DBusString *s) { __CPROVER_assert (s == g_text_str, "model: data of the rule text"); return g_text; }
dbus_bool_t _dbus_string_append_byte (DBusString *s, unsigned char byte) { WStr *w = W (s); __CPROVER_assert (w->len < CAP - 1, "model: capacity"); w->b[w->len++] = (char) byte; return TRUE; }
dbus_bool_t _dbus_string_append_len (DBusString *s, const char *buffer, int len)
{ WStr *w = W (s); __CPROVER_assert (len >= 0 && w->len + len < CAP, "model: capacity"); for (int k = 0; k < len; k++) w->b[w->len + k] = buffer[k]; w->len += len; return TRUE; }
dbus_bool_t _dbus_string_set_length (DBusString *s, int length) { W (s)->len = length; return TRUE; }
/* steal_data: hands out the bytes as a C string (static pool: slot per call) */
static char g_tok[2 * (MAX_RULE_TOKENS + 1)][CAP]; static int g_tok_len[2 * (MAX_RULE_TOKENS + 1)]; static int g_steals;
dbus_bool_t _dbus_string_steal_data (DBusString *s, char **data_return)
{
  WStr *w = W (s); __CPROVER_assert (g_steals < 2 * (MAX_RULE_TOKENS + 1), "model: token pool");
  for (int k = 0; k < CAP; k++) g_tok[g_steals][k] = (k < w->len) ? w->b[k] : 0;
  g_tok_len[g_steals] = w->len; *data_return = g_tok[g_steals]; g_steals++; w->len = 0; return TRUE;
}
void dbus_free (void *p) { }

static const char alphabet[6] = { 'a', '=', '\'', '\\', ',', ' ' };

void harness (void)
{
  DBusString text, work; DBusError err; err.name = NULL; err.message = NULL;
  in_len = nondet_int (); __CPROVER_assume (in_len >= 0 && in_len <= C07_N);
  for (int k = 0; k < C07_N; k++) { unsigned char c = nondet_uchar (); __CPROVER_assume (c < 6); in_buf[k] = (k < in_len) ? (unsigned char) alphabet[c] : 0; g_text[k] = (char) in_buf[k]; }
  in_buf[C07_N] = 0; g_text[C07_N] = 0; g_text_str = &text; g_inits = 0; g_steals = 0;
  _dbus_string_init (&work);
#if VERIF_PART == 1
  static char rv[CAP]; long rl = 0; int end = -1;
  long want = ref_value (g_text, 0, rv, &rl);
#ifdef VERIF_EXCLUDE_KNOWN
  { _Bool shield = 0;   /* a backslash directly followed by a comma or by another backslash (anywhere in the text) */
    for (int k = 0; k + 1 < C07_N; k++) if (k + 1 < in_len && g_text[k] == '\\' && (g_text[k + 1] == ',' || g_text[k + 1] == '\\')) shield = 1;
    __CPROVER_assume (!shield); }
#endif
  dbus_bool_t ok = find_value (&text, 0, "k", &work, &end, &err);
  __CPROVER_assert ((ok != 0) == (want >= 0), "post1 a value is accepted iff every quoted section is closed (\"an apostrophe ends the quoted section\")");
  if (ok && want >= 0)
    {
      _Bool same = (g_w[0].len == rl); for (int k = 0; k < CAP; k++) if (k < rl && k < g_w[0].len && g_w[0].b[k] != rv[k]) same = 0;
      __CPROVER_assert (same, "post2 value bytes equal the reference (within quotes a backslash is itself; outside, \\' is an apostrophe, any other backslash is itself; an unquoted comma ends the value)");
      __CPROVER_assert (end == want, "post3 the value ends where the reference says (behind the terminating comma, or at the end of the text)");
      REACH ("accepted"); if (rl >= 3) REACH ("value"); if (want < in_len) REACH ("comma-terminated");
    }
  if (!ok && want < 0) REACH ("rejected");
#else
  /* reference key scan: [white] key [white] '=' ; nothing but white space left => no further pair; a pair needs a key */
  long pos = 0, ks, ke; int cls;   /* 0 invalid, 1 key, 2 nothing left */
  while (pos < in_len && REF_ISWHITE (g_text[pos])) pos++;
  ks = pos; while (pos < in_len && g_text[pos] != '=' && !REF_ISWHITE (g_text[pos])) pos++;
  ke = pos; while (pos < in_len && REF_ISWHITE (g_text[pos])) pos++;
  if (ks >= in_len) cls = 2; else if (ke == ks) cls = 0; else if (pos >= in_len || g_text[pos] != '=') cls = 0; else cls = 1;
#ifdef VERIF_EXCLUDE_KNOWN
  __CPROVER_assume (!(ks < in_len && ke == ks));     /* a pair without a key */
#endif
  int vp = -1; dbus_bool_t ok = find_key (&text, 0, &work, &vp, &err);
  __CPROVER_assert ((ok != 0) == (cls != 0), "post1 find_key accepts iff the text starts with white space only, or with [white] key [white] '='  (a pair needs a key)");
  if (ok && cls == 1)
    {
      _Bool same = (g_w[0].len == ke - ks); for (int k = 0; k < C07_N; k++) if (k < ke - ks && g_w[0].b[k] != g_text[ks + k]) same = 0;
      __CPROVER_assert (same, "post2 the key is the text between the white space and the '='");
      __CPROVER_assert (vp == pos + 1, "post3 the value starts right behind the '='");
      REACH ("key");
    }
  if (ok && cls == 2) { __CPROVER_assert (g_w[0].len == 0 && vp == in_len, "post4 nothing left: no key, cursor at the end"); REACH ("nothing-left"); }
  if (!ok) REACH ("invalid");
#endif
}
