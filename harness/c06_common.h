/* Shared by the C06 rule-semantics harnesses: string pool, message-facts record F, callee contracts as stubs,
 * and the construction of a real BusPolicyRule together with its config-file view (spec_rule). */
#include <config.h>
#include "dbus/dbus-internals.h"
#include "verif_prelude.h"
#include VERIF_TU
#include "policy_ref.h"

#ifndef VERIF_N
#define VERIF_N 1
#endif
#ifndef VERIF_GAP
#define VERIF_GAP 0
#endif
#define REACH(tag) __CPROVER_assert(0, "REACH:" tag)
#define IMP(a, b) (!(a) || (b))
#define PRE(c, what) __CPROVER_assert((c), "precondition of " what)
_Bool nondet_bool (void); int nondet_int (void); unsigned nondet_uint (void);

/* the wire values of the message types are the specification's */
_Static_assert (DBUS_MESSAGE_TYPE_INVALID == SPEC_TYPE_ANY && DBUS_MESSAGE_TYPE_METHOD_CALL == SPEC_TYPE_METHOD_CALL &&
                DBUS_MESSAGE_TYPE_METHOD_RETURN == SPEC_TYPE_METHOD_RETURN && DBUS_MESSAGE_TYPE_ERROR == SPEC_TYPE_ERROR &&
                DBUS_MESSAGE_TYPE_SIGNAL == SPEC_TYPE_SIGNAL && DBUS_MAXIMUM_MESSAGE_UNIX_FDS == SPEC_MAX_FDS, "spec constants");
_Static_assert (BUS_POLICY_TRISTATE_ANY == SPEC_TRI_ANY && BUS_POLICY_TRISTATE_FALSE == SPEC_TRI_FALSE && BUS_POLICY_TRISTATE_TRUE == SPEC_TRI_TRUE, "tristate");

/* literals chosen to separate: equal / prefix followed by '.' / prefix not followed by '.' / unrelated */
static char POOL[4][8] = { "a.b", "a.b.c", "a.bc", "a.c" };    /* one object: cheaper for the back end than four */
static char *pool (int k) { return POOL[k]; }
static char *pick (void) { int k = nondet_int (); __CPROVER_assume (k >= 0 && k < 4); return pool (k); }
static char *pick_or_null (void) { return nondet_bool () ? pick () : NULL; }

spec_facts F;                                   /* message facts + ghost registry (inputs; havocked below) */
static char o_msg, o_reg, o_peer, o_addr, o_prop, o_svc[SPEC_NAMES];
#define MSG ((DBusMessage *) &o_msg)
#define REG ((BusRegistry *) &o_reg)
#define PEER ((DBusConnection *) &o_peer)

/* ---- callee contracts as stubs: each returns the corresponding field of F ---- */
int dbus_message_get_type (DBusMessage *m) { PRE (m == MSG, "dbus_message_get_type"); return F.type; }
const char *dbus_message_get_path (DBusMessage *m) { PRE (m == MSG, "dbus_message_get_path"); return F.path; }
const char *dbus_message_get_interface (DBusMessage *m) { PRE (m == MSG, "dbus_message_get_interface"); return F.interface; }
const char *dbus_message_get_member (DBusMessage *m) { PRE (m == MSG, "dbus_message_get_member"); return F.member; }
const char *dbus_message_get_error_name (DBusMessage *m) { PRE (m == MSG, "dbus_message_get_error_name"); return F.error_name; }
const char *dbus_message_get_destination (DBusMessage *m) { PRE (m == MSG, "dbus_message_get_destination"); return F.destination; }
dbus_uint32_t dbus_message_get_reply_serial (DBusMessage *m) { PRE (m == MSG, "dbus_message_get_reply_serial"); return F.reply_serial; }
unsigned int _dbus_message_get_n_unix_fds (DBusMessage *m) { PRE (m == MSG, "_dbus_message_get_n_unix_fds"); return F.n_fds; }
dbus_bool_t dbus_message_contains_unix_fds (DBusMessage *m) { PRE (m == MSG, "dbus_message_contains_unix_fds"); return F.n_fds > 0; }     /* consistent with the count */
/* API doc: "Checks whether the message was sent to the given name" (textual comparison with the field) */
dbus_bool_t dbus_message_has_destination (DBusMessage *m, const char *name)
{ PRE (m == MSG && name != NULL, "dbus_message_has_destination"); return F.destination != NULL && spec_streq (F.destination, name); }
dbus_bool_t dbus_message_has_sender (DBusMessage *m, const char *name)
{ PRE (m == MSG && name != NULL, "dbus_message_has_sender"); return F.sender_name != NULL && spec_streq (F.sender_name, name); }
/* registry: ghost map name -> (exists, peer is primary or queued owner); the hash table is never executed */
BusService *bus_registry_lookup (BusRegistry *registry, const DBusString *service_name)
{
  PRE (registry == REG && service_name != NULL, "bus_registry_lookup");
  const char *s = _dbus_string_get_const_data (service_name);
  for (int k = 0; k < SPEC_NAMES; k++)
    if (F.reg_exists[k] && spec_streq (F.reg_name[k], s)) return (BusService *) &o_svc[k];
  return NULL;
}
dbus_bool_t bus_service_owner_in_queue (BusService *service, DBusConnection *connection)
{
  PRE (service != NULL && __CPROVER_same_object (service, o_svc) && connection == PEER, "bus_service_owner_in_queue: service from the lookup, connection is the peer");
  return F.reg_peer_in_queue[(char *) service - o_svc];
}
/* the primary owner of a name is one of its owners; whether the peer is the primary or only queued is arbitrary (ghost).
 * Not called by the unchanged code of the rule checks (they ask bus_service_owner_in_queue: "receive_sender ... owned by
 * the sender, including queued owners"); present so that a change that asks for the primary owner only is refuted, not
 * left undecided. */
static _Bool g_peer_is_primary[SPEC_NAMES];
static char o_other_conn;
DBusConnection *bus_service_get_primary_owners_connection (BusService *service)
{
  PRE (service != NULL && __CPROVER_same_object (service, o_svc), "bus_service_get_primary_owners_connection: service from the lookup");
  return g_peer_is_primary[(char *) service - o_svc] ? PEER : (DBusConnection *) &o_other_conn;
}
/* contract (doc comment in connection.h/.c + man page): TRUE iff the connection is primary or queued owner of a
 * name in the namespace of the prefix; enforced on the real function by unit C06.owner_by_prefix */
dbus_bool_t bus_connection_is_queued_owner_by_prefix (DBusConnection *connection, const char *name_prefix)
{
  PRE (connection == PEER && name_prefix != NULL, "bus_connection_is_queued_owner_by_prefix");
  return spec_peer_owns_in_namespace (&F, NULL, name_prefix);
}

static void havoc_facts (void)
{
  F.type = nondet_int (); __CPROVER_assume (F.type >= 1 && F.type <= 5);      /* 5: a type unknown to this version */
  F.path = pick_or_null (); F.interface = pick_or_null (); F.member = pick_or_null (); F.error_name = pick_or_null ();
  F.destination = pick_or_null (); F.sender_name = pick_or_null ();
  F.reply_serial = nondet_uint (); F.n_fds = nondet_uint (); F.requested_reply = nondet_bool ();
  F.peer_is_connection = nondet_bool (); F.proposed_is_addressed = nondet_bool ();
  for (int k = 0; k < SPEC_NAMES; k++)
    { F.reg_name[k] = pool (k); F.reg_exists[k] = nondet_bool (); F.reg_peer_in_queue[k] = nondet_bool ();
      g_peer_is_primary[k] = nondet_bool (); __CPROVER_assume (!g_peer_is_primary[k] || F.reg_peer_in_queue[k]); }
}
/* preconditions on the facts: what a message that passed validation satisfies (D-Bus specification, header
 * fields table: REPLY_SERIAL is required in METHOD_RETURN and ERROR; C01/C15 units) and ghost-map consistency */
static int facts_ok (void)
{
  if (F.n_fds > SPEC_MAX_FDS) return 0;
  if (spec_is_reply (&F) && F.reply_serial == 0) return 0;
  for (int k = 0; k < SPEC_NAMES; k++) if (F.reg_peer_in_queue[k] && !F.reg_exists[k]) return 0;
  return 1;
}

static void fill_send (BusPolicyRule *r, spec_rule *s)
{
  r->d.send.message_type = s->message_type; r->d.send.path = (char *) s->path; r->d.send.interface = (char *) s->interface;
  r->d.send.member = (char *) s->member; r->d.send.error = (char *) s->error_name; r->d.send.destination = (char *) s->peer_name;
  r->d.send.destination_is_prefix = s->peer_is_prefix; r->d.send.broadcast = s->broadcast; r->d.send.eavesdrop = s->eavesdrop;
  r->d.send.requested_reply = s->requested_reply; r->d.send.min_fds = s->min_fds; r->d.send.max_fds = s->max_fds; r->d.send.log = nondet_bool ();
}
static void fill_receive (BusPolicyRule *r, spec_rule *s)
{
  __CPROVER_assume (!s->peer_is_prefix);           /* there is no receive_sender_prefix */
  r->d.receive.message_type = s->message_type; r->d.receive.path = (char *) s->path; r->d.receive.interface = (char *) s->interface;
  r->d.receive.member = (char *) s->member; r->d.receive.error = (char *) s->error_name; r->d.receive.origin = (char *) s->peer_name;
  r->d.receive.eavesdrop = s->eavesdrop; r->d.receive.requested_reply = s->requested_reply; r->d.receive.min_fds = s->min_fds; r->d.receive.max_fds = s->max_fds;
}
static void fill_own (BusPolicyRule *r, spec_rule *s)
{
  r->d.own.service_name = (char *) s->own_name; r->d.own.prefix = s->own_is_prefix;
}

/* builds the real rule and its config-file view from the same choices; the correspondence is what
 * append_rule_from_element (bus/config-parser.c) and bus_policy_rule_new establish (assumed, listed) */
static void build_rule (BusPolicyRule *r, spec_rule *s)
{
  int kind = nondet_int (); __CPROVER_assume (kind >= 0 && kind <= 2);
  s->kind = kind; r->type = kind == 0 ? BUS_POLICY_RULE_SEND : kind == 1 ? BUS_POLICY_RULE_RECEIVE : BUS_POLICY_RULE_OWN;
  r->refcount = 1;
  s->allow = nondet_bool (); r->allow = s->allow;
  s->message_type = nondet_int (); __CPROVER_assume (s->message_type >= 0 && s->message_type <= 4);
  s->path = pick_or_null (); s->interface = pick_or_null (); s->member = pick_or_null (); s->error_name = pick_or_null ();
  s->peer_name = pick_or_null (); s->peer_is_prefix = nondet_bool (); __CPROVER_assume (IMP (s->peer_is_prefix, s->peer_name != NULL));
  s->broadcast = nondet_int (); __CPROVER_assume (s->broadcast >= 0 && s->broadcast <= 2);
  s->eavesdrop = nondet_bool (); s->requested_reply = nondet_bool ();
  s->min_fds = nondet_uint (); s->max_fds = nondet_uint (); __CPROVER_assume (s->min_fds <= SPEC_MAX_FDS && s->max_fds <= SPEC_MAX_FDS);
  s->own_name = pick_or_null (); s->own_is_prefix = nondet_bool (); __CPROVER_assume (IMP (s->own_is_prefix, s->own_name != NULL));
#if VERIF_WHAT == 0
  fill_send (r, s);
#elif VERIF_WHAT == 1
  fill_receive (r, s);
#elif VERIF_WHAT == 2
  fill_own (r, s);
#else                                              /* mixed lists (optimiser): contents follow the kind */
  if (kind == 0) fill_send (r, s); else if (kind == 1) fill_receive (r, s); else fill_own (r, s);
#endif
}

