/* C08.try_auth / C08.recover / C08.dispatch_status — dbus/dbus-transport.c (real code), typestate contracts.
 *
 *  _dbus_transport_try_to_authenticate (1)
 *     ensures  result == transport->authenticated afterwards
 *     ensures  authenticated becomes TRUE only if _dbus_auth_do_work was called (once) and returned AUTHENTICATED, no
 *              credentials byte is still pending, and
 *                on the server: the authorized identity passed the application's unix-user (or windows-user) function, or,
 *                               when no such function applies, the default rule "root, or same user as us, or allow_anonymous";
 *                on the client: the server's GUID is the expected one
 *     ensures  an identity without any user identity (ANONYMOUS) is admitted only if allow_anonymous is set
 *     ensures  server, AUTHENTICATED but identity refused  => the transport is disconnected and stays unauthenticated
 *     ensures  already authenticated => TRUE at once; disconnected => FALSE at once; nothing else is called
 *     ensures  connection reference and connection lock are balanced; the user function runs with the lock released
 *     [property: "final admission by application callback or same-user/root/anonymous rule"; "ANONYMOUS only where
 *      anonymous access is enabled"; dbus_connection_set_unix_user_function(3): "the function is called with the uid"]
 *  recover_unused_bytes (2)   [C11: "one-time transfer of leftover handshake bytes"]
 *     ensures  TRUE  => exactly the bytes _dbus_auth_get_unused_bytes handed out were appended at the END of the loader's
 *                       buffer (obtained and returned once), and then _dbus_auth_delete_unused_bytes was called once
 *     ensures  FALSE => the auth conversation still holds its unused bytes (delete not called)
 *  _dbus_transport_get_dispatch_status (3)
 *     ensures  the message loader is asked to frame messages only on an authenticated transport whose unused handshake bytes
 *              have been recovered; recovery happens at most once per transport (unused_bytes_recovered)
 */
#include "c08_model.h"
#include "dbus/dbus-transport-protected.h"
#include "dbus/dbus-connection-internal.h"
#include "dbus/dbus-auth.h"
#include "dbus/dbus-message-private.h"
#include VERIF_TU

#ifndef VERIF_FN
#define VERIF_FN 1
#endif

/* ---- ghost model of the auth conversation as seen from the transport (contract of C08.do_work / C08.unused) ---- */
struct DBusAuth { int dummy; };
static struct DBusAuth the_auth;
static DBusCredentials g_identity;        /* auth->authorized_identity */
_Bool g_auth_authd;                       /* the conversation is in state Authenticated */
int g_do_work_calls, g_do_work_last;
int g_conn_refs, g_conn_lock;             /* reference / lock balance of the connection */
int g_disconnect_calls;
int g_user_fn_calls; unsigned long g_user_fn_uid; _Bool g_user_fn_result, g_user_fn_lock_held; void *g_user_fn_data; DBusConnection *g_user_fn_conn;
int g_win_fn_calls; _Bool g_win_fn_result;
static char g_conn_obj; static char g_user_data_obj;
static const char g_guid_a[] = "ab", g_guid_b[] = "ac";
const char *g_server_guid;
/* unused bytes / loader */
static DBusString g_auth_incoming, g_loader_buf;
int g_get_unused_calls, g_delete_unused_calls, g_get_buffer_calls, g_return_buffer_calls, g_queue_calls, g_decode_calls; _Bool g_needs_decoding;
_Bool g_queue_when_unauth, g_queue_when_unrecovered; DBusTransport *g_tr;

DBusAuthState _dbus_auth_do_work (DBusAuth *auth)
{
  PRE (auth == &the_auth, "_dbus_auth_do_work");
  g_do_work_calls++;
  int r = nondet_int ();
  __CPROVER_assume (r == DBUS_AUTH_STATE_WAITING_FOR_INPUT || r == DBUS_AUTH_STATE_WAITING_FOR_MEMORY || r == DBUS_AUTH_STATE_HAVE_BYTES_TO_SEND || r == DBUS_AUTH_STATE_NEED_DISCONNECT || r == DBUS_AUTH_STATE_AUTHENTICATED);
  __CPROVER_assume ((r == DBUS_AUTH_STATE_AUTHENTICATED) ? g_auth_authd : 1);   /* C08.do_work: AUTHENTICATED => state Authenticated */
  g_do_work_last = r;
  return (DBusAuthState) r;
}
/* "Gets the identity we authorized the client as." (empty unless authenticated: the real function asserts that) */
DBusCredentials *_dbus_auth_get_identity (DBusAuth *auth)
{
  PRE (auth == &the_auth, "_dbus_auth_get_identity");
  PRE (g_auth_authd || CRED_EMPTY (&g_identity), "_dbus_auth_get_identity: before authentication the identity is empty");
  return &g_identity;
}
const char *_dbus_auth_get_guid_from_server (DBusAuth *auth) { PRE (auth == &the_auth, "_dbus_auth_get_guid_from_server"); return g_auth_authd ? g_server_guid : NULL; }
DBusConnection *_dbus_connection_ref_unlocked (DBusConnection *c) { PRE (c == (DBusConnection *) &g_conn_obj, "_dbus_connection_ref_unlocked"); g_conn_refs++; return c; }
void _dbus_connection_unref_unlocked (DBusConnection *c) { PRE (c == (DBusConnection *) &g_conn_obj && g_conn_refs > 0, "_dbus_connection_unref_unlocked: balanced"); g_conn_refs--; }
void _dbus_connection_lock (DBusConnection *c) { PRE (g_conn_lock == 0, "_dbus_connection_lock: not held"); g_conn_lock = 1; }
void _dbus_connection_unlock (DBusConnection *c) { PRE (g_conn_lock == 1, "_dbus_connection_unlock: held"); g_conn_lock = 0; }
static const char g_sid_text[] = "S-1";
const char *_dbus_credentials_get_windows_sid (DBusCredentials *c) { PRE (CRED_LIVE (c), "_dbus_credentials_get_windows_sid"); return c->sid != 0 ? g_sid_text : NULL; }
static char g_dup_buf[4];
char *_dbus_strdup (const char *s) { return (s == NULL || nondet_bool ()) ? NULL : g_dup_buf; }
/* CONTRACT _dbus_transport_disconnect: afterwards the transport is disconnected (vtable hook not modelled) */
void verif_stub_transport_disconnect (DBusTransport *transport) { PRE (transport != NULL, "_dbus_transport_disconnect"); g_disconnect_calls++; transport->disconnected = TRUE; }
/* the application's admission callbacks */
dbus_bool_t verif_unix_user_fn (DBusConnection *connection, unsigned long uid, void *data)
{ g_user_fn_calls++; g_user_fn_uid = uid; g_user_fn_conn = connection; g_user_fn_data = data; g_user_fn_lock_held = (g_conn_lock != 0); g_user_fn_result = nondet_bool (); return g_user_fn_result; }
dbus_bool_t verif_windows_user_fn (DBusConnection *connection, const char *sid, void *data)
{ g_win_fn_calls++; g_user_fn_lock_held = (g_conn_lock != 0); g_win_fn_result = nondet_bool (); return g_win_fn_result; }

/* unused bytes and loader (contracts of C08.unused and of the message loader's buffer protocol) */
dbus_bool_t _dbus_auth_needs_decoding (DBusAuth *auth) { return g_needs_decoding; }
void _dbus_auth_get_unused_bytes (DBusAuth *auth, const DBusString **str) { PRE (str != NULL, "_dbus_auth_get_unused_bytes"); g_get_unused_calls++; if (g_auth_authd) *str = &g_auth_incoming; }
void _dbus_auth_delete_unused_bytes (DBusAuth *auth) { g_delete_unused_calls++; if (g_auth_authd) SM (&g_auth_incoming)->len = 0; }
dbus_bool_t _dbus_auth_decode_data (DBusAuth *auth, const DBusString *encoded, DBusString *plaintext)
{ STR_PRE (encoded, "_dbus_auth_decode_data"); STR_PRE (plaintext, "_dbus_auth_decode_data"); g_decode_calls++; if (!g_auth_authd || nondet_bool () || !sm_room (plaintext, SLEN (encoded))) return FALSE; SM (plaintext)->len += SLEN (encoded); return TRUE; }
void _dbus_message_loader_get_buffer (DBusMessageLoader *loader, DBusString **buffer, int *max_to_read, dbus_bool_t *may_read_unix_fds)
{ PRE (g_get_buffer_calls == g_return_buffer_calls, "_dbus_message_loader_get_buffer: buffer not outstanding"); PRE (g_tr->authenticated, "message loader buffer is handed out only on an authenticated transport"); g_get_buffer_calls++; *buffer = &g_loader_buf; }
void _dbus_message_loader_return_buffer (DBusMessageLoader *loader, DBusString *buffer)
{ PRE (buffer == &g_loader_buf && g_get_buffer_calls == g_return_buffer_calls + 1, "_dbus_message_loader_return_buffer: the outstanding buffer"); g_return_buffer_calls++; }
dbus_bool_t _dbus_message_loader_queue_messages (DBusMessageLoader *loader)
{ g_queue_calls++; if (!g_tr->authenticated) g_queue_when_unauth = 1; if (!g_tr->unused_bytes_recovered) g_queue_when_unrecovered = 1; return nondet_bool (); }
DBusMessage *_dbus_message_loader_peek_message (DBusMessageLoader *loader) { return nondet_bool () ? (DBusMessage *) &g_conn_obj : NULL; }
long _dbus_counter_get_size_value (DBusCounter *counter) { return nondet_int (); }
long _dbus_counter_get_unix_fd_value (DBusCounter *counter) { return nondet_int (); }

static void c08_havoc_len (DBusString *s) { int n = nondet_int (); __CPROVER_assume (n >= 0 && n <= STR_MAX); sm_make (s, n, 0); }
static void make_transport (DBusTransport *t)
{
  t->refcount = 1; t->vtable = NULL; t->connection = (DBusConnection *) &g_conn_obj; t->loader = NULL; t->auth = &the_auth; t->credentials = NULL;
  t->max_live_messages_size = nondet_int (); t->max_live_messages_unix_fds = nondet_int (); t->live_messages = NULL; t->address = NULL;
  t->expected_guid = nondet_bool () ? (char *) g_guid_a : NULL;
  g_server_guid = nondet_bool () ? g_guid_a : g_guid_b;
  t->unix_user_function = nondet_bool () ? verif_unix_user_fn : NULL; t->unix_user_data = &g_user_data_obj;
  t->windows_user_function = nondet_bool () ? verif_windows_user_fn : NULL; t->windows_user_data = NULL;
  t->disconnected = nondet_bool (); t->authenticated = nondet_bool (); t->send_credentials_pending = nondet_bool (); t->receive_credentials_pending = nondet_bool ();
  t->is_server = nondet_bool (); t->unused_bytes_recovered = nondet_bool (); t->allow_anonymous = nondet_bool ();
  cred_havoc (&g_identity); cred_havoc (&g_myself); g_myself.refcount = 0; g_myself_out = 0;
  __CPROVER_assume (!CRED_ANON (&g_myself));                 /* ASSUMED: the server process has a user identity */
  g_auth_authd = nondet_bool ();
  __CPROVER_assume (g_auth_authd || CRED_EMPTY (&g_identity)); /* AUTH_INV (3) */
  __CPROVER_assume (IMP (t->authenticated, g_auth_authd));     /* established by this very function */
  g_tr = t; g_conn_lock = 1; g_conn_refs = 1;
}

void harness (void)
{
  DBusTransport T; DBusTransport *t = &T;
  make_transport (t);
#if VERIF_FN == 1
  unsigned was_auth = t->authenticated, was_disc = t->disconnected, pending = t->send_credentials_pending || t->receive_credentials_pending;
  DBusCredentials id0 = g_identity;
  dbus_bool_t ret = _dbus_transport_try_to_authenticate (t);
  _Bool newly = ret && !was_auth;
  _Bool anon = CRED_ANON (&g_identity);
  _Bool default_rule = t->allow_anonymous || g_identity.unix_uid == 0 || (CRED_SAME_USER (&g_myself, &g_identity));
  POST ((ret != 0) == (t->authenticated != 0), "try_to_authenticate: result is the authenticated flag");
  POST (IMP (was_auth, ret && g_do_work_calls == 0 && g_user_fn_calls == 0 && g_disconnect_calls == 0), "try_to_authenticate: already authenticated => TRUE, nothing called");
  POST (IMP (!was_auth && was_disc, !ret && g_do_work_calls == 0 && g_user_fn_calls == 0), "try_to_authenticate: disconnected => FALSE, nothing called");
  POST (IMP (!was_auth && pending, !ret && g_do_work_calls == 0 && g_user_fn_calls == 0), "try_to_authenticate: credentials byte pending => not authenticated, handshake not advanced");
  POST (IMP (newly, g_do_work_calls == 1 && g_do_work_last == DBUS_AUTH_STATE_AUTHENTICATED && g_auth_authd && !pending && !was_disc), "try_to_authenticate: authenticated only after _dbus_auth_do_work returned AUTHENTICATED");
  POST (IMP (g_user_fn_calls + g_win_fn_calls > 0, g_do_work_last == DBUS_AUTH_STATE_AUTHENTICATED && t->is_server && g_user_fn_calls + g_win_fn_calls == 1 && !g_user_fn_lock_held),
        "try_to_authenticate: the application's user function is consulted once, only for a completed handshake on the server, with the lock released");
  POST (IMP (g_user_fn_calls == 1, g_user_fn_uid == g_identity.unix_uid && g_identity.unix_uid != DBUS_UID_UNSET && g_user_fn_conn == t->connection && g_user_fn_data == t->unix_user_data),
        "try_to_authenticate: the unix user function sees exactly the authorized uid");
  POST (IMP (newly && t->is_server, (g_user_fn_calls == 1 && g_user_fn_result) || (g_win_fn_calls == 1 && g_win_fn_result) || (g_user_fn_calls == 0 && g_win_fn_calls == 0 && default_rule)),
        "try_to_authenticate: server admits only an identity passed by the user function or by the default rule (root / same user / allow_anonymous)");
  POST (IMP (newly && t->is_server && t->unix_user_function != NULL && g_identity.unix_uid != DBUS_UID_UNSET, g_user_fn_calls == 1 && g_user_fn_result), "try_to_authenticate: with a unix user function set, a unix identity is admitted only by that function");
  POST (IMP (newly && t->is_server && anon, t->allow_anonymous), "try_to_authenticate: an identity without user identity (ANONYMOUS) is admitted only under allow_anonymous");
  POST (IMP (newly && !t->is_server, t->expected_guid == NULL || g_server_guid == g_guid_a), "try_to_authenticate: client accepts only the expected server GUID");
  POST (IMP (g_user_fn_calls == 1 && !g_user_fn_result, t->disconnected && !ret), "try_to_authenticate: refusal by the unix user function => disconnected, not authenticated");
  POST (IMP (!was_auth && g_do_work_calls == 1 && g_do_work_last == DBUS_AUTH_STATE_AUTHENTICATED && t->is_server && g_user_fn_calls == 0 && g_win_fn_calls == 0 && g_cred_new_calls == 1 && !default_rule, t->disconnected && !ret),
        "try_to_authenticate: refusal by the default rule => disconnected, not authenticated");
  POST (g_conn_refs == 1 && g_conn_lock == 1, "try_to_authenticate: connection reference and lock balanced");
  POST (CRED_EQ (&g_identity, &id0), "try_to_authenticate: the authorized identity is not modified");
  POST (!g_myself_out, "try_to_authenticate: current-process credentials released");
  if (newly && t->is_server && g_user_fn_calls == 1) REACH ("admitted-by-unix-user-function");
  if (newly && t->is_server && g_user_fn_calls == 0 && g_win_fn_calls == 0 && anon) REACH ("anonymous-admitted-under-allow-anonymous");
  if (newly && t->is_server && g_user_fn_calls == 0 && g_win_fn_calls == 0 && !anon && !t->allow_anonymous) REACH ("admitted-by-default-rule");
  if (newly && !t->is_server) REACH ("client-authenticated");
  if (!ret && g_disconnect_calls > 0 && t->is_server) REACH ("refused-and-disconnected");
  if (!ret && g_disconnect_calls > 0 && !t->is_server) REACH ("wrong-guid");
  if (!ret && g_do_work_calls == 1 && g_do_work_last != DBUS_AUTH_STATE_AUTHENTICATED) REACH ("handshake-still-running");
#elif VERIF_FN == 2
  __CPROVER_assume (t->authenticated && g_auth_authd);
  c08_havoc_len (&g_auth_incoming); c08_havoc_len (&g_loader_buf);
#ifdef VERIF_DECODE
  g_needs_decoding = nondet_bool ();   /* finding reproduction only: the decode branch forgets to return the loader buffer on OOM */
#else
  g_needs_decoding = FALSE;            /* no mechanism of all_mechanisms[] has a decode function (proved in C08.find_mech) */
#endif
  int unused0 = SLEN (&g_auth_incoming), loader0 = SLEN (&g_loader_buf), live0 = g_str_live;
  dbus_bool_t ret = recover_unused_bytes (t);
  POST (IMP (ret, SLEN (&g_loader_buf) == loader0 + unused0), "recover_unused_bytes: TRUE => the loader's buffer grew by exactly the unused handshake bytes (appended at its end)");
  POST (IMP (ret, g_delete_unused_calls == 1 && SLEN (&g_auth_incoming) == 0), "recover_unused_bytes: TRUE => the handshake buffer is emptied, once");
  POST (IMP (!ret, g_delete_unused_calls == 0 && SLEN (&g_auth_incoming) == unused0), "recover_unused_bytes: FALSE => the unused bytes stay with the auth conversation");
  POST (IMP (!ret, SLEN (&g_loader_buf) == loader0), "recover_unused_bytes: FALSE => the loader's buffer is unchanged");
  POST (g_get_unused_calls <= 1 && g_get_buffer_calls == g_return_buffer_calls && g_get_buffer_calls <= 1, "recover_unused_bytes: loader buffer obtained and returned at most once");
  POST (g_str_live == live0, "recover_unused_bytes: temporaries freed");
  if (ret && unused0 > 0) REACH ("moved"); if (!ret) REACH ("oom");
#elif VERIF_FN == 3
  c08_havoc_len (&g_auth_incoming); c08_havoc_len (&g_loader_buf);
  g_needs_decoding = FALSE;            /* see above */
  unsigned rec0 = t->unused_bytes_recovered;
  DBusDispatchStatus st = _dbus_transport_get_dispatch_status (t);
  POST (!g_queue_when_unauth, "get_dispatch_status: messages are framed only on an authenticated transport");
  POST (!g_queue_when_unrecovered, "get_dispatch_status: messages are framed only after the unused handshake bytes were recovered");
  POST (IMP (rec0, g_get_unused_calls == 0 && g_delete_unused_calls == 0), "get_dispatch_status: unused handshake bytes are recovered at most once per transport");
  POST (IMP (g_delete_unused_calls > 0, t->unused_bytes_recovered && t->authenticated && g_delete_unused_calls == 1), "get_dispatch_status: recovery is recorded");
  POST (IMP (!t->authenticated, g_get_buffer_calls == 0 && g_get_unused_calls == 0 && g_queue_calls == 0), "get_dispatch_status: unauthenticated => loader untouched");
  POST (st == DBUS_DISPATCH_DATA_REMAINS || st == DBUS_DISPATCH_COMPLETE || st == DBUS_DISPATCH_NEED_MEMORY, "get_dispatch_status: proper status");
  if (g_queue_calls == 1 && !rec0) REACH ("recovered-then-framed"); if (g_queue_calls == 1 && rec0) REACH ("framed"); if (!t->authenticated) REACH ("not-authenticated"); if (st == DBUS_DISPATCH_NEED_MEMORY) REACH ("need-memory");
#elif VERIF_FN == 4
  /* "the identity the application then sees is exactly the one that mechanism established": every identity getter of the
   * transport answers from the AUTHORIZED identity of the auth conversation (never from the raw socket credentials), and
   * answers nothing before authentication. */
  static DBusCredentials socket_creds; t->credentials = &socket_creds; cred_havoc (&socket_creds);
  DBusCredentials *c = _dbus_transport_get_credentials (t);
  __CPROVER_assert (IMP (!t->authenticated, c == NULL), "identity: no credentials are reported before authentication");
  __CPROVER_assert (IMP (t->authenticated, c == &g_identity), "identity: the credentials reported are the authorized identity of the auth conversation, not the socket's");
  unsigned long uid = 12345, pid = 12345;
  dbus_bool_t ru = _dbus_transport_get_unix_user (t, &uid), rp = _dbus_transport_get_unix_process_id (t, &pid);
  __CPROVER_assert (ru == (t->authenticated && g_identity.unix_uid != DBUS_UID_UNSET) && IMP (ru, uid == g_identity.unix_uid), "identity: the unix user reported is exactly the authorized uid; none before authentication or for an identity without uid");
  __CPROVER_assert (rp == (t->authenticated && g_identity.pid != DBUS_PID_UNSET) && IMP (rp, pid == (unsigned long) g_identity.pid), "identity: the process id reported is the authorized identity's");
  if (t->authenticated && CRED_ANON (&g_identity) && !CRED_ANON (&socket_creds)) REACH ("anonymous-identity-with-socket-uid");
  if (ru) REACH ("uid-reported"); if (!t->authenticated) REACH ("not-authenticated");
#endif
}
