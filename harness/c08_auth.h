/* C08 — ghost state, AUTH_INV and the contracts (as stubs) of the static functions of
 * dbus/dbus-auth.c.  Include AFTER `#include VERIF_TU` (needs DBusAuth, the state constants and
 * all_mechanisms).  A stub named verif_stub_f is bound to the real static callee f with
 * `goto-instrument --replace-calls f:verif_stub_f` in the units where f is not the function under
 * contract; the unit in which f IS under contract proves exactly the text of its stub.
 */
#ifndef C08_AUTH_H
#define C08_AUTH_H

#include "c08_inv.h"
static _Bool cred_anon (const DBusCredentials *c) { return X_ANON (c); }
static _Bool cred_empty (const DBusCredentials *c) { return X_EMPTY (c); }
static _Bool cred_same_user (const DBusCredentials *a, const DBusCredentials *b) { return X_SAME_USER (a, b); }
static _Bool cred_superset (const DBusCredentials *c, const DBusCredentials *s) { return X_SUPERSET (c, s); }
static _Bool identity_ok (const DBusAuth *a, int m) { return X_IDENTITY_OK (a, m); }
#define IDENTITY_OK(a, m) identity_ok (a, m)
static _Bool identity_partial (const DBusAuth *a, int m) { return X_IDENTITY_PARTIAL (a, m); }
#define IDENTITY_PARTIAL(a, m) identity_partial (a, m)
static _Bool str_ok (const DBusString *s) { return X_STR_OK (s); }
static _Bool inv_shape (const DBusAuth *a) { return X_INV_SHAPE (a); }
static _Bool inv_ident (const DBusAuth *a) { return X_INV_IDENT (a); }
static _Bool inv_bound (const DBusAuth *a) { return X_INV_BOUND (a); }
static _Bool inv_noid (const DBusAuth *a) { return X_INV_NOID (a); }
static _Bool inv_wfd (const DBusAuth *a) { return X_INV_WFD (a); }
static _Bool inv_sha (const DBusAuth *a) { return X_INV_SHA (a); }
static _Bool auth_inv (const DBusAuth *a) { return inv_shape (a) & inv_ident (a) & inv_bound (a) & inv_noid (a) & inv_wfd (a) & inv_sha (a); }
#define AUTH_INV(a) auth_inv (a)
static void c08_assert_inv (const DBusAuth *a)
{
    POST (inv_shape (a), "AUTH_INV preserved (0): server side, known state, buffers and credential objects alive, outgoing holds whole lines");
    POST (inv_ident (a), "AUTH_INV preserved (1): WaitingForBegin/Authenticated => a mechanism succeeded and the granted identity is the one it established");
    POST (inv_bound (a), "AUTH_INV preserved (2): 0 <= failures <= max_failures, and NeedDisconnect once the maximum is reached");
    POST (inv_noid (a), "AUTH_INV preserved (3): before OK no identity is granted (only verified leftovers of an OOM return)");
    POST (inv_wfd (a), "AUTH_INV preserved (4): WaitingForData has a selected mechanism");
    POST (inv_sha (a), "AUTH_INV preserved (5): a cookie challenge is outstanding only for the server's own user, with its keyring");
}
#define ASSERT_AUTH_INV(a) c08_assert_inv (a)

/* snapshot of the observable state, for "nothing changed" clauses */
struct c08_snap { const DBusAuthStateData *state; const DBusAuthMechanismHandler *mech; int failures; int out_len; int out_lines; int in_len; int mech_ok; int identity_len; DBusCredentials authz, desired; int cookie_id; unsigned fdneg; };
static struct c08_snap c08_take (DBusAuth *a)
{ struct c08_snap s; s.state = a->state; s.mech = a->mech; s.failures = SRV (a)->failures; s.out_len = SLEN (&a->outgoing); s.out_lines = g_out_lines; s.in_len = SLEN (&a->incoming);
  s.mech_ok = g_mech_ok; s.identity_len = SLEN (&a->identity); s.authz = *a->authorized_identity; s.desired = *a->desired_identity; s.cookie_id = a->cookie_id; s.fdneg = a->unix_fd_negotiated; return s; }

/* ---- building an arbitrary conversation object that satisfies AUTH_INV ---- */
static char *c08_allowed[4];
static char c08_keyring_obj;
static void c08_havoc_string (DBusString *s) { int n = nondet_int (); __CPROVER_assume (n >= 0 && n <= STR_MAX); sm_make (s, n, 0); }
static void c08_make_auth (DBusAuthServer *S)
{
  DBusAuth *a = &S->base;
  int k;
  a->refcount = 1; a->side = auth_side_server;
  c08_havoc_string (&a->incoming); c08_havoc_string (&a->outgoing); c08_havoc_string (&a->identity);
  c08_havoc_string (&a->context); c08_havoc_string (&a->challenge); c08_havoc_string (&S->guid);
  SM (&a->outgoing)->allocated = TAG_MAKE (0, 0, nondet_bool () ? 1 : 0, nondet_bool () ? SPEC_REPLY_ERROR : SPEC_REPLY_REJECTED, 0);
  k = nondet_int ();
  a->state = k == 0 ? S_WFA : k == 1 ? S_WFD : k == 2 ? S_WFB : k == 3 ? S_AUTHD : S_DISC;
  k = nondet_int ();
  a->mech = k == 0 ? NULL : k == 1 ? &all_mechanisms[0] : k == 2 ? &all_mechanisms[1] : &all_mechanisms[2];
  cred_havoc (&c08_socket_creds); cred_havoc (&c08_authorized); cred_havoc (&c08_desired); cred_havoc (&g_myself);
  __CPROVER_assume (!CRED_ANON (&g_myself));    /* ASSUMED: the server process has a user identity */
  g_myself.refcount = 0; g_myself_out = 0;
  a->credentials = &c08_socket_creds; a->authorized_identity = &c08_authorized; a->desired_identity = &c08_desired;
  a->keyring = nondet_bool () ? (DBusKeyring *) &c08_keyring_obj : NULL;
  a->cookie_id = nondet_int ();
  a->allowed_mechs = nondet_bool () ? c08_allowed : NULL;
  a->needed_memory = nondet_bool (); a->already_got_mechanisms = nondet_bool (); a->already_asked_for_initial_response = nondet_bool ();
  a->buffer_outstanding = 0; a->unix_fd_possible = nondet_bool (); a->unix_fd_negotiated = nondet_bool ();
  S->failures = nondet_int (); S->max_failures = nondet_int ();
  g_mech_ok = nondet_int (); g_dirty = nondet_int (); g_evidence = 0;
  __CPROVER_assume (g_mech_ok >= 0 && g_mech_ok <= 3 && g_dirty >= 0 && g_dirty <= 3);
  g_watch_out = &a->outgoing; g_reply_buf = &a->outgoing; g_watch_in = &a->incoming; g_out_lines = 0; g_out_last = 0; g_out_names = 0; g_snap_next = 0; g_snap[0].valid = 0; g_snap[1].valid = 0; g_snap[2].valid = 0; g_snap[3].valid = 0; g_in_deleted = 0; g_in_other_edit = 0;
  g_str_live = 0; g_fb_str = NULL; g_ascii_ok_str = NULL;
}

#define STR_LIVE_OK(s) ((s) != NULL && SLIVE (s) && SLEN (s) >= 0)
/* ---- effects shared by the contracts ---- */
static void c08_note_sent (int kind)
{ /* a reply line is appended to outgoing (its text is the business of the send_* units) */
  int n = nondet_int (); __CPROVER_assume (n >= 4 && n <= 8192);
  if (g_reply_buf != NULL && SLIVE (g_reply_buf)) { __CPROVER_assume (n <= STR_MAX - SLEN (g_reply_buf)); SM (g_reply_buf)->len += n; }
  G.sent++; G.last = kind; }
/* shutdown_mech: "Cancel any auth": forget the requested and the granted identity and the mechanism */
static void c08_effect_shutdown (DBusAuth *a)
{
  a->already_asked_for_initial_response = FALSE;
  SM (&a->identity)->len = 0;
  cred_clear (a->authorized_identity); cred_clear (a->desired_identity);
  if (a->mech == &all_mechanisms[1]) { a->cookie_id = -1; SM (&a->challenge)->len = 0; }
  a->mech = NULL;
  g_mech_ok = 0; g_dirty = 0; g_evidence = 0;
}

/* CONTRACT shutdown_mech (proved in C08.shutdown_mech) */
void verif_stub_shutdown_mech (DBusAuth *auth)
{
  PRE (auth != NULL && CRED_LIVE (auth->authorized_identity) && CRED_LIVE (auth->desired_identity) && SLIVE (&auth->identity) && (auth->mech == NULL || MECHID (auth->mech) != 0), "shutdown_mech");
  G.shutdown_calls++;
  c08_effect_shutdown (auth);
}

/* CONTRACT send_error (proved in C08.send_error): TRUE => exactly one ERROR line appended, nothing else changes; FALSE => nothing changes */
dbus_bool_t verif_stub_send_error (DBusAuth *auth, const char *message)
{
  PRE (auth != NULL && SLIVE (&auth->outgoing) && message != NULL, "send_error");
  G.send_error_calls++;
  if (nondet_bool ()) return FALSE;
  c08_note_sent (SPEC_REPLY_ERROR);
  return TRUE;
}

/* CONTRACT send_rejected (proved in C08.send_rejected):
 * FALSE => nothing changes.  TRUE => one REJECTED line appended; failures + 1; mechanism shut down (requested and granted
 * identity cleared, mech = NULL); next state WaitingForAuth, or NeedDisconnect when the count reaches max_failures. */
dbus_bool_t verif_stub_send_rejected (DBusAuth *auth)
{
  PRE (auth != NULL && auth->side == auth_side_server && IS_LIVE_STATE (ST (auth)) && SLIVE (&auth->outgoing) && SRV (auth)->failures >= 0 && SRV (auth)->failures < SRV (auth)->max_failures, "send_rejected");
  PRE (g_dirty == 0 || g_dirty == MECHID (auth->mech), "send_rejected: leftovers of an interrupted run belong to the mechanism being shut down");
  G.send_rejected_calls++;
  if (nondet_bool ()) return FALSE;
  c08_note_sent (SPEC_REPLY_REJECTED);
  c08_effect_shutdown (auth);
  SRV (auth)->failures += 1;
  auth->state = SRV (auth)->failures >= SRV (auth)->max_failures ? S_DISC : S_WFA;
  return TRUE;
}

/* CONTRACT send_ok (proved in C08.send_ok): callable only with the evidence of a success site and the identity that site
 * establishes.  TRUE => one OK line appended, state WaitingForBegin.  FALSE => nothing changes (outgoing length restored). */
dbus_bool_t verif_stub_send_ok (DBusAuth *auth)
{
  PRE (auth != NULL && auth->side == auth_side_server && (ST (auth) == S_WFA || ST (auth) == S_WFD), "send_ok: from WaitingForAuth/WaitingForData only");
  PRE (g_evidence != 0 && g_evidence == MECHID (auth->mech), "send_ok: the current mechanism has verified the peer");
  PRE (IDENTITY_OK (auth, g_evidence), "send_ok: authorized identity is the one the mechanism established");
  G.send_ok_calls++;
  if (nondet_bool ()) return FALSE;
  c08_note_sent (SPEC_REPLY_OK);
  auth->state = S_WFB; g_mech_ok = g_evidence; g_dirty = 0;
  return TRUE;
}

/* CONTRACT send_data (proved in C08.send_data): TRUE => one DATA line; FALSE => nothing changes */
dbus_bool_t verif_stub_send_data (DBusAuth *auth, DBusString *data)
{
  PRE (auth != NULL && SLIVE (&auth->outgoing) && (data == NULL || SLIVE (data)), "send_data");
  G.send_data_calls++;
  if (nondet_bool ()) return FALSE;
  c08_note_sent (SPEC_REPLY_DATA);
  return TRUE;
}

/* CONTRACT send_agree_unix_fd (proved in C08.send_agree): only in WaitingForBegin on an fd-capable transport */
dbus_bool_t verif_stub_send_agree_unix_fd (DBusAuth *auth)
{
  PRE (auth != NULL && ST (auth) == S_WFB && auth->unix_fd_possible, "send_agree_unix_fd: authenticated (WaitingForBegin) and fd passing possible");
  G.send_agree_calls++;
  auth->unix_fd_negotiated = TRUE;
  if (nondet_bool ()) return FALSE;
  c08_note_sent (SPEC_REPLY_AGREE_UNIX_FD);
  auth->state = S_WFB;
  return TRUE;
}

/* CONTRACT of a mechanism's server data function  MECH(RESP)  (proved per mechanism in C08.ext, C08.anon, C08.sha1_first,
 * C08.sha1_second, C08.sha1_dispatch): "returns one of CONTINUE(CHALL) ... OK ... REJECTED"; FALSE is out of memory and
 * leaves the conversation where it was. */
static dbus_bool_t c08_mech_contract (DBusAuth *auth, const DBusString *data)
{
  int m = MECHID (auth->mech);
  PRE (auth != NULL && m != 0 && (ST (auth) == S_WFA || ST (auth) == S_WFD) && STR_LIVE_OK (data), "mechanism data function: a mechanism is selected, state WaitingForAuth/WaitingForData");
  PRE (g_dirty == 0 || g_dirty == m, "mechanism data function: leftovers of an interrupted run belong to the same mechanism");
  G.mech_calls++;
  int r = nondet_int ();
  /* every run may record the requested identity (string and desired credentials) */
  { int n = nondet_int (); __CPROVER_assume (n >= 0 && n <= STR_MAX); SM (&auth->identity)->len = n; }
  if (auth->cookie_id < 0 || m != MECH_SHA1) { DBusCredentials *d = auth->desired_identity; int rc = d->refcount; cred_havoc (d); d->refcount = rc; }
  if (r == 0)
    { /* out of memory: conversation state, failure count and outgoing text unchanged; verified partial identity possible */
      if (m == MECH_SHA1 && auth->cookie_id < 0 && nondet_bool ())
        { /* step 1 interrupted after the cookie was chosen */
          int c = nondet_int (); __CPROVER_assume (c >= 0); auth->cookie_id = c; auth->keyring = (DBusKeyring *) &c08_keyring_obj;
          auth->desired_identity->unix_uid = g_myself.unix_uid; auth->desired_identity->sid = g_myself.sid; g_dirty = m;
        }
      if (nondet_bool ())
        {
          DBusCredentials *z = auth->authorized_identity;
          if (m == MECH_ANON) { if (nondet_bool ()) z->pid = auth->credentials->pid; }
          else if (m == MECH_EXT) { if (nondet_bool ()) z->unix_uid = auth->credentials->unix_uid; if (nondet_bool ()) z->pid = auth->credentials->pid; if (nondet_bool ()) z->gids = auth->credentials->gids; if (nondet_bool ()) z->sid = auth->credentials->sid; }
          else { if (nondet_bool ()) z->unix_uid = g_myself.unix_uid; }
          __CPROVER_assume (IDENTITY_PARTIAL (auth, m));
          g_dirty = m;
        }
      return FALSE;
    }
  if (r == 1)
    { /* CONTINUE(CHALL) */
      G.mech = SPEC_MECH_CONTINUE; c08_note_sent (SPEC_REPLY_DATA); auth->state = S_WFD;
      if (m == MECH_SHA1) { int c = nondet_int (); __CPROVER_assume (c >= 0); auth->cookie_id = c; auth->keyring = (DBusKeyring *) &c08_keyring_obj; auth->desired_identity->unix_uid = g_myself.unix_uid; auth->desired_identity->sid = g_myself.sid; }
      return TRUE;
    }
  if (r == 2)
    { /* OK */
      DBusCredentials *z = auth->authorized_identity;
      G.mech = SPEC_MECH_OK; c08_note_sent (SPEC_REPLY_OK); auth->state = S_WFB; g_mech_ok = m; g_dirty = 0;
      cred_havoc (z); __CPROVER_assume (IDENTITY_OK (auth, m));
      return TRUE;
    }
  /* REJECTED */
  G.mech = SPEC_MECH_REJECTED; c08_note_sent (SPEC_REPLY_REJECTED); c08_effect_shutdown (auth);
  SRV (auth)->failures += 1; auth->state = SRV (auth)->failures >= SRV (auth)->max_failures ? S_DISC : S_WFA;
  return TRUE;
}
dbus_bool_t verif_stub_mech_data (DBusAuth *auth, const DBusString *data) { return c08_mech_contract (auth, data); }

/* CONTRACT process_data (proved in C08.process_data): hex-decode the argument; not hex => ERROR, state unchanged, the
 * mechanism is not consulted; else the mechanism's answer on the decoded bytes */
dbus_bool_t verif_stub_process_data (DBusAuth *auth, const DBusString *args, DBusAuthDataFunction data_func)
{
  PRE (auth != NULL && STR_LIVE_OK (args) && auth->mech != NULL && data_func == auth->mech->server_data_func, "process_data: data function of the selected mechanism");
  if (nondet_bool ()) return FALSE;                                  /* OOM while decoding */
  if (nondet_bool ())
    { if (nondet_bool ()) return FALSE; G.cls = SPEC_CMD_MALFORMED_ARGS; c08_note_sent (SPEC_REPLY_ERROR); return TRUE; }
  G.cls = (ST (auth) == S_WFA) ? SPEC_CMD_AUTH_MECH : SPEC_CMD_DATA;
  return c08_mech_contract (auth, args);
}

/* CONTRACT handle_auth (proved in C08.handle_auth) */
dbus_bool_t verif_stub_handle_auth (DBusAuth *auth, const DBusString *args)
{
  PRE (auth != NULL && ST (auth) == S_WFA && STR_LIVE_OK (args), "handle_auth: state WaitingForAuth");
  int r = nondet_int ();
  __CPROVER_assume (r >= 0 && r <= 5);
  __CPROVER_assume (g_dirty == 0 || r == 0 || r == g_dirty + 2);   /* A-retry: the interrupted AUTH <mech> line is parsed again */
  if (r == 0) { if (nondet_bool ()) auth->mech = NULL; return FALSE; }              /* OOM: state unchanged */
  if (r == 1 || r == 2)
    { /* no arguments, or unknown / not allowed mechanism */
      if (nondet_bool ()) { auth->mech = NULL; return FALSE; }
      G.cls = r == 1 ? SPEC_CMD_AUTH_NOARGS : SPEC_CMD_AUTH_MECH; G.mech = r == 1 ? SPEC_MECH_NA : SPEC_MECH_INVALID;
      c08_note_sent (SPEC_REPLY_REJECTED); c08_effect_shutdown (auth);
      SRV (auth)->failures += 1; auth->state = SRV (auth)->failures >= SRV (auth)->max_failures ? S_DISC : S_WFA;
      return TRUE;
    }
  /* a valid mechanism was named */
  auth->mech = r == 3 ? &all_mechanisms[0] : r == 4 ? &all_mechanisms[1] : &all_mechanisms[2];
  if (g_dirty == 0 && nondet_bool ())
    { /* initial response is not hex */
      if (nondet_bool ()) { auth->mech = NULL; return FALSE; }
      G.cls = SPEC_CMD_MALFORMED_ARGS; c08_note_sent (SPEC_REPLY_ERROR); return TRUE;
    }
  G.cls = SPEC_CMD_AUTH_MECH;
  if (!c08_mech_contract (auth, args)) { auth->mech = NULL; return FALSE; }
  return TRUE;
}
#endif
