/* C06: the configuration side -- start_policy_child -> append_rule_from_element (bus/config-parser.c, static, pristine,
 * #included): a CONCRETE <allow>/<deny> element (-DVERIF_ELEM=k, table below) under a SYMBOLIC enclosing <policy>
 * (context default/mandatory, user=uid, group=gid, at_console=b, or an ignored policy) yields exactly one rule, appended
 * to the rule list of exactly that context with exactly that id, and the rule's fields are the element's attributes.
 * Oracle: dbus-daemon(1): "<policy> ... has one of four attributes: context="(default|mandatory)" at_console="(true|false)"
 * user="username or userid" group="group name or gid"", the <allow>/<deny> attribute list, the defaults of
 * [send|receive]_requested_reply ("For <allow> ... "true" is the default", "For <deny> ... "false" is the default"),
 * eavesdrop ("eavesdrop="false" is the default"), "*" = any, min_fds/max_fds.  This is the mapping the C06.*_n1/_n3 units
 * take as their precondition ("rule fields correspond to the config-file attributes").
 * locate_attributes is bound to its contract (stub below); the real one over-reads its va_list by one (see there).
 * Real code besides config-parser.c: bus_policy_rule_new/_unref (bus/policy.c), _dbus_strdup (dbus-internals.c),
 * dbus_message_type_from_string (dbus-message.c), _dbus_list_get_last/_append (dbus-list.c), dbus-string.c helpers.
 * Every allocation may fail (--malloc-may-fail --malloc-fail-null). */
#include <config.h>
#include "dbus/dbus-internals.h"
#include "verif_prelude.h"
#include <stdlib.h>
#include VERIF_TU
#include "dbus/dbus-mempool.h"
#define REACH(tag) __CPROVER_assert(0, "REACH:" tag)
#define IMP(a, b) (!(a) || (b))
#define PRE(c, what) __CPROVER_assert((c), "precondition of " what)
#define ERR_SET(e) ((e)->name != NULL)
_Bool nondet_bool (void); int nondet_int (void); unsigned long nondet_ulong (void);
#ifndef VERIF_ELEM
#define VERIF_ELEM 0
#endif

/* ---- the concrete element and what the man page says it means ---- */
typedef struct { int kind;  /* BUS_POLICY_RULE_* */
  int type; const char *path, *interface, *member, *error, *peer; int peer_is_prefix, broadcast, eavesdrop;
  int rr_given, rr; unsigned min_fds, max_fds; int log; const char *own; int own_prefix; int uid_any; } expect_t;
#define DFL .type = DBUS_MESSAGE_TYPE_INVALID, .broadcast = BUS_POLICY_TRISTATE_ANY, .min_fds = 0, .max_fds = DBUS_MAXIMUM_MESSAGE_UNIX_FDS
#if VERIF_ELEM == 0      /* <allow|deny own="a.b"/> */
static const char *N[] = { "own", NULL }, *V[] = { "a.b", NULL };
static const expect_t X = { .kind = BUS_POLICY_RULE_OWN, .own = "a.b", .own_prefix = 0 };
#elif VERIF_ELEM == 1    /* own_prefix="a.b" */
static const char *N[] = { "own_prefix", NULL }, *V[] = { "a.b", NULL };
static const expect_t X = { .kind = BUS_POLICY_RULE_OWN, .own = "a.b", .own_prefix = 1 };
#elif VERIF_ELEM == 2    /* own="*" */
static const char *N[] = { "own", NULL }, *V[] = { "*", NULL };
static const expect_t X = { .kind = BUS_POLICY_RULE_OWN, .own = NULL, .own_prefix = 0 };
#elif VERIF_ELEM == 3    /* send_interface="a.b" */
static const char *N[] = { "send_interface", NULL }, *V[] = { "a.b", NULL };
static const expect_t X = { .kind = BUS_POLICY_RULE_SEND, DFL, .interface = "a.b" };
#elif VERIF_ELEM == 4    /* every send attribute that can be combined */
static const char *N[] = { "send_destination_prefix", "send_type", "send_path", "send_interface", "send_member", "send_broadcast", "eavesdrop", "send_requested_reply", "max_fds", "min_fds", "log", NULL };
static const char *V[] = { "a.b", "method_call", "/p", "i.f", "M", "false", "true", "false", "7", "1", "true", NULL };
static const expect_t X = { .kind = BUS_POLICY_RULE_SEND, .type = DBUS_MESSAGE_TYPE_METHOD_CALL, .path = "/p", .interface = "i.f", .member = "M", .peer = "a.b", .peer_is_prefix = 1,
                            .broadcast = BUS_POLICY_TRISTATE_FALSE, .eavesdrop = 1, .rr_given = 1, .rr = 0, .min_fds = 1, .max_fds = 7, .log = 1 };
#elif VERIF_ELEM == 5    /* send_destination (exact), error name, wildcards */
static const char *N[] = { "send_destination", "send_error", "send_type", "send_path", "send_requested_reply", NULL };
static const char *V[] = { "a.b", "e.r", "error", "*", "true", NULL };
static const expect_t X = { .kind = BUS_POLICY_RULE_SEND, DFL, .type = DBUS_MESSAGE_TYPE_ERROR, .error = "e.r", .peer = "a.b", .peer_is_prefix = 0, .rr_given = 1, .rr = 1 };
#elif VERIF_ELEM == 6    /* send_destination="*" min_fds="1": the man page's fd rule; broadcast true */
static const char *N[] = { "send_destination", "min_fds", NULL }, *V[] = { "*", "1", NULL };
static const expect_t X = { .kind = BUS_POLICY_RULE_SEND, DFL, .min_fds = 1 };
#elif VERIF_ELEM == 7    /* send_broadcast="true" send_type="signal" */
static const char *N[] = { "send_broadcast", "send_type", NULL }, *V[] = { "true", "signal", NULL };
static const expect_t X = { .kind = BUS_POLICY_RULE_SEND, DFL, .type = DBUS_MESSAGE_TYPE_SIGNAL, .broadcast = BUS_POLICY_TRISTATE_TRUE };
#elif VERIF_ELEM == 8    /* receive rule with everything */
static const char *N[] = { "receive_sender", "receive_type", "receive_path", "receive_interface", "receive_member", "eavesdrop", "receive_requested_reply", "max_fds", NULL };
static const char *V[] = { "a.b", "method_return", "/p", "i.f", "M", "true", "false", "0", NULL };
static const expect_t X = { .kind = BUS_POLICY_RULE_RECEIVE, DFL, .type = DBUS_MESSAGE_TYPE_METHOD_RETURN, .path = "/p", .interface = "i.f", .member = "M", .peer = "a.b", .eavesdrop = 1, .rr_given = 1, .rr = 0, .max_fds = 0 };
#elif VERIF_ELEM == 9    /* <allow eavesdrop="true"/> alone is a receive rule: "with the eavesdrop attribute and no others" */
static const char *N[] = { "eavesdrop", NULL }, *V[] = { "true", NULL };
static const expect_t X = { .kind = BUS_POLICY_RULE_RECEIVE, DFL, .eavesdrop = 1 };
#elif VERIF_ELEM == 10   /* receive_sender="*" receive_error */
static const char *N[] = { "receive_sender", "receive_error", NULL }, *V[] = { "*", "e.r", NULL };
static const expect_t X = { .kind = BUS_POLICY_RULE_RECEIVE, DFL, .error = "e.r" };
#else                    /* user="*": a bus-global rule ("user/group denials can only be inside context="default" or context="mandatory" policies") */
static const char *N[] = { "user", NULL }, *V[] = { "*", NULL };
static const expect_t X = { .kind = BUS_POLICY_RULE_USER, .uid_any = 1 };
#endif

/* ---- ghost: what was appended where ---- */
static int g_appends, g_which; static unsigned long g_id; static BusPolicyRule *g_rule; static char o_policy;
#define POLICY ((BusPolicy *) &o_policy)
/* contracts of the five append functions (bus/policy.c; enforced as real code elsewhere only through the C06 list units):
 * append the rule to that list and take a reference, or fail (OOM) without touching it */
static dbus_bool_t record (BusPolicy *p, int which, unsigned long id, BusPolicyRule *rule)
{ PRE (p == POLICY && rule != NULL && rule->refcount >= 1, "bus_policy_append_*_rule"); if (nondet_bool ()) return FALSE;
  g_appends++; g_which = which; g_id = id; g_rule = rule; rule->refcount++; return TRUE; }
dbus_bool_t verif_stub_append_default (BusPolicy *p, BusPolicyRule *r) { return record (p, POLICY_DEFAULT, 0, r); }
dbus_bool_t verif_stub_append_mandatory (BusPolicy *p, BusPolicyRule *r) { return record (p, POLICY_MANDATORY, 0, r); }
dbus_bool_t verif_stub_append_user (BusPolicy *p, dbus_uid_t uid, BusPolicyRule *r) { return record (p, POLICY_USER, uid, r); }
dbus_bool_t verif_stub_append_group (BusPolicy *p, dbus_gid_t gid, BusPolicyRule *r) { return record (p, POLICY_GROUP, gid, r); }
dbus_bool_t verif_stub_append_console (BusPolicy *p, dbus_bool_t at_console, BusPolicyRule *r) { return record (p, POLICY_CONSOLE, at_console != 0, r); }
void verif_stub_dbus_set_error (DBusError *e, const char *name, const char *format, ...)
{ PRE (name != NULL && (e == NULL || !ERR_SET (e)), "dbus_set_error: error not already set"); if (e) { e->name = name; e->message = "m"; } }
void dbus_set_error_const (DBusError *e, const char *name, const char *message)
{ PRE (name != NULL && (e == NULL || !ERR_SET (e)), "dbus_set_error_const: error not already set"); if (e) { e->name = name; e->message = message; } }
/* contract of locate_attributes (config-parser.c) written as a stub and bound with --replace-calls: for each (name, retloc)
 * pair up to the NULL name, *retloc = the value of attribute `name` in attribute_names/values, or NULL if absent; an
 * attribute of the element that is not in the pair list, or one given twice => FALSE with the error set (its only two
 * failure modes; it does not allocate).  The real function is not executed: it reads one va_arg past the terminating
 * NULL (`retloc = va_arg (...)` after `name == NULL`, config-parser.c:658) -- an observation, harmless in practice. */
#include <stdarg.h>
dbus_bool_t verif_stub_locate_attributes (BusConfigParser *parser, const char *element_name, const char **attribute_names, const char **attribute_values,
                                          DBusError *error, const char *first_attribute_name, const char **first_attribute_retloc, ...)
{
  const char *names[24]; const char **locs[24]; int n = 1; va_list args;
  PRE (first_attribute_name != NULL && first_attribute_retloc != NULL && attribute_names != NULL && attribute_values != NULL, "locate_attributes");
  names[0] = first_attribute_name; locs[0] = first_attribute_retloc; *first_attribute_retloc = NULL;
  va_start (args, first_attribute_retloc);
  const char *name = va_arg (args, const char *);
  while (name != NULL)
    {
      const char **retloc = va_arg (args, const char **);
      PRE (retloc != NULL && n < 24, "locate_attributes: at most 24 (name, location) pairs");
      names[n] = name; locs[n] = retloc; *retloc = NULL; n++;
      name = va_arg (args, const char *);
    }
  va_end (args);
  for (int i = 0; attribute_names[i] != NULL; i++)
    {
      int found = 0;
      for (int j = 0; j < n; j++) if (strcmp (names[j], attribute_names[i]) == 0)
        {
          if (*locs[j] != NULL) { verif_stub_dbus_set_error (error, DBUS_ERROR_FAILED, "Attribute \"%s\" repeated twice on the same <%s> element", names[j], element_name); return FALSE; }
          *locs[j] = attribute_values[i]; found = 1;
        }
      if (!found) { verif_stub_dbus_set_error (error, DBUS_ERROR_FAILED, "Attribute \"%s\" is invalid on <%s> element in this context", attribute_names[i], element_name); return FALSE; }
    }
  return TRUE;
}
const char bus_no_memory_message[] = "Memory allocation failure in message bus";
void *dbus_malloc (size_t n) { return malloc (n); }
void *dbus_malloc0 (size_t n) { return calloc (1, n); }
void dbus_free (void *p) { free (p); }
dbus_bool_t _dbus_lock (DBusGlobalLock lock) { return TRUE; }
void _dbus_unlock (DBusGlobalLock lock) { }
static char o_pool;
DBusMemPool *_dbus_mem_pool_new (int element_size, dbus_bool_t zero_elements) { return nondet_bool () ? NULL : (DBusMemPool *) &o_pool; }
void _dbus_mem_pool_free (DBusMemPool *pool) { }
void *_dbus_mem_pool_alloc (DBusMemPool *pool) { return calloc (1, sizeof (DBusList)); }
dbus_bool_t _dbus_mem_pool_dealloc (DBusMemPool *pool, void *element) { free (element); return FALSE; }
/* contract: the value of a decimal literal (dbus-sysdeps.c, strtol); only called on the concrete "0", "1", "7" */
dbus_bool_t _dbus_string_parse_int (const DBusString *str, int start, long *value_return, int *end_return)
{ const char *s = _dbus_string_get_const_data (str); PRE (start == 0 && s[0] >= '0' && s[0] <= '9' && s[1] == 0, "_dbus_string_parse_int: one decimal digit"); *value_return = s[0] - '0'; if (end_return) *end_return = 1; return TRUE; }

static int verif_is_nomem (const DBusError *e) { const char *n = e->name, *l = DBUS_ERROR_NO_MEMORY; if (!n) return 0; for (int i = 0; i < 48; i++) { if (n[i] != l[i]) return 0; if (!n[i]) return 1; } return 0; }
static int streq_opt (const char *a, const char *b)       /* both NULL, or equal strings (< 16 bytes) */
{ if (a == NULL || b == NULL) return a == b; for (int i = 0; i < 16; i++) { if (a[i] != b[i]) return 0; if (a[i] == 0) return 1; } return 0; }

void harness (void)
{
  static BusConfigParser parser; static Element pe; static DBusList link; DBusError err; err.name = NULL; err.message = NULL;
  int ctx = nondet_int (); __CPROVER_assume (ctx >= POLICY_IGNORED && ctx <= POLICY_CONSOLE);
  unsigned long id = nondet_ulong ();
  pe.type = ELEMENT_POLICY; pe.d.policy.type = ctx; pe.d.policy.gid_uid_or_at_console = id;
  /* at_console="(true|false)" is stored as 1 / 0 by start_busconfig_child; uids / gids are arbitrary */
  __CPROVER_assume (IMP (ctx == POLICY_CONSOLE, id == 0 || id == 1));
  link.data = &pe; link.next = link.prev = &link; parser.stack = &link; parser.policy = POLICY; parser.refcount = 1;
  dbus_bool_t allow = nondet_bool ();
  dbus_bool_t ok = start_policy_child (&parser, allow ? "allow" : "deny", N, V, &err);

  int global_rule = (X.kind == BUS_POLICY_RULE_USER || X.kind == BUS_POLICY_RULE_GROUP);
  __CPROVER_assert ((ok != 0) == !ERR_SET (&err), "post1 FALSE iff error set");
  __CPROVER_assert (g_appends <= 1, "post2 at most one rule appended per element");
  __CPROVER_assert (IMP (ok, g_appends == (ctx == POLICY_IGNORED ? 0 : 1)), "post3 success: exactly one rule appended (none under an ignored <policy>)");
  __CPROVER_assert (IMP (ok && global_rule, ctx != POLICY_USER && ctx != POLICY_GROUP), "post4 user/group rules are refused inside <policy user=...> / <policy group=...>");
  if (g_appends == 1)
    {
      __CPROVER_assert (g_which == ctx, "post5 the rule goes to the list of the enclosing <policy>'s context: default / mandatory / user / group / at_console");
      __CPROVER_assert (IMP (ctx == POLICY_USER || ctx == POLICY_GROUP || ctx == POLICY_CONSOLE, g_id == id), "post6 ... under that policy's uid / gid / at_console value");
      BusPolicyRule *r = g_rule;
      __CPROVER_assert (IMP (ok, r->refcount == 1), "post7 the parser drops its own reference; the list's reference remains");
      __CPROVER_assert ((int) r->type == X.kind && r->allow == (unsigned) (allow != 0), "post8 rule kind and <allow>/<deny> are the element's");
      if (X.kind == BUS_POLICY_RULE_OWN)
        __CPROVER_assert (streq_opt (r->d.own.service_name, X.own) && r->d.own.prefix == (unsigned) X.own_prefix, "post9 own / own_prefix: name (NULL for \"*\") and prefix flag");
      else if (X.kind == BUS_POLICY_RULE_SEND)
        {
          __CPROVER_assert (r->d.send.message_type == X.type && streq_opt (r->d.send.path, X.path) && streq_opt (r->d.send.interface, X.interface)
                            && streq_opt (r->d.send.member, X.member) && streq_opt (r->d.send.error, X.error), "post10 send_type/_path/_interface/_member/_error (absent or \"*\" = any)");
          __CPROVER_assert (streq_opt (r->d.send.destination, X.peer) && IMP (X.peer != NULL, r->d.send.destination_is_prefix == (unsigned) X.peer_is_prefix), "post11 send_destination / send_destination_prefix");
          __CPROVER_assert (r->d.send.broadcast == (unsigned) X.broadcast && r->d.send.eavesdrop == (unsigned) X.eavesdrop && r->d.send.log == (unsigned) X.log
                            && r->d.send.requested_reply == (unsigned) (X.rr_given ? X.rr : (allow != 0)), "post12 send_broadcast tristate, eavesdrop (default false), log, send_requested_reply (default: allow true, deny false)");
          __CPROVER_assert (r->d.send.min_fds == X.min_fds && r->d.send.max_fds == X.max_fds, "post13 min_fds / max_fds (defaults 0 / DBUS_MAXIMUM_MESSAGE_UNIX_FDS)");
        }
      else if (X.kind == BUS_POLICY_RULE_RECEIVE)
        {
          __CPROVER_assert (r->d.receive.message_type == X.type && streq_opt (r->d.receive.path, X.path) && streq_opt (r->d.receive.interface, X.interface)
                            && streq_opt (r->d.receive.member, X.member) && streq_opt (r->d.receive.error, X.error) && streq_opt (r->d.receive.origin, X.peer), "post10 receive_type/_path/_interface/_member/_error/_sender (absent or \"*\" = any)");
          __CPROVER_assert (r->d.receive.eavesdrop == (unsigned) X.eavesdrop && r->d.receive.requested_reply == (unsigned) (X.rr_given ? X.rr : (allow != 0)), "post12 eavesdrop (default false), receive_requested_reply (default: allow true, deny false)");
          __CPROVER_assert (r->d.receive.min_fds == X.min_fds && r->d.receive.max_fds == X.max_fds, "post13 min_fds / max_fds (defaults 0 / DBUS_MAXIMUM_MESSAGE_UNIX_FDS)");
        }
      else
        __CPROVER_assert (IMP (X.uid_any, r->d.user.uid == DBUS_UID_UNSET), "post9 user=\"*\" matches any connection");
    }
  /* the element itself is pushed on success (so that its end tag pops it) */
  __CPROVER_assert (IMP (ok, parser.stack == &link && link.next != &link && ((Element *) link.next->data)->type == (allow ? ELEMENT_ALLOW : ELEMENT_DENY)), "post14 success: the <allow>/<deny> element is pushed on the element stack");
  if (ok && ctx == POLICY_DEFAULT) REACH ("default"); if (ok && ctx == POLICY_MANDATORY) REACH ("mandatory"); if (ok && ctx == POLICY_CONSOLE && id == 1) REACH ("at-console-true");
  if (ok && ctx == POLICY_IGNORED) REACH ("ignored-policy"); if (!ok) REACH ("failed");
#if VERIF_ELEM != 11
  if (ok && ctx == POLICY_USER) REACH ("user"); if (ok && ctx == POLICY_GROUP) REACH ("group");
#else
  if (!ok && ctx == POLICY_GROUP && g_appends == 0 && !verif_is_nomem (&err)) REACH ("global-rule-refused-in-group-policy");
#endif
}
