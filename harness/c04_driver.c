/* C04: the driver methods around the registry (bus/driver.c), P-stub route (VERIF_H 1..4) / B (VERIF_H 5).
 *   1 bus_driver_handle_acquire_service   (RequestName)    2 bus_driver_handle_release_service (ReleaseName)
 *   3 bus_driver_handle_service_exists    (NameHasOwner)   4 bus_driver_handle_get_service_owner (GetNameOwner)
 *   5 bus_driver_handle_list_queued_owners (ListQueuedOwners; loop over <= 3 names unwound: B)
 *   6 bus_driver_handle_list_services (ListNames; loop over <= 3 registered names unwound: B)
 * T contracts: arguments read from the message, the registry asked once with exactly those arguments, the
 * reply carries exactly what the registry answered in THAT call and goes to the caller; every FALSE sets the error. */
#include <config.h>
#include "dbus/dbus-internals.h"
#include VERIF_TU
#include <stdarg.h>
#include "c04_common.h"

static char c_conn, c_tx, c_msg, c_reply, c_reg, c_svc, c_owner;
#define CONN  ((DBusConnection *) &c_conn)
#define TX    ((BusTransaction *) &c_tx)
#define MSG   ((DBusMessage *) &c_msg)
#define REPLY ((DBusMessage *) &c_reply)
#define REG   ((BusRegistry *) &c_reg)
#define SVC   ((BusService *) &c_svc)
#define OWNER ((DBusConnection *) &c_owner)
static const char the_text[] = "a.b"; static const char owner_name[] = ":1.7"; static const char bus_name_lit[] = "org.freedesktop.DBus";
/* ghost inputs */
dbus_uint32_t in_flags, in_code; _Bool in_args_ok, in_reg_ok, in_exists, in_is_bus, in_owner_has_name; int in_k;
/* ghost record */
struct { int get_args, init_const, registry_calls, lookups, new_reply, appended, sent, unref, open, close, clear, listq; dbus_uint32_t appended_u32; dbus_bool_t appended_bool; const char *appended_str;
         const char *seq[4]; int nseq; const DBusString *the_str; } G;

BusRegistry *bus_connection_get_registry (DBusConnection *c) { PRE (c == CONN, "bus_connection_get_registry"); return REG; }
/* dbus_message_get_args: contract "on TRUE each out-parameter holds the corresponding argument of THIS message" */
dbus_bool_t dbus_message_get_args (DBusMessage *m, DBusError *e, int first_arg_type, ...)
{ va_list ap; PRE (m == MSG && e != NULL && !ERR_SET (e) && first_arg_type == DBUS_TYPE_STRING, "dbus_message_get_args: the request, STRING first"); G.get_args++;
  if (!in_args_ok) { e->name = nondet_bool () ? DBUS_ERROR_NO_MEMORY : DBUS_ERROR_INVALID_ARGS; e->message = some_string; return FALSE; }
  va_start (ap, first_arg_type);
  const char **sp = va_arg (ap, const char **); *sp = the_text;
  int t2 = va_arg (ap, int);
#if VERIF_H == 1
  PRE (t2 == DBUS_TYPE_UINT32, "dbus_message_get_args: RequestName reads (STRING, UINT32)");
  dbus_uint32_t *fp = va_arg (ap, dbus_uint32_t *); *fp = in_flags; t2 = va_arg (ap, int);
#endif
  PRE (t2 == DBUS_TYPE_INVALID, "dbus_message_get_args: argument list terminated");
  va_end (ap); return TRUE; }
void _dbus_string_init_const (DBusString *s, const char *value) { PRE (s != NULL && value == the_text, "_dbus_string_init_const: the name read from the message"); G.init_const++; G.the_str = s; }
dbus_bool_t bus_registry_acquire_service (BusRegistry *r, DBusConnection *c, const DBusString *n, dbus_uint32_t flags, dbus_uint32_t *result, BusTransaction *t, DBusError *e)
{ PRE (r == REG && c == CONN && n == G.the_str && G.init_const == 1 && flags == in_flags && result != NULL && t == TX && e != NULL && !ERR_SET (e), "bus_registry_acquire_service: caller, name and flags of the message, this transaction");
  G.registry_calls++; if (!in_reg_ok) { stub_fail (e); return FALSE; } *result = in_code; return TRUE; }      /* enforced: C04.acquire_table */
dbus_bool_t bus_registry_release_service (BusRegistry *r, DBusConnection *c, const DBusString *n, dbus_uint32_t *result, BusTransaction *t, DBusError *e)
{ PRE (r == REG && c == CONN && n == G.the_str && G.init_const == 1 && result != NULL && t == TX && e != NULL && !ERR_SET (e), "bus_registry_release_service: caller and name of the message, this transaction");
  G.registry_calls++; if (!in_reg_ok) { stub_fail (e); return FALSE; } *result = in_code; return TRUE; }      /* enforced: C04.release_table */
BusService *bus_registry_lookup (BusRegistry *r, const DBusString *n) { PRE (r == REG && n == G.the_str && G.init_const == 1, "bus_registry_lookup: name of the message"); G.lookups++; return in_exists ? SVC : NULL; }
dbus_bool_t _dbus_string_equal_c_str (const DBusString *a, const char *c_str) { PRE (a == G.the_str && verif_streq (c_str, bus_name_lit), "_dbus_string_equal_c_str: compared with the bus name"); return in_is_bus; }
int verif_stub_strcmp (const char *a, const char *b) { PRE (a == the_text && verif_streq (b, bus_name_lit), "strcmp: name of the message against the bus name"); return in_is_bus ? 0 : 1; }
DBusConnection *bus_service_get_primary_owners_connection (BusService *s) { PRE (s == SVC, "bus_service_get_primary_owners_connection: the service just looked up"); return OWNER; }
const char *bus_connection_get_name (DBusConnection *c) { PRE (c == OWNER, "bus_connection_get_name: the primary owner"); return in_owner_has_name ? owner_name : NULL; }
DBusMessage *dbus_message_new_method_return (DBusMessage *m) { PRE (m == MSG, "dbus_message_new_method_return: reply to the request"); if (nondet_bool ()) return NULL; G.new_reply++; return REPLY; }
dbus_bool_t dbus_message_append_args (DBusMessage *m, int first_arg_type, ...)
{ va_list ap; PRE (m == REPLY && G.new_reply == 1, "dbus_message_append_args: the reply"); va_start (ap, first_arg_type);
  if (first_arg_type == DBUS_TYPE_UINT32) G.appended_u32 = *va_arg (ap, dbus_uint32_t *);
  else if (first_arg_type == DBUS_TYPE_BOOLEAN) G.appended_bool = *va_arg (ap, dbus_bool_t *);
  else if (first_arg_type == DBUS_TYPE_STRING) G.appended_str = *va_arg (ap, const char **);
  else PRE (0, "dbus_message_append_args: expected type");
  int t2 = va_arg (ap, int); PRE (t2 == DBUS_TYPE_INVALID, "dbus_message_append_args: one argument"); va_end (ap);
  if (nondet_bool ()) return FALSE; G.appended++; return TRUE; }
dbus_bool_t bus_transaction_send_from_driver (BusTransaction *t, DBusConnection *c, DBusMessage *m)
{ PRE (t == TX && c == CONN && m == REPLY, "bus_transaction_send_from_driver: the reply, to the caller, in this transaction"); if (nondet_bool ()) return FALSE; G.sent++; return TRUE; }
void dbus_message_unref (DBusMessage *m) { PRE (m == REPLY && G.new_reply == 1, "dbus_message_unref: the reply"); G.unref++; }
#if VERIF_H == 5 || VERIF_H == 6
static int g_list_built; static DBusList ql[3]; static const char q0[] = ":1.1", q1[] = ":1.2", q2[] = ":1.3"; static const char *const qn[3] = { q0, q1, q2 }; static DBusList one;
dbus_bool_t bus_service_list_queued_owners (BusService *s, DBusList **ret)
{ int i; PRE (s == SVC && ret != NULL && *ret == NULL, "bus_service_list_queued_owners: the service just looked up"); G.listq++;
  if (nondet_bool ()) return FALSE;
  for (i = 0; i < 3; i++) if (i < in_k) { ql[i].data = (void *) qn[i]; ql[i].next = &ql[(i + 1) % in_k]; ql[i].prev = &ql[(i + in_k - 1) % in_k]; }
  *ret = &ql[0]; g_list_built = 1; return TRUE; }                                       /* enforced (B): C04.list_queued */
dbus_bool_t _dbus_list_append (DBusList **list, void *data) { PRE (list != NULL && *list == NULL, "_dbus_list_append"); if (nondet_bool ()) return FALSE; one.data = data; one.next = one.prev = &one; *list = &one; g_list_built = 1; return TRUE; }
DBusList *_dbus_list_get_first_link (DBusList **list) { return *list; }
/* draining variants (not used by the unchanged code): each call hands out the name at that END of what is left of the listing */
static int q_lo, q_hi = -1;
void *_dbus_list_pop_first (DBusList **list) { if (*list == NULL) return NULL; if (*list == &one) { *list = NULL; return one.data; } if (q_hi < 0) { q_lo = 0; q_hi = in_k; } if (q_lo >= q_hi) { *list = NULL; return NULL; } void *d = (void *) qn[q_lo++]; if (q_lo >= q_hi) *list = NULL; return d; }
void *_dbus_list_pop_last (DBusList **list) { if (*list == NULL) return NULL; if (*list == &one) { *list = NULL; return one.data; } if (q_hi < 0) { q_lo = 0; q_hi = in_k; } if (q_lo >= q_hi) { *list = NULL; return NULL; } void *d = (void *) qn[--q_hi]; if (q_lo >= q_hi) *list = NULL; return d; }
void _dbus_list_clear (DBusList **list) { G.clear++; *list = NULL; }
void dbus_message_iter_init_append (DBusMessage *m, DBusMessageIter *it) { PRE (m == REPLY, "dbus_message_iter_init_append: the reply"); }
dbus_bool_t dbus_message_iter_open_container (DBusMessageIter *it, int type, const char *sig, DBusMessageIter *sub) { PRE (type == DBUS_TYPE_ARRAY && sig[0] == 's' && sig[1] == 0 && G.open == 0, "dbus_message_iter_open_container: array of strings"); if (nondet_bool ()) return FALSE; G.open++; return TRUE; }
dbus_bool_t dbus_message_iter_append_basic (DBusMessageIter *it, int type, const void *value) { PRE (type == DBUS_TYPE_STRING && G.open == 1 && G.close == 0, "dbus_message_iter_append_basic: string inside the open array"); if (nondet_bool ()) return FALSE; if (G.nseq < 4) G.seq[G.nseq] = *(const char *const *) value; G.nseq++; return TRUE; }
dbus_bool_t dbus_message_iter_close_container (DBusMessageIter *it, DBusMessageIter *sub) { PRE (G.open == 1 && G.close == 0, "dbus_message_iter_close_container"); if (nondet_bool ()) return FALSE; G.close++; return TRUE; }
/* ListNames: contract of bus_registry_list_services (enforced (B) by C04.registry_list): TRUE => a NULL-terminated array of the len registered names */
static char *svc_arr[4]; static int g_list_calls, g_arr_frees, g_list_succeeded; static int g_list_ok (void) { return g_list_succeeded; }
dbus_bool_t bus_registry_list_services (BusRegistry *r, char ***listp, int *array_len)
{ int i; PRE (r == REG && listp != NULL && array_len != NULL, "bus_registry_list_services: the caller's registry"); g_list_calls++; if (nondet_bool ()) return FALSE;
  for (i = 0; i < 4; i++) svc_arr[i] = (i < in_k) ? (char *) qn[i] : NULL; *listp = svc_arr; *array_len = in_k; g_list_succeeded = 1; return TRUE; }
void dbus_free_string_array (char **a) { PRE (a == svc_arr && g_arr_frees == 0, "dbus_free_string_array: the listing, once"); g_arr_frees++; }
#endif

void harness (void)
{
  DBusError err; err.name = NULL; err.message = NULL;
  in_flags = nondet_uint (); in_code = nondet_uint (); in_args_ok = nondet_bool (); in_reg_ok = nondet_bool (); in_exists = nondet_bool (); in_is_bus = nondet_bool (); in_owner_has_name = nondet_bool ();
#if VERIF_H == 6
  in_k = nondet_int (); __CPROVER_assume (in_k >= 0 && in_k <= 3);       /* registered names (bound) */
#else
  in_k = nondet_int (); __CPROVER_assume (in_k >= 1 && in_k <= 3);       /* OWN_INV: a registered name has >= 1 owner */
#endif
  dbus_bool_t ret;
#if VERIF_H == 1
  ret = bus_driver_handle_acquire_service (CONN, TX, MSG, &err);
#elif VERIF_H == 2
  ret = bus_driver_handle_release_service (CONN, TX, MSG, &err);
#elif VERIF_H == 3
  ret = bus_driver_handle_service_exists (CONN, TX, MSG, &err);
#elif VERIF_H == 4
  ret = bus_driver_handle_get_service_owner (CONN, TX, MSG, &err);
#elif VERIF_H == 5
  ret = bus_driver_handle_list_queued_owners (CONN, TX, MSG, &err);
#else
  ret = bus_driver_handle_list_services (CONN, TX, MSG, &err);
#endif
  POST (IMP (ret, !ERR_SET (&err)) && IMP (!ret, ERR_SET (&err)), "drv.post0 error set exactly on FALSE");
#if VERIF_H != 6
  POST (G.get_args == 1, "drv.post1 arguments read once from the request");
#endif
#if VERIF_H == 5 || VERIF_H == 6
  POST (IMP (ret, G.sent == 1 && G.close == 1) && G.sent <= 1, "drv.post2 success = exactly one reply staged for the caller");
#else
  POST (IMP (ret, G.sent == 1 && G.appended == 1) && G.sent <= 1, "drv.post2 success = exactly one reply staged for the caller");
#endif
  POST (G.unref == G.new_reply, "drv.post3 the reply object is released on every path");
#if VERIF_H == 1 || VERIF_H == 2
  POST (G.registry_calls <= 1 && IMP (!in_args_ok, G.registry_calls == 0) && IMP (in_args_ok, G.registry_calls == 1), "drv.post4 registry operation invoked exactly once iff the arguments were read");
  POST (IMP (ret, in_reg_ok && G.appended_u32 == in_code), "drv.post5 the reply carries the code the registry returned");
  POST (IMP (!in_reg_ok, !ret && G.sent == 0 && G.new_reply == 0), "drv.post6 registry refusal => no reply built, error passed on");
  if (ret) REACH ("replied"); if (in_args_ok && !in_reg_ok) REACH ("registry-refused"); if (!in_args_ok) REACH ("bad-args"); if (!ret && in_reg_ok && in_args_ok) REACH ("oom-after-registry");
#elif VERIF_H == 3
  /* NameHasOwner: "Checks if the specified name exists (currently has an owner)"; the bus owns org.freedesktop.DBus */
  POST (IMP (ret, G.appended_bool == (in_is_bus || in_exists)), "drv.exists answer = the name is the bus name or the registry lookup found it");
  POST (G.lookups <= 1 && IMP (in_args_ok && !in_is_bus, G.lookups == 1), "drv.exists one registry lookup");
  if (ret && G.appended_bool) REACH ("has-owner"); if (ret && !G.appended_bool) REACH ("no-owner"); if (!ret) REACH ("failed");
#elif VERIF_H == 4
  /* GetNameOwner: "Returns the unique connection name of the primary owner of the name given. If the requested name
   * doesn't have an owner, returns a org.freedesktop.DBus.Error.NameHasNoOwner error." */
  POST (G.lookups == (in_args_ok ? 1 : 0), "drv.owner one registry lookup");
  POST (IMP (ret && in_exists, G.appended_str == owner_name), "drv.owner answer = unique name of the primary owner of the service found by this lookup");
  POST (IMP (ret && !in_exists, in_is_bus && verif_streq (G.appended_str, bus_name_lit)), "drv.owner the bus name is owned by the bus itself");
  POST (IMP (in_args_ok && !in_exists && !in_is_bus, !ret && err_is (&err, DBUS_ERROR_NAME_HAS_NO_OWNER)), "drv.owner no owner => NameHasNoOwner");
  if (ret && in_exists) REACH ("owner"); if (ret && !in_exists) REACH ("bus-itself"); if (in_args_ok && !in_exists && !in_is_bus) REACH ("no-owner"); if (!ret && in_exists) REACH ("failed");
#elif VERIF_H == 5
  /* ListQueuedOwners: "The unique bus names of connections currently queued for the name" */
  POST (G.lookups == (in_args_ok ? 1 : 0) && G.listq <= 1 && IMP (ret && in_exists, G.listq == 1), "drv.queued one registry lookup, one queue listing of that service");
  POST (IMP (ret && in_exists, G.nseq == in_k && G.seq[0] == qn[0] && IMP (in_k >= 2, G.seq[1] == qn[1]) && IMP (in_k >= 3, G.seq[2] == qn[2])), "drv.queued reply = the queue listing, same names, same order");
  POST (IMP (ret && !in_exists, in_is_bus && G.nseq == 1 && verif_streq (G.seq[0], bus_name_lit)), "drv.queued the bus name is owned by the bus itself");
  POST (IMP (in_args_ok && !in_exists && !in_is_bus, !ret && err_is (&err, DBUS_ERROR_NAME_HAS_NO_OWNER)), "drv.queued no owner => NameHasNoOwner");
  POST (IMP (ret, G.open == 1 && G.close == 1), "drv.queued array opened and closed once");
  POST (G.clear <= 1 && IMP (g_list_built, G.clear == 1), "drv.queued.release the temporary listing of owner names is released on every path, success included (a client must not be able to grow the bus)");
  if (ret && in_exists && in_k == 3) REACH ("three-owners"); if (ret && in_exists && in_k == 1) REACH ("one-owner"); if (ret && !in_exists) REACH ("bus-itself"); if (in_args_ok && !in_exists && !in_is_bus) REACH ("no-owner"); if (!ret && G.open == 1) REACH ("failed-inside-array");
#else
  /* ListNames: "Returns a list of all currently-owned names on the bus" (specification); the bus itself owns org.freedesktop.DBus */
  POST (g_list_calls <= 1 && IMP (ret, g_list_calls == 1), "drv.names one registry listing");
  POST (IMP (ret, G.nseq == in_k + 1 && verif_streq (G.seq[0], bus_name_lit)), "drv.names the reply lists the bus's own name and then every registered name: count");
  POST (IMP (ret, IMP (in_k >= 1, G.seq[1] == qn[0]) && IMP (in_k >= 2, G.seq[2] == qn[1]) && IMP (in_k >= 3, G.seq[3] == qn[2])), "drv.names every registered name appears exactly once, in the registry's order");
  POST (IMP (ret, G.open == 1 && G.close == 1), "drv.names array opened and closed once");
  POST (g_arr_frees == ((g_list_calls == 1 && (ret || G.new_reply == 1) && g_list_ok ()) ? 1 : 0), "drv.names the listing is released exactly once on every path");
  if (ret && in_k == 3) REACH ("three-names"); if (ret && in_k == 0) REACH ("only-the-bus"); if (!ret && G.open == 1) REACH ("failed-inside-array");
#endif
}
