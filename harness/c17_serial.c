/* C17.serial (P/F, loop-free): _dbus_connection_get_next_client_serial, real body.
 * Oracle: D-Bus specification, message header: "The serial number of this message ... The serial number must
 * not be zero"; property C17: "message serials assigned by a connection are non-zero and, until the 32-bit
 * counter wraps, distinct".  Contract: with INV(c) := c->client_serial != 0,
 *   requires INV;  ensures result == old counter, result != 0, INV again,
 *   new counter == (old == 0xFFFFFFFF ? 1 : old + 1)                     (so two successive results differ,
 *   and k successive results are old, old+1, ... pairwise distinct while old + k - 1 <= 0xFFFFFFFF).
 * Lemma (two calls of the real body): successive serials are distinct and non-zero. */
#include "c17_common.h"
void harness (void)
{
  DBusConnection c;
  dbus_uint32_t old = nondet_uint ();
  __CPROVER_assume (old != 0);                    /* INV, established by _dbus_connection_new_for_transport (C17.init) */
  c.client_serial = old;
  dbus_uint32_t s1 = _dbus_connection_get_next_client_serial (&c);
  __CPROVER_assert (s1 == old && s1 != 0, "post1 the serial handed out is the counter value and is never 0");
  __CPROVER_assert (c.client_serial == (old == 0xFFFFFFFFu ? 1u : old + 1u), "post2 counter advances by one, skipping 0 at the wrap");
  __CPROVER_assert (c.client_serial != 0, "post3 invariant client_serial != 0 preserved");
  dbus_uint32_t mid = c.client_serial;
  dbus_uint32_t s2 = _dbus_connection_get_next_client_serial (&c);
  __CPROVER_assert (s2 != 0 && s2 != s1, "lemma successive serials are non-zero and distinct");
  __CPROVER_assert (IMP (old <= 0xFFFFFFFEu, s2 == s1 + 1u), "lemma strictly increasing until the wrap");
  if (old == 0xFFFFFFFFu) REACH ("wrap"); else REACH ("no-wrap");
  if (s2 == 1u) REACH ("second-after-wrap");
}
