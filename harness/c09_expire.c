/* C09: do_expiration_with_monotonic_time (bus/expirelist.c), the walk that decides which pending replies are handed to
 * the expire function.  B: <= 3 entries.  Typestate only: *when* a running clock is due under a finite timeout (double
 * arithmetic of ELAPSED_MILLISECONDS_SINCE) is not claimed -- an exact comparison with integer microseconds did not
 * terminate in 20 min.
 * Oracle: property C09 ("the configured reply timeout elapses ... with finite and infinite reply_timeout"; callee
 * disconnect = clock 0/0 set by bus_connection_drop_pending_replies means "expire at once"); dbus-daemon(1) <limit
 * name="reply_timeout">: "milliseconds (thousandths) until a method call times out".
 * The expire function is a contract stub: it either fails (OOM: entry stays) or removes exactly the link it was given. */
#include "c09_common.h"
static int g_calls, g_called[3], g_failed_at = -1, g_oom_wait;
int _dbus_get_oom_wait (void) { return g_oom_wait; }
static dbus_bool_t verif_expire (BusExpireList *list, DBusList *link, void *data)
{
  PRE (list == &XL && data == &CS && link != NULL && g_failed_at < 0, "expire function: called with a link of this list, never after a failure in the same walk");
  int idx = link == LK[0] ? 0 : link == LK[1] ? 1 : link == LK[2] ? 2 : -1;
  PRE (idx >= 0 && idx < n0 && g_called[idx] == 0, "expire function: each entry at most once per walk");
  g_called[idx] = ++g_calls;
  if (nondet_bool ()) { g_failed_at = idx; return FALSE; }
  bus_expire_list_remove_link (list, link);
  return TRUE;
}
void harness (void)
{
  build_world (); XL.expire_func = verif_expire; g_oom_wait = nondet_int (); __CPROVER_assume (g_oom_wait >= 0);
  long now_sec = nondet_long (), now_usec = nondet_long ();
  __CPROVER_assume (now_sec >= 0 && now_usec >= 0 && now_usec < 1000000);
  /* due[i]: 1 = must be expired (clock 0/0: callee gone), 0 = must not (infinite timeout, running clock),
   *         2 = depends on the elapsed time (finite timeout) -- timing is not claimed by this unit */
  int due[3];
  for (int i = 0; i < 3; i++) if (i < n0) due[i] = (e_sec[i] == 0 && e_usec[i] == 0) ? 1 : (XL.expire_after <= 0 ? 0 : 2);
  int ret = do_expiration_with_monotonic_time (&XL, now_sec, now_usec);
  int stopped = 0, ok = 1, last = 0;
  for (int i = 0; i < 3; i++) if (i < n0)
    {
      if (stopped) { if (g_called[i] != 0) ok = 0; continue; }
      if (due[i] == 1 && g_called[i] == 0) ok = 0;                 /* must have been handed over */
      if (due[i] == 0 && g_called[i] != 0) ok = 0;                 /* must not */
      if (g_called[i] != 0) { if (g_called[i] != last + 1) ok = 0; last = g_called[i]; if (g_failed_at == i) stopped = 1; }
    }
  __CPROVER_assert (ok && g_calls == last, "post1 entries with clock 0/0 are always handed to the expire function, entries with a running clock never under an infinite timeout; once each, in list order, nothing after the first failure");
  BusPendingReply *s[5]; int m = snapshot (s); int k = 0, lok = 1;
  for (int i = 0; i < 3; i++) if (i < n0 && !(g_called[i] != 0 && g_failed_at != i)) { if (k >= m || s[k] != E[i]) lok = 0; k++; }
  __CPROVER_assert (lok && k == m, "post2 the list afterwards = the entries that were not successfully expired, order kept");
  __CPROVER_assert (IMP (g_failed_at >= 0, ret == g_oom_wait), "post3 after a failed expiry the walk asks to be re-run after the OOM wait");
  __CPROVER_assert (IMP (g_failed_at < 0 && XL.expire_after <= 0, ret == -1), "post4 infinite timeout, nothing failed: timer off (-1)");
  int waiting = 0; for (int i = 0; i < 3; i++) if (i < n0 && g_called[i] == 0) waiting = 1;
  __CPROVER_assert (IMP (g_failed_at < 0 && XL.expire_after > 0 && waiting, ret >= 0 && ret <= 3600 * 1000), "post5 finite timeout and an entry still waiting: the timer stays armed (0 .. one hour), however far away the deadline is - otherwise the call would never time out");
  __CPROVER_assert (IMP (g_failed_at < 0 && !waiting, ret == -1), "post6 nothing left waiting: timer off");
  if (g_calls == 3 && g_failed_at < 0) REACH ("all-three-expired"); if (g_failed_at == 1) REACH ("second-fails");
  if (XL.expire_after <= 0 && g_calls == 1 && n0 == 3) REACH ("infinite-timeout-callee-gone");
  if (XL.expire_after > 0 && g_calls == 0 && n0 == 3) REACH ("finite-none-due");
}
