/* C15 "surplus descriptors ... are held only ... within its per-connection limit and pending-descriptor timeout":
 * the real static check_pending_fds_cb() and pending_unix_fds_timeout_cb() of bus/connection.c (P-stub, loop-free).
 * The deadline starts when descriptors FIRST become pending (0 -> n) and is not pushed out by further descriptors;
 * it is cancelled when none is pending any more; the recorded count follows the loader; when the deadline passes the
 * connection is closed. */
#include <config.h>
#include "dbus/dbus-internals.h"
#include VERIF_TU
_Bool nondet_bool (void); int nondet_int (void);
void _dbus_real_assert (dbus_bool_t c, const char *t, const char *f, int l, const char *fn) { __CPROVER_assert (c, "dbus internal assertion"); __CPROVER_assume (c); }
void _dbus_verbose_real (const char *file, const int line, const char *function, const char *format, ...) { }
static BusConnectionData D; static BusConnections CS; static char ctxobj, connobj, tmo;
static int g_new_count, g_restarts, g_disables, g_restart_interval, g_cfg_timeout, g_closes;
void *verif_stub_get_data (DBusConnection *c, dbus_int32_t slot) { return &D; }
int verif_stub_pending_count (DBusConnection *c) { __CPROVER_assert (c == (DBusConnection *) &connobj, "precondition: this connection"); return g_new_count; }
void verif_stub_timeout_restart (DBusTimeout *t, int interval) { __CPROVER_assert (t == (DBusTimeout *) &tmo, "precondition of _dbus_timeout_restart: the pending-fd timeout of this connection"); g_restarts++; g_restart_interval = interval; }
void verif_stub_timeout_disable (DBusTimeout *t) { __CPROVER_assert (t == (DBusTimeout *) &tmo, "precondition of _dbus_timeout_disable: the pending-fd timeout of this connection"); g_disables++; }
int verif_stub_get_pending_fd_timeout (BusContext *ctx) { return g_cfg_timeout; }
void bus_context_log (BusContext *context, DBusSystemLogSeverity severity, const char *msg, ...) { }
void verif_stub_connection_close (DBusConnection *c) { __CPROVER_assert (c == (DBusConnection *) &connobj, "precondition of dbus_connection_close: this connection"); g_closes++; }
void harness (void)
{
  int old = nondet_int (); g_new_count = nondet_int (); g_cfg_timeout = nondet_int ();
  __CPROVER_assume (old >= 0 && g_new_count >= 0);
  D.n_pending_unix_fds = old; D.pending_unix_fds_timeout = (DBusTimeout *) &tmo; D.connections = &CS; D.connection = (DBusConnection *) &connobj; CS.context = (BusContext *) &ctxobj;
  g_restarts = 0; g_disables = 0; g_closes = 0;
  if (nondet_bool ())
    {
      check_pending_fds_cb ((DBusConnection *) &connobj);
      __CPROVER_assert (g_restarts == ((old == 0 && g_new_count > 0) ? 1 : 0), "pendfd.start the deadline is (re)started exactly when descriptors first become pending (0 -> n); more descriptors do not push it out");
      __CPROVER_assert (g_restarts == 0 || g_restart_interval == g_cfg_timeout, "pendfd.interval the deadline is the configured pending_fd_timeout");
      __CPROVER_assert (g_disables == ((old > 0 && g_new_count == 0) ? 1 : 0), "pendfd.stop the deadline is cancelled exactly when no descriptor is pending any more");
      __CPROVER_assert (D.n_pending_unix_fds == g_new_count, "pendfd.count the recorded count follows the loader");
      __CPROVER_assert (g_closes == 0, "pendfd.noclose a count change closes nothing");
      if (g_restarts) __CPROVER_assert (0, "REACH:started");
      if (g_disables) __CPROVER_assert (0, "REACH:cancelled");
      if (old > 0 && g_new_count > old) __CPROVER_assert (0, "REACH:more-while-pending");
    }
  else
    {
      dbus_bool_t r = pending_unix_fds_timeout_cb (&connobj);
      __CPROVER_assert (r && g_closes == 1, "pendfd.expire when the deadline passes the connection is closed (its descriptors are then released with it)");
      __CPROVER_assert (0, "REACH:expired");
    }
}
