/* C02 "converting a message to the other byte order changes no value" (B, per constant signature):
 * for every body of at most VERIF_N bytes that the REAL validator accepts in byte order A,
 *   (1) _dbus_marshal_byteswap (A -> B) hits no assertion / out-of-bounds access,
 *   (2) the result is accepted by the real validator in byte order B and by the reference decoder,
 *   (3) every byte that is not part of a multi-byte number is unchanged and swapping back restores the
 *       original bytes (so each number holds the same value in the new order: it is the byte-reversal of
 *       a fixed-width field, which is exactly the specification's endianness rule). */
#include "verif_str.h"
#include "dbus/dbus-marshal-validate.h"
#include "dbus/dbus-marshal-byteswap.h"
#include "dbus/dbus-protocol.h"
#ifndef VERIF_N
#define VERIF_N 16
#endif
#define BODY_REF_MAXSTR (VERIF_N + 1)
#define SIG_REF_MAXRUN (VERIF_N + 1)
#include "body_ref.h"
long verif_gk, verif_gk2, verif_w, verif_w2; int verif_flag;
unsigned char in_buf[VERIF_N + 16] __attribute__ ((aligned (8)));
unsigned char orig[VERIF_N + 16];
unsigned char expect[VERIF_N + 16];
int in_len;
unsigned char nondet_uchar (void); int nondet_int (void);
static const char the_sig[] = VERIF_SIG;
void harness (void)
{
  DBusRealString body, sig; int i; DBusValidity before, after;
  int A = VERIF_LE ? DBUS_LITTLE_ENDIAN : DBUS_BIG_ENDIAN, B = VERIF_LE ? DBUS_BIG_ENDIAN : DBUS_LITTLE_ENDIAN;
  in_len = nondet_int ();
  __CPROVER_assume (in_len >= 0 && in_len <= VERIF_N);
  for (i = 0; i < VERIF_N; i++) in_buf[i] = nondet_uchar ();
#ifdef VERIF_BODY_ASSUME
  VERIF_BODY_ASSUME        /* variants: the contained signature bytes are fixed by concrete assignments (see tool/units/c01.py) */
#endif
  for (i = 0; i < VERIF_N; i++) orig[i] = in_buf[i];
  body.str = in_buf; body.len = in_len; body.allocated = VERIF_N + 16; body.constant = 0; body.locked = 0; body.valid = 1; body.align_offset = 0;
  sig.str = (unsigned char *) the_sig; sig.len = sizeof (the_sig) - 1; sig.allocated = sizeof (the_sig) + 8; sig.constant = 1; sig.locked = 1; sig.valid = 1; sig.align_offset = 0;
  before = _dbus_validate_body_with_reason ((DBusString *) &sig, 0, A, NULL, (DBusString *) &body, 0, in_len);
  __CPROVER_assume (before == DBUS_VALID);
  /* expected image in the other byte order, computed by the reference decoder from the original bytes */
  for (i = 0; i < VERIF_N; i++) expect[i] = orig[i];
  body_ref_out = expect;
  __CPROVER_assert (body_ref_valid (the_sig, orig, in_len, VERIF_LE), "a body the validator accepts is well-formed per the reference decoder");
  body_ref_out = 0;
  _dbus_marshal_byteswap ((DBusString *) &sig, 0, A, B, (DBusString *) &body, 0);
  after = _dbus_validate_body_with_reason ((DBusString *) &sig, 0, B, NULL, (DBusString *) &body, 0, in_len);
  __CPROVER_assert (after == DBUS_VALID, "a valid body is still valid after conversion to the other byte order");
  __CPROVER_assert (body_ref_valid (the_sig, in_buf, in_len, !VERIF_LE), "the converted body is well-formed per the reference decoder");
  for (i = 0; i < VERIF_N; i++) __CPROVER_assert (i >= in_len || in_buf[i] == expect[i], "every number keeps its value in the new byte order (field-wise byte reversal), every other byte is unchanged");
  _dbus_marshal_byteswap ((DBusString *) &sig, 0, B, A, (DBusString *) &body, 0);
  for (i = 0; i < VERIF_N; i++) __CPROVER_assert (in_buf[i] == orig[i], "converting back restores every byte");
  __CPROVER_assert (0, "REACH:valid-body-swapped");
}
