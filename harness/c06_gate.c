/* C06/C09: the policy gate bus_context_check_security_policy (bus/bus.c), P-stub route:
 * the real function on the pristine TU; every callee bound to its contract written as a stub
 * (assert requires / havoc / assume ensures / update ghost record G). */
#include <config.h>
#include "dbus/dbus-internals.h"
#include VERIF_TU
/* ghost */
int  g_type; dbus_uint32_t g_reply_serial; _Bool g_has_dest; _Bool g_dest_is_bus; _Bool g_is_hello;
_Bool g_sender_active, g_recipient_active;
BusClientPolicy *g_sender_policy, *g_recipient_policy;
struct verif_ghost { int check_reply_calls, expect_reply_calls, send_checks, recv_checks, complaints; _Bool check_reply_result, send_result, recv_result, send_rr, recv_rr; BusClientPolicy *send_policy_used, *recv_policy_used; } G;
DBusConnection *g_the_sender, *g_the_recipient;
long g_out_size, g_out_fds; _Bool g_expect_result, g_lsm_denied; int g_sends;
static const char g_callee_err[] = "callee.Error";   /* error names set by callees (OOM from check_reply, expect_reply's own errors, LSM hooks) */
/* loop over a constant bound: unwound by --unwindset verif_name_is.0:64 (not a loop of the function under contract) */
static int verif_name_is (const char *n, const char *lit) { if (n == NULL) return 0; for (int i = 0; i < 63; i++) { if (n[i] != lit[i]) return 0; if (n[i] == 0) return 1; } return 0; }
static const char g_bus_name[] = DBUS_SERVICE_DBUS; static const char g_other_name[] = "x.y";
#define ERR_SET(e) ((e)->name != NULL)
void _dbus_real_assert (dbus_bool_t condition, const char *condition_text, const char *file, int line, const char *func)
{ __CPROVER_assert(condition, "dbus internal assertion"); __CPROVER_assume(condition); }
void _dbus_real_assert_not_reached (const char *explanation, const char *file, int line)
{ __CPROVER_assert(0, "dbus assert_not_reached"); __CPROVER_assume(0); }
void _dbus_verbose_real (const char *file, const int line, const char *function, const char *format, ...) {}
_Bool nondet_bool(void); int nondet_int(void); long nondet_long(void); const char *nondet_str(void); void *nondet_ptr(void);
static const char some_string[] = "s";
#define PRE(c, what) __CPROVER_assert((c), "precondition of " what)
/* ---- contracts as assert/havoc/assume stubs (generated form) ---- */
int dbus_message_get_type (DBusMessage *m) { return g_type; }
const char *dbus_message_get_sender (DBusMessage *m) { return nondet_bool() ? some_string : NULL; }
const char *dbus_message_get_destination (DBusMessage *m) { return g_has_dest ? (g_dest_is_bus ? g_bus_name : g_other_name) : NULL; }
const char *dbus_message_get_interface (DBusMessage *m) { return nondet_bool() ? some_string : NULL; }
const char *dbus_message_get_member (DBusMessage *m) { return nondet_bool() ? some_string : NULL; }
const char *dbus_message_get_path (DBusMessage *m) { return nondet_bool() ? some_string : NULL; }
const char *dbus_message_get_error_name (DBusMessage *m) { return nondet_bool() ? some_string : NULL; }
const char *dbus_message_type_to_string (int type) { return some_string; }
dbus_uint32_t dbus_message_get_reply_serial (DBusMessage *m) { return g_reply_serial; }
dbus_bool_t dbus_message_is_method_call (DBusMessage *m, const char *i, const char *me) { return g_is_hello; }
dbus_bool_t bus_connection_is_active (DBusConnection *c) { PRE(c != NULL, "bus_connection_is_active"); return c == g_the_sender ? g_sender_active : g_recipient_active; }
BusClientPolicy *bus_connection_get_policy (DBusConnection *c) { PRE(c != NULL, "bus_connection_get_policy"); return c == g_the_sender ? g_sender_policy : g_recipient_policy; }
BusConnections *bus_connection_get_connections (DBusConnection *c) { return nondet_ptr(); }
void dbus_error_init (DBusError *e) { PRE(e != NULL, "dbus_error_init"); e->name = NULL; e->message = NULL; }
dbus_bool_t dbus_error_is_set (const DBusError *e) { PRE(e != NULL, "dbus_error_is_set"); return ERR_SET(e); }
void dbus_move_error (DBusError *src, DBusError *dest) { PRE(src != NULL, "dbus_move_error"); if (dest) { dest->name = src->name; dest->message = src->message; } src->name = NULL; src->message = NULL; }
void verif_stub_dbus_set_error (DBusError *e, const char *name, const char *format, ...) { PRE(name != NULL && (e == NULL || !ERR_SET(e)), "dbus_set_error"); if (e) { e->name = name; e->message = some_string; } }
dbus_bool_t bus_connections_check_reply (BusConnections *cs, BusTransaction *t, DBusConnection *sending, DBusConnection *receiving, DBusMessage *reply, DBusError *error)
{ PRE(sending != NULL && receiving != NULL && error != NULL && !ERR_SET(error), "bus_connections_check_reply");
  dbus_bool_t r = nondet_bool(); G.check_reply_calls++; G.check_reply_result = r; if (!r && nondet_bool()) { error->name = g_callee_err; } return r; }
dbus_bool_t bus_connections_expect_reply (BusConnections *cs, BusTransaction *t, DBusConnection *will_get, DBusConnection *will_send, DBusMessage *m, DBusError *error)
{ PRE(will_get != NULL && will_send != NULL && m != NULL, "bus_connections_expect_reply"); dbus_bool_t r = nondet_bool(); G.expect_reply_calls++; g_expect_result = r; if (!r && error) error->name = g_callee_err; return r; }
dbus_bool_t bus_selinux_allows_send (DBusConnection *s, DBusConnection *r, const char *a, const char *b, const char *c, const char *d, const char *e, BusActivationEntry *ae, DBusError *error)
{ dbus_bool_t ok = nondet_bool(); if (!ok) g_lsm_denied = 1; if (!ok && error && nondet_bool()) error->name = g_callee_err; return ok; }
dbus_bool_t bus_apparmor_allows_send (DBusConnection *s, DBusConnection *r, dbus_bool_t rr, const char *bt, int mt, const char *p, const char *i, const char *m, const char *en, const char *d, const char *src, BusActivationEntry *ae, DBusError *error)
{ dbus_bool_t ok = nondet_bool(); if (!ok) g_lsm_denied = 1; if (!ok && error) error->name = g_callee_err; return ok; }
void verif_stub_complain_about_message (BusContext *context, const char *error_name, const char *complaint, int matched_rules, DBusMessage *message, DBusConnection *sender, DBusConnection *proposed_recipient, dbus_bool_t requested_reply, dbus_bool_t log, DBusError *error)
{ PRE(error_name != NULL && (error == NULL || !ERR_SET(error)), "complain_about_message"); G.complaints++; if (error) { error->name = error_name; error->message = some_string; } }
dbus_bool_t bus_client_policy_check_can_send (BusClientPolicy *policy, BusRegistry *registry, dbus_bool_t requested_reply, DBusConnection *receiver, DBusMessage *message, dbus_int32_t *toggles, dbus_bool_t *log)
{ PRE(policy != NULL && toggles != NULL && log != NULL, "bus_client_policy_check_can_send"); dbus_bool_t r = nondet_bool(); *toggles = nondet_int(); *log = nondet_bool();
  G.send_checks++; G.send_result = r; G.send_rr = (requested_reply != 0); G.send_policy_used = policy; return r; }
dbus_bool_t bus_client_policy_check_can_receive (BusClientPolicy *policy, BusRegistry *registry, dbus_bool_t requested_reply, DBusConnection *sender, DBusConnection *addressed, DBusConnection *proposed, DBusMessage *message, dbus_int32_t *toggles)
{ PRE(policy != NULL && toggles != NULL, "bus_client_policy_check_can_receive"); dbus_bool_t r = nondet_bool(); *toggles = nondet_int();
  G.recv_checks++; G.recv_result = r; G.recv_rr = (requested_reply != 0); G.recv_policy_used = policy; return r; }
/* whether a peer's socket is still open is arbitrary and no reason to skip any step of the gate (not consulted by the unchanged code) */
dbus_bool_t dbus_connection_get_is_connected (DBusConnection *c) { return nondet_bool (); }
long dbus_connection_get_outgoing_size (DBusConnection *c) { PRE(c == g_the_recipient, "dbus_connection_get_outgoing_size: the proposed recipient"); return g_out_size; }
long dbus_connection_get_outgoing_unix_fds (DBusConnection *c) { PRE(c == g_the_recipient, "dbus_connection_get_outgoing_unix_fds: the proposed recipient"); return g_out_fds; }
/* the gate decides, it never sends: any call of a send primitive from it is a violation ("a denied message is delivered to no one") */
dbus_bool_t bus_transaction_send (BusTransaction *t, DBusConnection *c, DBusMessage *m) { PRE(0, "bus_transaction_send: the gate never sends"); g_sends++; return TRUE; }
dbus_bool_t bus_transaction_send_from_driver (BusTransaction *t, DBusConnection *c, DBusMessage *m) { PRE(0, "bus_transaction_send_from_driver: the gate never sends"); g_sends++; return TRUE; }
dbus_bool_t bus_transaction_send_error_reply (BusTransaction *t, DBusConnection *c, const DBusError *e, DBusMessage *m) { PRE(0, "bus_transaction_send_error_reply: the gate never sends"); g_sends++; return TRUE; }
dbus_bool_t dbus_connection_send (DBusConnection *c, DBusMessage *m, dbus_uint32_t *serial) { PRE(0, "dbus_connection_send: the gate never sends"); g_sends++; return TRUE; }
#define IS_KNOWN_TYPE(t) ((t)==DBUS_MESSAGE_TYPE_METHOD_CALL||(t)==DBUS_MESSAGE_TYPE_SIGNAL||(t)==DBUS_MESSAGE_TYPE_METHOD_RETURN||(t)==DBUS_MESSAGE_TYPE_ERROR)
#define IMP(a,b) (!(a) || (b))
void harness(void)
{
  BusContext ctx; BusTransaction *transaction = nondet_ptr(); char mo; DBusMessage *message = (DBusMessage*)&mo; BusActivationEntry *ae = nondet_ptr(); DBusError err;
  static DBusConnection *s_obj, *r_obj; char so, ro, ao; g_the_sender = (DBusConnection*)&so; g_the_recipient = (DBusConnection*)&ro;
  DBusConnection *sender = nondet_bool() ? g_the_sender : NULL;
  DBusConnection *proposed = nondet_bool() ? g_the_recipient : NULL;
  DBusConnection *addressed = nondet_bool() ? proposed : (nondet_bool() ? (DBusConnection*)&ao : NULL);
  err.name = NULL; err.message = NULL;
  g_type = nondet_int(); g_reply_serial = (dbus_uint32_t)nondet_int(); g_has_dest = nondet_bool(); g_dest_is_bus = nondet_bool(); g_is_hello = nondet_bool();
  g_out_size = nondet_long(); g_out_fds = nondet_long();
  g_sender_active = nondet_bool(); g_recipient_active = nondet_bool(); g_sender_policy = nondet_ptr(); g_recipient_policy = nondet_ptr();
  ctx.limits.max_outgoing_bytes = nondet_long(); ctx.limits.max_outgoing_unix_fds = nondet_long();
  __CPROVER_assume(IMP(g_sender_active, g_sender_policy != NULL) && IMP(g_recipient_active, g_recipient_policy != NULL));
  __CPROVER_assume(g_has_dest || g_type == DBUS_MESSAGE_TYPE_SIGNAL || (sender == NULL && proposed != NULL && !g_recipient_active));
  __CPROVER_assume(g_type == DBUS_MESSAGE_TYPE_SIGNAL || addressed != NULL || ae != NULL || (g_has_dest && g_dest_is_bus));
  __CPROVER_assume(proposed == NULL || g_recipient_active || sender == NULL);
  __CPROVER_assume(G.check_reply_calls == 0 && G.expect_reply_calls == 0 && G.send_checks == 0 && G.recv_checks == 0 && G.complaints == 0);
  dbus_bool_t ret = bus_context_check_security_policy(&ctx, transaction, sender, addressed, proposed, message, ae, &err);
  __CPROVER_assert(IMP(ret, IS_KNOWN_TYPE(g_type)), "post1 unknown types never admitted");
  __CPROVER_assert(IMP(!ret, ERR_SET(&err)), "post2 refusal carries an error");
  __CPROVER_assert(IMP(ret && sender && g_sender_active, G.send_checks == 1 && G.send_result && G.send_policy_used == g_sender_policy), "post3 sender's send rules consulted and allowed");
  __CPROVER_assert(IMP(ret && proposed && g_recipient_active && !(sender && !g_sender_active), G.recv_checks == 1 && G.recv_result && G.recv_policy_used == g_recipient_policy), "post4 recipient's receive rules consulted and allowed");
  __CPROVER_assert(IMP(ret && sender && !g_sender_active, proposed == NULL && g_is_hello), "post5 inactive sender only Hello to bus");
  __CPROVER_assert(IMP(G.send_checks == 1 && G.send_rr, sender && G.check_reply_calls == 1 && G.check_reply_result), "post6a requested_reply for send only from consumed slot");
  __CPROVER_assert(IMP(G.recv_checks == 1 && G.recv_rr, (sender && G.check_reply_calls == 1 && G.check_reply_result) || (!sender && g_reply_serial != 0 && addressed == proposed)), "post6b");
  __CPROVER_assert(G.check_reply_calls <= 1 && IMP(G.check_reply_calls == 1, g_reply_serial != 0 && sender && g_sender_active && proposed && addressed == proposed), "post6c");
  __CPROVER_assert(G.expect_reply_calls <= 1, "post7a");
  __CPROVER_assert(IMP(G.expect_reply_calls == 1, g_type == DBUS_MESSAGE_TYPE_METHOD_CALL && sender && addressed && addressed == proposed && (G.send_checks == 0 || G.send_result) && (G.recv_checks == 0 || G.recv_result)), "post7b slot only for admitted addressed method call");
  __CPROVER_assert(IMP(ret && g_type == DBUS_MESSAGE_TYPE_METHOD_CALL && sender && g_sender_active && addressed && addressed == proposed, G.expect_reply_calls == 1), "post7c");
  /* ---- outcome of a denial (property C06: "a denied method call earns its sender an AccessDenied error"; dbus-daemon(1) <limit>: a full
   *      outgoing queue is LimitsExceeded); errors produced by callees are passed through unchanged ---- */
  int is_ad = verif_name_is(err.name, "org.freedesktop.DBus.Error.AccessDenied"), is_le = verif_name_is(err.name, "org.freedesktop.DBus.Error.LimitsExceeded");
  int queue_full = proposed != NULL && (g_out_size > ctx.limits.max_outgoing_bytes || g_out_fds > ctx.limits.max_outgoing_unix_fds);
  __CPROVER_assert(IMP(!ret, is_ad || is_le || err.name == g_callee_err), "post8 refusal is AccessDenied, LimitsExceeded or the callee's own error");
  __CPROVER_assert(IMP(!IS_KNOWN_TYPE(g_type), !ret && is_ad), "post8a unknown message type => AccessDenied");
  __CPROVER_assert(IMP(G.send_checks == 1 && !G.send_result, !ret && is_ad && G.recv_checks == 0), "post8b send rules deny => AccessDenied, receive rules not even consulted");
  __CPROVER_assert(IMP(G.recv_checks == 1 && !G.recv_result, !ret && is_ad), "post8c receive rules deny => AccessDenied");
  __CPROVER_assert(IMP(!ret && sender && !g_sender_active && !g_lsm_denied && G.check_reply_calls == 0, is_ad), "post8d inactive sender, anything but Hello to the bus => AccessDenied");
  __CPROVER_assert(IMP(is_le, !ret && queue_full && (G.send_checks == 0 || G.send_result) && (G.recv_checks == 0 || G.recv_result)), "post8e LimitsExceeded only for a full recipient queue after both rule scans allowed");
  __CPROVER_assert(IMP(!ret && queue_full && IS_KNOWN_TYPE(g_type) && !(sender && !g_sender_active) && !g_lsm_denied && err.name != g_callee_err && (G.send_checks == 0 || G.send_result) && (G.recv_checks == 0 || G.recv_result), is_le), "post8g full recipient queue, everything else allowed => LimitsExceeded (not AccessDenied)");
  __CPROVER_assert(IMP(ret && !(sender && !g_sender_active), !queue_full), "post8f never admitted into a full queue");
  __CPROVER_assert(IMP(!ret && G.expect_reply_calls == 1, !g_expect_result), "post9 a refused message opens no reply slot (expect_reply is the last step and its failure is the refusal)");
  __CPROVER_assert(IMP(ret && G.expect_reply_calls == 1, g_expect_result), "post9b admitted with slot => the slot was recorded");
  __CPROVER_assert(g_sends == 0, "post10 the gate sends nothing");
  __CPROVER_assert(IMP(!ret && (is_ad || is_le) && IS_KNOWN_TYPE(g_type) && !(sender && !g_sender_active) && !g_lsm_denied, G.complaints >= 1), "post11 a policy or limit refusal is logged/complained about");
  if (!ret && is_le) __CPROVER_assert(0, "REACH:limits-exceeded");
  if (!ret && is_ad && G.recv_checks == 1) __CPROVER_assert(0, "REACH:receive-denied");
  if (!ret && err.name == g_callee_err) __CPROVER_assert(0, "REACH:callee-error");
  if (ret) __CPROVER_assert(0, "REACH:allowed"); else __CPROVER_assert(0, "REACH:denied");
  if (ret && G.expect_reply_calls == 1) __CPROVER_assert(0, "REACH:slot-recorded");
  if (ret && G.check_reply_calls == 1) __CPROVER_assert(0, "REACH:reply-consumed");
  if (ret && sender && !g_sender_active) __CPROVER_assert(0, "REACH:hello-from-inactive");
}
