/* C08.b_hex — B unit: the real _dbus_string_hex_decode (dbus/dbus-string.c), used by process_data for the argument of
 * AUTH/DATA ("DATA <data in hex encoding>"), on every source string of at most VERIF_N bytes.
 * Oracle (hex notation itself; "Each byte is two hex digits", doc comment of _dbus_string_hex_encode; "@param end_return return
 * location of the end of the hex data"):
 *   - *end_return is the index of the first byte that is not a hex digit (either case), or the length
 *   - byte k of the result is 16 * value (digit 2k) + value (digit 2k+1) for every complete pair before *end_return
 *   - the result has one byte per complete pair, plus (leniency of this implementation, recorded as an observation) one byte
 *     holding the high nibble of a trailing unpaired digit
 *   - the source is not modified; no assertion of the string library fails
 */
#include <config.h>
#include "dbus/dbus-internals.h"
#include "dbus/dbus-string.h"
#ifndef VERIF_N
#define VERIF_N 8
#endif
_Bool nondet_bool (void); int nondet_int (void); unsigned char nondet_uchar (void);
#define POST(c, what) __CPROVER_assert ((c), what)
#define IMP(a, b) (!(a) || (b))
#define REACH(tag) __CPROVER_assert (0, "REACH:" tag)
static int hexval (unsigned char c) { if (c >= '0' && c <= '9') return c - '0'; if (c >= 'a' && c <= 'f') return c - 'a' + 10; if (c >= 'A' && c <= 'F') return c - 'A' + 10; return -1; }
void harness (void)
{
  DBusString src, dest; unsigned char in[VERIF_N]; int n = nondet_int (), i, end = -1;
  __CPROVER_assume (n >= 0 && n <= VERIF_N);
  __CPROVER_assume (_dbus_string_init (&src)); __CPROVER_assume (_dbus_string_init (&dest));
  for (i = 0; i < VERIF_N; i++) { in[i] = nondet_uchar (); if (i < n) __CPROVER_assume (_dbus_string_append_byte (&src, in[i])); }
  int digits = 0; _Bool stop = 0;
  for (i = 0; i < VERIF_N; i++) if (i < n && !stop) { if (hexval (in[i]) >= 0) digits++; else stop = 1; }
  dbus_bool_t ret = _dbus_string_hex_decode (&src, 0, &end, &dest, 0);
  POST (ret, "hex_decode: succeeds when memory is available");
  POST (end == digits, "hex_decode: *end_return is the index of the first non-hex byte (or the length)");
  POST (_dbus_string_get_length (&dest) == (digits + 1) / 2, "hex_decode: one byte per digit pair (a trailing single digit gives one more byte)");
  for (i = 0; i < VERIF_N / 2; i++) if (2 * i + 1 < digits) POST (_dbus_string_get_byte (&dest, i) == 16 * hexval (in[2 * i]) + hexval (in[2 * i + 1]), "hex_decode: byte k = 16 * digit(2k) + digit(2k+1)");
  if (digits % 2 == 1) POST (_dbus_string_get_byte (&dest, digits / 2) == 16 * hexval (in[digits - 1]), "hex_decode: a trailing single digit is the high nibble of a last byte");
  POST (_dbus_string_get_length (&src) == n, "hex_decode: source length unchanged");
  for (i = 0; i < VERIF_N; i++) if (i < n) POST (_dbus_string_get_byte (&src, i) == in[i], "hex_decode: source bytes unchanged");
  if (end == n && n > 0 && digits % 2 == 0) REACH ("well-formed");
  if (end < n) REACH ("stops-at-non-hex");
  if (end == n && digits % 2 == 1) REACH ("observation-odd-digit-count-accepted-as-complete");
  if (n == 0) REACH ("empty");
}
