/* C12: the real static _dbus_header_cache_invalidate_all() (P-dfcc, loop contract in contracts/c12_cache.ovl):
 * afterwards EVERY cache entry is UNKNOWN (ghost index), whatever junk was there ("may be used when the cache is
 * totally uninitialized"), and nothing but the cache is written (assigns clause: the fields array only). */
#include <config.h>
#include "dbus/dbus-internals.h"
#include "verif_prelude.h"
#include "verif_ghost.h"
#include "dbus/dbus-marshal-header.h"
static void _dbus_header_cache_invalidate_all (DBusHeader *header)
__CPROVER_requires(__CPROVER_is_fresh(header, sizeof(*header)))
__CPROVER_assigns(__CPROVER_object_upto(header->fields, sizeof(header->fields)))
__CPROVER_ensures(verif_gk < 0 || verif_gk > DBUS_HEADER_FIELD_LAST || header->fields[verif_gk].value_pos == _DBUS_HEADER_FIELD_VALUE_UNKNOWN)
;
#include VERIF_TU
#define REACH(tag) __CPROVER_assert(0, "REACH:" tag)
long verif_gk, verif_gk2, verif_w, verif_w2; int verif_flag;
void harness (void)
{
  DBusHeader *h;
  _dbus_header_cache_invalidate_all (h);
  REACH("returned");
}
