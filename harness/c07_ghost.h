/* Ghost variables named in contracts/c07_signals.ovl.  Every harness that includes the overlay copy of bus/signals.c
 * includes this file first (the overlay text refers to these names; units that do not use a variable leave it alone). */
#ifndef C07_GHOST_H
#define C07_GHOST_H
#include "verif_ghost.h"
#include "match_ref.h"
/* ---- match_rule_matches: iterator contract state and the ghost-index records ---- */
extern int verif_it_calls, verif_it_pos, verif_it_end;
extern int verif_cur_type; extern int verif_cur_len; extern char verif_cur_v[REF_MAXS + 1];
extern int verif_rec_type; extern int verif_rec_len; extern char verif_rec_buf[REF_MAXS + 1];
extern unsigned char verif_argstore[4 + REF_MAXS + 1];
extern _Bool verif_gk_set; extern int verif_gk_kind; extern long verif_gk_len; extern char verif_gk_val[REF_MAXS + 1];
#define C07_ARG_SPEC_GK(t, a, al) (!verif_gk_set || REF_ARGM (verif_gk_kind, verif_gk_val, verif_gk_len, t, a, (long) (al)))
/* ---- tokenizer: length of the rule text (constant during a call), DBusString contract state ---- */
extern long verif_len;            /* the rule text has verif_len bytes followed by a NUL */
extern long verif_key_len;        /* ghost length of the `key` string   (only the append/steal contracts change it) */
extern long verif_value_len;      /* ghost length of the `value` string */
extern long verif_appends;        /* number of append calls */
extern int  verif_tok_steals;     /* number of successful _dbus_string_steal_data calls */
/* the text pointer p is inside the rule text: base s, start <= p - s <= verif_len */
#define C07_IN_TEXT(p, s, lo) (__CPROVER_same_object (p, s) && __CPROVER_POINTER_OFFSET (s) + (lo) <= __CPROVER_POINTER_OFFSET (p) && \
                               __CPROVER_POINTER_OFFSET (p) <= __CPROVER_POINTER_OFFSET (s) + verif_len)
#define C07_TEXT_LEFT(p, s) (__CPROVER_POINTER_OFFSET (s) + verif_len - __CPROVER_POINTER_OFFSET (p))
/* all token slots i..16 (16 = MAX_RULE_TOKENS, the sentinel) are NULL/NULL: unrolled, no quantifier */
#define C07_TOK_NULL_FROM(t, i) (((i) > 0 || ((t)[0].key == NULL && (t)[0].value == NULL)) && \
   ((i) > 1 || ((t)[1].key == NULL && (t)[1].value == NULL)) && \
   ((i) > 2 || ((t)[2].key == NULL && (t)[2].value == NULL)) && \
   ((i) > 3 || ((t)[3].key == NULL && (t)[3].value == NULL)) && \
   ((i) > 4 || ((t)[4].key == NULL && (t)[4].value == NULL)) && \
   ((i) > 5 || ((t)[5].key == NULL && (t)[5].value == NULL)) && \
   ((i) > 6 || ((t)[6].key == NULL && (t)[6].value == NULL)) && \
   ((i) > 7 || ((t)[7].key == NULL && (t)[7].value == NULL)) && \
   ((i) > 8 || ((t)[8].key == NULL && (t)[8].value == NULL)) && \
   ((i) > 9 || ((t)[9].key == NULL && (t)[9].value == NULL)) && \
   ((i) > 10 || ((t)[10].key == NULL && (t)[10].value == NULL)) && \
   ((i) > 11 || ((t)[11].key == NULL && (t)[11].value == NULL)) && \
   ((i) > 12 || ((t)[12].key == NULL && (t)[12].value == NULL)) && \
   ((i) > 13 || ((t)[13].key == NULL && (t)[13].value == NULL)) && \
   ((i) > 14 || ((t)[14].key == NULL && (t)[14].value == NULL)) && \
   ((i) > 15 || ((t)[15].key == NULL && (t)[15].value == NULL)) && \
   ((i) > 16 || ((t)[16].key == NULL && (t)[16].value == NULL)))
/* every non-NULL token pointer was handed out by the _dbus_string_steal_data contract (static pool verif_pool) */
extern char verif_pool[34];
#define C07_TOK_IN_POOL(t) (((t)[0].key == NULL || __CPROVER_same_object ((t)[0].key, verif_pool)) && ((t)[0].value == NULL || __CPROVER_same_object ((t)[0].value, verif_pool)) && \
   ((t)[1].key == NULL || __CPROVER_same_object ((t)[1].key, verif_pool)) && ((t)[1].value == NULL || __CPROVER_same_object ((t)[1].value, verif_pool)) && \
   ((t)[2].key == NULL || __CPROVER_same_object ((t)[2].key, verif_pool)) && ((t)[2].value == NULL || __CPROVER_same_object ((t)[2].value, verif_pool)) && \
   ((t)[3].key == NULL || __CPROVER_same_object ((t)[3].key, verif_pool)) && ((t)[3].value == NULL || __CPROVER_same_object ((t)[3].value, verif_pool)) && \
   ((t)[4].key == NULL || __CPROVER_same_object ((t)[4].key, verif_pool)) && ((t)[4].value == NULL || __CPROVER_same_object ((t)[4].value, verif_pool)) && \
   ((t)[5].key == NULL || __CPROVER_same_object ((t)[5].key, verif_pool)) && ((t)[5].value == NULL || __CPROVER_same_object ((t)[5].value, verif_pool)) && \
   ((t)[6].key == NULL || __CPROVER_same_object ((t)[6].key, verif_pool)) && ((t)[6].value == NULL || __CPROVER_same_object ((t)[6].value, verif_pool)) && \
   ((t)[7].key == NULL || __CPROVER_same_object ((t)[7].key, verif_pool)) && ((t)[7].value == NULL || __CPROVER_same_object ((t)[7].value, verif_pool)) && \
   ((t)[8].key == NULL || __CPROVER_same_object ((t)[8].key, verif_pool)) && ((t)[8].value == NULL || __CPROVER_same_object ((t)[8].value, verif_pool)) && \
   ((t)[9].key == NULL || __CPROVER_same_object ((t)[9].key, verif_pool)) && ((t)[9].value == NULL || __CPROVER_same_object ((t)[9].value, verif_pool)) && \
   ((t)[10].key == NULL || __CPROVER_same_object ((t)[10].key, verif_pool)) && ((t)[10].value == NULL || __CPROVER_same_object ((t)[10].value, verif_pool)) && \
   ((t)[11].key == NULL || __CPROVER_same_object ((t)[11].key, verif_pool)) && ((t)[11].value == NULL || __CPROVER_same_object ((t)[11].value, verif_pool)) && \
   ((t)[12].key == NULL || __CPROVER_same_object ((t)[12].key, verif_pool)) && ((t)[12].value == NULL || __CPROVER_same_object ((t)[12].value, verif_pool)) && \
   ((t)[13].key == NULL || __CPROVER_same_object ((t)[13].key, verif_pool)) && ((t)[13].value == NULL || __CPROVER_same_object ((t)[13].value, verif_pool)) && \
   ((t)[14].key == NULL || __CPROVER_same_object ((t)[14].key, verif_pool)) && ((t)[14].value == NULL || __CPROVER_same_object ((t)[14].value, verif_pool)) && \
   ((t)[15].key == NULL || __CPROVER_same_object ((t)[15].key, verif_pool)) && ((t)[15].value == NULL || __CPROVER_same_object ((t)[15].value, verif_pool)) && \
   ((t)[16].key == NULL || __CPROVER_same_object ((t)[16].key, verif_pool)) && ((t)[16].value == NULL || __CPROVER_same_object ((t)[16].value, verif_pool)))
/* ---- bus_match_rule_parse: typestate of the callee contracts (harness/c07_parse.c) ---- */
extern const void *verif_p_vstr, *verif_p_tmp, *verif_p_tmpval;   /* string last validated; current tmp_str; current token value */
extern int verif_p_vby, verif_p_vok, verif_p_nval, verif_p_type, verif_p_oom, verif_p_unrefs, verif_p_ntok;
#ifdef C07_GHOST_DEFINE
long verif_gk, verif_gk2, verif_w, verif_w2; int verif_flag;
int verif_it_calls, verif_it_pos, verif_it_end;
int verif_cur_type; int verif_cur_len; char verif_cur_v[REF_MAXS + 1];
int verif_rec_type; int verif_rec_len; char verif_rec_buf[REF_MAXS + 1];
unsigned char verif_argstore[4 + REF_MAXS + 1];
_Bool verif_gk_set; int verif_gk_kind; long verif_gk_len; char verif_gk_val[REF_MAXS + 1];
long verif_len, verif_key_len, verif_value_len, verif_appends; int verif_tok_steals; char verif_pool[34];
const void *verif_p_vstr, *verif_p_tmp, *verif_p_tmpval; int verif_p_vby, verif_p_vok, verif_p_nval, verif_p_type, verif_p_oom, verif_p_unrefs, verif_p_ntok;
#endif
#endif
