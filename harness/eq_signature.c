/* B unit: _dbus_validate_signature_with_reason == reference recogniser on all signatures of at most
 * VERIF_N bytes.  VERIF_ALPHA=1: full byte alphabet. VERIF_ALPHA=0: class alphabet
 * {s,v,a,(,),{,},Z} (one representative per class the grammar distinguishes). */
#include "verif_str.h"
#include "dbus/dbus-marshal-validate.h"
#include "dbus/dbus-signature.h"
#ifndef VERIF_N
#define VERIF_N 7
#endif
#define SIG_REF_MAXRUN (VERIF_N + 1)
#include "signature_ref.h"
long verif_gk, verif_gk2, verif_w, verif_w2; int verif_flag;
#ifndef VERIF_N
#define VERIF_N 7
#endif
unsigned char in_buf[VERIF_N + 8];
int in_len;
unsigned char nondet_uchar (void); int nondet_int (void);
#if VERIF_SINGLE
void dbus_set_error (DBusError *error, const char *name, const char *format, ...) { if (error) error->name = name; }
const char *_dbus_validity_to_error_message (DBusValidity v) { return "x"; }
void _dbus_warn_check_failed (const char *format, ...) { __CPROVER_assert (0, "a _dbus_return_if_fail check fired"); }
#endif
void harness (void)
{
  DBusRealString rs; int i; DBusValidity got; int want;
  in_len = nondet_int ();
  __CPROVER_assume (in_len >= 0 && in_len <= VERIF_N);
  for (i = 0; i < VERIF_N; i++)
    {
      unsigned char c = nondet_uchar ();
#if !VERIF_ALPHA
      __CPROVER_assume (c == 's' || c == 'v' || c == 'a' || c == '(' || c == ')' || c == '{' || c == '}' || c == 'Z');
#endif
      in_buf[i] = c;
    }
  in_buf[in_len] = 0;
#if VERIF_SINGLE
  for (i = 0; i < VERIF_N; i++) __CPROVER_assume (i >= in_len || in_buf[i] != 0);   /* C string */
#endif
  rs.str = in_buf; rs.len = in_len; rs.allocated = VERIF_N + 8; rs.constant = 1; rs.locked = 1; rs.valid = 1; rs.align_offset = 0;
#if VERIF_SINGLE
  /* the single-complete-type form through the public API (C string) */
  got = dbus_signature_validate_single ((const char *) in_buf, NULL) ? DBUS_VALID : DBUS_INVALID_FOR_UNKNOWN_REASON;
  want = spec_signature_single (in_buf, in_len);
  __CPROVER_assert ((got == DBUS_VALID) == (want != 0), "dbus_signature_validate_single agrees with the reference (exactly one complete type)");
#else
  got = _dbus_validate_signature_with_reason ((DBusString *) &rs, 0, in_len);
  want = spec_signature (in_buf, in_len);
  __CPROVER_assert ((got == DBUS_VALID) == (want != 0), "signature validator agrees with the reference recogniser");
#endif
  if (got == DBUS_VALID) REACH("accept"); else REACH("reject");
  if (got == DBUS_VALID && in_len == VERIF_N) REACH("accept-maxlen");
}
