/* C09: bus_connections_check_reply + its hooks cancel_check_pending_reply / check_pending_reply_data_free
 * (bus/connection.c) on the real expire list with <= 3 pending entries; every allocation may fail.
 * Oracle: property C09: "a method return or error reaches a connection only if it comes from the connection to
 * which that receiver addressed a still-unanswered method call with that serial, and at most one reply per call gets
 * through"; DESIGN 6 C09: TRUE iff an entry with that (serial, caller, callee) exists; then exactly that entry is
 * unlinked and the cancel hook re-adds it; FALSE/OOM => unchanged. */
#include "c09_common.h"

void harness (void)
{
  DBusError err; err.name = NULL; err.message = NULL;
  build_world (); __CPROVER_assume (no_duplicates ());
  g_reply_serial = nondet_uint ();
  DBusConnection *replier = pick_conn (), *receiver = pick_conn ();
  int hit = find_triple (g_reply_serial, receiver, replier);      /* slot: will_get_reply = receiver of the reply, will_send_reply = replier */

  dbus_bool_t ret = bus_connections_check_reply (&CS, TXN, replier, receiver, MSG, &err);

  BusPendingReply *s[5]; int m = snapshot (s);
  __CPROVER_assert (ret == 0 || ret == 1, "post0 boolean");
  __CPROVER_assert (IMP (ret, hit >= 0), "post1 TRUE only if a slot with exactly this (reply serial, receiver, replier) exists");
  __CPROVER_assert (IMP (ret, !ERR_SET (&err)), "post2 TRUE => no error");
  if (hit < 0)
    __CPROVER_assert (!ret && !ERR_SET (&err) && list_unchanged () && g_hooks == 0, "post3 no such slot: FALSE without error, list unchanged, no hook");
  else if (!ret)
    __CPROVER_assert (IS_NO_MEMORY (&err) && list_unchanged () && g_hooks == 0, "post4 slot exists but FALSE: only OOM (NoMemory), list unchanged, no hook left behind");
  else
    {
      /* exactly the matching entry is gone, the rest in order and untouched */
      int ok = (m == n0 - 1), k = 0;
      for (int i = 0; i < 3; i++) if (i < n0 && i != hit) { if (k >= m || s[k] != E[i] || !entry_intact (i)) ok = 0; k++; }
      __CPROVER_assert (ok, "post5 TRUE: exactly the matching slot is unlinked (consumed), the others unchanged");
      __CPROVER_assert (entry_intact (hit) && LK[hit]->data == E[hit], "post6 the consumed slot is kept intact for a possible cancel");
      __CPROVER_assert (g_hooks == 1 && g_hook_fn == cancel_check_pending_reply && g_hook_free == check_pending_reply_data_free, "post7 one cancel hook registered");
      REACH ("consumed");
      /* a second identical reply in the same state finds nothing: "at most one reply per call gets through" */
      if (nondet_bool ())
        {
          DBusError e2; e2.name = NULL; e2.message = NULL; int hooks_before = g_hooks;
          dbus_bool_t again = bus_connections_check_reply (&CS, TXN, replier, receiver, MSG, &e2);
          __CPROVER_assert (!again && !ERR_SET (&e2) && g_hooks == hooks_before, "post8 the same reply a second time is not a requested reply");
          REACH ("second-reply-refused");
        }
      else if (nondet_bool ())
        {
          g_hook_fn (g_hook_data);                       /* transaction cancelled: the slot comes back */
          BusPendingReply *s2[5]; int m2 = snapshot (s2); int seen = 0, others = 1;
          for (int i = 0; i < 3; i++) if (i < n0) { int f = 0; for (int j = 0; j < 4; j++) if (j < m2 && s2[j] == E[i]) f++; if (f != 1 || !entry_intact (i)) others = 0; if (i == hit) seen = f; }
          __CPROVER_assert (m2 == n0 && seen == 1 && others, "post9 cancelling puts exactly that slot back: same set of slots, each once, contents unchanged");
          g_hook_free (g_hook_data);
          BusPendingReply *s3[5]; __CPROVER_assert (snapshot (s3) == n0, "post10 freeing the hook data after a cancel leaves the slot in the list");
          REACH ("cancelled");
        }
      else
        {
          g_hook_free (g_hook_data);                     /* transaction executed: slot and link released */
          BusPendingReply *s2[5]; int m2 = snapshot (s2);
          __CPROVER_assert (m2 == n0 - 1, "post11 executing the transaction leaves the slot consumed");
          REACH ("executed");
        }
    }
  if (!ret && hit < 0 && n0 == 3) REACH ("no-slot"); if (!ret && hit >= 0) REACH ("oom");
  /* near misses: same serial but another replier / another receiver */
  if (!ret && hit < 0 && n0 >= 1 && e_serial[0] == g_reply_serial && e_get[0] == receiver && e_send[0] != replier) REACH ("wrong-replier");
  if (!ret && hit < 0 && n0 >= 1 && e_serial[0] == g_reply_serial && e_get[0] != receiver && e_send[0] == replier) REACH ("wrong-receiver");
}
