/* C12 / C01 read-back (B): the real static _dbus_header_cache_revalidate() with the real values reader
 * (_dbus_type_reader_init/_recurse/_read_basic/_next of dbus-marshal-recursive.c) on a VALID header image of at
 * most VERIF_N bytes (valid per the reference spec/header_ref.h, i.e. what _dbus_header_load accepts and what the
 * edit functions are supposed to maintain): after every cache entry was invalidated, the rebuilt cache holds for each
 * field code exactly the value position that the independent decoding of the bytes gives, NONEXISTENT otherwise.
 * Skeleton (-DVERIF_HDR_ASSUME): byte order, lengths and variant signatures constant, the rest symbolic.          */
#include <config.h>
#include "dbus/dbus-internals.h"
#include "verif_prelude.h"
#include "verif_ghost.h"
#include "dbus/dbus-string.h"
#define DBUS_CAN_USE_DBUS_STRING_PRIVATE 1
#include "dbus/dbus-string-private.h"
#include VERIF_TU
#ifndef VERIF_N
#define VERIF_N 32
#endif
#define BODY_REF_MAXSTR (VERIF_N + 1)
#define SIG_REF_MAXRUN (VERIF_N - 15)
#define HDR_REF_MAXFIELDS ((VERIF_N - 21) / 8 + 1)
#include "header_ref.h"
#define REACH(tag) __CPROVER_assert(0, "REACH:" tag)
long verif_gk, verif_gk2, verif_w, verif_w2; int verif_flag;
unsigned char in_buf[VERIF_N + 16] __attribute__ ((aligned (8)));
int in_len;
unsigned char nondet_uchar (void); int nondet_int (void);
static struct hdr_ref_fields RF;
void harness (void)
{
  DBusHeader H; DBusRealString *hd = (DBusRealString *) &H.data; int i, c, rhl = 0, want, n_present = 0;
  in_len = nondet_int ();
  __CPROVER_assume (in_len >= 16 && in_len <= VERIF_N);
  for (i = 0; i < VERIF_N; i++) in_buf[i] = nondet_uchar ();
#ifdef VERIF_HDR_ASSUME
  VERIF_HDR_ASSUME
#endif
  hdr_ref_walk (in_buf, in_len, &RF);
  want = hdr_ref_valid_walked (in_buf, in_len, &rhl, &RF);
  __CPROVER_assume (want == 1 && rhl == in_len);              /* a valid header, held completely and exactly */
  hd->str = in_buf; hd->len = in_len; hd->allocated = VERIF_N + 16; hd->constant = 0; hd->locked = 0; hd->valid = 1; hd->align_offset = 0; in_buf[in_len] = 0;
  H.padding = (unsigned) (rhl - (16 + (int) hdr_ref_fields_len (in_buf)));
  for (i = 0; i <= DBUS_HEADER_FIELD_LAST; i++) H.fields[i].value_pos = _DBUS_HEADER_FIELD_VALUE_UNKNOWN;    /* = _dbus_header_cache_invalidate_all (C12.cache.invalidate) */
  _dbus_header_cache_revalidate (&H);
  for (c = 1; c <= DBUS_HEADER_FIELD_LAST; c++)
    {
      __CPROVER_assert (H.fields[c].value_pos == (RF.count[c] > 0 ? RF.val_at[c] : _DBUS_HEADER_FIELD_VALUE_NONEXISTENT), "revalidate: rebuilt cache entry = value position of the reference decoding, NONEXISTENT if the field is absent");
      if (RF.count[c] > 0) n_present++;
    }
  __CPROVER_assert (H.fields[0].value_pos == _DBUS_HEADER_FIELD_VALUE_NONEXISTENT, "revalidate: entry 0 is NONEXISTENT");
  if (n_present >= 1) REACH("a-known-field");
  if (n_present == 0) REACH("only-unknown-fields");
}
