/* C14 — DBusString primitives of dbus/dbus-string.c (REAL code, statics reached by #include) under failing allocation.
 *
 * Fault model: cbmc --malloc-may-fail --malloc-fail-null; dbus_malloc/dbus_realloc/dbus_free are bound to the allocator
 * (stubs/c14_mem.c), so every allocation of the operation may fail independently of every other (DESIGN 3.6).
 *
 * Contract scheme (DESIGN 3.5 / 6 C14), one harness per function, selected by VERIF_FN:
 *   requires  STR_OK(s): DBUS_GENERIC_STRING_PREAMBLE + not constant/locked + heap shape (str is the start of a live heap
 *             block of exactly `allocated` bytes, align_offset == 0) + str[len] == 0
 *   ensures   STR_OK(s) again, for every string argument, on every outcome
 *   ensures   FALSE => len and EVERY byte (incl. the terminating NUL) are what they were   [property C14: "leaves all
 *             previously observable state exactly as it was"]
 *   ensures   TRUE  => the documented result (doc comment of the function in dbus-string.c): new length; bytes before the
 *             edit point unchanged; inserted bytes as given; bytes behind the edit point shifted; str[len] == 0
 * "Every byte" is stated for ONE arbitrary position k (ghost index: chosen nondeterministically, constrained only to lie
 * in the old string incl. its NUL); as k is arbitrary the statement holds for all positions.  The same for inserted bytes
 * (ghost j) and padding (ghost z).
 *
 * Sizes: strings of up to VERIF_N bytes before the call and up to VERIF_N bytes added.  With VERIF_N ==
 * _DBUS_STRING_MAX_LENGTH (the default) that is every DBusString and every amount (kind P: the functions are loop-free,
 * nothing is unwound, realloc is CBMC's array-level model, memmove/memcpy/memset are ghost-index contracts,
 * stubs/c14_memops.c).  Amounts that overflow _DBUS_STRING_MAX_LENGTH are included (they must be refused).
 */
#include <config.h>
#include "dbus/dbus-internals.h"
#include "verif_prelude.h"
#include "verif_ghost.h"
#include <stdlib.h>
#include <string.h>
_Bool nondet_bool (void); int nondet_int (void); unsigned char nondet_uchar (void); unsigned nondet_uint (void);
extern int verif_mallocs, verif_frees;
/* instantiation points of the memmove/memcpy/memset contracts (stubs/c14_memops.c): the positions the postconditions read */
#ifndef VERIF_NPTS
#define VERIF_NPTS 8
#endif
extern __CPROVER_size_t verif_pts[VERIF_NPTS];
#define PT(i, v) (verif_pts[i] = (__CPROVER_size_t) (v))
#include VERIF_TU

#define MAXLEN _DBUS_STRING_MAX_LENGTH
#ifndef VERIF_N
#define VERIF_N MAXLEN
#endif
#ifndef VERIF_FN
#define VERIF_FN 1
#endif
#ifndef VERIF_BRANCH
#define VERIF_BRANCH 0
#endif
#ifndef IMP
#define IMP(a, b) (!(a) || (b))
#endif
#define REACH(tag) __CPROVER_assert (0, "REACH:" tag)
#define POST(c, what) __CPROVER_assert ((c), what)
#define PAD _DBUS_STRING_ALLOCATION_PADDING

/* representation invariant incl. heap shape (DESIGN 3.5) */
#define STR_OK(r) ((r)->valid && !(r)->constant && !(r)->locked && (r)->align_offset == 0 && (r)->len >= 0 && (r)->len <= MAXLEN \
  && (r)->allocated >= (r)->len + PAD && (r)->str != NULL && __CPROVER_DYNAMIC_OBJECT ((r)->str) \
  && __CPROVER_POINTER_OFFSET ((r)->str) == 0 && __CPROVER_OBJECT_SIZE ((r)->str) == (__CPROVER_size_t) (r)->allocated \
  && __CPROVER_w_ok ((r)->str, (r)->allocated) && (r)->str[(r)->len] == 0)
#define ENS_OK(r, who) POST (STR_OK (r), who ": STR_OK re-established (fields, live heap block of `allocated` bytes, NUL at len)")

static void mk_str (DBusRealString *r)
{
  int len = nondet_int (), alloc = nondet_int ();
  __CPROVER_assume (len >= 0 && len <= VERIF_N && alloc >= PAD && alloc - PAD >= len && alloc - PAD <= VERIF_N);
  unsigned char *p = malloc (alloc);
  __CPROVER_assume (p != NULL);                 /* harness set-up, not an operation of the library */
  r->str = p; r->len = len; r->allocated = alloc; r->constant = 0; r->locked = 0; r->valid = 1; r->align_offset = 0;
  p[len] = 0;
}
/* snapshot: length, capacity, ghost index k over the old text incl. NUL, byte at k */
#define SNAP(r, P) int P##len0 = (r)->len, P##alloc0 = (r)->allocated; int P##k = nondet_int (); \
  __CPROVER_assume (P##k >= 0 && P##k <= P##len0); unsigned char P##oldk = (r)->str[P##k]; unsigned char *P##str0 = (r)->str
#define UNCHANGED(r, P) ((r)->len == P##len0 && (r)->str[P##k] == P##oldk)
/* amounts: within the size bound, or beyond the maximum (must be refused) */
#define AMOUNT(n, len0) int n = nondet_int (); __CPROVER_assume (n >= 0 && (n <= VERIF_N || n > MAXLEN - (len0)))
#define FITS(n, len0) ((n) <= MAXLEN - (len0))

void harness (void)
{
  DBusRealString S; mk_str (&S);
  SNAP (&S, d);
  dbus_bool_t ret;
  verif_mallocs = 0; verif_frees = 0;
  for (int i = 0; i < VERIF_NPTS; i++) verif_pts[i] = (__CPROVER_size_t) -1;      /* unused points lie outside every object */

#if VERIF_FN == 1   /* reallocate_for_length: "be sure we always alloc at least space for the new length" */
  int nl = nondet_int (); __CPROVER_assume (nl >= 0 && nl <= MAXLEN && nl - dlen0 <= VERIF_N && nl > dalloc0 - PAD); /* its only call site (set_length) */
  ret = reallocate_for_length (&S, nl);
  ENS_OK (&S, "reallocate_for_length");
  POST (UNCHANGED (&S, d), "reallocate_for_length: length and every byte unchanged on both outcomes");
  POST (IMP (ret, S.allocated - PAD >= nl), "reallocate_for_length: TRUE => room for new_length bytes, NUL and padding");
  POST (IMP (!ret, S.allocated == dalloc0 && S.str == dstr0), "reallocate_for_length: FALSE => block and capacity untouched");
  if (ret) REACH ("grown"); else REACH ("oom");

#elif VERIF_FN == 2 || VERIF_FN == 4   /* set_length / _dbus_string_set_length: "Sets the length of a string. Can be used to truncate or lengthen ... may fail and return FALSE" */
  int nl = nondet_int (); __CPROVER_assume (nl >= 0 && ((long) nl - dlen0 <= VERIF_N || nl > MAXLEN));
#if VERIF_FN == 2
  ret = set_length (&S, nl);
#else
  ret = _dbus_string_set_length ((DBusString *) &S, nl);
#endif
  ENS_OK (&S, "set_length");
  POST (IMP (nl > MAXLEN, !ret), "set_length: exceeding max length is the same as failure to allocate memory");
  POST (IMP (nl <= dalloc0 - PAD, ret), "set_length: no allocation needed => cannot fail (truncation never fails)");
  POST (IMP (ret, S.len == nl && S.str[nl] == 0), "set_length: TRUE => len == new_length, NUL terminated");
  POST (IMP (ret && dk < nl, S.str[dk] == doldk), "set_length: TRUE => bytes below min(old, new) length unchanged");
  POST (IMP (!ret, UNCHANGED (&S, d)), "set_length: FALSE => length and every byte unchanged");
  if (ret && nl > dlen0) REACH ("lengthened"); if (ret && nl < dlen0) REACH ("truncated"); if (!ret && nl <= MAXLEN) REACH ("oom"); if (!ret && nl > MAXLEN) REACH ("too-long");

#elif VERIF_FN == 3   /* _dbus_string_lengthen: "Makes a string longer by the given number of bytes. Checks whether adding would overflow an integer, and ... max length" */
  AMOUNT (add, dlen0);
  ret = _dbus_string_lengthen ((DBusString *) &S, add);
  ENS_OK (&S, "_dbus_string_lengthen");
  POST (IMP (!FITS (add, dlen0), !ret), "_dbus_string_lengthen: overflow / max length => FALSE");
  POST (IMP (ret, S.len == dlen0 + add && S.str[S.len] == 0 && (dk < dlen0 ? S.str[dk] == doldk : 1)), "_dbus_string_lengthen: TRUE => len grown by additional_length, old bytes unchanged, NUL terminated");
  POST (IMP (!ret, UNCHANGED (&S, d)), "_dbus_string_lengthen: FALSE => length and every byte unchanged");
  if (ret && add > 0) REACH ("lengthened"); if (!ret && FITS (add, dlen0)) REACH ("oom"); if (!ret && !FITS (add, dlen0)) REACH ("overflow");

#elif VERIF_FN == 5   /* _dbus_string_append_byte: "Appends a single byte to the string, returning FALSE if not enough memory" */
  unsigned char b = nondet_uchar ();
  ret = _dbus_string_append_byte ((DBusString *) &S, b);
  ENS_OK (&S, "_dbus_string_append_byte");
  POST (IMP (dlen0 == MAXLEN, !ret), "_dbus_string_append_byte: a string of maximal length cannot grow");
  POST (IMP (ret, S.len == dlen0 + 1 && S.str[dlen0] == b && S.str[S.len] == 0 && (dk < dlen0 ? S.str[dk] == doldk : 1)), "_dbus_string_append_byte: TRUE => old text followed by the byte");
  POST (IMP (!ret, UNCHANGED (&S, d)), "_dbus_string_append_byte: FALSE => length and every byte unchanged");
  if (ret) REACH ("appended"); else REACH ("oom");

#elif VERIF_FN == 6 || VERIF_FN == 7   /* _dbus_string_append_len (6) / static append (7): "Appends block of bytes with the given length" */
  int n = nondet_int (); __CPROVER_assume (n >= 0 && n <= VERIF_N);
  unsigned char *B = malloc ((__CPROVER_size_t) n + 1); __CPROVER_assume (B != NULL);      /* the caller's buffer: n readable bytes */
  int j = nondet_int (); __CPROVER_assume (j >= 0 && j <= n); unsigned char bj = B[j];
  if (FITS (n, dlen0)) { PT (0, dlen0 + n); PT (1, dk); PT (2, dlen0 + j); }
  PT (3, j);                                                                                /* (position j of the caller's buffer, should it be written) */
#if VERIF_FN == 6
  ret = _dbus_string_append_len ((DBusString *) &S, (const char *) B, n);
#else
  ret = append (&S, (const char *) B, n);
#endif
  ENS_OK (&S, "_dbus_string_append_len");
  POST (IMP (!FITS (n, dlen0), !ret), "_dbus_string_append_len: overflow / max length => FALSE");
  POST (IMP (ret, S.len == dlen0 + n && S.str[S.len] == 0), "_dbus_string_append_len: TRUE => len grown by len, NUL terminated");
  POST (IMP (ret && dk < dlen0, S.str[dk] == doldk), "_dbus_string_append_len: TRUE => old bytes unchanged");
  POST (IMP (ret && j < n, S.str[dlen0 + j] == bj), "_dbus_string_append_len: TRUE => appended bytes are the buffer's bytes in order");
  POST (IMP (!ret, UNCHANGED (&S, d)), "_dbus_string_append_len: FALSE => length and every byte unchanged");
  POST (B[j] == bj, "_dbus_string_append_len: the caller's buffer is not modified");
  if (ret && n > 0) REACH ("appended"); if (!ret && FITS (n, dlen0)) REACH ("oom"); if (ret && n == 0) REACH ("nothing-to-append");

#elif VERIF_FN == 8   /* _dbus_string_append: "Appends a nul-terminated C-style string" */
#ifndef VERIF_NC
#define VERIF_NC 16
#endif
  static char C[VERIF_NC + 1];
  int j = nondet_int (); __CPROVER_assume (j >= 0 && j < VERIF_NC);
  for (int i = 0; i < VERIF_NC; i++) C[i] = (char) nondet_uchar ();
  C[VERIF_NC] = 0;
  int n = 0; while (n < VERIF_NC && C[n] != 0) n++;          /* reference strlen */
  char cj = C[j];
  if (FITS (n, dlen0)) { PT (0, dlen0 + n); PT (1, dk); PT (2, (long) dlen0 + j); }
  ret = _dbus_string_append ((DBusString *) &S, C);
  ENS_OK (&S, "_dbus_string_append");
  POST (IMP (ret, S.len == dlen0 + n && S.str[S.len] == 0), "_dbus_string_append: TRUE => len grown by strlen(buffer), NUL terminated");
  POST (IMP (ret && dk < dlen0, S.str[dk] == doldk), "_dbus_string_append: TRUE => old bytes unchanged");
  POST (IMP (ret && j < n, S.str[dlen0 + j] == (unsigned char) cj), "_dbus_string_append: TRUE => appended bytes are the C string's bytes in order");
  POST (IMP (!ret, UNCHANGED (&S, d)), "_dbus_string_append: FALSE => length and every byte unchanged");
  if (ret && n > 0) REACH ("appended"); if (!ret) REACH ("oom");

#elif VERIF_FN == 9 || VERIF_FN == 10 || VERIF_FN == 11   /* open_gap (9) / _dbus_string_insert_bytes (10) / _dbus_string_insert_byte (11) */
  int at = nondet_int (); __CPROVER_assume (at >= 0 && at <= dlen0);
#if VERIF_FN == 11
  int n = 1;
#else
  AMOUNT (n, dlen0);
#endif
  unsigned char b = nondet_uchar ();
  int j = nondet_int (); __CPROVER_assume (j >= 0 && (n == 0 ? j == 0 : j < n));
  if (FITS (n, dlen0)) { PT (0, dlen0 + n); PT (1, dk < at ? dk : dk + n); PT (2, at + j); }
#if VERIF_FN == 9
  ret = open_gap (n, &S, at);
#define WHO "open_gap"
#elif VERIF_FN == 10
  ret = _dbus_string_insert_bytes ((DBusString *) &S, at, n, b);
#define WHO "_dbus_string_insert_bytes"
#else
  ret = _dbus_string_insert_byte ((DBusString *) &S, at, b);
#define WHO "_dbus_string_insert_byte"
#endif
  ENS_OK (&S, WHO);
  POST (IMP (!FITS (n, dlen0), !ret), WHO ": overflow of the length => FALSE");
  POST (IMP (ret, S.len == dlen0 + n && S.str[S.len] == 0), WHO ": TRUE => len grown by n_bytes, NUL terminated");
  POST (IMP (ret && dk < at, S.str[dk] == doldk), WHO ": TRUE => bytes before the insertion point unchanged");
  POST (IMP (ret && dk >= at, S.str[dk + n] == doldk), WHO ": TRUE => bytes from the insertion point on (incl. NUL) shifted up by n_bytes");
#if VERIF_FN != 9
  POST (IMP (ret && n > 0, S.str[at + j] == b), WHO ": TRUE => the n_bytes inserted bytes all have the given value");
#endif
  POST (IMP (!ret, UNCHANGED (&S, d)), WHO ": FALSE => length and every byte unchanged");
  if (ret && n > 0 && at < dlen0) REACH ("inserted-in-the-middle"); if (ret && n > 0 && at == dlen0) REACH ("inserted-at-end"); if (!ret && FITS (n, dlen0)) REACH ("oom");
#if VERIF_FN != 11
  if (!ret && !FITS (n, dlen0)) REACH ("overflow");
#endif

#elif VERIF_FN == 12 || VERIF_FN == 13 || VERIF_FN == 14 || VERIF_FN == 15
  /* _dbus_string_copy_len (12), _dbus_string_move_len (13), _dbus_string_copy (14), _dbus_string_move (15) */
  DBusRealString SRC; mk_str (&SRC);
  SNAP (&SRC, s);
  int start = nondet_int (), n = nondet_int (), at = nondet_int ();
  __CPROVER_assume (start >= 0 && start <= slen0 && n >= 0 && n <= slen0 - start && at >= 0 && at <= dlen0);
#if VERIF_FN == 14 || VERIF_FN == 15
  __CPROVER_assume (n == slen0 - start);        /* "the end of one string" */
#endif
  int j = nondet_int (); __CPROVER_assume (j >= 0 && (n == 0 ? j == 0 : j < n)); unsigned char sj = (n > 0) ? SRC.str[start + j] : 0;
  if (FITS (n, dlen0)) { PT (0, dlen0 + n); PT (1, dk < at ? dk : dk + n); PT (2, at + j); }   /* dest */
  PT (3, slen0 - n); PT (4, sk < start ? sk : sk - n); PT (5, sk); PT (6, slen0);               /* source (moved / untouched) */
#if VERIF_FN == 12
  ret = _dbus_string_copy_len ((const DBusString *) &SRC, start, n, (DBusString *) &S, at);
#define WHO "_dbus_string_copy_len"
#define MOVES 0
#elif VERIF_FN == 13
  ret = _dbus_string_move_len ((DBusString *) &SRC, start, n, (DBusString *) &S, at);
#define WHO "_dbus_string_move_len"
#define MOVES 1
#elif VERIF_FN == 14
  ret = _dbus_string_copy ((const DBusString *) &SRC, start, (DBusString *) &S, at);
#define WHO "_dbus_string_copy"
#define MOVES 0
#else
  ret = _dbus_string_move ((DBusString *) &SRC, start, (DBusString *) &S, at);
#define WHO "_dbus_string_move"
#define MOVES 1
#endif
  ENS_OK (&S, WHO " (dest)");
  ENS_OK (&SRC, WHO " (source)");
  POST (S.str != SRC.str, WHO ": the two strings never share a block");
  POST (IMP (!FITS (n, dlen0), !ret), WHO ": overflow of the dest length => FALSE");
  POST (IMP (ret, S.len == dlen0 + n && S.str[S.len] == 0), WHO ": TRUE => dest grown by len, NUL terminated");
  POST (IMP (ret && dk < at, S.str[dk] == doldk), WHO ": TRUE => dest bytes before insert_at unchanged");
  POST (IMP (ret && dk >= at, S.str[dk + n] == doldk), WHO ": TRUE => dest bytes from insert_at on shifted up by len");
  POST (IMP (ret && n > 0, S.str[at + j] == sj), WHO ": TRUE => inserted bytes are source[start..start+len) in order");
  POST (IMP (!ret, UNCHANGED (&S, d)), WHO ": FALSE => dest length and every byte unchanged");
#if MOVES
  POST (IMP (ret, SRC.len == slen0 - n && SRC.str[SRC.len] == 0), WHO ": TRUE => the segment is removed from the source");
  POST (IMP (ret && sk < start, SRC.str[sk] == soldk), WHO ": TRUE => source bytes before start unchanged");
  POST (IMP (ret && sk >= start + n, SRC.str[sk - n] == soldk), WHO ": TRUE => source bytes behind the segment shifted down by len");
  POST (IMP (!ret, UNCHANGED (&SRC, s)), WHO ": FALSE => source length and every byte unchanged");
  if (ret && n > 0 && start == 0 && n == slen0 && dlen0 == 0) REACH ("moved-by-buffer-swap");
  if (ret && n > 0 && start > 0 && dlen0 > 0) REACH ("moved-by-copy-and-delete");
#else
  POST (UNCHANGED (&SRC, s), WHO ": the source is never modified (either outcome)");
#endif
  if (ret && n > 0 && at < dlen0 && start > 0) REACH ("copied-into-the-middle"); if (!ret && FITS (n, dlen0)) REACH ("oom"); if (ret && n == 0) REACH ("empty-segment");

#elif VERIF_FN == 16   /* _dbus_string_delete: "Deletes a segment of a DBusString with length len starting at start" (cannot fail) */
  int start = nondet_int (), n = nondet_int ();
  __CPROVER_assume (start >= 0 && start <= dlen0 && n >= 0 && n <= dlen0 - start);
  PT (0, dlen0 - n); PT (1, dk < start ? dk : dk - n);
  _dbus_string_delete ((DBusString *) &S, start, n);
  ENS_OK (&S, "_dbus_string_delete");
  POST (S.len == dlen0 - n && S.str[S.len] == 0, "_dbus_string_delete: length reduced by len, NUL terminated");
  POST (IMP (dk < start, S.str[dk] == doldk), "_dbus_string_delete: bytes before start unchanged");
  POST (IMP (dk >= start + n, S.str[dk - n] == doldk), "_dbus_string_delete: bytes behind the segment shifted down by len");
  POST (S.str == dstr0 && S.allocated == dalloc0 && verif_mallocs == 0, "_dbus_string_delete: no allocation, block kept");
  if (n > 0 && start > 0 && start + n < dlen0) REACH ("deleted-in-the-middle"); if (n == 0) REACH ("nothing");

#elif VERIF_FN == 17   /* _dbus_string_init / _dbus_string_free */
  DBusRealString T;
  T.str = (unsigned char *) &T; T.len = nondet_int (); T.allocated = nondet_int (); T.constant = nondet_bool (); T.locked = nondet_bool (); T.valid = nondet_bool (); T.align_offset = nondet_uint () & 7;
  DBusRealString T0 = T;
  ret = _dbus_string_init ((DBusString *) &T);
  POST (IMP (ret, STR_OK (&T) && T.len == 0 && verif_mallocs == 1), "_dbus_string_init: TRUE => valid empty string owning one fresh block (\"starts life with zero length\")");
  POST (IMP (!ret, T.len == T0.len && T.allocated == T0.allocated && T.constant == T0.constant && T.locked == T0.locked && T.valid == T0.valid && T.align_offset == T0.align_offset && verif_mallocs == 0),
        "_dbus_string_init: FALSE => nothing but real->str touched (it is used to reset an existing string), nothing allocated");
  if (ret)
    {
      _dbus_string_free ((DBusString *) &T);
      POST (T.str == NULL && T.len == 0 && T.allocated == 0 && !T.constant && !T.locked && !T.valid && T.align_offset == 0, "_dbus_string_free: afterwards the contents of _DBUS_STRING_INIT_INVALID");
      POST (verif_frees == 1, "_dbus_string_free: the block is released exactly once");
      _dbus_string_free ((DBusString *) &T);
      POST (verif_frees == 1 && T.str == NULL && !T.valid, "_dbus_string_free: valid to call on _DBUS_STRING_INIT_INVALID contents, no effect");
      REACH ("init-free-free");
    }
  else REACH ("oom");
  /* the string built by mk_str: free it, too (STR_OK is all _dbus_string_free requires) */
  int f0 = verif_frees;
  _dbus_string_free ((DBusString *) &S);
  POST (S.str == NULL && !S.valid && S.len == 0 && S.allocated == 0 && verif_frees == f0 + 1, "_dbus_string_free: any STR_OK string is reset to the invalid pattern, its block released once");

#elif VERIF_FN >= 18 && VERIF_FN <= 23
  /* align_insert_point_then_open_gap (18), _dbus_string_insert_8_aligned (19), _4_ (20), _2_ (21), _dbus_string_insert_alignment (22),
   * _dbus_string_align_length (23).  Docs: "Inserts N bytes aligned on an N byte boundary with any alignment padding initialized to 0",
   * "Inserts padding at *insert_at such to align it to the given boundary. Initializes the padding to nul bytes. Sets *insert_at to the
   * aligned position", "Align the length of a string ... by appending nul bytes". */
  int at0 = nondet_int (); __CPROVER_assume (at0 >= 0 && at0 <= dlen0);
  int al = nondet_int (); __CPROVER_assume (al == 1 || al == 2 || al == 4 || al == 8);     /* doc: "alignment boundary (1, 2, 4, or 8)" */
  int gap = nondet_int (); __CPROVER_assume (gap >= 0 && gap <= VERIF_N);
  static dbus_uint64_t OCT; unsigned char *octets = (unsigned char *) &OCT; OCT = ((dbus_uint64_t) nondet_uint () << 32) | nondet_uint ();
  int z = nondet_int ();
#if VERIF_FN == 19
  al = 8; gap = 8;
#elif VERIF_FN == 20
  al = 4; gap = 4;
#elif VERIF_FN == 21
  al = 2; gap = 2;
#elif VERIF_FN == 22
  gap = 0;
#elif VERIF_FN == 23
  gap = 0; at0 = dlen0;
#endif
  int at = at0;
  int j = nondet_int (); __CPROVER_assume (j >= 0 && j < 8); unsigned char oj = octets[j];
  /* reference: smallest multiple of the (power-of-two) alignment >= at0: at most 7 single steps, written out (no loop) */
#define STEP if ((pos & (al - 1)) != 0) pos++;
  long pos = at0; STEP STEP STEP STEP STEP STEP STEP
  long delta = (pos - at0) + gap;
  _Bool fits = (long) dlen0 + delta <= MAXLEN;
  if (fits) { PT (0, dlen0 + delta); PT (1, dk < at0 ? dk : dk + delta); PT (2, z); PT (3, pos + j); }
#if VERIF_FN == 18
  ret = align_insert_point_then_open_gap ((DBusString *) &S, &at, al, gap);
#define WHO "align_insert_point_then_open_gap"
#elif VERIF_FN == 19
  ret = _dbus_string_insert_8_aligned ((DBusString *) &S, at0, octets);
#define WHO "_dbus_string_insert_8_aligned"
#elif VERIF_FN == 20
  ret = _dbus_string_insert_4_aligned ((DBusString *) &S, at0, octets);
#define WHO "_dbus_string_insert_4_aligned"
#elif VERIF_FN == 21
  ret = _dbus_string_insert_2_aligned ((DBusString *) &S, at0, octets);
#define WHO "_dbus_string_insert_2_aligned"
#elif VERIF_FN == 22
  ret = _dbus_string_insert_alignment ((DBusString *) &S, &at, al);
#define WHO "_dbus_string_insert_alignment"
#else
  ret = _dbus_string_align_length ((DBusString *) &S, al);
#define WHO "_dbus_string_align_length"
#endif
  ENS_OK (&S, WHO);
  POST (IMP (!fits, !ret), WHO ": result longer than the maximum => FALSE");
#if VERIF_FN == 18 || VERIF_FN == 22
  POST (IMP (ret, at == pos && (at & (al - 1)) == 0 && at >= at0 && at - at0 < al), WHO ": TRUE => *insert_at is the aligned position");
  POST (IMP (!ret, at == at0), WHO ": FALSE => *insert_at unchanged");
#endif
  POST (IMP (ret, S.len == dlen0 + delta && S.str[S.len] == 0), WHO ": TRUE => len grown by padding + gap, NUL terminated");
  POST (IMP (ret && dk < at0, S.str[dk] == doldk), WHO ": TRUE => bytes before the insertion point unchanged");
  POST (IMP (ret && dk >= at0, S.str[dk + delta] == doldk), WHO ": TRUE => bytes from the insertion point on shifted up by padding + gap");
  POST (IMP (ret && z >= at0 && z < pos, S.str[z] == 0), WHO ": TRUE => alignment padding is nul bytes");
#if VERIF_FN == 19 || VERIF_FN == 20 || VERIF_FN == 21
  POST (IMP (ret && j < gap, S.str[pos + j] == oj), WHO ": TRUE => the value bytes sit at the aligned position, in order");
  POST (octets[j] == oj, WHO ": the caller's octets are not modified");
#endif
  POST (IMP (!ret, UNCHANGED (&S, d)), WHO ": FALSE => length and every byte unchanged");
#if VERIF_FN == 23
  if (ret && pos > at0) REACH ("padded-at-the-end"); if (ret && delta == 0) REACH ("already-aligned"); if (!ret && fits) REACH ("oom");
#else
  if (ret && pos > at0 && at0 < dlen0) REACH ("padded-in-the-middle"); if (!ret && fits) REACH ("oom");
#if VERIF_FN == 18 || VERIF_FN == 22
  if (ret && delta == 0) REACH ("already-aligned-no-gap");
#else
  if (ret && pos == at0) REACH ("already-aligned");
#endif
#endif

#elif VERIF_FN == 25   /* _dbus_string_replace_len: "Replaces a segment of dest string with a segment of source string. @returns FALSE if not enough memory" */
  DBusRealString SRC; mk_str (&SRC);
  SNAP (&SRC, s);
  int start = nondet_int (), n = nondet_int (), at = nondet_int (), rl = nondet_int ();
  __CPROVER_assume (start >= 0 && start <= slen0 && n >= 0 && n <= slen0 - start && at >= 0 && at <= dlen0 && rl >= 0 && rl <= dlen0 - at);
#if VERIF_BRANCH == 1
  __CPROVER_assume (n > rl);          /* the new text is longer: the only branch that allocates */
#elif VERIF_BRANCH == 2
  __CPROVER_assume (n < rl);
#elif VERIF_BRANCH == 3
  __CPROVER_assume (n == rl);
#endif
  int j = nondet_int (); __CPROVER_assume (j >= 0 && (n == 0 ? j == 0 : j < n)); unsigned char sj = (n > 0) ? SRC.str[start + j] : 0;
  long newlen = (long) dlen0 - rl + n;
  _Bool fits = newlen <= MAXLEN;
  /* instantiation points: old and new coordinates of k (the shrinking branch reads the old position after the overwrite), both NULs, the inserted byte */
  if (fits) { PT (0, newlen); PT (1, dk); PT (2, dk < at ? dk : (long) dk - rl + n); PT (3, (long) at + j); PT (4, dlen0); }
  ret = _dbus_string_replace_len ((const DBusString *) &SRC, start, n, (DBusString *) &S, at, rl);
#define WHO "_dbus_string_replace_len"
  ENS_OK (&S, WHO " (dest)");
  ENS_OK (&SRC, WHO " (source)");
  POST (IMP (!fits, !ret), WHO ": result longer than the maximum => FALSE");
  POST (IMP (n <= rl, ret), WHO ": replacing by something not longer needs no memory and cannot fail");
  POST (IMP (ret, S.len == newlen && S.str[S.len] == 0), WHO ": TRUE => dest length = old - replace_len + len, NUL terminated");
  POST (IMP (ret && dk < at, S.str[dk] == doldk), WHO ": TRUE => dest bytes before replace_at unchanged");
  POST (IMP (ret && dk >= at + rl, S.str[dk - rl + n] == doldk), WHO ": TRUE => dest bytes behind the replaced segment (incl. NUL) keep their order, shifted by len - replace_len");
  POST (IMP (ret && n > 0, S.str[at + j] == sj), WHO ": TRUE => the replaced segment now reads source[start..start+len) in order");
  POST (IMP (!ret, UNCHANGED (&S, d)), WHO ": FALSE => dest length and every byte unchanged (also inside the segment that was to be replaced)");
  POST (UNCHANGED (&SRC, s), WHO ": the source is never modified (either outcome)");
#if VERIF_BRANCH == 0 || VERIF_BRANCH == 1
  if (ret && n > rl && rl > 0) REACH ("grown"); if (!ret && fits) REACH ("oom");
#endif
#if VERIF_BRANCH == 0 || VERIF_BRANCH == 2
  if (ret && n < rl && n > 0) REACH ("shrunk");
#endif
#if VERIF_BRANCH == 0 || VERIF_BRANCH == 3
  if (ret && n == rl && n > 0) REACH ("same-size");
#endif

#elif VERIF_FN == 24   /* _dbus_string_alloc_space: "Preallocate extra_bytes such that a future lengthening ... is guaranteed to succeed" */
  AMOUNT (extra, dlen0);
  ret = _dbus_string_alloc_space ((DBusString *) &S, extra);
  ENS_OK (&S, "_dbus_string_alloc_space");
  POST (UNCHANGED (&S, d), "_dbus_string_alloc_space: length and every byte unchanged on both outcomes");
  POST (IMP (ret, (long) S.allocated - PAD >= (long) dlen0 + extra), "_dbus_string_alloc_space: TRUE => capacity for extra_bytes more");
  if (ret) REACH ("reserved"); else REACH ("oom");
#else
#error "unknown VERIF_FN"
#endif
}
