/* C01 "size/nesting limit rules" (B, constant signature + P fact): the nesting depth that
 * validate_body_helper checks against the limit of 64 is the TRUE container nesting depth of the value
 * being validated: every recursion into an array element, a struct / dict-entry, or a variant's value
 * passes depth + 1.  A ghost log (injected before the limit check) records the depth argument of every
 * invocation, in order; the harness compares it with the nesting depths the specification assigns to the
 * containers of the constant signature VERIF_SIG for one accepted body. */
#include "verif_str.h"
#include "dbus/dbus-marshal-validate.h"
#include "dbus/dbus-protocol.h"
long verif_gk, verif_gk2, verif_w, verif_w2; int verif_flag;
int verif_depths[8]; int verif_calls;
#ifndef VERIF_N
#define VERIF_N 16
#endif
unsigned char in_buf[VERIF_N + 16] __attribute__ ((aligned (8)));
int in_len;
unsigned char nondet_uchar (void); int nondet_int (void);
static const char the_sig[] = VERIF_SIG;
static const int expect[] = VERIF_EXPECT;          /* depth of each invocation, in call order, for an accepted non-empty body */
void harness (void)
{
  DBusRealString body, sig; int i; DBusValidity got;
  in_len = nondet_int ();
  __CPROVER_assume (in_len >= 0 && in_len <= VERIF_N);
  for (i = 0; i < VERIF_N; i++) in_buf[i] = nondet_uchar ();
  verif_calls = 0; for (i = 0; i < 8; i++) verif_depths[i] = -1;
  body.str = in_buf; body.len = in_len; body.allocated = VERIF_N + 16; body.constant = 1; body.locked = 1; body.valid = 1; body.align_offset = 0;
  sig.str = (unsigned char *) the_sig; sig.len = sizeof (the_sig) - 1; sig.allocated = sizeof (the_sig) + 8; sig.constant = 1; sig.locked = 1; sig.valid = 1; sig.align_offset = 0;
  got = _dbus_validate_body_with_reason ((DBusString *) &sig, 0, DBUS_LITTLE_ENDIAN, NULL, (DBusString *) &body, 0, in_len);
  if (got == DBUS_VALID && verif_calls == (int) (sizeof (expect) / sizeof (expect[0])))
    {
      for (i = 0; i < (int) (sizeof (expect) / sizeof (expect[0])); i++)
        __CPROVER_assert (verif_depths[i] == expect[i], "depth.arg every recursion into a container value is given the true nesting depth (parent depth + 1)");
      REACH("accepted-full-shape");
    }
  /* whatever the body: no invocation is ever given a depth below 0 or skips a level */
  for (i = 1; i < 8; i++)
    __CPROVER_assert (i >= verif_calls || verif_depths[i] <= verif_depths[i - 1] + 1, "depth.step depth grows by at most one per recursion");
  __CPROVER_assert (verif_calls == 0 || verif_depths[0] == 0, "depth.top the top-level values are validated at depth 0");
}
