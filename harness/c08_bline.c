/* C08.b_cmdline — B unit: the real process_command (dbus/dbus-auth.c) on the REAL dbus/dbus-string.c, incoming buffer of
 * at most VERIF_N symbolic bytes.  Oracle: a reference line splitter written here from the specification
 * ("The protocol is a line-based protocol, where each line ends with \r\n. Each line begins with an all-caps ASCII command
 *  name ..., a space, then any arguments for the command, then the \r\n ending the line. ... All bytes must be in the ASCII
 *  character set."), and the command-name list of the "Protocol Overview".
 *
 *   no CRLF in the buffer           => FALSE, buffer bytes unchanged, no handler
 *   line (bytes before first CRLF)  not ASCII (NUL or >= 0x80) => ERROR sent, no handler, line consumed
 *   otherwise                       handler called once with command = name of the first word, args = text after the blanks
 *   TRUE                            => the buffer now holds exactly the bytes that followed the CRLF  (C11: "The first octet
 *                                      received by the server after the \r\n of the BEGIN command ... must be the first octet of
 *                                      the authenticated/encrypted stream")
 *   no _dbus_assert of the string library fails for any byte content (C10)
 */
#include <config.h>
#include "dbus/dbus-internals.h"
#include "verif_prelude.h"
#include VERIF_TU

#ifndef VERIF_N
#define VERIF_N 8
#endif
_Bool nondet_bool (void); int nondet_int (void); unsigned char nondet_uchar (void);
#define POST(c, what) __CPROVER_assert ((c), what)
#define IMP(a, b) (!(a) || (b))
#define REACH(tag) __CPROVER_assert (0, "REACH:" tag)

int g_handler_calls, g_handler_cmd, g_args_len, g_error_calls; unsigned char g_args[VERIF_N + 1];
dbus_bool_t verif_stub_handler_b (DBusAuth *auth, DBusAuthCommand command, const DBusString *args)
{
  int i;
  g_handler_calls++; g_handler_cmd = command; g_args_len = _dbus_string_get_length (args);
  for (i = 0; i < VERIF_N && i < g_args_len; i++) g_args[i] = _dbus_string_get_byte (args, i);
  if (nondet_bool ()) return FALSE;
  if (command == DBUS_AUTH_COMMAND_BEGIN && nondet_bool ()) auth->state = &common_state_authenticated;
  return TRUE;
}
dbus_bool_t verif_stub_send_error_b (DBusAuth *auth, const char *message) { g_error_calls++; return nondet_bool (); }

/* reference: command names of the specification */
static int ref_is (const unsigned char *w, int n, const char *name)
{ int i; for (i = 0; i < n; i++) { if (name[i] == 0 || (unsigned char) name[i] != w[i]) return 0; } return name[n] == 0; }
static int ref_lookup (const unsigned char *w, int n)
{
  if (ref_is (w, n, "AUTH")) return DBUS_AUTH_COMMAND_AUTH;
  if (ref_is (w, n, "CANCEL")) return DBUS_AUTH_COMMAND_CANCEL;
  if (ref_is (w, n, "DATA")) return DBUS_AUTH_COMMAND_DATA;
  if (ref_is (w, n, "BEGIN")) return DBUS_AUTH_COMMAND_BEGIN;
  if (ref_is (w, n, "REJECTED")) return DBUS_AUTH_COMMAND_REJECTED;
  if (ref_is (w, n, "OK")) return DBUS_AUTH_COMMAND_OK;
  if (ref_is (w, n, "ERROR")) return DBUS_AUTH_COMMAND_ERROR;
  if (ref_is (w, n, "NEGOTIATE_UNIX_FD")) return DBUS_AUTH_COMMAND_NEGOTIATE_UNIX_FD;
  if (ref_is (w, n, "AGREE_UNIX_FD")) return DBUS_AUTH_COMMAND_AGREE_UNIX_FD;
  return DBUS_AUTH_COMMAND_UNKNOWN;
}

void harness (void)
{
  DBusAuthServer S; DBusAuth *auth = &S.base;
  unsigned char in[VERIF_N]; int n = nondet_int (), i, k;
  __CPROVER_assume (n >= 0 && n <= VERIF_N);
  auth->side = auth_side_server; auth->needed_memory = nondet_bool ();
  k = nondet_int (); auth->state = k == 0 ? &server_state_waiting_for_auth : k == 1 ? &server_state_waiting_for_data : &server_state_waiting_for_begin;
  __CPROVER_assume (_dbus_string_init (&auth->incoming));
  for (i = 0; i < VERIF_N; i++) { in[i] = nondet_uchar (); if (i < n) __CPROVER_assume (_dbus_string_append_byte (&auth->incoming, in[i])); }
  /* reference framing */
  int eol = -1;
  for (i = 0; i + 1 < VERIF_N; i++) if (eol < 0 && i + 1 < n && in[i] == '\r' && in[i + 1] == '\n') eol = i;
  _Bool ascii = 1; int blank = -1, argstart = -1;
  for (i = 0; i < VERIF_N; i++) if (eol >= 0 && i < eol) { if (in[i] == 0 || in[i] >= 0x80) ascii = 0; if (blank < 0 && (in[i] == ' ' || in[i] == '\t')) blank = i; }
  if (eol >= 0) { if (blank < 0) { blank = eol; argstart = eol; } else { argstart = blank; for (i = 0; i < VERIF_N; i++) if (i == argstart && i < eol && (in[i] == ' ' || in[i] == '\t')) argstart = i + 1; } }
  const DBusAuthStateData *st0 = auth->state;

  dbus_bool_t ret = process_command (auth);

  int rest = _dbus_string_get_length (&auth->incoming);
  POST (IMP (eol < 0, !ret && g_handler_calls == 0 && g_error_calls == 0 && rest == n), "b_cmdline: no CRLF => FALSE, nothing handled, nothing consumed");
  POST (IMP (ret, eol >= 0 && rest == n - (eol + 2)), "b_cmdline: TRUE => exactly the first line and its CRLF are consumed");
  POST (IMP (!ret, rest == n), "b_cmdline: FALSE => nothing consumed");
  for (i = 0; i < VERIF_N; i++)
    {
      if (ret && i < rest) POST (_dbus_string_get_byte (&auth->incoming, i) == in[eol + 2 + i], "b_cmdline: TRUE => the buffer holds exactly the bytes that followed the CRLF");
      if (!ret && i < rest) POST (_dbus_string_get_byte (&auth->incoming, i) == in[i], "b_cmdline: FALSE => buffer bytes unchanged");
    }
  POST (IMP (eol >= 0 && !ascii, g_handler_calls == 0 && g_error_calls == 1 && auth->state == st0), "b_cmdline: non-ASCII line => ERROR, no handler");
  POST (IMP (eol >= 0 && ascii, g_handler_calls == 1 && g_error_calls == 0), "b_cmdline: ASCII line => handled once");
  POST (IMP (g_handler_calls == 1, g_handler_cmd == ref_lookup (in, blank)), "b_cmdline: command = the specification's name of the first word");
  POST (IMP (g_handler_calls == 1, g_args_len == eol - argstart), "b_cmdline: arguments = text after the blanks up to the CRLF (length)");
  for (i = 0; i < VERIF_N; i++) if (g_handler_calls == 1 && i < g_args_len) POST (g_args[i] == in[argstart + i], "b_cmdline: arguments = text after the blanks up to the CRLF (bytes)");
  if (ret && rest > 0 && auth->state == &common_state_authenticated) REACH ("begin-with-trailing-bytes");
  if (ret && g_error_calls == 1) REACH ("non-ascii");
  if (!ret && eol < 0 && n > 0) REACH ("incomplete");
  if (ret && g_handler_calls == 1 && g_args_len > 0) REACH ("command-with-args");
  if (!ret && eol >= 0) REACH ("handler-oom");
}
