/* C12/C14: the realignment core of header edits, dbus/dbus-marshal-recursive.c (static functions, real bodies, P-stub,
 * loop-free): replacement_block_replace, _dbus_type_reader_delete, reader_set_basic_variable_length.
 * Property C12 "deleting it ... replacing it with a longer or shorter value ... leaves a message whose ... other header
 * fields ... are unchanged"; C14 "If memory allocation fails at any single point while ... editing a message, the operation
 * reports out-of-memory, leaves all previously observable state (message contents ...) exactly as it was".
 * Contracts (from those sentences and the code's own "Process our fixups now that we can't have an OOM error"):
 *  MODE 1 replacement_block_replace: the only writes into the message's value string are ONE _dbus_string_replace_len of
 *    the block [padding, len) over [reader->value_pos, realign_reader.value_pos) and, strictly AFTER it succeeded, ONE
 *    application of the array-length fixups; TRUE iff both fallible steps succeeded; on FALSE nothing was written to the
 *    message, the fixups are released unapplied and the replacement string is cut back to its original length.
 *  MODE 2 _dbus_type_reader_delete / MODE 3 reader_set_basic_variable_length: TRUE iff every fallible step succeeded
 *    (FALSE exactly when one reported out-of-memory); the block is initialised once and freed exactly once when it was
 *    initialised; (MODE 3) the new value is written into the block before the replace. */
#include <config.h>
#include "dbus/dbus-internals.h"
#include "verif_prelude.h"
#include VERIF_TU
_Bool nondet_bool (void); int nondet_int (void);
#define PRE(c, what) __CPROVER_assert((c), "precondition of " what)
#define IMP(a,b) (!(a) || (b))
#define REACH(tag) __CPROVER_assert(0, "REACH:" tag)
static struct { int inits, init_ok, frees, replaces, replace_ok, writes, write_ok, seq, t_write, t_replace;
  int partials, partial_ok, strrep, strrep_ok, applies, fixfrees, setlens, setlen_to, t_strrep, t_apply; _Bool fixups_nonempty; } G;
static DBusString vstr, tstr; static DBusTypeReader rd, root; static ReplacementBlock B;
#if VERIF_MODE == 1
static int g_len0, g_len1, g_end;
int verif_stub_get_length (const DBusString *s) { PRE (s == &B.replacement, "_dbus_string_get_length: the replacement block"); return G.partial_ok ? g_len1 : g_len0; }
void verif_stub_writer_init_values_only (DBusTypeWriter *w, int bo, const DBusString *ts, int tp, DBusString *vs, int vp)
{ PRE (vs == &B.replacement && vp == g_len0 && ts == root.type_str && tp == root.type_pos && bo == root.byte_order, "_dbus_type_writer_init_values_only: appends to the block with the realign root's type"); }
dbus_bool_t verif_stub_write_reader_partial (DBusTypeWriter *w, DBusTypeReader *r, const DBusTypeReader *start_after, int nl_start, int nl_len, DBusList **fixups)
{ PRE (start_after == &rd && nl_start == B.padding && nl_len == g_len0 - B.padding && fixups != NULL && *fixups == NULL && r->value_pos == root.value_pos, "_dbus_type_writer_write_reader_partial: copies from the realign root, starting after the edited value");
  G.partials++; if (nondet_bool ()) { G.fixups_nonempty = nondet_bool (); if (G.fixups_nonempty) *fixups = (DBusList *) &G; return 0; }    /* OOM part-way: fixups may already be recorded */
  G.partial_ok = 1; r->value_pos = g_end; G.fixups_nonempty = nondet_bool (); if (G.fixups_nonempty) *fixups = (DBusList *) &G; return 1; }
dbus_bool_t verif_stub_replace_len (const DBusString *src, int start, int len, DBusString *dest, int rstart, int rlen)
{ PRE (src == &B.replacement && start == B.padding && len == g_len1 - B.padding, "_dbus_string_replace_len: source is the block after its padding");
  __CPROVER_assert (dest == &vstr && rstart == rd.value_pos && rlen == g_end - rd.value_pos, "blk.post1 the block replaces exactly [edited value, end of the realigned region) of the message");
  __CPROVER_assert (G.applies == 0, "blk.post2 no array-length fixup is applied before the bytes are in place");
  G.strrep++; G.t_strrep = ++G.seq; if (nondet_bool ()) return 0; G.strrep_ok = 1; return 1; }
void verif_stub_apply_fixups (DBusList **fixups, DBusTypeReader *reader)
{ PRE (fixups != NULL && reader == &rd, "apply_and_free_fixups: the edited reader");
  __CPROVER_assert (G.partial_ok && G.strrep_ok, "blk.post3 array-length fixups are written into the message only after every step that can fail has succeeded (\"now that we can't have an OOM error\")");
  G.applies++; G.t_apply = ++G.seq; *fixups = NULL; }
void verif_stub_free_fixups (DBusList **fixups) { PRE (fixups != NULL, "free_fixups"); G.fixfrees++; *fixups = NULL; }
dbus_bool_t verif_stub_set_length (DBusString *s, int n) { PRE (s == &B.replacement, "_dbus_string_set_length: the replacement block"); G.setlens++; G.setlen_to = n; return 1; }
void harness (void)
{
  g_len0 = nondet_int (); g_len1 = nondet_int (); g_end = nondet_int (); B.padding = nondet_int ();
  rd.value_str = &vstr; rd.type_str = &tstr; root.value_str = &vstr; root.type_str = &tstr; root.type_pos = nondet_int (); root.byte_order = nondet_bool () ? DBUS_LITTLE_ENDIAN : DBUS_BIG_ENDIAN;
  rd.value_pos = nondet_int (); root.value_pos = nondet_int ();
  __CPROVER_assume (0 <= root.value_pos && root.value_pos <= rd.value_pos && rd.value_pos <= g_end && g_end < 1000000);
  __CPROVER_assume (B.padding == rd.value_pos % 8 && B.padding <= g_len0 && g_len0 <= g_len1 && g_len1 < 1000000);
  dbus_bool_t r = replacement_block_replace (&B, &rd, &root);
  __CPROVER_assert (r == (G.partial_ok && G.strrep_ok), "blk.post4 TRUE iff the copy of the following values and the replace both succeeded");
  __CPROVER_assert (G.partials == 1 && G.strrep == (G.partial_ok ? 1 : 0), "blk.post5 one copy of the following values, then at most one replace");
  __CPROVER_assert (IMP (r, G.applies == 1 && G.t_apply > G.t_strrep && G.fixfrees == 0), "blk.post6 success: fixups applied exactly once, after the replace");
  __CPROVER_assert (IMP (!r, G.applies == 0 && G.fixfrees == 1), "blk.post7 failure: no fixup was written into the message; they are released");
  __CPROVER_assert (IMP (!r, G.setlens == 1 && G.setlen_to == g_len0), "blk.post8 failure: the replacement block is cut back to its original length (the edit can be retried)");
  if (r && G.fixups_nonempty) REACH ("success-with-fixups"); if (!r && G.partial_ok) REACH ("oom-in-replace"); if (!r && !G.partial_ok && G.fixups_nonempty) REACH ("oom-in-copy-with-fixups");
}
#else
dbus_bool_t verif_stub_block_init (ReplacementBlock *b, DBusTypeReader *r) { PRE (b != NULL && r == &rd, "replacement_block_init: at the edited reader"); G.inits++; if (nondet_bool ()) return 0; G.init_ok = 1; return 1; }
dbus_bool_t verif_stub_block_replace (ReplacementBlock *b, DBusTypeReader *r, const DBusTypeReader *rr)
{ PRE (G.init_ok && G.frees == 0 && r == &rd && rr == &root, "replacement_block_replace: initialised, not yet freed block; edited reader and realign root"); G.replaces++; G.t_replace = ++G.seq; if (nondet_bool ()) return 0; G.replace_ok = 1; return 1; }
void verif_stub_block_free (ReplacementBlock *b) { PRE (G.init_ok && G.frees == 0, "replacement_block_free: initialised, freed once"); G.frees++; }
void verif_stub_writer_init_values_only (DBusTypeWriter *w, int bo, const DBusString *ts, int tp, DBusString *vs, int vp) { PRE (G.init_ok && ts == rd.type_str && tp == rd.type_pos && bo == rd.byte_order, "_dbus_type_writer_init_values_only: the edited value's type and byte order"); }
int verif_stub_get_length (const DBusString *s) { return 0; }
static int g_type; static const void *g_value;
dbus_bool_t verif_stub_write_basic (DBusTypeWriter *w, int type, const void *value) { PRE (G.init_ok && G.frees == 0 && type == g_type && value == g_value, "_dbus_type_writer_write_basic: the caller's type and value"); G.writes++; G.t_write = ++G.seq; if (nondet_bool ()) return 0; G.write_ok = 1; return 1; }
void harness (void)
{
  char val; extern const DBusTypeReaderClass array_reader_class;
  rd.value_str = &vstr; rd.type_str = &tstr; root.value_str = &vstr; root.type_str = &tstr; rd.klass = &array_reader_class; rd.type_pos = nondet_int (); rd.byte_order = DBUS_LITTLE_ENDIAN;
  g_type = nondet_int (); g_value = &val;
#if VERIF_MODE == 2
  dbus_bool_t r = _dbus_type_reader_delete (&rd, &root);
  __CPROVER_assert (r == (G.init_ok && G.replace_ok), "del.post1 TRUE iff the block was set up and the replace succeeded; FALSE exactly when a step reported out-of-memory");
  __CPROVER_assert (G.writes == 0, "del.post2 nothing is written into the block: the value is replaced by nothing");
#else
  dbus_bool_t r = reader_set_basic_variable_length (&rd, g_type, g_value, &root);
  __CPROVER_assert (r == (G.init_ok && G.write_ok && G.replace_ok), "set.post1 TRUE iff block set-up, writing the new value and the replace all succeeded");
  __CPROVER_assert (IMP (G.replaces == 1, G.write_ok && G.t_write < G.t_replace), "set.post2 the new value is in the block before it is moved into the message");
  __CPROVER_assert (G.writes == (G.init_ok ? 1 : 0), "set.post3 the value is written once");
#endif
  __CPROVER_assert (G.inits == 1 && G.frees == (G.init_ok ? 1 : 0), "post the block is initialised once and freed exactly once iff it was initialised");
  __CPROVER_assert (G.replaces <= 1, "post at most one replace");
  if (r) REACH ("success"); if (!G.init_ok) REACH ("oom-init"); if (G.init_ok && G.replaces == 1 && !G.replace_ok) REACH ("oom-replace");
}
#endif
