/* C01.1 / C11 lemma F1 / C13: _dbus_header_have_message_untrusted, bit-exact functional contract:
 * the verdict and all outputs are an explicit function of bytes [start,start+16), max and len. */
#include "verif_str.h"
#include "dbus/dbus-marshal-header.h"
long verif_gk, verif_gk2, verif_w, verif_w2; int verif_flag;
#define WB(i) (REAL(str)->str[start + (i)])
#include "wire.h"
dbus_bool_t _dbus_header_have_message_untrusted (int max, DBusValidity *validity, int *byte_order, int *fields_array_len, int *header_len, int *body_len, const DBusString *str, int start, int len)
__CPROVER_requires(__CPROVER_is_fresh(str, sizeof(DBusString)))
__CPROVER_requires(STR_FIELDS_OK(str) && !REAL(str)->constant)
__CPROVER_requires(__CPROVER_is_fresh(REAL(str)->str, REAL(str)->len + 8))
__CPROVER_requires(start >= 0 && start < 0x3fffffff && (start % 8) == 0 && len >= 16 && len <= REAL(str)->len - start)
__CPROVER_requires(max >= 0 && max <= W_MAX_MESSAGE)
__CPROVER_requires(__CPROVER_is_fresh(validity, sizeof(*validity)) && __CPROVER_is_fresh(byte_order, sizeof(int)) && __CPROVER_is_fresh(fields_array_len, sizeof(int)) && __CPROVER_is_fresh(header_len, sizeof(int)) && __CPROVER_is_fresh(body_len, sizeof(int)))
__CPROVER_assigns(*validity, *byte_order, *fields_array_len, *header_len, *body_len)
__CPROVER_ensures((*validity == DBUS_VALID) == W_LENGTHS_VALID(max))
__CPROVER_ensures(__CPROVER_return_value == (W_LENGTHS_VALID(max) && W_HEADER_LEN + W_BODY_LEN <= (unsigned long long) len))
__CPROVER_ensures(IMP(W_LENGTHS_VALID(max), *byte_order == WB(0) && *fields_array_len == (int) W_FIELDS_LEN && *body_len == (int) W_BODY_LEN && *header_len == (int) W_HEADER_LEN))
__CPROVER_ensures(IMP(W_LENGTHS_VALID(max), *header_len >= 16 && *header_len % 8 == 0 && *body_len >= 0 && *header_len + *body_len <= max))
;
void harness (void)
{
  int m; DBusValidity *v; int *a, *b, *c, *d; const DBusString *s; int st, l;
  dbus_bool_t r = _dbus_header_have_message_untrusted (m, v, a, b, c, d, s, st, l);
  if (r) REACH("complete-frame"); else REACH("not-yet-or-corrupt");
}
