/* C02 / C01 (B: array data <= 16 bytes; every element type code): the ARRAY case of byteswap_body_helper
 * (dbus/dbus-marshal-byteswap.c), real text; its recursive calls are bound to a contract stub by a purely lexical renaming
 * (the k-th textual occurrence of the name becomes verif_bbh_k; occurrence 1 is the definition under test).
 * Property C02 "converting a message to the other byte order changes no value"; C01 "every ... body value later read ... equals
 * what an independent decoding of the same bytes gives" (a message in the other byte order is converted before it is read).
 * Specification: all multi-byte numbers of a message are in the message's byte order, including those inside the elements of
 * an array.  Contract of the ARRAY case for element type E:
 *   - the length word is byte-reversed in place and interpreted in the OLD byte order;
 *   - E fixed-size and wider than one byte: the elements are reversed in place as n = len / size fields of that size, once;
 *   - E == BYTE: nothing to convert;
 *   - every other E (strings, object paths, signatures, arrays, VARIANTS, structs, dict entries - they all contain numbers):
 *     each element is converted by a recursive call on the sub-reader, from the first element to exactly the end of the array;
 *   - the walk ends exactly at the end of the array data. */
#include <config.h>
#include "dbus/dbus-internals.h"
#include "verif_prelude.h"
#define VERIF_CAT_(a, b) a##b
#define VERIF_CAT(a, b) VERIF_CAT_(a, b)
#include "dbus/dbus-marshal-recursive.h"
#include "dbus/dbus-marshal-basic.h"
static void verif_bbh_2 (DBusTypeReader *reader, dbus_bool_t walk, int old_bo, int new_bo, unsigned char *p, unsigned char **new_p);
static void verif_bbh_3 (DBusTypeReader *reader, dbus_bool_t walk, int old_bo, int new_bo, unsigned char *p, unsigned char **new_p);
static void verif_bbh_4 (DBusTypeReader *reader, dbus_bool_t walk, int old_bo, int new_bo, unsigned char *p, unsigned char **new_p);
static void verif_bbh_5 (DBusTypeReader *reader, dbus_bool_t walk, int old_bo, int new_bo, unsigned char *p, unsigned char **new_p);
enum { verif_counter_base = __COUNTER__ };
_Static_assert (verif_counter_base == 0, "__COUNTER__ base moved");
#define byteswap_body_helper VERIF_CAT(verif_bbh_, __COUNTER__)
#include VERIF_TU
#undef byteswap_body_helper
_Static_assert (__COUNTER__ == 6, "number of textual occurrences of byteswap_body_helper changed (definition + 3 recursive calls + 1 caller expected)");
_Bool nondet_bool (void); int nondet_int (void); unsigned char nondet_uchar (void);
#define IMP(a,b) (!(a) || (b))
#define PRE(c, what) __CPROVER_assert((c), "precondition of " what)
#define REACH(tag) __CPROVER_assert(0, "REACH:" tag)
#define NB 40
static unsigned char buf[NB] __attribute__ ((aligned (8)));
static DBusTypeReader rd; static int g_elem, g_old, g_new;
static struct { int swaps, swap_n, swap_align; unsigned char *swap_at; int recs, recurse_calls; unsigned char *rec_first, *rec_last_end, *array_end; DBusTypeReader *sub; _Bool rec_args_ok, rec_contiguous; int cur_calls; } G;
int _dbus_type_reader_get_current_type (const DBusTypeReader *r) { PRE (r == &rd, "_dbus_type_reader_get_current_type: the reader under contract"); return DBUS_TYPE_ARRAY; }
int _dbus_type_reader_get_element_type (const DBusTypeReader *r) { PRE (r == &rd, "_dbus_type_reader_get_element_type"); return g_elem; }
void _dbus_type_reader_recurse (DBusTypeReader *r, DBusTypeReader *sub) { PRE (r == &rd && sub != NULL && sub != &rd, "_dbus_type_reader_recurse: into the array"); G.recurse_calls++; G.sub = sub; }
dbus_bool_t _dbus_type_reader_next (DBusTypeReader *r) { return 0; }
void verif_stub_swap_array (unsigned char *data, int n_elements, int alignment) { G.swaps++; G.swap_at = data; G.swap_n = n_elements; G.swap_align = alignment; }
/* contract of the recursive call on ONE element (walk_reader_to_end == FALSE): converts it and reports where it ends: strictly after its start, inside the array */
static void verif_bbh_2 (DBusTypeReader *reader, dbus_bool_t walk, int old_bo, int new_bo, unsigned char *p, unsigned char **new_p)
{ unsigned long adv;
  if (G.recs == 0) { G.rec_first = p; G.rec_args_ok = 1; G.rec_contiguous = 1; } else if (p != G.rec_last_end) G.rec_contiguous = 0;
  if (!(reader == G.sub && G.recurse_calls == 1 && !walk && old_bo == g_old && new_bo == g_new && new_p != NULL)) G.rec_args_ok = 0;
  __CPROVER_assert (__CPROVER_same_object (p, buf) && p < G.array_end, "swaparr.rec0 an element conversion starts inside the array data");
  __CPROVER_assume (__CPROVER_same_object (p, buf) && p < G.array_end);
  adv = nondet_int (); __CPROVER_assume (adv >= 1 && adv <= (unsigned long) (G.array_end - p));      /* valid data: elements fill the array exactly */
  G.recs++; G.rec_last_end = p + adv; *new_p = p + adv; }
static void verif_bbh_3 (DBusTypeReader *reader, dbus_bool_t walk, int old_bo, int new_bo, unsigned char *p, unsigned char **new_p) { __CPROVER_assert (0, "variant case not reached for current type ARRAY"); __CPROVER_assume (0); }
static void verif_bbh_4 (DBusTypeReader *reader, dbus_bool_t walk, int old_bo, int new_bo, unsigned char *p, unsigned char **new_p) { __CPROVER_assert (0, "struct case not reached for current type ARRAY"); __CPROVER_assume (0); }
static void verif_bbh_5 (DBusTypeReader *reader, dbus_bool_t walk, int old_bo, int new_bo, unsigned char *p, unsigned char **new_p) { }
static int size_of (int t) { switch (t) { case 'y': return 1; case 'n': case 'q': return 2; case 'b': case 'i': case 'u': case 'h': return 4; case 'x': case 't': case 'd': return 8; default: return 0; } }
static int align_of (int t) { switch (t) { case 'y': case 'g': case 'v': return 1; case 'n': case 'q': return 2; case 'x': case 't': case 'd': case 'r': case 'e': return 8; default: return 4; } }
void harness (void)
{
  static const char elems[] = { 'y', 'b', 'n', 'q', 'i', 'u', 'h', 'x', 't', 'd', 's', 'o', 'g', 'a', 'v', 'r', 'e' };      /* 'r','e': what the reader reports for ( and { */
  int i, k = nondet_int (), off = nondet_int (), le = nondet_bool (); unsigned char old[NB]; unsigned char *out = NULL; unsigned len;
  __CPROVER_assume (k >= 0 && k < (int) sizeof elems); g_elem = elems[k];
  __CPROVER_assume (off >= 0 && off < 8);
  for (i = 0; i < NB; i++) { buf[i] = nondet_uchar (); old[i] = buf[i]; }
  int lw = (off + 3) & ~3;                    /* the length word: 4-aligned */
  len = le ? ((unsigned) buf[lw] | ((unsigned) buf[lw + 1] << 8) | ((unsigned) buf[lw + 2] << 16) | ((unsigned) buf[lw + 3] << 24))
           : ((unsigned) buf[lw + 3] | ((unsigned) buf[lw + 2] << 8) | ((unsigned) buf[lw + 1] << 16) | ((unsigned) buf[lw] << 24));
  int al = align_of (g_elem), start = (lw + 4 + al - 1) & ~(al - 1);
  __CPROVER_assume (len <= 16 && (size_of (g_elem) == 0 || len % size_of (g_elem) == 0));        /* a validated array */
  g_old = le ? DBUS_LITTLE_ENDIAN : DBUS_BIG_ENDIAN; g_new = le ? DBUS_BIG_ENDIAN : DBUS_LITTLE_ENDIAN;
  G.array_end = buf + start + len;
  verif_bbh_1 (&rd, 0, g_old, g_new, buf + off, &out);
  for (i = 0; i < 4; i++) __CPROVER_assert (buf[lw + i] == old[lw + 3 - i], "swaparr.len the length word is byte-reversed in place");
  __CPROVER_assert (out == buf + start + len, "swaparr.end the walk ends exactly at the end of the array data (length read in the OLD byte order, start aligned for the element type)");
  int sz = size_of (g_elem);
  if (sz > 1)
    { __CPROVER_assert (G.swaps == 1 && G.swap_at == buf + start && G.swap_n == (int) len / sz && G.swap_align == sz && G.recs == 0, "swaparr.fixed fixed-size elements wider than a byte: reversed in place as len/size fields of that size, once"); REACH ("fixed-elements"); }
  else if (sz == 1)
    { __CPROVER_assert (G.swaps == 0 && G.recs == 0, "swaparr.bytes BYTE elements: nothing to convert"); REACH ("byte-elements"); }
  else
    {
      __CPROVER_assert (G.swaps == 0, "swaparr.rec1 elements that are not fixed-size are not reversed as a block");
      __CPROVER_assert (IMP (len > 0, G.recs >= 1 && G.rec_first == buf + start && G.rec_last_end == buf + start + len && G.rec_contiguous && G.rec_args_ok),
                        "swaparr.rec2 strings, paths, signatures, arrays, VARIANTS, structs and dict entries as elements: each element is converted by a recursive call, from the first element to exactly the end of the array");
      __CPROVER_assert (IMP (len == 0, G.recs == 0), "swaparr.rec3 an empty array converts no element");
      if (g_elem == 'v' && G.recs >= 2) REACH ("array-of-variants"); if (g_elem == 'r' && len > 0) REACH ("array-of-structs"); if (len == 0) REACH ("empty-container-array");
    }
  for (i = 0; i < NB; i++) __CPROVER_assert (IMP (i < lw || (i >= lw + 4), buf[i] == old[i]), "swaparr.frame no other byte is written by this level (block reversal and element conversion are the callees')");
}
