/* C07: bus_match_rule_parse (VERIF_FN=1, hybrid: two loop contracts + callee contracts) and
 * bus_match_rule_parse_arg_match (VERIF_FN=2, P-stub: loop-free function, plain cbmc) — typestate contracts (T):
 *   - each key's value is checked by the validator the specification's key table names, *before* the setter runs;
 *   - a key given twice, an unknown key, an argument index > 63, a bad argN suffix are refused with MatchRuleInvalid;
 *   - more than DBUS_MAXIMUM_MATCH_RULE_LENGTH bytes are refused with LimitsExceeded before anything else happens;
 *   - NULL/FALSE <=> error set; OOM => NoMemory; on failure the half-built rule is released exactly once.
 * Token keys are drawn from a pool of literal strings (every key of the table, malformed arg keys, an unknown key);
 * token values are opaque except where the parser itself looks at them (eavesdrop: 'true' / 'false' / other).
 */
#include <config.h>
#include "dbus/dbus-internals.h"
#include "verif_prelude.h"
#define C07_GHOST_DEFINE
#include "c07_ghost.h"
#include <stdlib.h>
void verif_set_error (DBusError *e, const char *name);
#define dbus_set_error(e, name, ...) verif_set_error (e, name)
#include VERIF_TU
#undef dbus_set_error
#include "c07_common.h"
void _dbus_real_assert (dbus_bool_t condition, const char *condition_text, const char *file, int line, const char *func)
{ __CPROVER_assert (condition, "dbus assertion (error protocol / internal)"); __CPROVER_assume (condition); }
void _dbus_verbose_real (const char *file, const int line, const char *function, const char *format, ...) {}
static const char some_text[] = "e";
#define ERR_SET(e) ((e)->name != NULL)
/* error names by their distinguishing letters (loop-free): org.freedesktop.DBus.Error.<X>: [27] = first letter of X,
 * [36] tells MatchRuleInvalid from MatchRuleNotFound */
#define ERRNAME_IS_INVALID(n) ((n) != NULL && (n)[27] == 'M' && (n)[36] == 'I')
#define ERRNAME_IS_NOMEM(n) ((n) != NULL && (n)[27] == 'N' && (n)[28] == 'o' && (n)[29] == 'M')
#define ERRNAME_IS_LIMITS(n) ((n) != NULL && (n)[27] == 'L')
#define g_oom verif_p_oom
#define g_validated_str verif_p_vstr
#define g_validated_by verif_p_vby
#define g_validated_ok verif_p_vok
#define g_validations verif_p_nval
#define g_tmp verif_p_tmp
#define g_tmp_value verif_p_tmpval
#define g_type_result verif_p_type
#define g_unrefs verif_p_unrefs
#define g_ntok verif_p_ntok
dbus_bool_t verif_stub_error_is_set (const DBusError *e) { PRE (e != NULL, "dbus_error_is_set"); return ERR_SET (e); }
void verif_set_error (DBusError *e, const char *name) { PRE (name != NULL && (e == NULL || !ERR_SET (e)), "dbus_set_error: error not already set"); if (e) { e->name = name; e->message = some_text; } }
void verif_stub_set_error_const (DBusError *e, const char *name, const char *message) { PRE (name != NULL && (e == NULL || !ERR_SET (e)), "dbus_set_error_const: error not already set"); if (e) { e->name = name; e->message = message; } }

#if VERIF_FN == 2
#define C07_COUNT_VALIDATION g_validations++
#else
#define C07_COUNT_VALIDATION ((void) 0)    /* inside a contract loop an unbounded counter would need its own invariant */
#endif
/* validators of dbus-marshal-validate.c (exact grammar: units C16.*): which one was applied to which value */
enum { V_NONE = 0, V_BUS_NAME, V_INTERFACE, V_MEMBER, V_PATH, V_BUS_NAMESPACE, V_TYPE };
#define VALIDATOR(fn, tag) dbus_bool_t verif_stub_##fn (const DBusString *str, int start, int len) \
  { PRE (str != NULL && start == 0, #fn ": whole value"); g_validated_str = str; g_validated_by = tag; g_validated_ok = nondet_bool (); C07_COUNT_VALIDATION; return g_validated_ok; }
VALIDATOR (validate_bus_name, V_BUS_NAME) VALIDATOR (validate_interface, V_INTERFACE) VALIDATOR (validate_member, V_MEMBER)
VALIDATOR (validate_path, V_PATH) VALIDATOR (validate_bus_namespace, V_BUS_NAMESPACE)

#if VERIF_FN == 2
/* ------------------------------------------------------------------------------------------------------------ */
static const char *const key_pool[] = { "arg", "arg0", "arg7", "arg63", "arg64", "arg7path", "arg63path", "arg64path", "arg0namespace", "arg1namespace",
                                         "arg5junk", "argpath", "arg12pathx", "arg0namespac" };
#define NKEYS ((int) (sizeof key_pool / sizeof key_pool[0]))
static unsigned long g_anynum; static int g_anynum_used; unsigned long nondet_ulong (void);
static int g_set_arg_calls, g_set_arg; static dbus_bool_t g_set_is_path, g_set_is_ns; static const DBusString *g_value;
/* _dbus_string_parse_uint on the pool keys: decimal digits without sign / leading zero (the only forms in the pool) */
dbus_bool_t verif_stub_parse_uint (const DBusString *str, int start, unsigned long *value_return, int *end_return)
{
  const char *s = _dbus_string_get_const_data (str); int n = _dbus_string_get_length (str); int k = start; unsigned long v = 0;
  PRE (start >= 0 && start <= n && value_return != NULL && end_return != NULL, "_dbus_string_parse_uint");
#ifdef VERIF_ANYNUM
  /* the digits may spell ANY unsigned long (up to 20 digits; keys like arg2147483648path): the value is arbitrary here */
  if (k < n && s[k] >= '0' && s[k] <= '9') { while (k < n && s[k] >= '0' && s[k] <= '9') k++; g_anynum = nondet_ulong (); g_anynum_used = 1; *value_return = g_anynum; *end_return = k; return TRUE; }
  return FALSE;
#endif
  if (k < n && s[k] >= '0' && s[k] <= '9') { v = s[k] - '0'; k++; } else return FALSE;
  if (k < n && s[k] >= '0' && s[k] <= '9') { v = v * 10 + (s[k] - '0'); k++; }
  if (k < n && s[k] >= '0' && s[k] <= '9') { v = v * 10 + (s[k] - '0'); k++; }
  *value_return = v; *end_return = k; return TRUE;
}
dbus_bool_t verif_stub_set_arg (BusMatchRule *rule, int arg, const DBusString *value, dbus_bool_t is_path, dbus_bool_t is_namespace)
{
  PRE (arg >= 0 && arg <= DBUS_MAXIMUM_MATCH_RULE_ARG_NUMBER, "bus_match_rule_set_arg: 0 <= arg <= 63");
  PRE (!(is_path && is_namespace), "bus_match_rule_set_arg: not both path and namespace (RULE_OK)");
  PRE (!((rule->flags & BUS_MATCH_ARGS) && rule->args_len > arg && rule->args[arg] != NULL), "bus_match_rule_set_arg: the index is not matched already");
  PRE (IMP (is_namespace, g_validated_str == value && g_validated_by == V_BUS_NAMESPACE && g_validated_ok), "bus_match_rule_set_arg(namespace): value passed _dbus_validate_bus_namespace");
  PRE (value == g_value, "bus_match_rule_set_arg: the token's value");
  g_set_arg_calls++; g_set_arg = arg; g_set_is_path = is_path; g_set_is_ns = is_namespace;
  if (nondet_bool ()) { g_oom = 1; return FALSE; }
  return TRUE;
}
void harness (void)
{
  BusMatchRule r; DBusString value; DBusError err; err.name = NULL; err.message = NULL; char *A[4]; unsigned L[4]; static char blk[2];
  /* the value is opaque here: only the validator contract looks at it */
  static const char v[] = "v"; _dbus_string_init_const (&value, v); g_value = &value;
  int ki = nondet_int (); __CPROVER_assume (ki >= 0 && ki < NKEYS); const char *key = key_pool[ki];
  /* the rule so far: no argument matches, or up to 3 slots some of which are set */
  r.refcount = 1; r.flags = nondet_bool () ? BUS_MATCH_ARGS : 0; r.args = NULL; r.arg_lens = NULL; r.args_len = 0;
  if (r.flags) { r.args_len = nondet_int (); __CPROVER_assume (r.args_len >= 1 && r.args_len <= 3); r.args = A; r.arg_lens = L;
                 for (int k = 0; k < 3; k++) { A[k] = (k < r.args_len && nondet_bool ()) ? blk : NULL; L[k] = 0; } A[3] = NULL; L[3] = 0; A[r.args_len] = NULL; }
  g_oom = 0; g_set_arg_calls = 0; g_validations = 0; g_validated_by = V_NONE; g_validated_str = NULL;

  g_anynum_used = 0;
  dbus_bool_t ok = bus_match_rule_parse_arg_match (&r, key, &value, &err);
#ifdef VERIF_ANYNUM
  /* "Only argument indexes from 0 to 63 should be accepted": whatever number the digits spell, an index above 63 is refused
   * before it is used for anything (CBMC's pointer checks are the obligation that rule->args[] is never indexed with it) */
  __CPROVER_assert (IMP (g_anynum_used && g_anynum > DBUS_MAXIMUM_MATCH_RULE_ARG_NUMBER, !ok && g_set_arg_calls == 0 && err.name != NULL), "anynum.post an argument number above 63 is refused, whatever its size");
  __CPROVER_assert (IMP (ok, g_set_arg_calls == 1 && (unsigned long) g_set_arg == g_anynum), "anynum.post2 an accepted key sets exactly the spelled index");
  if (ok) __CPROVER_assert (0, "REACH:accepted"); if (!ok && g_anynum_used && g_anynum > 0x7fffffff) __CPROVER_assert (0, "REACH:refused-huge-number");

#else

  /* oracle: the key table ("arg[0, 1, 2, 3, ...]", "arg[0, 1, 2, 3, ...]path", "arg0namespace"; "Only argument indexes
   * from 0 to 63 should be accepted") as ref_key() of spec/match_ref.h */
  int argno = -1; int kind = ref_key (key, ref_strlen (key), &argno);
  _Bool occupied = kind != REF_KEY_NONE && (r.flags & BUS_MATCH_ARGS) && r.args_len > argno && r.args[argno] != NULL;
  __CPROVER_assert (ok == 0 || ok == 1, "post0 boolean");
  __CPROVER_assert (ok == !ERR_SET (&err), "post1 FALSE <=> error set");
  __CPROVER_assert (IMP (kind == REF_KEY_NONE, !ok && ERRNAME_IS_INVALID (err.name)), "post2 a key that is not argN / argNpath / arg0namespace with N <= 63 is refused with MatchRuleInvalid");
  __CPROVER_assert (IMP (ok, kind != REF_KEY_NONE && g_set_arg_calls == 1 && g_set_arg == argno && (g_set_is_path != 0) == (kind == REF_KEY_ARGPATH) && (g_set_is_ns != 0) == (kind == REF_KEY_ARG0NAMESPACE)),
                    "post3 TRUE => exactly one bus_match_rule_set_arg with the index and kind the key names");
  __CPROVER_assert (IMP (occupied, !ok && ERRNAME_IS_INVALID (err.name)), "post4 an argument index matched already is refused with MatchRuleInvalid");
  __CPROVER_assert (IMP (kind == REF_KEY_ARG0NAMESPACE && !ok && !g_oom && !occupied, g_validations == 1 && !g_validated_ok), "post5 arg0namespace is refused only for an invalid namespace value");
  __CPROVER_assert (IMP (!ok && !g_oom, ERRNAME_IS_INVALID (err.name)), "post6 every refusal other than OOM is MatchRuleInvalid");
  __CPROVER_assert (IMP (g_oom, !ok && ERRNAME_IS_NOMEM (err.name)), "post7 OOM => FALSE with NoMemory");
  __CPROVER_assert (IMP (!ok && !g_oom, g_set_arg_calls == 0), "post8 a refused key sets nothing");
  if (ok && kind == REF_KEY_ARG) REACH ("argN"); if (ok && kind == REF_KEY_ARGPATH) REACH ("argNpath"); if (ok && kind == REF_KEY_ARG0NAMESPACE) REACH ("arg0namespace");
  if (!ok && kind == REF_KEY_NONE) REACH ("bad-key"); if (!ok && occupied) REACH ("duplicate"); if (g_oom) REACH ("oom");
#endif
}
#else
/* ------------------------------------------------------------------------------------------------------------ */
enum { K_TYPE, K_SENDER, K_INTERFACE, K_MEMBER, K_PATH, K_PATH_NS, K_DEST, K_EAVES, K_ARG, K_ARGX, K_BOGUS, K_BOGUS2, NKINDS };
static const char *const key_pool[NKINDS] = { "type", "sender", "interface", "member", "path", "path_namespace", "destination", "eavesdrop", "arg0", "argument", "bogus", "typ" };
static const char *const eaves_pool[3] = { "true", "false", "maybe" };
#define NTOK MAX_RULE_TOKENS
static int g_kind[NTOK + 1]; static char g_vals[NTOK + 1][8]; static int g_tokenize_calls, g_new_calls;
static BusMatchRule g_rule_obj; static const DBusString *g_text; static _Bool g_init_const_called;
#define VAL_INDEX(v) ((int) (((const char *) (v) - &g_vals[0][0]) / 8))
#define IS_TOKEN_VALUE(v) (__CPROVER_same_object (v, g_vals) && ((const char *) (v) - &g_vals[0][0]) % 8 == 0 && VAL_INDEX (v) >= 0 && VAL_INDEX (v) < g_ntok)
int verif_stub_get_length (const DBusString *s) { PRE (s == g_text || s == g_tmp, "_dbus_string_get_length: the rule text or the current value"); return s == g_text ? (int) verif_len : nondet_int (); }
BusMatchRule *verif_stub_rule_new (DBusConnection *c) { g_new_calls++; if (nondet_bool ()) { g_oom = 1; return NULL; } g_rule_obj.refcount = 1; g_rule_obj.flags = 0; g_rule_obj.matches_go_to = c; g_rule_obj.args = NULL; g_rule_obj.args_len = 0; return &g_rule_obj; }
void verif_stub_rule_unref (BusMatchRule *r) { PRE (r == &g_rule_obj && g_unrefs == 0, "bus_match_rule_unref: the half-built rule, once"); g_unrefs++; }
/* tokenize_rule by its contract (unit C07.tokenize): FALSE => error set, all slots NULL; TRUE => n <= MAX_RULE_TOKENS tokens, rest NULL */
dbus_bool_t verif_stub_tokenize (const DBusString *text, RuleToken *tokens, DBusError *error)
{
  PRE (text == g_text && error != NULL && !ERR_SET (error), "tokenize_rule: rule text, clear error");
  g_tokenize_calls++;
  if (nondet_bool ()) { if (nondet_bool ()) { g_oom = 1; error->name = DBUS_ERROR_NO_MEMORY; } else error->name = DBUS_ERROR_MATCH_RULE_INVALID; error->message = some_text; return FALSE; }
  g_ntok = nondet_int (); __CPROVER_assume (g_ntok >= 0 && g_ntok <= NTOK);
  for (int k = 0; k < NTOK; k++)
    if (k < g_ntok) { int kd = nondet_int (); __CPROVER_assume (kd >= 0 && kd < NKINDS); g_kind[k] = kd; tokens[k].key = (char *) key_pool[kd];
                      if (kd == K_EAVES) { int e = nondet_int (); __CPROVER_assume (e >= 0 && e < 3); g_vals[k][0] = eaves_pool[e][0]; g_vals[k][1] = eaves_pool[e][1]; g_vals[k][2] = eaves_pool[e][2]; g_vals[k][3] = eaves_pool[e][3]; g_vals[k][4] = eaves_pool[e][4]; g_vals[k][5] = 0; }
                      g_vals[k][7] = 0; tokens[k].value = &g_vals[k][0]; }
  return TRUE;
}
void verif_stub_init_const (DBusString *s, const char *value) { PRE (s != NULL && IS_TOKEN_VALUE (value), "_dbus_string_init_const: a token value"); g_tmp = s; g_tmp_value = value; g_validated_by = V_NONE; g_validated_str = NULL; }
int verif_stub_type_from_string (const char *v) { PRE (IS_TOKEN_VALUE (v), "dbus_message_type_from_string: a token value"); int t = nondet_int (); __CPROVER_assume (t >= DBUS_MESSAGE_TYPE_INVALID && t <= DBUS_MESSAGE_TYPE_SIGNAL); g_type_result = t; g_validated_by = V_TYPE; g_validated_ok = (t != DBUS_MESSAGE_TYPE_INVALID); return t; }
/* setters: preconditions = "validated by the validator the key table names" + "key not given before" */
#define VALIDATED(v, tag) (g_validated_by == (tag) && g_validated_ok && (tag == V_TYPE || g_validated_str == g_tmp) && g_tmp_value == (v))
#define STR_SETTER(fn, flag, kindv, tag, what) dbus_bool_t verif_stub_##fn (BusMatchRule *rule, const char *v) \
  { PRE (rule == &g_rule_obj && IS_TOKEN_VALUE (v) && g_kind[VAL_INDEX (v)] == kindv, #fn ": called for a token with that key"); \
    PRE (VALIDATED (v, tag), #fn ": the value passed " what " (the validator the specification names for this key)"); \
    PRE (!(rule->flags & (flag)), #fn ": the key was not given before"); \
    if (nondet_bool ()) { g_oom = 1; return FALSE; } rule->flags |= (flag); verif_w++; return TRUE; }
STR_SETTER (set_sender, BUS_MATCH_SENDER, K_SENDER, V_BUS_NAME, "_dbus_validate_bus_name")
STR_SETTER (set_interface, BUS_MATCH_INTERFACE, K_INTERFACE, V_INTERFACE, "_dbus_validate_interface")
STR_SETTER (set_member, BUS_MATCH_MEMBER, K_MEMBER, V_MEMBER, "_dbus_validate_member")
STR_SETTER (set_destination, BUS_MATCH_DESTINATION, K_DEST, V_BUS_NAME, "_dbus_validate_bus_name")
dbus_bool_t verif_stub_set_path (BusMatchRule *rule, const char *v, dbus_bool_t is_namespace)
{
  PRE (rule == &g_rule_obj && IS_TOKEN_VALUE (v) && (g_kind[VAL_INDEX (v)] == K_PATH || g_kind[VAL_INDEX (v)] == K_PATH_NS), "set_path: called for a path / path_namespace token");
  PRE ((is_namespace != 0) == (g_kind[VAL_INDEX (v)] == K_PATH_NS), "set_path: is_namespace iff the key is path_namespace");
  PRE (VALIDATED (v, V_PATH), "set_path: the value passed _dbus_validate_path");
  PRE (!(rule->flags & (BUS_MATCH_PATH | BUS_MATCH_PATH_NAMESPACE)), "set_path: neither path nor path_namespace was given before");
  if (nondet_bool ()) { g_oom = 1; return FALSE; } rule->flags |= is_namespace ? BUS_MATCH_PATH_NAMESPACE : BUS_MATCH_PATH; verif_w++; return TRUE;
}
dbus_bool_t verif_stub_set_message_type (BusMatchRule *rule, int type)
{
  PRE (rule == &g_rule_obj && g_validated_by == V_TYPE && g_type_result == type && type != DBUS_MESSAGE_TYPE_INVALID, "set_message_type: the type dbus_message_type_from_string returned for the value, not INVALID (RULE_OK)");
  PRE (!(rule->flags & BUS_MATCH_MESSAGE_TYPE), "set_message_type: the key was not given before");
  if (nondet_bool ()) { g_oom = 1; return FALSE; } rule->flags |= BUS_MATCH_MESSAGE_TYPE; verif_w++; return TRUE;
}
void verif_stub_set_eavesdropping (BusMatchRule *rule, dbus_bool_t is)
{
  PRE (rule == &g_rule_obj && IS_TOKEN_VALUE (g_tmp_value) && g_kind[VAL_INDEX (g_tmp_value)] == K_EAVES, "set_client_is_eavesdropping: called for an eavesdrop token");
  PRE (is ? (((const char *) g_tmp_value)[0] == 't' && ((const char *) g_tmp_value)[4] == 0) : (((const char *) g_tmp_value)[0] == 'f'), "set_client_is_eavesdropping: TRUE for 'true', FALSE for 'false'");
  if (is) rule->flags |= BUS_MATCH_CLIENT_IS_EAVESDROPPING; else rule->flags &= ~BUS_MATCH_CLIENT_IS_EAVESDROPPING; verif_w++;
}
dbus_bool_t verif_stub_parse_arg_match (BusMatchRule *rule, const char *key, const DBusString *value, DBusError *error)
{
  PRE (rule == &g_rule_obj && value == g_tmp && error != NULL && !ERR_SET (error), "bus_match_rule_parse_arg_match: the rule, the current value, clear error");
  PRE (key[0] == 'a' && key[1] == 'r' && key[2] == 'g', "bus_match_rule_parse_arg_match: key begins with arg");
  if (nondet_bool ()) { if (nondet_bool ()) { g_oom = 1; error->name = DBUS_ERROR_NO_MEMORY; } else error->name = DBUS_ERROR_MATCH_RULE_INVALID; error->message = some_text; return FALSE; }
  rule->flags |= BUS_MATCH_ARGS; verif_w++; return TRUE;
}
void verif_stub_dbus_free (void *p) { PRE (p != NULL, "dbus_free: a token string"); verif_w2++; }

void harness (void)
{
  DBusString text; DBusError err; err.name = NULL; err.message = NULL; static char co; DBusConnection *c = (DBusConnection *) &co;
  g_text = &text; verif_len = nondet_long (); __CPROVER_assume (verif_len >= 0 && verif_len <= 0x7fffffff - 8);
  g_oom = 0; g_ntok = 0; g_tokenize_calls = 0; g_new_calls = 0; g_unrefs = 0; verif_w = 0; verif_w2 = 0; g_validated_by = V_NONE; g_tmp = NULL; g_tmp_value = NULL;
  BusMatchRule *rule = bus_match_rule_parse (c, &text, &err);
  __CPROVER_assert ((rule == NULL) == ERR_SET (&err), "post1 NULL <=> error set");
  __CPROVER_assert (IMP (verif_len > DBUS_MAXIMUM_MATCH_RULE_LENGTH, rule == NULL && ERRNAME_IS_LIMITS (err.name) && g_tokenize_calls == 0 && g_new_calls == 0),
                    "post2 more than DBUS_MAXIMUM_MATCH_RULE_LENGTH bytes => LimitsExceeded before anything else happens");
  __CPROVER_assert (IMP (rule != NULL, rule == &g_rule_obj && g_tokenize_calls == 1 && verif_w == g_ntok && g_unrefs == 0),
                    "post3 rule => every token was handled by exactly one setter (known key, validated value, not a duplicate: the setter preconditions)");
  __CPROVER_assert (IMP (rule == NULL && g_new_calls == 1 && !(g_oom && g_unrefs == 0 && g_tokenize_calls == 0), g_unrefs == 1), "post4 failure after the rule was allocated => it is released exactly once");
  __CPROVER_assert (IMP (rule == NULL && !g_oom && verif_len <= DBUS_MAXIMUM_MATCH_RULE_LENGTH, ERRNAME_IS_INVALID (err.name)), "post5 every refusal other than OOM / length is MatchRuleInvalid");
  __CPROVER_assert (IMP (ERR_SET (&err) && ERRNAME_IS_LIMITS (err.name), verif_len > DBUS_MAXIMUM_MATCH_RULE_LENGTH), "post6 LimitsExceeded only for an over-long rule");
  __CPROVER_assert (IMP (g_tokenize_calls == 1 && g_ntok >= 0, verif_w2 == 2 * g_ntok), "post7 every token string is freed exactly once");
  if (rule) REACH ("rule"); else REACH ("refused"); if (rule && g_ntok == NTOK) REACH ("sixteen-keys"); if (rule == NULL && verif_len > 1024) REACH ("too-long");
  if (rule == NULL && g_oom) REACH ("oom"); if (rule && (rule->flags & BUS_MATCH_PATH_NAMESPACE)) REACH ("path-namespace"); if (rule && (rule->flags & BUS_MATCH_ARGS)) REACH ("args");
}
#endif
