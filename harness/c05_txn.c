/* C05 / C14 (B: <= 3 messages already staged for the destination; REAL dbus/dbus-list.c): the transaction mechanism that every
 * delivery of the bus goes through, real bodies of bus_transaction_send, connection_execute_transaction,
 * connection_cancel_transaction, message_to_send_free (bus/connection.c).
 * Property C05 "delivered exactly once ... messages from one sender to one recipient arrive in the order they were sent";
 * C14 "either every effect of a request ... takes place or none does".  The code's own statement: "Send the queue in order (FIFO)".
 *  MODE 1 bus_transaction_send(T, sender, dest, msg): TRUE => exactly one new entry for (T, msg) with its own preallocated send
 *    slot, in front of the older entries, which keep their order; dest is listed in T->connections exactly once (added iff T had
 *    nothing staged for it yet); FALSE => staged entries exactly as before, T->connections unchanged, the message reference and
 *    the preallocation released; a disconnected destination => TRUE and nothing staged.
 *  MODE 2 connection_execute_transaction(dest, T): exactly T's entries are sent, each once, with its own preallocated slot, OLDEST
 *    FIRST; entries of another transaction stay staged, in the same order; each sent entry released once (slot consumed by the send).
 *  MODE 3 connection_cancel_transaction(dest, T): nothing is sent; exactly T's entries are dropped, each message reference and
 *    preallocated slot released once; other entries stay, same order. */
#include <config.h>
#include "dbus/dbus-internals.h"
#include "verif_prelude.h"
#include VERIF_TU
_Bool nondet_bool (void); int nondet_int (void);
#define PRE(c, what) __CPROVER_assert((c), "precondition of " what)
#define IMP(a,b) (!(a) || (b))
#define REACH(tag) __CPROVER_assert(0, "REACH:" tag)
#ifndef NT
#define NT 3
#endif
static char o_dest, o_sender, o_ctx; static BusConnectionData D; static BusTransaction T, U;
#define DEST ((DBusConnection *) &o_dest)
static MessageToSend e[NT + 1]; static char m[NT + 1], p[NT + 1]; static DBusList lk[NT]; static DBusList tl;      /* e[NT]: the new one */
static int n_old; static _Bool connected, of_T[NT];
static struct { int sends, send_order[NT + 1], send_seq, unrefs[NT + 1], refs[NT + 1], prefree[NT + 1], frees[NT + 1], mallocs, preallocs; _Bool send_slot_ok; } G;
static int idx_msg (DBusMessage *x) { for (int i = 0; i <= NT; i++) if (x == (DBusMessage *) &m[i]) return i; return -1; }
static int idx_pre (DBusPreallocatedSend *x) { for (int i = 0; i <= NT; i++) if (x == (DBusPreallocatedSend *) &p[i]) return i; return -1; }
static int idx_e (void *x) { for (int i = 0; i <= NT; i++) if (x == (void *) &e[i]) return i; return -1; }
void _dbus_real_assert (dbus_bool_t c, const char *t, const char *f, int l, const char *fn) { __CPROVER_assert (c, "dbus internal assertion"); __CPROVER_assume (c); }
void _dbus_real_assert_not_reached (const char *x, const char *f, int l) { __CPROVER_assert (0, "dbus assert_not_reached"); __CPROVER_assume (0); }
void _dbus_verbose_real (const char *file, const int line, const char *function, const char *format, ...) { }
void *dbus_connection_get_data (DBusConnection *c, dbus_int32_t slot) { PRE (c == DEST, "dbus_connection_get_data: the destination"); return &D; }
dbus_bool_t dbus_connection_get_is_connected (DBusConnection *c) { PRE (c == DEST, "dbus_connection_get_is_connected: the destination"); return connected; }
const char *dbus_message_get_sender (DBusMessage *x) { return ":1.1"; }
void *dbus_malloc (size_t n) { PRE (n == sizeof (MessageToSend), "dbus_malloc: one staging record"); if (nondet_bool ()) return NULL; G.mallocs++; return &e[NT]; }
void dbus_free (void *x) { int k = idx_e (x); PRE (k >= 0, "dbus_free: a staging record"); __CPROVER_assume (k >= 0 && k <= NT); G.frees[k]++; }
DBusPreallocatedSend *dbus_connection_preallocate_send (DBusConnection *c) { PRE (c == DEST, "dbus_connection_preallocate_send: on the destination"); if (nondet_bool ()) return NULL; G.preallocs++; return (DBusPreallocatedSend *) &p[NT]; }
void dbus_connection_free_preallocated_send (DBusConnection *c, DBusPreallocatedSend *x) { int k = idx_pre (x); PRE (c == DEST && k >= 0, "dbus_connection_free_preallocated_send: a slot of the destination"); __CPROVER_assume (k >= 0 && k <= NT); G.prefree[k]++; }
DBusMessage *dbus_message_ref (DBusMessage *x) { int k = idx_msg (x); PRE (k >= 0, "dbus_message_ref"); __CPROVER_assume (k >= 0 && k <= NT); G.refs[k]++; return x; }
void dbus_message_unref (DBusMessage *x) { int k = idx_msg (x); PRE (k >= 0, "dbus_message_unref"); __CPROVER_assume (k >= 0 && k <= NT); G.unrefs[k]++; }
void dbus_connection_send_preallocated (DBusConnection *c, DBusPreallocatedSend *pre, DBusMessage *x, dbus_uint32_t *serial)
{ int k = idx_msg (x); PRE (c == DEST && k >= 0, "dbus_connection_send_preallocated: to the destination"); __CPROVER_assume (k >= 0 && k <= NT);
  __CPROVER_assert (idx_pre (pre) == k, "txn.slot each message is sent with the slot preallocated for it");
  if (G.sends <= NT) G.send_order[G.sends] = k; G.sends++; }
/* list links: static pool, every allocation may fail (dbus-mempool.c is not verified) */
static DBusList pool[4]; static int pool_used, links_freed;
DBusList *verif_alloc_link (void *data) { if (nondet_bool () || pool_used >= 4) return NULL; DBusList *l = &pool[pool_used++]; l->data = data; l->prev = l->next = NULL; return l; }
void verif_free_link (DBusList *l) { PRE (l != NULL, "free_link"); links_freed++; }
static void build (void)
{
  int i; n_old = nondet_int (); __CPROVER_assume (n_old >= 0 && n_old <= NT);
  for (i = 0; i < NT; i++)
    { of_T[i] = nondet_bool (); e[i].message = (DBusMessage *) &m[i]; e[i].preallocated = (DBusPreallocatedSend *) &p[i]; e[i].transaction = of_T[i] ? &T : &U;
      lk[i].data = &e[i]; if (i < n_old) { lk[i].next = &lk[(i + 1) % n_old]; lk[i].prev = &lk[(i + n_old - 1) % n_old]; } }
  D.transaction_messages = n_old ? &lk[0] : NULL; D.want_headers = 0;        /* head = most recently staged */
  T.context = (BusContext *) &o_ctx; U.context = (BusContext *) &o_ctx; T.cancel_hooks = NULL;
  /* T->connections lists dest iff T already has something staged for it (the invariant the function maintains) */
  _Bool t_has = 0; for (i = 0; i < NT; i++) if (i < n_old && of_T[i]) t_has = 1;
  if (t_has) { tl.data = DEST; tl.next = tl.prev = &tl; T.connections = &tl; } else T.connections = NULL;
}
/* the staged entries from head to tail, as indices into e[] */
static int walk (int *out) { int n = 0; DBusList *l = _dbus_list_get_first_link (&D.transaction_messages); for (int k = 0; k < NT + 2; k++) { if (l == NULL) break; if (n <= NT) out[n] = idx_e (l->data); n++; l = _dbus_list_get_next_link (&D.transaction_messages, l); } return n; }
void harness (void)
{
  int i, seq[NT + 1], n, mode = VERIF_MODE; for (i = 0; i <= NT; i++) seq[i] = -1;
  build (); connected = nondet_bool ();
  int nT = 0; for (i = 0; i < NT; i++) if (i < n_old && of_T[i]) nT++;
#if VERIF_MODE == 1
    {
      e[NT].message = NULL; e[NT].preallocated = NULL;
      dbus_bool_t r = bus_transaction_send (&T, (DBusConnection *) &o_sender, DEST, (DBusMessage *) &m[NT]);
      n = walk (seq);
      if (!connected)
        { __CPROVER_assert (r && n == n_old && G.mallocs == 0 && G.refs[NT] == 0, "txn.send0 a disconnected destination: TRUE and nothing staged"); REACH ("disconnected"); }
      else if (r)
        {
          __CPROVER_assert (n == n_old + 1 && seq[0] == NT && e[NT].message == (DBusMessage *) &m[NT] && e[NT].transaction == &T && e[NT].preallocated == (DBusPreallocatedSend *) &p[NT], "txn.send1 TRUE: one new entry for this message and transaction, with its own send slot, in front of the older entries");
          for (i = 0; i < NT; i++) __CPROVER_assert (IMP (i < n_old, seq[i + 1] == i), "txn.send2 TRUE: the older entries keep their order");
          __CPROVER_assert (G.refs[NT] == 1 && G.unrefs[NT] == 0 && G.prefree[NT] == 0, "txn.send3 TRUE: the staged entry holds one reference and its slot");
          n = _dbus_list_get_length (&T.connections);
          __CPROVER_assert (n == 1 && _dbus_list_get_first (&T.connections) == DEST, "txn.send4 TRUE: the destination is listed in the transaction exactly once");
          if (nT == 0) REACH ("first-for-this-destination"); else REACH ("second-for-this-destination"); if (n_old == NT) REACH ("max-older");
        }
      else
        {
          __CPROVER_assert (n == n_old, "txn.send5 FALSE: nothing more is staged");
          for (i = 0; i < NT; i++) __CPROVER_assert (IMP (i < n_old, seq[i] == i), "txn.send6 FALSE: the staged entries are exactly as before");
          __CPROVER_assert (G.refs[NT] == G.unrefs[NT] && G.preallocs == G.prefree[NT] && G.mallocs == G.frees[NT], "txn.send7 FALSE: message reference, send slot and record are released");
          __CPROVER_assert ((nT == 0) == (T.connections == NULL), "txn.send8 FALSE: the transaction's destination list is as before");
          if (G.preallocs) REACH ("oom-after-preallocation"); if (G.mallocs == 0) REACH ("oom-record");
        }
      for (i = 0; i < NT; i++) __CPROVER_assert (G.unrefs[i] == 0 && G.prefree[i] == 0 && G.frees[i] == 0 && G.sends == 0, "txn.send9 older entries are not touched, nothing is sent while staging");
    }
#else
    {
      if (mode == 2) connection_execute_transaction (DEST, &T); else connection_cancel_transaction (DEST, &T);
      n = walk (seq);
      /* survivors: exactly the entries of the other transaction, same relative order */
      int exp[NT], ne = 0; for (i = 0; i < NT; i++) exp[i] = -1; for (i = 0; i < NT; i++) if (i < n_old && !of_T[i]) exp[ne++] = i;
      __CPROVER_assert (n == ne, "txn.rest1 exactly the entries of other transactions stay staged");
      for (i = 0; i < NT; i++) __CPROVER_assert (IMP (i < ne, seq[i] == exp[i]), "txn.rest2 the remaining entries keep their order");
      for (i = 0; i < NT; i++)
        {
          _Bool mine = i < n_old && of_T[i];
          __CPROVER_assert (G.unrefs[i] == (mine ? 1 : 0) && G.frees[i] == (mine ? 1 : 0), "txn.rel each of this transaction's entries is released exactly once; no other entry is");
          __CPROVER_assert (G.prefree[i] == ((mine && mode == 3) ? 1 : 0), "txn.slotrel a send slot is freed exactly when its message is NOT sent (cancel); a sent message's slot is consumed by the send");
        }
#if VERIF_MODE == 2
        {
          __CPROVER_assert (G.sends == nT, "txn.exec1 exactly this transaction's messages are sent, each once");
          /* oldest first: staged order is tail -> head, so indices descend */
          int want[NT], nw = 0; for (i = 0; i < NT; i++) want[i] = -1; for (i = NT - 1; i >= 0; i--) if (i < n_old && of_T[i]) want[nw++] = i;
          for (i = 0; i < NT; i++) __CPROVER_assert (IMP (i < nT, G.send_order[i] == want[i]), "txn.exec2 they are sent in the order they were staged (oldest first: FIFO)");
          if (nT == NT) REACH ("all-sent"); if (nT >= 1 && nT < n_old) REACH ("interleaved-transactions");
        }
#else
        { __CPROVER_assert (G.sends == 0, "txn.cancel1 a cancelled transaction sends nothing"); if (nT == 2) REACH ("two-dropped"); }
#endif
    }
#endif
}
