/* C01.3: the real static load_and_validate_field() of dbus/dbus-marshal-header.c against the "Header Fields"
 * table of the specification (spec/header_ref.h).  P-stub: the variant reader and the four name validators are
 * contracts written as stubs (defined here: they are extern functions of other translation units); the
 * accessors _dbus_header_get_field_basic/_raw, _dbus_marshal_read_basic/_uint32 and the DBusString helpers are
 * the real code (loop-free); _dbus_string_equal_substring is the real code, its loop completely unwound for
 * the 26/27-byte literals.  Header bytes: a heap block of symbolic size (no bound on the header length).
 *
 * Preconditions = what the caller (_dbus_header_load) has established when it calls:
 *   - 1 <= field <= DBUS_HEADER_FIELD_LAST
 *   - the header bytes were accepted by the body validator for "yyyyuua(yv)", so the variant's value is a
 *     well-formed value of its type inside the header: value_pos aligned; UINT32: 4 bytes; STRING/OBJECT_PATH:
 *     UINT32 length L, L content bytes, NUL; SIGNATURE: BYTE length  (assumed here; C01.body.* / C01.hdr.load)
 *   - byte 0 is 'l' or 'B' (C01.have_message)                                                              */
#include <config.h>
#include "dbus/dbus-internals.h"
#include "verif_prelude.h"
#include "verif_ghost.h"
#include "dbus/dbus-string.h"
#define DBUS_CAN_USE_DBUS_STRING_PRIVATE 1
#include "dbus/dbus-string-private.h"
#include VERIF_TU
#include "dbus/dbus-marshal-validate.h"
#define BODY_REF_MAXSTR 1
#include "header_ref.h"
#ifndef IMP
#define IMP(a, b) (!(a) || (b))
#endif
#define REACH(tag) __CPROVER_assert(0, "REACH:" tag)
long verif_gk, verif_gk2, verif_w, verif_w2; int verif_flag;
_Bool nondet_bool (void); int nondet_int (void); unsigned char nondet_uchar (void);
#define PRE(c, what) __CPROVER_assert ((c), "precondition of " what)

static DBusHeader *the_header; static DBusTypeReader *the_variant;
static int in_type, in_vpos;
static struct { int calls; int which; const DBusString *str; int start; int len; int verdict; int revalidated; } G_f;

int _dbus_type_reader_get_current_type (const DBusTypeReader *reader) { PRE (reader == the_variant, "_dbus_type_reader_get_current_type: the field's variant reader"); return in_type; }
int _dbus_type_reader_get_value_pos (const DBusTypeReader *reader) { PRE (reader == the_variant, "_dbus_type_reader_get_value_pos: the field's variant reader"); return in_vpos; }
static dbus_bool_t validator (int which, const DBusString *str, int start, int len)
{ G_f.calls++; G_f.which = which; G_f.str = str; G_f.start = start; G_f.len = len; G_f.verdict = nondet_bool (); return G_f.verdict; }
dbus_bool_t _dbus_validate_interface (const DBusString *str, int start, int len) { return validator (HR_V_INTERFACE, str, start, len); }
dbus_bool_t _dbus_validate_member (const DBusString *str, int start, int len) { return validator (HR_V_MEMBER, str, start, len); }
dbus_bool_t _dbus_validate_error_name (const DBusString *str, int start, int len) { return validator (HR_V_ERROR_NAME, str, start, len); }
dbus_bool_t _dbus_validate_bus_name (const DBusString *str, int start, int len) { return validator (HR_V_BUS_NAME, str, start, len); }
void verif_stub_cache_revalidate (DBusHeader *h) { G_f.revalidated = 1; __CPROVER_assert (0, "load_and_validate_field never triggers a cache revalidation (the position was just cached)"); }

void harness (void)
{
  DBusHeader H; DBusTypeReader V; DBusRealString *d = (DBusRealString *) &H.data; unsigned char *b; int n, field, i, le, expected, old_pos; DBusValidity r;
  int old_gk_pos;
  the_header = &H; the_variant = &V;
  n = nondet_int (); __CPROVER_assume (n >= 16 && n <= 0x8000000);
  b = malloc ((size_t) n + 8); __CPROVER_assume (b != NULL);
  d->str = b; d->len = n; d->allocated = n + 8; d->constant = 0; d->locked = 0; d->valid = 1; d->align_offset = 0;
  __CPROVER_assume (b[0] == 'l' || b[0] == 'B'); le = b[0] == 'l';
  H.padding = 0;
  for (i = 0; i <= DBUS_HEADER_FIELD_LAST; i++) { H.fields[i].value_pos = nondet_int (); __CPROVER_assume (H.fields[i].value_pos >= -2 && H.fields[i].value_pos < n); }
  field = nondet_int (); __CPROVER_assume (field >= 1 && field <= DBUS_HEADER_FIELD_LAST);
  in_type = nondet_int (); in_vpos = nondet_int ();
  __CPROVER_assume (in_vpos >= 16 && in_vpos < n);
  /* well-formed value of type in_type at in_vpos (body validator) */
  if (in_type == 'u') __CPROVER_assume (in_vpos % 4 == 0 && in_vpos + 4 <= n);
  if (in_type == 's' || in_type == 'o')
    { __CPROVER_assume (in_vpos % 4 == 0 && in_vpos + 4 <= n);
      __CPROVER_assume (body_ref_u32 (b, in_vpos, le) < (unsigned) (n - in_vpos - 4)); }
  if (in_type == 'g') __CPROVER_assume (in_vpos + 1 + b[in_vpos] + 1 <= n);
  G_f.calls = 0; G_f.which = HR_V_NONE; G_f.str = NULL; G_f.revalidated = 0;
  __CPROVER_assume (verif_gk >= 0 && verif_gk <= DBUS_HEADER_FIELD_LAST);
  old_pos = H.fields[field].value_pos; old_gk_pos = H.fields[verif_gk].value_pos;
  expected = hdr_ref_field_type (field);

  r = load_and_validate_field (&H, field, &V);

  __CPROVER_assert (expected != 0, "field.table: every field code up to DBUS_HEADER_FIELD_LAST has a type in the table");
  /* [HF3] wrong type */
  __CPROVER_assert ((in_type != expected) == (r == DBUS_INVALID_HEADER_FIELD_HAS_WRONG_TYPE), "field.type: refused as HAS_WRONG_TYPE iff the value type differs from the 'Header Fields' table");
  /* a known field given twice */
  __CPROVER_assert (IMP (in_type == expected, (old_pos >= 0) == (r == DBUS_INVALID_HEADER_FIELD_APPEARS_TWICE)), "field.twice: refused as APPEARS_TWICE iff the field was already accepted");
  /* frame on the cache: only this field's entry may change, and it changes only when type and uniqueness are right */
  __CPROVER_assert (IMP (verif_gk != field, H.fields[verif_gk].value_pos == old_gk_pos), "field.frame: no other cache entry changes");
  __CPROVER_assert (IMP (in_type != expected || old_pos >= 0, H.fields[field].value_pos == old_pos && G_f.calls == 0), "field.frame: a field refused for type or duplication is neither cached nor validated");
  __CPROVER_assert (IMP (r == DBUS_VALID, H.fields[field].value_pos == in_vpos), "field.cache: an accepted field is cached at the value position of its variant");
  if (in_type == expected && old_pos < 0)
    {
      int s_at = in_vpos + 4, s_len = (expected == 'u' || expected == 'g') ? 0 : (int) body_ref_u32 (b, in_vpos, le);
      int want_v = hdr_ref_validator (field);
      /* [VN] which grammar on which slice */
      __CPROVER_assert (G_f.calls == (want_v != HR_V_NONE && r != DBUS_INVALID_USES_LOCAL_INTERFACE), "field.validator: exactly the fields with a name grammar are validated, once");
      __CPROVER_assert (IMP (G_f.calls == 1, G_f.which == want_v && G_f.str == &H.data && G_f.start == s_at && G_f.len == s_len), "field.validator: the grammar of the table, applied to exactly the string content of the value");
      /* [HF6]/[HF5] reserved interface and path: THE name, not every name that starts with it */
      { int is_local = field == DBUS_HEADER_FIELD_INTERFACE ? hdr_ref_is_local_interface (b + s_at, s_len) : field == DBUS_HEADER_FIELD_PATH ? hdr_ref_is_local_path (b + s_at, s_len) : 0;
        int refused_local = r == DBUS_INVALID_USES_LOCAL_INTERFACE || r == DBUS_INVALID_USES_LOCAL_PATH;
        __CPROVER_assert (refused_local == is_local, "field.local: refused as using the reserved Local interface / path iff the value IS org.freedesktop.DBus.Local / /org/freedesktop/DBus/Local");
        __CPROVER_assert (IMP (refused_local, r == (field == DBUS_HEADER_FIELD_INTERFACE ? DBUS_INVALID_USES_LOCAL_INTERFACE : DBUS_INVALID_USES_LOCAL_PATH) && (field == DBUS_HEADER_FIELD_INTERFACE || field == DBUS_HEADER_FIELD_PATH)), "field.local reason: only INTERFACE / PATH can be refused as Local, each with its own code"); }
      if (r != DBUS_INVALID_USES_LOCAL_INTERFACE && r != DBUS_INVALID_USES_LOCAL_PATH)
        {
          /* [HF7] reply serial, [VN] grammar verdict, nothing else */
          int ok = 1, code = DBUS_VALID;
          if (field == DBUS_HEADER_FIELD_REPLY_SERIAL && body_ref_u32 (b, in_vpos, le) == 0) { ok = 0; code = DBUS_INVALID_BAD_SERIAL; }
          if (want_v != HR_V_NONE && !G_f.verdict)
            { ok = 0; code = field == DBUS_HEADER_FIELD_INTERFACE ? DBUS_INVALID_BAD_INTERFACE : field == DBUS_HEADER_FIELD_MEMBER ? DBUS_INVALID_BAD_MEMBER :
                             field == DBUS_HEADER_FIELD_ERROR_NAME ? DBUS_INVALID_BAD_ERROR_NAME : field == DBUS_HEADER_FIELD_DESTINATION ? DBUS_INVALID_BAD_DESTINATION : DBUS_INVALID_BAD_SENDER; }
          __CPROVER_assert ((r == DBUS_VALID) == ok, "field.verdict: accepted iff reply serial != 0 and the name grammar accepts (every UNIX_FDS value, every well-typed PATH/SIGNATURE/CONTAINER_INSTANCE is accepted)");
          __CPROVER_assert (r == code, "field.verdict: the reason names the failed rule");
        }
    }
  if (r == DBUS_VALID) REACH("accepted");
  if (r == DBUS_VALID && field == DBUS_HEADER_FIELD_UNIX_FDS) REACH("accepted-unix-fds");
  if (r == DBUS_VALID && field == DBUS_HEADER_FIELD_INTERFACE) REACH("accepted-interface");
  if (r == DBUS_INVALID_HEADER_FIELD_HAS_WRONG_TYPE) REACH("wrong-type");
  if (r == DBUS_INVALID_HEADER_FIELD_APPEARS_TWICE) REACH("twice");
  if (r == DBUS_INVALID_BAD_SERIAL) REACH("reply-serial-0");
  if (r == DBUS_INVALID_USES_LOCAL_INTERFACE) REACH("local-interface");
  if (r == DBUS_INVALID_USES_LOCAL_PATH) REACH("local-path");
  if (r == DBUS_INVALID_BAD_SENDER) REACH("bad-sender");
}
