/* C18 / C14: bus_driver_handle_become_monitor (bus/driver.c), T contract, B: <= 2 rule strings (loops unwound), real
 * dbus-list.c for the rule list with failing link allocation.
 * Oracle: specification "org.freedesktop.DBus.Monitoring.BecomeMonitor" (privileged; "Match rules ... eavesdrop ... implied";
 * an empty array means one rule matching everything; flags must be 0) and property C14 (a failed request changes nothing).
 *  - the eavesdropping permission check is the first thing called, and the method table marks BecomeMonitor privileged
 *    (so bus_driver_handle_message runs bus_driver_check_caller_is_privileged before the handler);
 *  - every rule string of the message is parsed, for this connection, and marked eavesdropping;
 *  - any parse error / bad flags / OOM => bus_connection_be_monitor not called, no acknowledgement staged after it;
 *  - the acknowledgement is staged before bus_connection_be_monitor (the transaction can undo the ack, not the monitor state);
 *  - be_monitor gets exactly the parsed rules, in order; every parsed rule reference is dropped exactly once. */
#include <config.h>
#include "dbus/dbus-internals.h"
#include VERIF_TU
#include <stdarg.h>
#include "c04_common.h"

static char c_conn, c_tx, c_msg, c_ctx, rule_obj[2];
#define CONN ((DBusConnection *) &c_conn)
#define TX   ((BusTransaction *) &c_tx)
#define MSG  ((DBusMessage *) &c_msg)
#define CTX  ((BusContext *) &c_ctx)
static char r0[] = "type='signal'", r1[] = "eavesdrop=true", empty_dup[] = ""; static char *arr_in[3], *arr_new[2];
#define NLINK 4
static DBusList link_pool[NLINK]; static int link_used, links_freed;
DBusList *verif_alloc_link (void *d) { if (nondet_bool () || link_used >= NLINK) return NULL; DBusList *l = &link_pool[link_used++]; l->data = d; l->prev = l->next = NULL; return l; }
void verif_free_link (DBusList *l) { links_freed++; }
int in_n; dbus_uint32_t in_flags; _Bool in_aa_ok, in_args_ok, in_monitor_ok;
struct { int seq, aa, t_aa, get_args, t_get_args, parse, parsed_ok, eaves, unref[2], ack, t_ack, be, t_be, free_array, be_k; const char *parsed_text[2]; void *be_rule[2]; _Bool eaves_set[2]; } G;

BusContext *bus_transaction_get_context (BusTransaction *t) { PRE (t == TX, "bus_transaction_get_context"); return CTX; }
const char *bus_context_get_type (BusContext *c) { return some_string; }
dbus_bool_t bus_apparmor_allows_eavesdropping (DBusConnection *c, const char *bt, DBusError *e)
{ PRE (c == CONN && e != NULL && !ERR_SET (e), "bus_apparmor_allows_eavesdropping"); G.aa++; G.t_aa = ++G.seq; if (!in_aa_ok) { e->name = DBUS_ERROR_ACCESS_DENIED; e->message = some_string; } return in_aa_ok; }
dbus_bool_t dbus_message_get_args (DBusMessage *m, DBusError *e, int first_arg_type, ...)
{ va_list ap; PRE (m == MSG && e != NULL && !ERR_SET (e) && first_arg_type == DBUS_TYPE_ARRAY, "dbus_message_get_args: (ARRAY of STRING, UINT32) of the request"); G.get_args++; G.t_get_args = ++G.seq;
  if (!in_args_ok) { stub_fail (e); return FALSE; }
  va_start (ap, first_arg_type);
  int et = va_arg (ap, int); char ***ap_arr = va_arg (ap, char ***); int *ap_n = va_arg (ap, int *); int t2 = va_arg (ap, int); dbus_uint32_t *fp = va_arg (ap, dbus_uint32_t *); int t3 = va_arg (ap, int);
  PRE (et == DBUS_TYPE_STRING && t2 == DBUS_TYPE_UINT32 && t3 == DBUS_TYPE_INVALID, "dbus_message_get_args: signature asu");
  va_end (ap); arr_in[0] = in_n >= 1 ? r0 : NULL; arr_in[1] = in_n >= 2 ? r1 : NULL; arr_in[2] = NULL; *ap_arr = arr_in; *ap_n = in_n; *fp = in_flags; return TRUE; }
void dbus_free (void *p) { }
void *dbus_malloc (size_t n) { PRE (n == 2 * sizeof (char *), "dbus_malloc: the one-element replacement array"); return nondet_bool () ? NULL : (void *) arr_new; }
char *_dbus_strdup (const char *s) { PRE (s != NULL && s[0] == 0, "_dbus_strdup: the empty rule"); return nondet_bool () ? NULL : empty_dup; }
void dbus_free_string_array (char **a) { PRE (a == NULL || a == arr_in || a == arr_new, "dbus_free_string_array"); G.free_array++; }
static const char *g_cur_text;
void _dbus_string_init_const (DBusString *s, const char *v) { PRE (v == r0 || v == r1 || v == empty_dup, "_dbus_string_init_const: a rule string of the message"); g_cur_text = v; }
BusMatchRule *bus_match_rule_parse (DBusConnection *c, const DBusString *s, DBusError *e)
{ PRE (c == CONN && e != NULL && !ERR_SET (e) && G.be == 0, "bus_match_rule_parse: rules are parsed for the caller, before anything is changed"); if (G.parse < 2) G.parsed_text[G.parse] = g_cur_text; G.parse++;
  if (nondet_bool () || G.parsed_ok >= 2) { e->name = nondet_bool () ? DBUS_ERROR_NO_MEMORY : DBUS_ERROR_MATCH_RULE_INVALID; e->message = some_string; return NULL; }
  return (BusMatchRule *) &rule_obj[G.parsed_ok++]; }                                                        /* grammar: C07.parse */
static int rule_ix (BusMatchRule *r) { return r == (BusMatchRule *) &rule_obj[0] ? 0 : r == (BusMatchRule *) &rule_obj[1] ? 1 : -1; }
void bus_match_rule_set_client_is_eavesdropping (BusMatchRule *r, dbus_bool_t v) { PRE (rule_ix (r) >= 0 && v, "bus_match_rule_set_client_is_eavesdropping (TRUE)"); G.eaves++; if (rule_ix (r) >= 0) G.eaves_set[rule_ix (r)] = 1; }
void bus_match_rule_unref (BusMatchRule *r) { PRE (rule_ix (r) >= 0, "bus_match_rule_unref: a parsed rule"); if (rule_ix (r) >= 0) G.unref[rule_ix (r)]++; }
dbus_bool_t verif_stub_bus_driver_send_ack_reply (DBusConnection *c, BusTransaction *t, DBusMessage *m, DBusError *e)
{ PRE (c == CONN && t == TX && m == MSG && e != NULL && !ERR_SET (e) && G.be == 0, "bus_driver_send_ack_reply: before becoming a monitor"); G.t_ack = ++G.seq; if (nondet_bool ()) { stub_fail (e); return FALSE; } G.ack++; return TRUE; }
dbus_bool_t bus_connection_be_monitor (DBusConnection *c, BusTransaction *t, DBusList **rules, DBusError *e)
{ int i; DBusList *l; PRE (c == CONN && t == TX && rules != NULL && e != NULL && !ERR_SET (e) && G.ack == 1, "bus_connection_be_monitor: caller, this transaction, acknowledgement already staged");
  G.be++; G.t_be = ++G.seq; l = *rules;
  for (i = 0; i < 3; i++) if (l != NULL) { if (G.be_k < 2) G.be_rule[G.be_k] = l->data; G.be_k++; l = (l->next == *rules) ? NULL : l->next; }
  if (!in_monitor_ok) { stub_fail (e); return FALSE; } return TRUE; }                                          /* enforced (B): C18m.be_monitor */

void harness (void)
{
  DBusError err; int i; err.name = NULL; err.message = NULL;
  in_n = nondet_int (); in_flags = nondet_uint (); in_aa_ok = nondet_bool (); in_args_ok = nondet_bool (); in_monitor_ok = nondet_bool ();
  __CPROVER_assume (in_n >= 0 && in_n <= 2);
  dbus_bool_t ret = bus_driver_handle_become_monitor (CONN, TX, MSG, &err);
  int want = in_n == 0 ? 1 : in_n;                       /* "a zero-length array becomes [""]" */
  POST (IMP (ret, !ERR_SET (&err)) && IMP (!ret, ERR_SET (&err)), "bm.post0 error set exactly on FALSE");
  POST (G.aa == 1 && G.t_aa == 1, "bm.post1 the eavesdropping permission check is the first call");
  POST (IMP (!in_aa_ok, !ret && err_is (&err, DBUS_ERROR_ACCESS_DENIED) && G.get_args == 0 && G.parse == 0 && G.ack == 0 && G.be == 0), "bm.post2 denied => AccessDenied, message not even read");
  POST (IMP (in_aa_ok && in_args_ok && in_flags != 0, !ret && err_is (&err, DBUS_ERROR_INVALID_ARGS) && G.parse == 0 && G.ack == 0 && G.be == 0), "bm.post3 flags != 0 => InvalidArgs, nothing happened");
  POST (IMP (G.be == 1, G.parsed_ok == want && G.parse == want && G.be_k == want && G.be_rule[0] == &rule_obj[0] && IMP (want == 2, G.be_rule[1] == &rule_obj[1])), "bm.post4 be_monitor gets exactly the parsed rules of the message, all of them, in order");
  POST (IMP (G.be == 1, G.parsed_text[0] == (in_n == 0 ? empty_dup : r0) && IMP (in_n == 2, G.parsed_text[1] == r1)), "bm.post5 every rule string of the message is parsed (empty array = one empty rule)");
  POST (IMP (G.be == 1, G.eaves_set[0] && IMP (want == 2, G.eaves_set[1])), "bm.post6 monitors always eavesdrop: every rule marked before it is handed over");
  POST (G.be <= 1 && IMP (G.be == 1, G.ack == 1 && G.t_ack < G.t_be), "bm.post7 acknowledgement staged before becoming a monitor");
  POST (IMP (G.parse > G.parsed_ok, G.be == 0 && G.ack == 0 && !ret), "bm.post8 a rule that does not parse => nothing happened (no ack, not a monitor)");
  POST (IMP (ret, G.be == 1 && in_monitor_ok && G.ack == 1), "bm.post9 success = acknowledged and became a monitor");
  for (i = 0; i < 2; i++) POST (G.unref[i] == (i < G.parsed_ok ? 1 : 0), "bm.post10 every parsed rule's reference is dropped exactly once on every path");
  POST (link_used == links_freed && G.free_array == 1, "bm.post11 rule list links and the string array released on every path");
  { int k, priv = 0; for (k = 0; monitoring_message_handlers[k].name != NULL; k++) if (monitoring_message_handlers[k].handler == bus_driver_handle_become_monitor && (monitoring_message_handlers[k].flags & METHOD_FLAG_PRIVILEGED)) priv = 1;
    POST (priv, "bm.post12 the method table marks BecomeMonitor METHOD_FLAG_PRIVILEGED"); }
  if (ret && in_n == 2) REACH ("monitor-2-rules"); if (ret && in_n == 0) REACH ("monitor-empty-array"); if (!in_aa_ok) REACH ("denied"); if (in_aa_ok && in_args_ok && in_flags != 0) REACH ("bad-flags");
  if (G.parse > G.parsed_ok && G.parsed_ok == 1) REACH ("second-rule-invalid"); if (!ret && G.be == 1) REACH ("be-monitor-failed"); if (!ret && G.parsed_ok == 2 && G.t_ack == 0) REACH ("list-append-oom");
}
