/* C17.complete (T, loop-free): complete_pending_call_and_unlock (dbus-connection.c) on the REAL pending-call code
 * (dbus-pending-call.c: set_reply_unlocked, ref_unlocked, start_completion_unlocked, unref_and_unlock,
 * finish_completion, dbus_pending_call_unref) and the REAL detach (_dbus_connection_detach_pending_call_and_unlock,
 * free_pending_call_on_hash_removal, _dbus_connection_unlock).
 * Oracle: dbus_connection_send_with_reply doc: "A DBusPendingCall will always see exactly one reply message, unless
 * it's cancelled"; property C17 ("completes exactly once: with the reply whose reply-serial matches it, or with a
 * locally generated error"); anchors: "a call is in [the table] exactly while it can still complete".
 * Contract:  requires  lock held, call attached under its serial, !completed, reply == NULL,
 *                      message != NULL => reply serial of message == serial of the call,
 *                      message == NULL => the preallocated timeout error is still there;
 *            ensures   completed, detached, reply == message (or the timeout error), lock released,
 *                      notify function called exactly once (iff set): after completion and detach, without the lock;
 *                      timeout removed from the connection iff it had been added; the table's reference dropped. */
#include "c17_common.h"
#include "c17_model.h"
void harness (void)
{
  DBusConnection c; char tmo;
  c.have_connection_lock = 1; c.expired_messages = NULL; c.refcount.value = 10; c.mutex = NULL;
  verif_c17_reset (&c);
  dbus_uint32_t serial = nondet_uint (); __CPROVER_assume (serial != 0);
  DBusMessage *err = verif_new_msg (0, serial, DBUS_MESSAGE_TYPE_ERROR);
  DBusList *tl = NULL; if (nondet_bool ()) { tl = malloc (sizeof (DBusList)); __CPROVER_assume (tl != NULL); tl->data = err; tl->next = tl; tl->prev = tl; }
  _Bool has_fn = nondet_bool (), has_timeout = nondet_bool (), t_added = has_timeout && nondet_bool ();
  int rc = nondet_int (); __CPROVER_assume (1 <= rc && rc <= 3);          /* 1: only the table's reference */
  DBusPendingCall *p = verif_pc_alloc ();
  verif_pc_init (p, rc, has_fn ? verif_notify : NULL, &c, NULL, has_timeout ? (DBusTimeout *) &tmo : NULL, tl, serial, 0, t_added);
  G.present[0] = 1; G.key[0] = serial; G.val[0] = p;
  DBusMessage *reply = NULL;
  if (nondet_bool ()) reply = verif_new_msg (1, serial, nondet_bool () ? DBUS_MESSAGE_TYPE_METHOD_RETURN : DBUS_MESSAGE_TYPE_ERROR);
  __CPROVER_assume (reply != NULL || tl != NULL);

  complete_pending_call_and_unlock (&c, p, reply);

  __CPROVER_assert (!c.have_connection_lock, "post lock released");
  __CPROVER_assert (G.removals == 1 && !verif_attached (p), "post detached from pending_replies exactly once");
  __CPROVER_assert (!G.removed_before_completion && !G.removed_unlocked, "post detached under the lock, after the completed flag was set");
  __CPROVER_assert (G.notified == (has_fn ? 1 : 0), "post notify function called exactly once iff one is set");
  __CPROVER_assert (IMP (has_fn, G.notify_arg == p && !G.notify_locked && !G.notify_attached && !G.notify_incomplete && !G.notify_no_reply), "post notified after completion and detach, with the reply in place, without the lock");
  __CPROVER_assert (G.timeout_removes == (t_added ? 1 : 0), "post timeout removed from the connection iff it had been added");
  __CPROVER_assert (c.refcount.value == (rc == 1 ? 9 : 10), "post connection reference balance (a finalized call releases its connection reference)");
  if (rc >= 2)
    {
      __CPROVER_assert (verif_pc_completed (p) && !verif_pc_timeout_added (p), "post completed; timeout no longer marked as added");
      __CPROVER_assert (verif_pc_reply (p) == (reply != NULL ? reply : err), "post the reply is the given message, or the preallocated timeout error");
      __CPROVER_assert (verif_pc_refcount (p) == rc - 1, "post only the table's reference was dropped");
      __CPROVER_assert (IMP (reply != NULL, G.msg_refs[1] == 2) && IMP (reply == NULL, G.msg_refs[0] == 1 && verif_pc_timeout_link (p) == NULL), "post the reply message is referenced by the call; the timeout link is consumed");
      if (reply) REACH ("reply"); else REACH ("timeout-error");
    }
  else REACH ("finalized");
  if (has_fn) REACH ("notified");
}
