/* C01.4 (hybrid: loop contracts + stub-bound callees): the real _dbus_header_load of dbus/dbus-marshal-header.c.
 * Protocol proved (untrusted mode), oracle = specification "Message Format" [MF1..MF7] / "Header Fields" [HF1..HF4]
 * as quoted in spec/header_ref.h:
 *   order: copy header_len bytes -> validate the bytes as a body of signature "yyyyuua(yv)" -> padding after the
 *   fields array is NUL up to the 8-boundary -> fixed fields (type != 0, version == 1, serial != 0) -> every array
 *   element: code != 0; known code => load_and_validate_field accepted it; unknown code => ignored -> nothing left
 *   UNKNOWN in the cache -> check_mandatory_fields.
 *   TRUE  => *validity == VALID, header->data holds header_len bytes, padding = header_len - (16 + fields_array_len),
 *            all of the above happened with a positive answer, a cache entry >= 0 only for accepted fields
 *   FALSE => *validity != VALID and header->data has length 0.
 * This implies the stub contract verif_stub_header_load used by C11.F2.load_message / C15 ("TRUE => VALID and header
 * holds header_len bytes; FALSE => validity != VALID").
 * Callee contracts: body validator (C01.body.*), _dbus_string_validate_nul (C16.nul), load_and_validate_field
 * (C01.hdr.field), check_mandatory_fields (C01.hdr.mandatory), the values-reader as an automaton over the seven
 * top-level values of "yyyyuua(yv)" and the array elements.                                                      */
#include <config.h>
#include "dbus/dbus-internals.h"
#include "verif_prelude.h"
#include "verif_ghost.h"
#include "dbus/dbus-protocol.h"
struct verif_hload_ghost {
  const void *header, *str, *top, *arr, *st, *var;
  int in_len, hlen;
  int copied, body_validated, padding_checked, padding_ok, reset, mandatory_checked, mandatory_ok;
  int step, in_array, remaining, cur_state, cur_code;       /* cur_state: 0 at element start, 1 code read, 2 at the variant */
  int saw_code0, field_rejected, known_not_validated, unknown_seen, fields_validated;
  int accepted[DBUS_HEADER_FIELD_LAST + 1];
};
/* the six fixed values on the wire: inputs, never assigned by any stub (so no loop contract havocs them) */
struct verif_hwire { unsigned char w_order, w_type, w_flags, w_version; unsigned w_body_len, w_serial; };
extern struct verif_hload_ghost G_hl; extern struct verif_hwire G_hw; extern int verif_hl, verif_padding;
#include VERIF_TU
#ifndef IMP
#define IMP(a, b) (!(a) || (b))
#endif
#define REACH(tag) __CPROVER_assert(0, "REACH:" tag)
long verif_gk, verif_gk2, verif_w, verif_w2; int verif_flag;
struct verif_hload_ghost G_hl; struct verif_hwire G_hw; int verif_hl, verif_padding;
_Bool nondet_bool (void); int nondet_int (void); unsigned nondet_uint (void); unsigned char nondet_uchar (void);
#define PRE(c, what) __CPROVER_assert ((c), "precondition of " what)
static int in_bo, in_fal, in_hl, in_bl, in_mode;

int verif_stub_string_get_length (const DBusString *s)
{ if (s == G_hl.str) return G_hl.in_len; PRE (s == &((DBusHeader *) G_hl.header)->data, "_dbus_string_get_length: input or header string"); return G_hl.hlen; }
dbus_bool_t verif_stub_string_copy_len (const DBusString *source, int start, int len, DBusString *dest, int insert_at)
{ PRE (source == G_hl.str && start == 0 && len == in_hl && dest == &((DBusHeader *) G_hl.header)->data && insert_at == 0 && G_hl.hlen == 0, "_dbus_string_copy_len: the first header_len bytes into the empty header");
  if (nondet_bool ()) return 0; G_hl.copied = 1; G_hl.hlen = len; return 1; }
DBusValidity verif_stub_validate_body (const DBusString *sig, int sig_start, int byte_order, int *bytes_remaining, const DBusString *value_str, int value_pos, int len)
{ int v = nondet_int ();
  PRE (sig == &_dbus_header_signature_str && sig_start == 0, "_dbus_validate_body_with_reason: the header signature yyyyuua(yv) [MF1]");
  PRE (byte_order == in_bo && value_str == G_hl.str && value_pos == 0 && len == G_hl.in_len && bytes_remaining != NULL, "_dbus_validate_body_with_reason: the input from offset 0 in the measured byte order");
  PRE (G_hl.copied == 1 && G_hl.body_validated == 0, "_dbus_validate_body_with_reason: once, after the copy");
  G_hl.body_validated = (v == DBUS_VALID);
  if (v == DBUS_VALID) { int l = nondet_int (); __CPROVER_assume (l >= 0 && l <= len - 16); *bytes_remaining = l; }
  return v; }
dbus_bool_t verif_stub_validate_nul (const DBusString *str, int start, int len)
{ PRE (str == G_hl.str && start == 16 + in_fal && len == in_hl - (16 + in_fal), "_dbus_string_validate_nul: exactly the bytes between the end of the fields array and the 8-boundary [MF7]");
  PRE (G_hl.body_validated == 1, "_dbus_string_validate_nul: after the header bytes were validated");
  G_hl.padding_checked = 1; G_hl.padding_ok = nondet_bool (); return G_hl.padding_ok; }
void verif_stub_reader_init (DBusTypeReader *r, int bo, const DBusString *ts, int tp, const DBusString *vs, int vp)
{ PRE (bo == in_bo && ts == &_dbus_header_signature_str && tp == 0 && vs == G_hl.str && vp == 0, "_dbus_type_reader_init: the validated bytes with the header signature");
  PRE (G_hl.body_validated == 1 && G_hl.padding_ok == 1, "_dbus_type_reader_init: values are read only after validation");
  G_hl.top = r; G_hl.step = 0; }
int verif_stub_reader_get_current_type (const DBusTypeReader *r)
{ if (r == G_hl.top) return G_hl.step < 4 ? DBUS_TYPE_BYTE : G_hl.step < 6 ? DBUS_TYPE_UINT32 : G_hl.step == 6 ? DBUS_TYPE_ARRAY : DBUS_TYPE_INVALID;
  if (r == G_hl.arr) return G_hl.remaining > 0 ? DBUS_TYPE_STRUCT : DBUS_TYPE_INVALID;
  PRE (r == G_hl.st, "_dbus_type_reader_get_current_type: a reader of this header");
  return G_hl.cur_state == 0 ? DBUS_TYPE_BYTE : G_hl.cur_state == 1 ? DBUS_TYPE_BYTE : DBUS_TYPE_VARIANT; }
int verif_stub_reader_get_value_pos (const DBusTypeReader *r)
{ PRE (r == G_hl.top && G_hl.step <= 6, "_dbus_type_reader_get_value_pos: top-level reader");
  return G_hl.step < 4 ? G_hl.step : G_hl.step == 4 ? 4 : G_hl.step == 5 ? 8 : 12; }
void verif_stub_reader_read_basic (const DBusTypeReader *r, void *value)
{ if (r == G_hl.top)
    { PRE (G_hl.step < 6, "_dbus_type_reader_read_basic: a basic top-level value");
      switch (G_hl.step) { case 0: *(unsigned char *) value = G_hw.w_order; break; case 1: *(unsigned char *) value = G_hw.w_type; break; case 2: *(unsigned char *) value = G_hw.w_flags; break;
        case 3: *(unsigned char *) value = G_hw.w_version; break; case 4: *(dbus_uint32_t *) value = G_hw.w_body_len; break; default: *(dbus_uint32_t *) value = G_hw.w_serial; break; }
      return; }
  PRE (r == G_hl.st && G_hl.cur_state == 0, "_dbus_type_reader_read_basic: the field code of the current element");
  G_hl.cur_code = nondet_uchar (); *(unsigned char *) value = (unsigned char) G_hl.cur_code; G_hl.cur_state = 1;
  if (G_hl.cur_code == 0) G_hl.saw_code0 = 1;
  if (G_hl.cur_code > DBUS_HEADER_FIELD_LAST) G_hl.unknown_seen = 1; }
dbus_bool_t verif_stub_reader_next (DBusTypeReader *r)
{ if (r == G_hl.top) { PRE (G_hl.step < 6, "_dbus_type_reader_next: top-level reader before the array"); G_hl.step++; return 1; }
  if (r == G_hl.st) { PRE (G_hl.cur_state == 1, "_dbus_type_reader_next: from the code to the variant"); G_hl.cur_state = 2; return 1; }
  PRE (r == G_hl.arr && G_hl.remaining > 0 && G_hl.cur_state != 0, "_dbus_type_reader_next: to the next array element after its code was read");
  /* an element with a known code must have been validated before it is left */
  if (G_hl.cur_code >= 1 && G_hl.cur_code <= DBUS_HEADER_FIELD_LAST && G_hl.cur_state != 3) G_hl.known_not_validated = 1;
  G_hl.cur_state = 0; G_hl.remaining--; return G_hl.remaining > 0; }
void verif_stub_reader_recurse (DBusTypeReader *r, DBusTypeReader *sub)
{ if (r == G_hl.top) { PRE (G_hl.step == 6 && !G_hl.in_array, "_dbus_type_reader_recurse: into the fields array after the six fixed values"); G_hl.arr = sub; G_hl.in_array = 1; G_hl.cur_state = 0; return; }
  if (r == G_hl.arr) { PRE (G_hl.remaining > 0 && G_hl.cur_state == 0, "_dbus_type_reader_recurse: into the current element"); G_hl.st = sub; return; }
  PRE (r == G_hl.st && G_hl.cur_state == 2, "_dbus_type_reader_recurse: into the variant of the current element"); G_hl.var = sub; }
/* contract of load_and_validate_field = unit C01.hdr.field */
DBusValidity verif_stub_load_and_validate_field (DBusHeader *header, int field, DBusTypeReader *variant_reader)
{ int v = nondet_int (), old = header->fields[field >= 0 && field <= DBUS_HEADER_FIELD_LAST ? field : 0].value_pos;
  PRE (header == G_hl.header && variant_reader == G_hl.var && G_hl.cur_state == 2, "load_and_validate_field: this header, the variant of the current element");
  PRE (field >= 1 && field <= DBUS_HEADER_FIELD_LAST && field == G_hl.cur_code, "load_and_validate_field: a known field code, the one just read");
  PRE (G_hw.w_type != 0 && G_hw.w_version == 1 && G_hw.w_serial != 0, "load_and_validate_field: fixed header values were checked first");
  G_hl.fields_validated = 1;
  if (v == DBUS_VALID) { int p = nondet_int (); __CPROVER_assume (old < 0 && p >= 0); header->fields[field].value_pos = p; G_hl.accepted[field] = 1; G_hl.cur_state = 3; }
  else { G_hl.field_rejected = 1; if (nondet_bool ()) { int p = nondet_int (); __CPROVER_assume (p >= 0); header->fields[field].value_pos = p; } }
  return v; }
DBusValidity verif_stub_check_mandatory (DBusHeader *header)
{ int v = nondet_int ();
  PRE (header == G_hl.header && G_hl.in_array == 1 && G_hl.remaining == 0 && !G_hl.mandatory_checked, "check_mandatory_fields: once, after the whole fields array");
  PRE (verif_gk < 0 || verif_gk > DBUS_HEADER_FIELD_LAST || header->fields[verif_gk].value_pos != _DBUS_HEADER_FIELD_VALUE_UNKNOWN, "check_mandatory_fields: no cache entry is UNKNOWN any more");
  G_hl.mandatory_checked = 1; G_hl.mandatory_ok = (v == DBUS_VALID); return v; }
dbus_bool_t verif_stub_string_set_length (DBusString *s, int length)
{ PRE (s == &((DBusHeader *) G_hl.header)->data && length == 0, "_dbus_string_set_length: empties the header"); G_hl.hlen = 0; G_hl.reset = 1; return 1; }

void harness (void)
{
  DBusHeader H; DBusValidity validity; static DBusString in_str; dbus_bool_t r; int i;
  /* DFCC makes every static nondeterministic: reset the whole ghost record */
  G_hl.header = &H; G_hl.str = &in_str; G_hl.top = NULL; G_hl.arr = NULL; G_hl.st = NULL; G_hl.var = NULL;
  G_hl.copied = G_hl.body_validated = G_hl.padding_checked = G_hl.padding_ok = G_hl.reset = G_hl.mandatory_checked = G_hl.mandatory_ok = 0;
  G_hl.step = 0; G_hl.in_array = 0; G_hl.cur_state = 0; G_hl.cur_code = 0; G_hl.saw_code0 = G_hl.field_rejected = G_hl.known_not_validated = G_hl.unknown_seen = G_hl.fields_validated = 0;
  for (i = 0; i <= DBUS_HEADER_FIELD_LAST; i++) { G_hl.accepted[i] = 0; H.fields[i].value_pos = _DBUS_HEADER_FIELD_VALUE_UNKNOWN; }   /* a fresh header: _dbus_header_reinit */
  H.padding = 0; G_hl.hlen = 0;
  G_hl.remaining = nondet_int (); __CPROVER_assume (G_hl.remaining >= 0);
  G_hw.w_order = nondet_uchar (); G_hw.w_type = nondet_uchar (); G_hw.w_flags = nondet_uchar (); G_hw.w_version = nondet_uchar (); G_hw.w_body_len = nondet_uint (); G_hw.w_serial = nondet_uint ();
  G_hl.in_len = nondet_int (); in_bo = nondet_int (); in_fal = nondet_int (); in_hl = nondet_int (); in_bl = nondet_int (); in_mode = nondet_int ();
  validity = nondet_int ();
  /* precondition = postcondition of _dbus_header_have_message_untrusted (C01.have_message) on the same bytes */
  __CPROVER_assume (in_bo == G_hw.w_order && (in_bo == DBUS_LITTLE_ENDIAN || in_bo == DBUS_BIG_ENDIAN));
  __CPROVER_assume (in_fal >= 0 && in_fal <= 0x8000000 && in_hl == ((16 + in_fal + 7) & ~7) && in_bl >= 0 && in_bl <= 0x8000000 && (unsigned) in_bl == G_hw.w_body_len && in_hl <= G_hl.in_len);
  __CPROVER_assume (in_mode == DBUS_VALIDATION_MODE_DATA_IS_UNTRUSTED || in_mode == DBUS_VALIDATION_MODE_WE_TRUST_THIS_DATA_ABSOLUTELY);
  __CPROVER_assume (IMP (in_mode == DBUS_VALIDATION_MODE_WE_TRUST_THIS_DATA_ABSOLUTELY, in_hl + in_bl <= G_hl.in_len && in_hl + in_bl > 0));
  verif_hl = in_hl; verif_padding = in_hl - (16 + in_fal);

  r = _dbus_header_load (&H, in_mode, &validity, in_bo, in_fal, in_hl, in_bl, &in_str);

  /* what load_message relies on (stub contract verif_stub_header_load of C11.F2 / C15) */
  __CPROVER_assert (IMP (r, validity == DBUS_VALID && G_hl.hlen == in_hl), "load.caller TRUE => validity VALID and the header holds exactly header_len bytes");
  __CPROVER_assert (IMP (!r, validity != DBUS_VALID), "load.caller FALSE => validity != VALID");
  __CPROVER_assert (IMP (!r, G_hl.hlen == 0), "load.reset FALSE => the header string is empty again");
  __CPROVER_assert (IMP (r, H.padding == (unsigned) (in_hl - (16 + in_fal)) && !G_hl.reset && G_hl.copied), "load.padding TRUE => padding = header_len - (16 + fields_array_len), bytes copied once, never reset");
  if (in_mode == DBUS_VALIDATION_MODE_DATA_IS_UNTRUSTED)
    {
      __CPROVER_assert (IMP (r, G_hl.body_validated && G_hl.padding_checked && G_hl.padding_ok), "load.wellformed TRUE => header bytes valid for yyyyuua(yv) and the alignment padding is NUL [MF1][MF7]");
      __CPROVER_assert (IMP (r, G_hw.w_type != 0), "load.fixed TRUE => message type != INVALID(0) [MF3]");
      __CPROVER_assert (IMP (r, G_hw.w_version == 1), "load.fixed TRUE => major protocol version == 1 [MF5]");
      __CPROVER_assert (IMP (r, G_hw.w_serial != 0), "load.fixed TRUE => serial != 0 [MF6]");
      __CPROVER_assert (IMP (r, G_hl.in_array && G_hl.remaining == 0 && G_hl.cur_state == 0), "load.fields TRUE => the whole fields array was visited");
      __CPROVER_assert (IMP (r, !G_hl.saw_code0), "load.fields TRUE => no element has field code 0 [HF4]");
      __CPROVER_assert (IMP (r, !G_hl.field_rejected && !G_hl.known_not_validated), "load.fields TRUE => every element with a known code was accepted by load_and_validate_field [HF3]");
      __CPROVER_assert (IMP (r, G_hl.mandatory_checked && G_hl.mandatory_ok), "load.mandatory TRUE => check_mandatory_fields accepted [HF1]");
      __CPROVER_assert (IMP (r && verif_gk >= 0 && verif_gk <= DBUS_HEADER_FIELD_LAST, H.fields[verif_gk].value_pos != _DBUS_HEADER_FIELD_VALUE_UNKNOWN), "load.cache TRUE => no cache entry is UNKNOWN");
      __CPROVER_assert (IMP (r && verif_gk >= 0 && verif_gk <= DBUS_HEADER_FIELD_LAST && H.fields[verif_gk].value_pos >= 0, G_hl.accepted[verif_gk]), "load.cache TRUE => a cached position exists only for a field that load_and_validate_field accepted");
      __CPROVER_assert (IMP (G_hl.fields_validated, G_hl.body_validated && G_hl.padding_ok), "load.order fields are looked at only after the bytes and the padding were validated");
      __CPROVER_assert (IMP (!r && G_hl.copied, G_hl.reset), "load.reset every rejection after the copy empties the header");
    }
  else
    __CPROVER_assert (r ? (validity == DBUS_VALID && !G_hl.body_validated && !G_hl.fields_validated) : !G_hl.copied, "load.trusted: trusted data is copied without validation; FALSE only if the copy failed");
  if (r && in_mode == DBUS_VALIDATION_MODE_DATA_IS_UNTRUSTED && G_hl.unknown_seen) REACH("accepted-with-unknown-field");
  if (r && in_mode == DBUS_VALIDATION_MODE_DATA_IS_UNTRUSTED && G_hl.accepted[1] && G_hl.accepted[3]) REACH("accepted-two-known-fields");
  if (!r && validity == DBUS_VALIDITY_UNKNOWN_OOM_ERROR) REACH("oom");
  if (!r && validity == DBUS_INVALID_BAD_PROTOCOL_VERSION) REACH("bad-version");
  if (!r && validity == DBUS_INVALID_HEADER_FIELD_CODE) REACH("code-0");
  if (!r && validity == DBUS_INVALID_ALIGNMENT_PADDING_NOT_NUL) REACH("padding");
  if (!r && G_hl.field_rejected) REACH("field-rejected");
  if (!r && G_hl.mandatory_checked) REACH("mandatory-missing");
  if (r && in_mode != DBUS_VALIDATION_MODE_DATA_IS_UNTRUSTED) REACH("trusted");
}
