/* C01 read-back through the iterator (B): for one constant signature VERIF_SIG, every body of at most VERIF_N bytes
 * that the REAL _dbus_validate_body_with_reason accepts, byte order VERIF_LE: a depth-first iteration with the REAL
 * values reader (_dbus_type_reader_init, _get_current_type, _read_basic, _recurse, _next: what DBusMessageIter is
 * a thin wrapper of) yields exactly the event sequence that the independent value extractor spec/c01h_value_ref.h
 * yields: same types in the same order, same container structure, every fixed-size value equal, every string at
 * the decoded offset with the decoded length and NUL-terminated.                                                */
#include "verif_str.h"
#include "dbus/dbus-marshal-validate.h"
#include "dbus/dbus-marshal-recursive.h"
#include "dbus/dbus-protocol.h"
#ifndef VERIF_N
#define VERIF_N 16
#endif
#define BODY_REF_MAXSTR (VERIF_N + 1)
#define SIG_REF_MAXRUN (VERIF_N + 1)
#define VAL_REF_MAX (VERIF_N + 4)
#include "c01h_value_ref.h"
long verif_gk, verif_gk2, verif_w, verif_w2; int verif_flag;
unsigned char in_buf[VERIF_N + 16] __attribute__ ((aligned (8)));
int in_len;
unsigned char nondet_uchar (void); int nondet_int (void);
static const char the_sig[] = VERIF_SIG;
static struct val_ref_seq want, got;
/* The iteration is driven by the (constant) signature, as a typed client does; at every step the reader's current
 * type is compared with the signature's, so a reader that reports other types, more or fewer values is caught. */
static void walk_one (DBusTypeReader *r, int si, int depth);
static void walk_types (DBusTypeReader *r, int si, int se, int depth)
{
  int k;
  for (k = 0; k < VAL_REF_MAX; k++)
    {
      if (si >= se) break;
      walk_one (r, si, depth);
      _dbus_type_reader_next (r);
      si = body_ref_type_end (the_sig, si);
    }
  __CPROVER_assert (_dbus_type_reader_get_current_type (r) == DBUS_TYPE_INVALID, "iterator: the reader is at its end exactly when the signature is exhausted");
}
static void walk_one (DBusTypeReader *r, int si, int depth)
{
  int c = the_sig[si], t = _dbus_type_reader_get_current_type (r);
  __CPROVER_assert (t == (c == '(' ? DBUS_TYPE_STRUCT : c == '{' ? DBUS_TYPE_DICT_ENTRY : c), "iterator: current type = the signature's type at this position");
  if (depth >= 8) { got.overflow = 1; return; }
  if (c == 'a')
    { DBusTypeReader sub; int k; val_ref_push (&got, 'a', 0, 0, 0); _dbus_type_reader_recurse (r, &sub);
      for (k = 0; k < VAL_REF_MAX; k++)
        { if (_dbus_type_reader_get_current_type (&sub) == DBUS_TYPE_INVALID) break; walk_one (&sub, si + 1, depth + 1); _dbus_type_reader_next (&sub); }
      if (k >= VAL_REF_MAX) got.overflow = 1;
      val_ref_push (&got, ')', 0, 0, 0); }
  else if (c == '(' || c == '{')
    { DBusTypeReader sub; val_ref_push (&got, c, 0, 0, 0); _dbus_type_reader_recurse (r, &sub); walk_types (&sub, si + 1, body_ref_type_end (the_sig, si) - 1, depth + 1); val_ref_push (&got, ')', 0, 0, 0); }
  else if (c == 's' || c == 'o' || c == 'g')
    { const char *s = NULL; int n = 0, j; _dbus_type_reader_read_basic (r, &s);
      __CPROVER_assert (__CPROVER_same_object (s, in_buf), "iterator: a string value points into the message body");
      for (j = 0; j < VERIF_N; j++) { if (s[n] == 0) break; n++; }
      val_ref_push (&got, c, 0, (int) (s - (const char *) in_buf), n); }
  else
    { DBusBasicValue v; v.u64 = 0; _dbus_type_reader_read_basic (r, &v);
      val_ref_push (&got, c, c == 'y' ? v.byt : (c == 'n' || c == 'q') ? v.u16 : (c == 'x' || c == 't' || c == 'd') ? v.u64 : v.u32, 0, 0); }
}
void harness (void)
{
  DBusRealString body, sig; int i; DBusValidity v; DBusTypeReader reader;
  in_len = nondet_int ();
  __CPROVER_assume (in_len >= 0 && in_len <= VERIF_N);
  for (i = 0; i < VERIF_N; i++) in_buf[i] = nondet_uchar ();
#ifdef VERIF_BODY_ASSIGN
  VERIF_BODY_ASSIGN     /* arrays: total length and array length words are constants (with a symbolic array length the real array reader's type position becomes symbolic and it is explored on garbage type codes: no result in 15 min); element values, padding bytes, string contents stay symbolic */
#endif
  body.str = in_buf; body.len = in_len; body.allocated = VERIF_N + 16; body.constant = 1; body.locked = 1; body.valid = 1; body.align_offset = 0;
  sig.str = (unsigned char *) the_sig; sig.len = sizeof (the_sig) - 1; sig.allocated = sizeof (the_sig) + 8; sig.constant = 1; sig.locked = 1; sig.valid = 1; sig.align_offset = 0;
  v = _dbus_validate_body_with_reason ((DBusString *) &sig, 0, VERIF_LE ? DBUS_LITTLE_ENDIAN : DBUS_BIG_ENDIAN, NULL, (DBusString *) &body, 0, in_len);
#ifdef VERIF_NO_REJECT
  if (v != DBUS_VALID) return;      /* this skeleton has no byte that can make the body invalid */
#else
  if (v != DBUS_VALID) { REACH("rejected"); return; }
#endif
  __CPROVER_assert (body_ref_valid (the_sig, in_buf, in_len, VERIF_LE), "iterator: an accepted body is valid per the reference decoder");
  val_ref_extract (the_sig, in_buf, VERIF_LE, &want);
  got.n = 0; got.overflow = 0;
  _dbus_type_reader_init (&reader, VERIF_LE ? DBUS_LITTLE_ENDIAN : DBUS_BIG_ENDIAN, (DBusString *) &sig, 0, (DBusString *) &body, 0);
  walk_types (&reader, 0, (int) sizeof (the_sig) - 1, 0);
  __CPROVER_assert (!want.overflow && !got.overflow, "iterator: event sequences fit the harness bound");
  __CPROVER_assert (got.n == want.n, "iterator: the real reader yields as many values / containers as the reference decoding");
  for (i = 0; i < VAL_REF_MAX; i++)
    if (i < want.n && i < got.n)
      {
        __CPROVER_assert (got.it[i].type == want.it[i].type, "iterator: same type / container event at every position");
        __CPROVER_assert (got.it[i].v == want.it[i].v, "iterator: every fixed-size value equals the reference decoding of the bytes");
        __CPROVER_assert (got.it[i].s_at == want.it[i].s_at && got.it[i].s_len == want.it[i].s_len, "iterator: every string value is the decoded content (offset, length, NUL-terminated)");
      }
  REACH("accepted");
  if (want.n >= 1) REACH("accepted-with-a-value");
}
