/* C08 — contracts (as stubs) of the state handlers (generic) and of process_command, for the framing units.
 * Include after c08_auth.h. */
#ifndef C08_CMD_STUBS_H
#define C08_CMD_STUBS_H
int g_lookup_calls; int g_lookup_result; _Bool g_handler_args_is_temp;

/* CONTRACT lookup_command_from_name (proved in C08.lookup_command): some member of the enum */
DBusAuthCommand verif_stub_lookup_command (DBusString *command)
{
  STR_PRE (command, "lookup_command_from_name");
  int c = nondet_int (); __CPROVER_assume (c >= DBUS_AUTH_COMMAND_AUTH && c <= DBUS_AUTH_COMMAND_AGREE_UNIX_FD);
  g_lookup_calls++; g_lookup_result = c;
  return (DBusAuthCommand) c;
}

/* the part of the conversation a handler may rewrite, re-chosen arbitrarily under AUTH_INV */
static void c08_havoc_conversation (DBusAuth *auth, _Bool state_too)
{
  int k = nondet_int ();
  if (state_too) auth->state = k == 0 ? S_WFA : k == 1 ? S_WFD : k == 2 ? S_WFB : k == 3 ? S_AUTHD : S_DISC;
  k = nondet_int ();
  auth->mech = k == 0 ? NULL : k == 1 ? &all_mechanisms[0] : k == 2 ? &all_mechanisms[1] : &all_mechanisms[2];
  { int n = nondet_int (); __CPROVER_assume (n >= 0 && n <= STR_MAX); SM (&auth->identity)->len = n; }
  { int n = nondet_int (); __CPROVER_assume (n >= 0 && n <= STR_MAX); SM (&auth->challenge)->len = n; }
  { int rc = auth->authorized_identity->refcount; cred_havoc (auth->authorized_identity); auth->authorized_identity->refcount = rc; }
  { int rc = auth->desired_identity->refcount; cred_havoc (auth->desired_identity); auth->desired_identity->refcount = rc; }
  auth->cookie_id = nondet_int (); auth->keyring = nondet_bool () ? (DBusKeyring *) &c08_keyring_obj : NULL;
  auth->already_asked_for_initial_response = nondet_bool ();
  g_mech_ok = nondet_int (); g_dirty = nondet_int ();
  __CPROVER_assume (g_mech_ok >= 0 && g_mech_ok <= 3 && g_dirty >= 0 && g_dirty <= 3);
}

/* CONTRACT of every server state handler (what C08.st_auth / st_data / st_begin prove, with the command abstracted away):
 * FALSE => state, failure count, replies unchanged.  TRUE => AUTH_INV; at most one reply, none exactly for BEGIN;
 * failures + 1 exactly when REJECTED was sent; Authenticated only from WaitingForBegin on BEGIN with the granted identity
 * untouched; WaitingForBegin entered only with OK. */
static dbus_bool_t c08_handler_contract (DBusAuth *auth, int command, _Bool must_fail)
{
  const DBusAuthStateData *old_state = ST (auth); int old_fail = SRV (auth)->failures; int old_ok = g_mech_ok; DBusCredentials old_authz = *auth->authorized_identity;
  if (must_fail || nondet_bool ())
    { c08_havoc_conversation (auth, 0); if (nondet_bool ()) auth->unix_fd_negotiated = TRUE; __CPROVER_assume (AUTH_INV (auth) && g_mech_ok == old_ok); return FALSE; }
  c08_havoc_conversation (auth, 1);
  if (nondet_bool ()) auth->unix_fd_negotiated = TRUE;
  int kind = nondet_int (); __CPROVER_assume (kind >= SPEC_REPLY_NONE && kind <= SPEC_REPLY_AGREE_UNIX_FD);
  __CPROVER_assume ((kind == SPEC_REPLY_NONE) == (command == DBUS_AUTH_COMMAND_BEGIN));
  SRV (auth)->failures = old_fail + (kind == SPEC_REPLY_REJECTED ? 1 : 0);
  if (kind != SPEC_REPLY_NONE) c08_note_sent (kind);
  __CPROVER_assume (AUTH_INV (auth));
  __CPROVER_assume (IMP (ST (auth) == S_AUTHD, old_state == S_WFB && command == DBUS_AUTH_COMMAND_BEGIN && g_mech_ok == old_ok && CRED_EQ (auth->authorized_identity, &old_authz)));
  __CPROVER_assume (IMP (ST (auth) == S_WFB && old_state != S_WFB, kind == SPEC_REPLY_OK));
  __CPROVER_assume (IMP (kind == SPEC_REPLY_ERROR, ST (auth) == old_state));
  __CPROVER_assume (IMP (kind == SPEC_REPLY_REJECTED, ST (auth) == S_WFA || ST (auth) == S_DISC));
  __CPROVER_assume (IMP (command == DBUS_AUTH_COMMAND_BEGIN, ST (auth) == S_AUTHD || ST (auth) == S_DISC));
  return TRUE;
}
dbus_bool_t verif_stub_state_handler (DBusAuth *auth, DBusAuthCommand command, const DBusString *args)
{
  PRE (auth != NULL && AUTH_INV (auth) && IS_LIVE_STATE (ST (auth)), "state handler: AUTH_INV and a non-terminal state");
  PRE (STR_LIVE_OK (args), "state handler: argument string alive");
  G.handler_calls++; G.handler_cmd = command; G.handler_args = args;
  g_handler_args_is_temp = (args != &auth->incoming && args != &auth->outgoing && args != &auth->identity && args != &auth->context && args != &auth->challenge);
  return c08_handler_contract (auth, command, 0);
}

/* CONTRACT process_command (proved in C08.process_command) */
dbus_bool_t verif_stub_process_command (DBusAuth *auth)
{
  PRE (auth != NULL && AUTH_INV (auth) && IS_LIVE_STATE (ST (auth)), "process_command: AUTH_INV and a non-terminal state");
  G.process_command_calls++;
  int r = nondet_int ();
  if (r == 0 || SLEN (&auth->incoming) < 2) return FALSE;                         /* no complete line: nothing changes */
  if (r == 1) { auth->needed_memory = TRUE; c08_handler_contract (auth, nondet_int (), 1); return FALSE; }   /* out of memory */
  int k = nondet_int (); __CPROVER_assume (k >= 0 && k <= SLEN (&auth->incoming) - 2);
  if (nondet_bool ())
    { /* not ASCII */
      if (nondet_bool ()) { auth->needed_memory = TRUE; return FALSE; }
      c08_note_sent (SPEC_REPLY_ERROR);
    }
  else if (!c08_handler_contract (auth, nondet_int (), 0)) { auth->needed_memory = TRUE; return FALSE; }
  SM (&auth->incoming)->len -= k + 2; g_pc_consumed += k + 2; g_pc_lines++;
  g_pc_last_was_begin = (ST (auth) == S_AUTHD);
  auth->needed_memory = FALSE;
  return TRUE;
}

/* ---- the loop of _dbus_auth_do_work, closed by induction inside the contract of its only callee ----
 * CBMC's own loop-contract instrumentation cannot be used here: it havocs auth->state, and the loop body dereferences
 * that pointer (auth->state->handler); a havocked pointer has no value set, so the dereference reads an arbitrary object
 * (measured: a 15-line reproduction fails the same way).  The same transformation is therefore written out by hand:
 *   call 1  one step of process_command from the entry state; then LOOP_INV is asserted (base case) and the conversation
 *           is replaced by an ARBITRARY state satisfying LOOP_INV (= the state at the head of any later iteration);
 *   call 2  one step from that arbitrary state; LOOP_INV is asserted again (inductive step) and the path is cut
 *           (assume false), exactly as `--apply-loop-contracts` does.
 * Every way out of the loop (end state, > MAX_BUFFER, process_command FALSE) is thus explored both from the entry state
 * and from an arbitrary later iteration.  The real loop is unwound 3 times with an unwinding assertion. */
struct { int in_len, out_len, failures, max_failures; const DBusAuthStateData *state; } g_entry;
int g_pc_call_no;
static _Bool loop_inv (const DBusAuth *auth)
{
  return AUTH_INV (auth) & B (!auth->needed_memory) & B (IS_LIVE_STATE (g_entry.state)) &
         B (g_pc_consumed >= 2) & B ((long) SLEN (&auth->incoming) + (long) g_pc_consumed == (long) g_entry.in_len) &
         B (G.process_command_calls == g_pc_lines) & B (g_pc_lines >= 1) & B (g_pc_lines <= g_pc_consumed) & B (G.sent >= 0) & B (G.sent <= g_pc_lines) &
         B (SRV (auth)->failures >= g_entry.failures) & B (SRV (auth)->max_failures == g_entry.max_failures) &
         BIMP (ST (auth) == S_AUTHD, g_pc_last_was_begin);
}
dbus_bool_t verif_stub_process_command_ind (DBusAuth *auth)
{
  PRE (SLEN (&auth->incoming) <= SPEC_AUTH_MAX_BUFFER && SLEN (&auth->outgoing) <= SPEC_AUTH_MAX_BUFFER, "process_command is reached with at most 16384 bytes buffered in either direction");
  g_pc_call_no++;
  if (!verif_stub_process_command (auth)) return FALSE;
  if (g_pc_call_no == 1)
    {
      POST (loop_inv (auth), "do_work loop invariant holds after the first command (base case)");
      /* jump to the head of an arbitrary later iteration */
      c08_havoc_conversation (auth, 1);
      { int n = nondet_int (); __CPROVER_assume (n >= 0 && n <= STR_MAX); SM (&auth->incoming)->len = n; }
      { int n = nondet_int (); __CPROVER_assume (n >= 0 && n <= STR_MAX); SM (&auth->outgoing)->len = n; }
      SRV (auth)->failures = nondet_int (); auth->unix_fd_negotiated = nondet_bool ();
      G.sent = nondet_int (); G.last = nondet_int (); G.process_command_calls = nondet_int (); g_pc_lines = nondet_int (); g_pc_consumed = nondet_int (); g_pc_last_was_begin = nondet_bool ();
      __CPROVER_assume (loop_inv (auth));
      return TRUE;
    }
  POST (loop_inv (auth), "do_work loop invariant is preserved by one more command (inductive step)");
  __CPROVER_assume (0);
  return TRUE;
}
#endif
