/* C18 / C14: bus_connection_be_monitor (+ bcd_add_monitor_rules, bcd_drop_monitor_rules) of bus/connection.c on
 * the REAL dbus/dbus-list.c, B unit: <= 2 rules in the given list, <= 2 owned names, <= 1 other monitor, every list
 * link allocation (_dbus_list_alloc_link, _dbus_list_copy), bus_matchmaker_new, bus_matchmaker_add_rule and
 * bus_service_remove_owner may fail independently.
 * Oracle: specification "org.freedesktop.DBus.Monitoring.BecomeMonitor" / property C18: "From that moment the monitor
 * owns no names ... loses its ordinary match rules", is never a reply addressee; property C14: a request that fails
 * (NoMemory) changes nothing.
 * The monitor rule set is a ghost set: g_mon_rules = number of rules of THIS connection held by the monitor
 * matchmaker (bus_matchmaker_add_rule adds one, bus_matchmaker_disconnected removes all of the connection's). */
#include <config.h>
#include "dbus/dbus-internals.h"
#include VERIF_TU
#include "c04_common.h"
#ifndef VERIF_MAXR
#define VERIF_MAXR 2
#endif

static char c_conn, c_other, c_ctx, c_mon, c_ord, rule_obj[VERIF_MAXR], svc_obj[2];
#define CONN  ((DBusConnection *) &c_conn)
#define OTHER ((DBusConnection *) &c_other)
#define CTX   ((BusContext *) &c_ctx)
#define MON   ((BusMatchmaker *) &c_mon)     /* the monitor matchmaker */
#define ORD   ((BusMatchmaker *) &c_ord)     /* the ordinary matchmaker of the context */
static BusConnections conns; static BusConnectionData data; static BusTransaction txn;
/* ---- trusted pool for list links (may fail at every call) ---- */
#define NLINK 8
static DBusList link_pool[NLINK]; static int link_used, links_freed;
DBusList *verif_alloc_link (void *d) { if (nondet_bool () || link_used >= NLINK) return NULL; DBusList *l = &link_pool[link_used++]; l->data = d; l->prev = l->next = NULL; return l; }
void verif_free_link (DBusList *l) { PRE (l != NULL, "free_link"); links_freed++; }
/* ---- ghost ---- */
int in_k, in_names, in_had_mm, in_other_monitor;
int g_mon_rules, g_mon_adds, g_mon_add_wrong, g_mon_disc, g_ord_disc, g_mm_new, g_removed[2], g_remove_calls, g_remove_failed, g_drop_replies, g_t_drop_rules_after_add;
void *g_added[VERIF_MAXR];

void *dbus_connection_get_data (DBusConnection *c, dbus_int32_t slot) { PRE (c == CONN, "dbus_connection_get_data"); return &data; }
BusMatchmaker *bus_matchmaker_new (void) { if (nondet_bool ()) return NULL; g_mm_new++; return MON; }
dbus_bool_t bus_matchmaker_add_rule (BusMatchmaker *mm, BusMatchRule *rule)
{ PRE (mm == MON, "bus_matchmaker_add_rule: rules go to the MONITOR matchmaker, never the ordinary one");
  if (mm != MON) g_mon_add_wrong++;
  if (nondet_bool ()) return FALSE;
  if (g_mon_adds < VERIF_MAXR) g_added[g_mon_adds] = rule; g_mon_adds++; g_mon_rules++; return TRUE; }      /* the rule's owner is the connection it was parsed for (C18m.become_monitor) */
void bus_matchmaker_disconnected (BusMatchmaker *mm, DBusConnection *c)
{ PRE (c == CONN && (mm == MON || mm == ORD), "bus_matchmaker_disconnected: this connection");
  if (mm == MON) { g_mon_disc++; g_mon_rules = 0; } else g_ord_disc++; }
dbus_bool_t bus_service_remove_owner (BusService *s, DBusConnection *c, BusTransaction *t, DBusError *e)
{ int i, hit = -1; for (i = 0; i < 2; i++) if (s == (BusService *) &svc_obj[i] && i < in_names) hit = i;
  PRE (hit >= 0 && c == CONN && t == &txn && e != NULL && !ERR_SET (e), "bus_service_remove_owner: an owned name, this connection, the GIVEN transaction, clear error");
  g_remove_calls++;
  if (nondet_bool ()) { g_remove_failed++; stub_fail (e); return FALSE; }
  if (hit >= 0) g_removed[hit]++; return TRUE; }                /* transactional: undone when the caller cancels the transaction (C04.remove_owner*) */
void bus_context_log (BusContext *c, DBusSystemLogSeverity s, const char *msg, ...) { }
BusMatchmaker *bus_context_get_matchmaker (BusContext *c) { PRE (c == CTX, "bus_context_get_matchmaker"); return ORD; }
void verif_stub_bus_connection_drop_pending_replies (BusConnections *cs, DBusConnection *c) { PRE (cs == &conns && c == CONN, "bus_connection_drop_pending_replies"); g_drop_replies++; }

static int list_len_and_count (DBusList *head, void *d, int *count)
{ int i, n = 0; DBusList *l = head; *count = 0;
  for (i = 0; i < 4; i++) if (l != NULL) { n++; if (l->data == d) (*count)++; l = (l->next == head) ? NULL : l->next; }
  return n; }

void harness (void)
{
  static DBusList rl[VERIF_MAXR], sl[2], ml; DBusList *rules = NULL; DBusError err; int i, cnt;
  err.name = NULL; err.message = NULL;
  in_k = nondet_int (); in_names = nondet_int (); in_had_mm = nondet_bool (); in_other_monitor = nondet_bool ();
  __CPROVER_assume (in_k >= 0 && in_k <= VERIF_MAXR && in_names >= 0 && in_names <= 2);
  __CPROVER_assume (IMP (in_other_monitor, in_had_mm));                    /* invariant (used by C03): monitors != NULL => monitor_matchmaker != NULL */
  /* the rule list handed over by the driver, LIST_OK(rules, k) */
  for (i = 0; i < VERIF_MAXR; i++) if (i < in_k) { rl[i].data = &rule_obj[i]; rl[i].next = &rl[(i + 1) % in_k]; rl[i].prev = &rl[(i + in_k - 1) % in_k]; }
  if (in_k > 0) rules = &rl[0];
  conns.refcount = 1; conns.context = CTX; conns.monitor_matchmaker = in_had_mm ? MON : NULL; conns.monitors = NULL;
  if (in_other_monitor) { ml.data = OTHER; ml.next = ml.prev = &ml; conns.monitors = &ml; }
  data.connections = &conns; data.connection = CONN; data.link_in_monitors = NULL;          /* requires: not a monitor yet (bus_dispatch closes monitors that send) */
  data.n_match_rules = nondet_int (); __CPROVER_assume (data.n_match_rules >= 0);
  data.name = (char *) some_string; data.cached_loginfo_string = (char *) some_string;
  data.services_owned = NULL; data.n_services_owned = in_names;
  for (i = 0; i < 2; i++) if (i < in_names) { sl[i].data = &svc_obj[i]; sl[i].next = &sl[(i + 1) % in_names]; sl[i].prev = &sl[(i + in_names - 1) % in_names]; }
  if (in_names > 0) data.services_owned = &sl[0];
  txn.context = CTX; txn.connections = NULL; txn.cancel_hooks = NULL;
  g_mon_rules = 0;                                                          /* requires: the monitor rule set holds no rule of a connection that is not a monitor */
  DBusList *mon0 = conns.monitors; int rules0 = data.n_match_rules;

  dbus_bool_t ret = bus_connection_be_monitor (CONN, &txn, &rules, &err);

  int mlen = list_len_and_count (conns.monitors, CONN, &cnt);
  POST (IMP (ret, !ERR_SET (&err)) && IMP (!ret, ERR_SET (&err)), "mon.post0 error set exactly on FALSE");
  if (ret)
    {
      POST (data.link_in_monitors != NULL && data.link_in_monitors->data == CONN && cnt == 1 && mlen == (in_other_monitor ? 2 : 1), "mon.true1 in the monitors list exactly once (flagged as monitor)");
      POST (conns.monitor_matchmaker == MON, "mon.true2 monitors != NULL => monitor_matchmaker != NULL");
      POST (g_mon_rules == in_k && g_mon_adds == in_k && g_mon_add_wrong == 0 && IMP (in_k >= 1, g_added[0] == &rule_obj[0]) && IMP (in_k >= 2, g_added[1] == &rule_obj[1]), "mon.true3 every rule of the given list is in the MONITOR rule set, none elsewhere");
      POST (g_ord_disc == (rules0 > 0 ? 1 : 0), "mon.true4 ordinary match rules dropped iff the connection had any");
      POST (g_drop_replies == 1, "mon.true5 pending replies dropped once");
      POST (g_remove_calls == in_names && g_remove_failed == 0 && IMP (in_names >= 1, g_removed[0] == 1) && IMP (in_names >= 2, g_removed[1] == 1), "mon.true6 every owned name released once through bus_service_remove_owner with the given transaction");
    }
  else
    {
      POST (data.link_in_monitors == NULL && conns.monitors == mon0 && cnt == 0 && mlen == (in_other_monitor ? 1 : 0), "mon.false1 FALSE: not in the monitors list, list untouched");
      POST (g_mon_rules == 0, "mon.false2 FALSE: the monitor rule set holds no rule of this connection");
      POST (g_ord_disc == 0 && data.n_match_rules == rules0, "mon.false3 FALSE: ordinary match rules kept");
      POST (g_drop_replies == 0, "mon.false4 FALSE: pending replies kept");
      POST (g_removed[0] <= 1 && g_removed[1] <= 1 && g_remove_failed <= 1 && g_remove_calls <= in_names, "mon.false5 FALSE: names touched only through the transaction (the caller's cancel gives them back), each at most once");
      POST (link_used == links_freed, "mon.false6 FALSE: every list link the function allocated has been released");
    }
  POST (rules == (in_k > 0 ? &rl[0] : NULL) && data.services_owned == (in_names > 0 ? &sl[0] : NULL) && data.n_services_owned == in_names, "mon.frame the caller's rule list and the owned-name list are not modified by the function itself");
  POST (IMP (ret, link_used == links_freed + 1), "mon.true7 TRUE: exactly the monitors link stays allocated");
  if (ret && in_k == 2 && in_names == 2) REACH ("monitor-2-rules-2-names"); if (ret && in_k == 0) REACH ("monitor-no-rules"); if (ret && in_other_monitor) REACH ("second-monitor");
  if (!ret && g_remove_failed == 1 && g_mon_adds >= 1) REACH ("remove-owner-failed-after-rules-added");
  if (!ret && g_mon_adds >= 1 && g_remove_calls == 0) REACH ("add-or-copy-failed-after-rules-added");
  if (!ret && g_mon_adds == 0 && link_used == 0) REACH ("link-alloc-failed"); if (!ret && !in_had_mm && g_mm_new == 0 && link_used == 1) REACH ("matchmaker-new-failed");
}
