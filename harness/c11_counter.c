/* C11 / C13 (P, loop-free, full domain): _dbus_counter_adjust_size, _dbus_counter_adjust_unix_fd, _dbus_counter_notify
 * (dbus/dbus-resources.c), the live-message counter behind the receive limit.  The transport stops reading a connection while
 * "value >= guard" (live_messages size / fds against max_live_messages_*: dbus-transport.c) and resumes when its notify function
 * runs.  Property C11 "the sequence of messages produced ... [is] the same as for the unsplit stream": a connection must not stay
 * silent once the backlog is below the limit again; C13: the limit itself.  Contract: an adjustment marks a notification pending
 * exactly when the truth of "value >= guard" changes (in either direction), never loses a pending one; _dbus_counter_notify
 * calls the function once per pending mark, without the counter lock. */
#include <config.h>
#include "dbus/dbus-internals.h"
#include "verif_prelude.h"
#include VERIF_TU
_Bool nondet_bool (void); long nondet_long (void);
#define IMP(a,b) (!(a) || (b))
#define REACH(tag) __CPROVER_assert(0, "REACH:" tag)
void _dbus_real_assert (dbus_bool_t c, const char *t, const char *f, int l, const char *fn) { __CPROVER_assert (c, "dbus internal assertion"); __CPROVER_assume (c); }
static int g_locked, g_notifies, g_notify_under_lock;
void _dbus_rmutex_lock (DBusRMutex *m) { g_locked++; }
void _dbus_rmutex_unlock (DBusRMutex *m) { g_locked--; }
static void fn (DBusCounter *c, void *data) { g_notifies++; if (g_locked) g_notify_under_lock = 1; }
void harness (void)
{
  DBusCounter C; long delta = nondet_long (); _Bool fds = nondet_bool (), had_pending = nondet_bool (), has_fn = nondet_bool ();
  C.refcount = 1; C.mutex = NULL; C.notify_function = has_fn ? fn : NULL; C.notify_data = NULL; C.notify_pending = had_pending && has_fn;
  C.size_value = nondet_long (); C.unix_fd_value = nondet_long (); C.notify_size_guard_value = nondet_long (); C.notify_unix_fd_guard_value = nondet_long ();
  long old = fds ? C.unix_fd_value : C.size_value, guard = fds ? C.notify_unix_fd_guard_value : C.notify_size_guard_value;
  __CPROVER_assume (old >= 0 && old <= 0x7fffffffffffL && delta >= -old && delta <= 0x7fffffffffffL && guard >= 0);      /* live values are sums of message sizes */
  _Bool was_pending = C.notify_pending;
  if (fds) _dbus_counter_adjust_unix_fd (&C, delta); else _dbus_counter_adjust_size (&C, delta);
  long now = fds ? C.unix_fd_value : C.size_value;
  __CPROVER_assert (now == old + delta, "ctr.post1 the value moves by exactly delta");
  _Bool crossed = (old >= guard) != (now >= guard);
  __CPROVER_assert (IMP (has_fn, C.notify_pending == (was_pending || crossed)), "ctr.post2 a notification becomes pending exactly when the truth of value >= guard (the transport's stop-reading test) changes, in either direction; a pending one is never lost");
  __CPROVER_assert (IMP (!has_fn, !C.notify_pending), "ctr.post3 nothing is pending without a notify function");
  __CPROVER_assert (g_locked == 0, "ctr.post4 the counter lock is released");
  _Bool pend = C.notify_pending;
  _dbus_counter_notify (&C);
  __CPROVER_assert (g_notifies == (pend ? 1 : 0) && !C.notify_pending && !g_notify_under_lock && g_locked == 0, "ctr.post5 the function is called once per pending mark, outside the lock, and the mark is cleared");
  if (crossed && old >= guard && now == guard - 1) REACH ("just-below"); if (crossed && old == guard && has_fn) REACH ("from-exactly-the-limit"); if (!crossed) REACH ("no-crossing");
}
