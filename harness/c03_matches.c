/* C05 / C15 / C18 (T): bus_dispatch_matches and send_one_message (bus/dispatch.c, pristine TU).
 *   harness_send_one : send_one_message is loop-free                          -> P (P-stub route)
 *   harness_matches  : bus_dispatch_matches loops over the match recipients    -> B (<= 3 recipients), send_one_message by contract
 * Callees by contract: stubs/c03_stubs.c; predicates: spec/bus_typestate.h. */
#include <config.h>
#include "dbus/dbus-internals.h"
#include "verif_prelude.h"
#include "verif_ghost.h"
#include "bus_typestate.h"
#include VERIF_TU
#include "../stubs/c03_stubs.c"

static char transaction_obj;
static struct ts_msg M;

static void any_conn (struct ts_conn *c, int i)
{ c->monitor = 0; c->connected = nondet_bool (); c->can_unix_fd = nondet_bool (); c->active = nondet_bool (); c->name = c->active ? ts_names[i] : NULL; }

/* the message as bus_dispatch (sender != NULL: stamped wire message) or the driver (sender == NULL) hands it over */
static void routed_message (struct ts_conn *sender)
{
  M.serial = nondet_uint (); M.reply_serial = nondet_uint (); M.type = nondet_int ();
  M.sender = sender ? TS_SND_UNIQUE : TS_SND_DRIVER; M.sender_of = sender;
  int d = nondet_int (); M.dest = d == 0 ? TS_DST_NONE : d == 1 ? TS_DST_BUS : d == 2 ? TS_DST_NAME : TS_DST_UNIQUE; M.dest_of = &ts_conns[1];
  M.unknown_stripped = 1; M.container_cleared = 1; M.local_disconnected = 0;
  M.auto_start = nondet_bool (); M.no_reply = nondet_bool (); M.has_fds = nondet_bool (); M.is_hello = nondet_bool ();
  M.error_name = TS_ERR_NONE; M.in_reply_to = NULL; M.has_string_arg = 0; M.string_arg = NULL; M.n_string_args = 0; M.refs = 1;
  G.dispatched = &M; G.captures = 1; G.capture_ok = 1; G.captured_msg = &M;     /* bus_dispatch / the driver captured it before routing */
}

/* ------------------------------------------------------------------------------------------------------------------ */
void harness_send_one (void)
{
  ts_reset ();
  any_conn (&ts_conns[0], 0); any_conn (&ts_conns[1], 1); any_conn (&ts_conns[2], 2); any_conn (&ts_conns[3], 3);
  struct ts_conn *sender = nondet_bool () ? &ts_conns[0] : NULL;
  struct ts_conn *addressed = nondet_bool () ? &ts_conns[1] : NULL;
  struct ts_conn *proposed = &ts_conns[2];                                  /* the match-rule recipient; never the addressed one (C07) */
  routed_message (sender);
  ts_transaction = &transaction_obj;
  DBusError err; err.name = NULL; err.message = NULL;
  __CPROVER_assume (PRE_send_one_message (proposed, &ts_context_obj, sender, addressed, &M, ts_transaction, &err));
  __CPROVER_assume (sender == NULL || sender->active);

  dbus_bool_t ret = send_one_message ((DBusConnection *) proposed, (BusContext *) &ts_context_obj, (DBusConnection *) sender, (DBusConnection *) addressed,
                                      (DBusMessage *) &M, (BusTransaction *) ts_transaction, &err);

  _Bool fd_ok = !M.has_fds || proposed->can_unix_fd;
  __CPROVER_assert (ret == 0 || ret == 1, "post.bool");
  __CPROVER_assert (G.policy_checks == 1 && G.policy_sender == sender && G.policy_addressed == addressed && G.policy_proposed == proposed,
                    "post.C06.gate-once: the gate is asked exactly once, for (sender, addressed recipient, this proposed recipient)");
  __CPROVER_assert (proposed->staged <= 1 && IMP (proposed->staged == 1, G.policy_allowed && fd_ok && G.last_sent_msg == &M && G.last_sent_to == proposed && G.last_sent_from == sender),
                    "post.C05.only-if-allowed: the recipient gets at most one copy, and only if the gate allowed it");
  __CPROVER_assert (IMP (M.has_fds && !proposed->can_unix_fd, proposed->staged == 0 && G.sends == 0),
                    "post.C15.no-fd-without-negotiation: a message with fds is never staged for a connection that cannot receive fds");
  __CPROVER_assert (IMP (!G.policy_allowed, G.sends == 0 && ret && err.name == NULL), "post.C05.denied-silent: a denied eavesdropper/broadcast recipient gets nothing and the sender gets no error");
  __CPROVER_assert (IMP (!G.policy_allowed || !fd_ok, G.capture_errs == 1 && G.capture_err_in_reply_to == &M && G.capture_err_addressed == sender &&
                         G.capture_err_name == (!G.policy_allowed ? G.policy_err : TS_ERR_NOT_SUPPORTED) && G.capture_err_name != TS_ERR_NONE),
                    "post.C18.refusal-shown: a refusal is shown to the monitors exactly once, as an error reply to this message");
  __CPROVER_assert (IMP (G.policy_allowed && fd_ok, G.capture_errs == 0 && G.sends == 1), "post.C05.allowed-sent: an allowed recipient is staged exactly once and nothing is reported");
  __CPROVER_assert (IMP (!ret, err.name != NULL && ts_errkind (err.name) == TS_ERR_NO_MEMORY && proposed->staged == 0 && G.policy_allowed && fd_ok), "post.C14.false-is-oom: FALSE only for OOM while staging, nothing staged");
  __CPROVER_assert (IMP (ret, err.name == NULL), "post.true-no-error");
  __CPROVER_assert (ts_conns[0].staged + ts_conns[1].staged + ts_conns[3].staged == 0 && G.captures == 1, "post.frame: nobody else is sent anything; no second capture of the message");
  if (proposed->staged == 1 && M.has_fds) REACH ("sent-with-fds");
  if (proposed->staged == 1 && !M.has_fds) REACH ("sent");
  if (!G.policy_allowed) REACH ("denied");
  if (G.policy_allowed && !fd_ok) REACH ("fd-refused");
  if (!ret) REACH ("oom");
  if (sender == NULL && ret) REACH ("driver-broadcast");
}

/* ------------------------------------------------------------------------------------------------------------------ */
void harness_matches (void)
{
  ts_reset ();
  any_conn (&ts_conns[0], 0); any_conn (&ts_conns[1], 1); any_conn (&ts_conns[2], 2); any_conn (&ts_conns[3], 3);
  struct ts_conn *sender = nondet_bool () ? &ts_conns[0] : NULL;
  struct ts_conn *addressed = nondet_bool () ? &ts_conns[1] : NULL;
  routed_message (sender);
  ts_transaction = &transaction_obj; ts_bus_connections = &transaction_obj;
  /* match recipients (contract of bus_matchmaker_get_recipients, C07): n <= 3 distinct connections, never the addressed recipient */
  ts_n_recipients = nondet_int (); __CPROVER_assume (0 <= ts_n_recipients && ts_n_recipients <= 3);
  _Bool swap = nondet_bool ();
  ts_recipient[0] = swap ? &ts_conns[3] : &ts_conns[2]; ts_recipient[1] = swap ? &ts_conns[2] : &ts_conns[3]; ts_recipient[2] = &ts_conns[0];
  DBusError err; err.name = NULL; err.message = NULL;
  __CPROVER_assume (PRE_bus_dispatch_matches (ts_transaction, sender, addressed, &M, &err));

  dbus_bool_t ret = bus_dispatch_matches ((BusTransaction *) ts_transaction, (DBusConnection *) sender, (DBusConnection *) addressed, (DBusMessage *) &M, &err);

  int staged0 = 0;
  if (addressed) G.staged_addressed = addressed->staged;      /* ghost definition: copies staged for the addressed recipient */
  __CPROVER_assert (ret == 0 || ret == 1, "post.bool");
  __CPROVER_assert (POST_bus_dispatch_matches (ret, addressed, &M, &err, staged0), "post.contract: the contract assumed by bus_dispatch (POST_bus_dispatch_matches)");
  __CPROVER_assert (IMP (addressed != NULL, addressed->staged <= 1), "post.C05.single-send: the addressed recipient is staged at most once");
  __CPROVER_assert (IMP (addressed != NULL && addressed->staged == 1, G.policy_checks >= 1 && IMP (M.has_fds, addressed->can_unix_fd)), "post.C15.addressed-fd: fds only to an addressed recipient that negotiated them");
  __CPROVER_assert (IMP (addressed != NULL && ret, addressed->staged == 1), "post.C05.delivered: success means the addressed recipient got its copy");
  _Bool fd_refused = addressed != NULL && M.has_fds && !addressed->can_unix_fd;
  __CPROVER_assert (IMP (fd_refused && (G.policy_checks == 0 || G.policy_allowed), !ret && ts_errkind (err.name) == TS_ERR_NOT_SUPPORTED && addressed->staged == 0 && G.recipient_queries == 0),
                    "post.C15.not-supported: refusing fds is a NotSupported error for the sender and ends the routing");
  /* C09 / C05: the policy gate, when it allows a method call, registers the pending reply (C06.gate, C09.expect_reply).  A call that is then
   * refused gets its ONE error reply from bus_dispatch; had the gate been passed first, the open slot would later produce a second error
   * (NoReply) for the same call.  So a call that cannot be delivered for lack of fd passing must be refused BEFORE the gate is asked. */
  __CPROVER_assert (IMP (fd_refused && !ret && ts_errkind (err.name) == TS_ERR_NOT_SUPPORTED, G.policy_checks == 0),
                    "post.C09.no-slot-for-refused-fd-call: a call refused with NotSupported has not passed the policy gate (no pending-reply slot is left behind for it)");
  __CPROVER_assert (IMP (addressed != NULL && !fd_refused, G.policy_checks == 1 && G.policy_sender == sender && G.policy_addressed == addressed && G.policy_proposed == addressed) && IMP (addressed == NULL, G.policy_checks == 0) && G.policy_checks <= 1,
                    "post.C06.gate-addressed: the gate is asked once for (sender, addressed, addressed) before anything is staged for the addressed recipient");
  __CPROVER_assert (IMP (addressed != NULL && G.policy_checks == 1 && !G.policy_allowed, !ret && addressed->staged == 0 && G.recipient_queries == 0 && ts_errkind (err.name) == G.policy_err),
                    "post.C05.nothing-after-denial: a denial ends the routing with the gate's error, nothing staged, match rules not even consulted");
  __CPROVER_assert (ts_conns[2].staged <= 1 && ts_conns[3].staged <= 1 && ts_conns[0].staged <= 1, "post.C07.once-each: every match recipient at most one copy");
  __CPROVER_assert (IMP (ts_n_recipients < 3, ts_conns[0].staged == 0) && IMP (ts_n_recipients < 2, ts_recipient[1]->staged == 0) && IMP (ts_n_recipients < 1, ts_recipient[0]->staged == 0),
                    "post.C07.only-recipients: nobody outside the matchmaker's answer is sent anything");
  __CPROVER_assert (IMP (!ret, err.name != NULL) && IMP (ret, err.name == NULL), "post.error-iff-false");
  __CPROVER_assert (G.recipient_queries <= 1 && IMP (ret, G.recipient_queries == 1 && ts_list_clears == 1), "post.list: recipients asked once and the list released");
  __CPROVER_assert (G.captures == 1 && G.capture_errs == 0, "post.C18.no-recapture: routing does not capture again (send_one_message reports refusals by its own contract)");
  if (ret && addressed && ts_n_recipients == 3) REACH ("unicast-plus-3-recipients");
  if (ret && !addressed && ts_n_recipients == 0) REACH ("broadcast-nobody");
  if (!ret && addressed && addressed->staged == 0 && ts_errkind (err.name) == TS_ERR_NOT_SUPPORTED) REACH ("fd-refused");
  if (!ret && addressed && addressed->staged == 1) REACH ("oom-after-staging");
  if (!ret && G.policy_checks == 1 && !G.policy_allowed) REACH ("denied");
  if (ret && ts_conns[2].staged + ts_conns[3].staged + ts_conns[0].staged == 3) REACH ("three-staged");
}
