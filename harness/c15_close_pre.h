/* C15.close_unix_fds — contract text, compiled INSIDE the real translation unit dbus/dbus-message.c
 * (include/tu_wrap.c includes this file through VERIF_EXTRA_PRELUDE before the TU, so the static
 * function can be named).  Nothing here is a copy of dbus code.
 *
 * Oracle (property C15): "every descriptor the bus or the library receives is closed exactly once".
 * close_unix_fds(fds, &n) is the only place where libdbus closes message/loader-owned descriptors.
 *
 * Ghost call log: the contract of _dbus_close counts calls and records the descriptor passed at call
 * number verif_gk (ghost index, never assigned => statement holds for every k). */
#ifndef C15_CLOSE_PRE_H
#define C15_CLOSE_PRE_H
struct verif_close_ghost { unsigned calls; int recorded_fd; };
extern struct verif_close_ghost G_close;
/* variadic logging breaks DFCC; only the message text is dropped (listed under extraction_drops) */
#undef _dbus_warn
#define _dbus_warn(...) ((void)0)
#define ERR_SET(e) ((e)->name != NULL)
void dbus_error_init (DBusError *e) __CPROVER_requires(e != NULL) __CPROVER_assigns(*e) __CPROVER_ensures(!ERR_SET(e));
void dbus_error_free (DBusError *e) __CPROVER_requires(e != NULL) __CPROVER_assigns(*e) __CPROVER_ensures(!ERR_SET(e));
/* assumed: _dbus_close(fd) == one close(2) of fd; error protocol of DBusError */
dbus_bool_t _dbus_close (int fd, DBusError *error)
__CPROVER_requires(error == NULL || !ERR_SET(error))
__CPROVER_assigns(G_close; error != NULL: *error)
__CPROVER_ensures(G_close.calls == __CPROVER_old(G_close.calls) + 1)
__CPROVER_ensures(G_close.recorded_fd == (__CPROVER_old(G_close.calls) == verif_gk ? fd : __CPROVER_old(G_close.recorded_fd)))
__CPROVER_ensures((error != NULL && __CPROVER_return_value) ==> !ERR_SET(error))
__CPROVER_ensures((error != NULL && !__CPROVER_return_value) ==> ERR_SET(error));

static void close_unix_fds(int *fds, unsigned *n_fds)
__CPROVER_requires(__CPROVER_is_fresh(n_fds, sizeof(unsigned)) && *n_fds <= VERIF_MAX_FDS)
__CPROVER_requires(__CPROVER_is_fresh(fds, ((unsigned long)*n_fds + 1) * sizeof(int)))
__CPROVER_requires(G_close.calls == 0)
__CPROVER_assigns(*n_fds, G_close)
/* the array is emptied */
__CPROVER_ensures(*n_fds == 0)
/* exactly one close per entry */
__CPROVER_ensures(G_close.calls == __CPROVER_old(*n_fds))
/* the k-th close was of the k-th descriptor, for arbitrary k (ghost index): in order, each entry once */
__CPROVER_ensures((verif_gk >= 0 && verif_gk < (long)__CPROVER_old(*n_fds)) ? G_close.recorded_fd == fds[verif_gk] : 1)
/* the array content itself is not modified (frame: fds[] not in assigns) */
;
unsigned verif_in_n;
void harness(void)
{
  int *f; unsigned *n;
  close_unix_fds(f, n);
  __CPROVER_assert(0, "REACH:returned");
  if (G_close.calls == 0) __CPROVER_assert(0, "REACH:empty");
  if (G_close.calls >= 3) __CPROVER_assert(0, "REACH:three-or-more");
}
#endif
