/* C13: connection limits and per-connection counters of bus/connection.c, P-stub route (all loop-free).
 *   VERIF_OP 1  bus_connections_check_limits          2  bus_connection_complete
 *            3  bus_connection_add_match_rule_link / remove_match_rule / add_owned_service_link / remove_owned_service
 * Oracle: dbus-daemon(1) <limit>: "max_completed_connections", "max_connections_per_user",
 * "max_match_rules_per_connection", "max_names_per_connection"; property C13: a refusal changes nothing,
 * counters move by exactly one, never negative.
 * The per-uid hash table is a ghost map for ONE arbitrary uid (in_uid); hash tables are never executed. */
#include <config.h>
#include "dbus/dbus-internals.h"
#include VERIF_TU
#include "c04_common.h"
#include <limits.h>

static char c_conn, c_ctx, c_pol, c_hash, c_rule, c_svc; static BusConnections conns; static BusConnectionData data; static DBusList the_link, conn_link;
#define CONN ((DBusConnection *) &c_conn)
#define CTX  ((BusContext *) &c_ctx)
#define POL  ((BusClientPolicy *) &c_pol)
/* ghost inputs */
int in_max_completed, in_max_per_user; _Bool in_has_uid; unsigned long in_uid; int in_uid_count;
/* ghost state */
int g_uid_count;                         /* completed_by_user[in_uid] */
struct { int free_link, hash_writes, unlink, append_link, remove_last, watches, expire, copy, policy, free_name, policy_unref, loginfo; _Bool copy_ok, policy_ok, loginfo_ok;
         int n_incomplete_at_watches; } G;
static char name_copy[8];

void *dbus_connection_get_data (DBusConnection *c, dbus_int32_t slot) { PRE (c == CONN, "dbus_connection_get_data"); return &data; }
int bus_context_get_max_completed_connections (BusContext *c) { PRE (c == CTX, "bus_context_get_max_completed_connections"); return in_max_completed; }
int bus_context_get_max_connections_per_user (BusContext *c) { PRE (c == CTX, "bus_context_get_max_connections_per_user"); return in_max_per_user; }
dbus_bool_t dbus_connection_get_unix_user (DBusConnection *c, unsigned long *uid) { PRE (c == CONN && uid != NULL, "dbus_connection_get_unix_user"); if (in_has_uid) *uid = in_uid; return in_has_uid; }
void *_dbus_hash_table_lookup_uintptr (DBusHashTable *t, uintptr_t key) { PRE (t == (DBusHashTable *) &c_hash && key == in_uid, "_dbus_hash_table_lookup_uintptr: this user's entry"); return _DBUS_INT_TO_POINTER (g_uid_count); }
dbus_bool_t _dbus_hash_table_insert_uintptr (DBusHashTable *t, uintptr_t key, void *value)
{ PRE (t == (DBusHashTable *) &c_hash && key == in_uid, "_dbus_hash_table_insert_uintptr: this user's entry"); if (g_uid_count == 0 && nondet_bool ()) return FALSE; /* only a new entry allocates */
  G.hash_writes++; g_uid_count = _DBUS_POINTER_TO_INT (value); return TRUE; }
dbus_bool_t _dbus_hash_table_remove_uintptr (DBusHashTable *t, uintptr_t key) { PRE (t == (DBusHashTable *) &c_hash && key == in_uid, "_dbus_hash_table_remove_uintptr"); G.hash_writes++; g_uid_count = 0; return TRUE; }
/* complete */
dbus_bool_t _dbus_string_copy_data (const DBusString *s, char **out) { PRE (out == &data.name, "_dbus_string_copy_data: into the connection's name"); G.copy++; G.copy_ok = nondet_bool (); if (!G.copy_ok) return FALSE; *out = name_copy; return TRUE; }
BusClientPolicy *bus_context_create_client_policy (BusContext *c, DBusConnection *conn, DBusError *e)
{ PRE (c == CTX && conn == CONN && (e == NULL || !ERR_SET (e)), "bus_context_create_client_policy"); G.policy++; G.policy_ok = nondet_bool (); if (!G.policy_ok) { stub_fail (e); return NULL; } return POL; }
dbus_bool_t verif_stub_cache_peer_loginfo_string (BusConnectionData *d, DBusConnection *c) { PRE (d == &data && c == CONN, "cache_peer_loginfo_string"); G.loginfo++; G.loginfo_ok = nondet_bool (); return G.loginfo_ok; }
#if VERIF_OP != 5
void _dbus_list_unlink (DBusList **list, DBusList *link) { PRE (list == &conns.incomplete && link == &conn_link, "_dbus_list_unlink: out of the incomplete list"); G.unlink++; }
void _dbus_list_append_link (DBusList **list, DBusList *link)
{ PRE ((list == &conns.completed && link == &conn_link && G.unlink == 1) || ((list == &data.match_rules || list == &data.services_owned) && link == &the_link), "_dbus_list_append_link"); G.append_link++; }
dbus_bool_t _dbus_list_remove_last (DBusList **list, void *d) { PRE ((list == &data.match_rules && d == &c_rule) || (list == &data.services_owned && d == &c_svc), "_dbus_list_remove_last"); G.remove_last++; return TRUE; /* requires: element is in the list */ }
#else
void verif_free_link (DBusList *l) { G.free_link++; }
#endif
void bus_context_check_all_watches (BusContext *c) { PRE (c == CTX, "bus_context_check_all_watches"); G.watches++; G.n_incomplete_at_watches = conns.n_incomplete; }
void verif_stub_bus_connections_expire_incomplete (BusConnections *c) { PRE (c == &conns, "bus_connections_expire_incomplete"); G.expire++; }
void bus_client_policy_unref (BusClientPolicy *p) { PRE (p == POL, "bus_client_policy_unref"); G.policy_unref++; }
void dbus_free (void *p) { if (p == name_copy) G.free_name++; }

#if VERIF_OP == 4
/* ---- bus_connection_disconnected: contracts of the neighbours ---- */
int in_k; _Bool in_was_complete; static char c_mm, c_txn;
struct { int mm_disc, remove_ok, remove_fail, txn_new, txn_exec, txn_cancel, dispatch_rm, rm_link_completed, rm_link_incomplete, drop_replies, set_data, unref, rm_txns, n_incomplete_at_watches2; } D;
BusMatchmaker *bus_context_get_matchmaker (BusContext *c) { return (BusMatchmaker *) &c_mm; }
void bus_matchmaker_disconnected (BusMatchmaker *m, DBusConnection *c) { PRE (c == CONN && m == (BusMatchmaker *) &c_mm, "bus_matchmaker_disconnected"); D.mm_disc++; }
void *_dbus_list_get_last (DBusList **list) { PRE (list == &data.services_owned, "_dbus_list_get_last: the connection's owned names"); return data.n_services_owned > 0 ? (void *) &c_svc : NULL; }   /* I: counter == list length */
BusTransaction *verif_stub_bus_transaction_new (BusContext *c) { PRE (c == CTX, "bus_transaction_new"); D.txn_new++; return (BusTransaction *) &c_txn; }   /* memory eventually available (the code waits otherwise) */
dbus_bool_t bus_service_remove_owner (BusService *s, DBusConnection *c, BusTransaction *t, DBusError *e)
{ PRE (s == (BusService *) &c_svc && c == CONN && t == (BusTransaction *) &c_txn && e != NULL && !ERR_SET (e) && D.txn_new == D.txn_exec + D.txn_cancel + 1, "bus_service_remove_owner: own name, fresh transaction, clear error");
  if (D.remove_fail == 0 && nondet_bool ()) { D.remove_fail++; e->name = DBUS_ERROR_NO_MEMORY; e->message = some_string; return FALSE; }   /* at most one OOM: bound of this unit */
  D.remove_ok++; data.n_services_owned -= 1; return TRUE; }            /* C04.remove_owner + C13.counters: the entry and the owned-name link are gone */
void verif_stub_bus_transaction_cancel_and_free (BusTransaction *t) { D.txn_cancel++; }
void verif_stub_bus_transaction_execute_and_free (BusTransaction *t) { PRE (D.remove_ok == D.txn_exec + 1, "bus_transaction_execute_and_free: after a successful removal"); D.txn_exec++; }
void _dbus_wait_for_memory (void) { }
void bus_dispatch_remove_connection (DBusConnection *c) { D.dispatch_rm++; }
dbus_bool_t dbus_connection_set_watch_functions (DBusConnection *c, DBusAddWatchFunction a, DBusRemoveWatchFunction r, DBusWatchToggledFunction t, void *d, DBusFreeFunction f) { return TRUE; }
dbus_bool_t dbus_connection_set_timeout_functions (DBusConnection *c, DBusAddTimeoutFunction a, DBusRemoveTimeoutFunction r, DBusTimeoutToggledFunction t, void *d, DBusFreeFunction f) { return TRUE; }
void dbus_connection_set_unix_user_function (DBusConnection *c, DBusAllowUnixUserFunction fn, void *d, DBusFreeFunction f) { }
void dbus_connection_set_windows_user_function (DBusConnection *c, DBusAllowWindowsUserFunction fn, void *d, DBusFreeFunction f) { }
void dbus_connection_set_dispatch_status_function (DBusConnection *c, DBusDispatchStatusFunction fn, void *d, DBusFreeFunction f) { }
void _dbus_connection_set_pending_fds_function (DBusConnection *c, DBusPendingFdsChangeFunction cb, void *d) { }
void verif_stub_bus_connection_remove_transactions (DBusConnection *c) { D.rm_txns++; }
BusContainers *bus_context_get_containers (BusContext *c) { return nondet_ptr (); }
void bus_containers_remove_connection (BusContainers *s, DBusConnection *c) { }
void _dbus_list_remove_link (DBusList **list, DBusList *link)
{ PRE (link == &conn_link && (list == &conns.completed || list == &conns.incomplete), "_dbus_list_remove_link: this connection's link");
  if (list == &conns.completed) D.rm_link_completed++; else D.rm_link_incomplete++; }
void verif_stub_bus_connection_drop_pending_replies (BusConnections *cs, DBusConnection *c) { PRE (cs == &conns && c == CONN, "bus_connection_drop_pending_replies"); D.drop_replies++; }
dbus_bool_t dbus_connection_set_data (DBusConnection *c, dbus_int32_t slot, void *d, DBusFreeFunction f) { PRE (c == CONN && d == NULL, "dbus_connection_set_data: clears the slot"); D.set_data++; return TRUE; }
void dbus_connection_unref (DBusConnection *c) { D.unref++; }
#endif

static void setup (void)
{
  in_max_completed = nondet_int (); in_max_per_user = nondet_int (); in_has_uid = nondet_bool (); in_uid = nondet_ulong (); in_uid_count = nondet_int ();
  conns.refcount = 1; conns.completed = nondet_ptr (); conns.incomplete = nondet_ptr (); conns.n_completed = nondet_int (); conns.n_incomplete = nondet_int ();
  conns.context = CTX; conns.completed_by_user = (DBusHashTable *) &c_hash;
  __CPROVER_assume (conns.n_completed >= 0 && conns.n_incomplete >= 0 && in_uid_count >= 0);
  g_uid_count = in_uid_count;
  data.connections = &conns; data.connection = CONN; data.link_in_connection_list = &conn_link; data.name = NULL; data.policy = NULL;
  data.n_match_rules = nondet_int (); data.n_services_owned = nondet_int (); data.match_rules = nondet_ptr (); data.services_owned = nondet_ptr ();
}

void harness (void)
{
  DBusError err; err.name = NULL; err.message = NULL; setup ();
  int c0 = conns.n_completed, i0 = conns.n_incomplete; DBusList *cl0 = conns.completed, *il0 = conns.incomplete;
#if VERIF_OP == 1
  const char *lname = NULL; int lval = nondet_int (), lval0 = lval;
  dbus_bool_t ret = bus_connections_check_limits (&conns, CONN, &lname, &lval, &err);
  int over_total = c0 >= in_max_completed, over_user = in_has_uid && in_uid_count >= in_max_per_user;
  POST (IMP (over_total || over_user, !ret && err_is (&err, DBUS_ERROR_LIMITS_EXCEEDED)), "lim.post1 limit reached (>=) => refused with LimitsExceeded");
  POST (IMP (!over_total && !over_user, ret && !ERR_SET (&err)), "lim.post2 below both limits => admitted, no error");
  POST (IMP (over_total, lname != NULL && verif_streq (lname, "max_completed_connections") && lval == in_max_completed), "lim.post3 names the total limit");
  POST (IMP (!over_total && over_user, lname != NULL && verif_streq (lname, "max_connections_per_user") && lval == in_max_per_user), "lim.post4 names the per-user limit");
  POST (conns.n_completed == c0 && conns.n_incomplete == i0 && conns.completed == cl0 && conns.incomplete == il0 && g_uid_count == in_uid_count && G.hash_writes == 0, "lim.post5 the check mutates nothing");
  if (ret) REACH ("admitted"); if (over_total) REACH ("total-limit"); if (!over_total && over_user) REACH ("user-limit");
#elif VERIF_OP == 2
  static DBusString nm;
  __CPROVER_assume (i0 >= 1 && c0 < INT_MAX && in_uid_count < INT_MAX);      /* requires: connection is incomplete; limits were checked (Hello order) */
  dbus_bool_t ret = bus_connection_complete (CONN, &nm, &err);
  POST (IMP (ret, !ERR_SET (&err)) && IMP (!ret, ERR_SET (&err)), "cmp.post0 error set exactly on FALSE");
  POST (IMP (ret, conns.n_completed == c0 + 1 && conns.n_incomplete == i0 - 1 && G.unlink == 1 && G.append_link == 1), "cmp.post1 success: n_completed +1, n_incomplete -1, link moved once");
  POST (IMP (ret, g_uid_count == in_uid_count + (in_has_uid ? 1 : 0)), "cmp.post2 success: this user's count +1 iff the peer has a unix user");
  POST (IMP (ret, data.name == name_copy && data.policy == POL), "cmp.post3 success: name and policy set (connection active)");
  POST (IMP (ret, G.watches == 1 && G.n_incomplete_at_watches == i0 - 1), "cmp.post4 accept gate re-evaluated once, after the decrement");
  POST (IMP (!ret, conns.n_completed == c0 && conns.n_incomplete == i0 && G.unlink == 0 && G.append_link == 0 && G.watches == 0), "cmp.post5 failure: connection counters and lists untouched");
  POST (IMP (!ret, g_uid_count == in_uid_count), "cmp.post6 failure: this user's count unchanged");
  POST (IMP (!ret, data.name == NULL && data.policy == NULL && G.free_name == G.copy_ok && G.policy_unref <= 1), "cmp.post7 failure: still inactive, name released");
  if (ret && in_has_uid) REACH ("completed-uid"); if (ret && !in_has_uid) REACH ("completed-nouid"); if (!ret && G.loginfo == 1) REACH ("loginfo-oom"); if (!ret && G.policy == 1 && !G.policy_ok) REACH ("policy-failed"); if (!ret && !G.copy_ok) REACH ("name-oom");
#elif VERIF_OP == 5
  /* I: n_match_rules == length(match_rules), n_services_owned == length(services_owned) — kept by each of the four
   * operations, on the REAL dbus-list.c, lists of <= 3 elements built by the harness (LIST_OK). */
  static DBusList pl[3]; static char elem[3]; DBusList *head = NULL; int i, n = nondet_int (), which = nondet_int (), pick = nondet_int ();
  __CPROVER_assume (n >= 0 && n <= 3 && which >= 0 && which < 4 && pick >= 0 && pick < 3);
  for (i = 0; i < 3; i++) if (i < n)
    { pl[i].data = &elem[i];
      if (head == NULL) { pl[i].next = pl[i].prev = &pl[i]; head = &pl[i]; }
      else { pl[i].next = head; pl[i].prev = head->prev; head->prev->next = &pl[i]; head->prev = &pl[i]; } }
  DBusList **lst = (which < 2) ? &data.match_rules : &data.services_owned; int *cnt = (which < 2) ? &data.n_match_rules : &data.n_services_owned;
  data.match_rules = NULL; data.services_owned = NULL; data.n_match_rules = 0; data.n_services_owned = 0; *lst = head; *cnt = n;
  the_link.data = &c_rule; the_link.next = the_link.prev = NULL;
  if (which == 0) bus_connection_add_match_rule_link (CONN, &the_link);
  else if (which == 2) bus_connection_add_owned_service_link (CONN, &the_link);
  else { __CPROVER_assume (pick < n);                                   /* requires: the element is in the list */
         if (which == 1) bus_connection_remove_match_rule (CONN, (BusMatchRule *) &elem[pick]); else bus_connection_remove_owned_service (CONN, (BusService *) &elem[pick]); }
  int len = 0, has_pick = 0, has_new = 0; DBusList *l = *lst;
  for (i = 0; i < 5; i++) if (l != NULL) { len++; if (l->data == &elem[pick]) has_pick = 1; if (l == &the_link) has_new = 1; l = (l->next == *lst) ? NULL : l->next; }
  POST (*cnt == len, "inv.len counter == list length after the operation");
  POST (IMP (which == 0 || which == 2, len == n + 1 && has_new), "inv.add the new link is in the list, length +1");
  POST (IMP (which == 1 || which == 3, len == n - 1 && !has_pick && G.free_link == 1), "inv.remove the element is gone, length -1, its link released");
  POST ((which < 2 ? data.n_services_owned : data.n_match_rules) == 0, "inv.frame the other counter untouched");
  if (which == 0 && n == 3) REACH ("add-to-3"); if (which == 1 && n == 1) REACH ("remove-last"); if (which == 3 && n == 3) REACH ("remove-from-3"); if (which == 2 && n == 0) REACH ("add-to-empty");
#elif VERIF_OP == 4
  in_k = nondet_int (); in_was_complete = nondet_bool ();
  __CPROVER_assume (in_k >= 0 && in_k <= 3 && data.n_match_rules >= 0);
  data.n_services_owned = in_k;                                            /* B: at most 3 owned names */
  data.name = in_was_complete ? name_copy : NULL; data.policy = in_was_complete ? POL : NULL;
  data.pending_unix_fds_timeout = NULL; data.link_in_monitors = NULL;
  /* I: this connection is counted where its link is; a completed connection of a unix user is counted for that user */
  __CPROVER_assume (in_was_complete ? (c0 >= 1 && IMP (in_has_uid, in_uid_count >= 1)) : i0 >= 1);
  int rules0 = data.n_match_rules;
  bus_connection_disconnected (CONN);
  POST (D.remove_ok == in_k && D.txn_exec == in_k && D.txn_cancel == D.remove_fail && data.n_services_owned == 0, "disc.post1 every owned name released, one executed transaction each; a failed attempt is cancelled and retried");
  POST (D.mm_disc == (rules0 > 0 ? 1 : 0), "disc.post2 match rules dropped iff the connection had any");
  POST (IMP (in_was_complete, conns.n_completed == c0 - 1 && conns.n_incomplete == i0 && D.rm_link_completed == 1 && D.rm_link_incomplete == 0), "disc.post3 completed connection: n_completed -1, unlinked from the completed list");
  POST (IMP (in_was_complete, g_uid_count == in_uid_count - (in_has_uid ? 1 : 0)), "disc.post4 completed connection: this user's count -1 iff the peer has a unix user");
  POST (IMP (!in_was_complete, conns.n_incomplete == i0 - 1 && conns.n_completed == c0 && D.rm_link_incomplete == 1 && D.rm_link_completed == 0 && g_uid_count == in_uid_count), "disc.post5 incomplete connection: n_incomplete -1 only");
  POST (IMP (!in_was_complete, G.watches == 1 && G.n_incomplete_at_watches == i0 - 1) && IMP (in_was_complete, G.watches == 0), "disc.post6 accept gate re-evaluated after an incomplete connection left");
  POST (conns.n_completed >= 0 && conns.n_incomplete >= 0 && g_uid_count >= 0, "disc.post7 no counter negative");
  POST (D.drop_replies == 1 && D.set_data == 1 && D.unref == 1 && data.link_in_connection_list == NULL, "disc.post8 pending replies dropped, data slot cleared, reference released - once");
  if (in_was_complete && in_k == 3) REACH ("complete-3-names"); if (!in_was_complete) REACH ("incomplete"); if (D.remove_fail == 1) REACH ("oom-retried"); if (in_was_complete && in_has_uid) REACH ("uid-decremented");
#else
  int which = nondet_int (); int m0 = data.n_match_rules, s0 = data.n_services_owned;
  __CPROVER_assume (which >= 0 && which < 4 && m0 >= 0 && s0 >= 0);
  if (which == 0) { __CPROVER_assume (m0 < INT_MAX); bus_connection_add_match_rule_link (CONN, &the_link);
      POST (data.n_match_rules == m0 + 1 && data.n_services_owned == s0 && G.append_link == 1, "cnt.add_rule n_match_rules +1 exactly, link appended once"); REACH ("add-rule"); }
  else if (which == 1) { __CPROVER_assume (m0 >= 1);                                  /* I: n_match_rules == length(match_rules), rule is in it */
      bus_connection_remove_match_rule (CONN, (BusMatchRule *) &c_rule);
      POST (data.n_match_rules == m0 - 1 && data.n_match_rules >= 0 && data.n_services_owned == s0 && G.remove_last == 1, "cnt.remove_rule n_match_rules -1 exactly, never negative"); REACH ("remove-rule"); }
  else if (which == 2) { __CPROVER_assume (s0 < INT_MAX); bus_connection_add_owned_service_link (CONN, &the_link);
      POST (data.n_services_owned == s0 + 1 && data.n_match_rules == m0 && G.append_link == 1, "cnt.add_name n_services_owned +1 exactly, link appended once"); REACH ("add-name"); }
  else { __CPROVER_assume (s0 >= 1);
      bus_connection_remove_owned_service (CONN, (BusService *) &c_svc);
      POST (data.n_services_owned == s0 - 1 && data.n_services_owned >= 0 && data.n_match_rules == m0 && G.remove_last == 1, "cnt.remove_name n_services_owned -1 exactly, never negative"); REACH ("remove-name"); }
  POST (conns.n_completed == c0 && conns.n_incomplete == i0, "cnt.frame connection counters untouched");
#endif
}
