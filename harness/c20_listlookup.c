/* C20 (P-stub, loop-free; independent of the lexical renaming of c20_common.h): how _dbus_object_tree_list_registered_unlocked
 * (dbus/dbus-object-tree.c) resolves the parent path.  Property C20 "the child listing reflects exactly the registered tree": a path
 * that is not a node of the tree has no children.  find_subtree_recurse is the lookup for both purposes; it resolves a missing path
 * to the nearest FALLBACK ancestor only when it is given an exact_match out-parameter (the dispatch lookup: C20.find).  Contract of
 * the listing: exactly one lookup, from the root, of exactly the given path, without creating nodes, and in the EXACT mode
 * (exact_match == NULL); no node found => an empty listing. */
#include <config.h>
#include "dbus/dbus-internals.h"
#include "verif_prelude.h"
#include <stdlib.h>
#include VERIF_TU
_Bool nondet_bool (void);
#define PRE(c, what) __CPROVER_assert((c), "precondition of " what)
#define IMP(a,b) (!(a) || (b))
#define REACH(tag) __CPROVER_assert(0, "REACH:" tag)
void _dbus_real_assert (dbus_bool_t c, const char *t, const char *f, int l, const char *fn) { __CPROVER_assert (c, "dbus internal assertion"); __CPROVER_assume (c); }
void _dbus_verbose_real (const char *file, const int line, const char *function, const char *format, ...) { }
static DBusObjectTree T; static DBusObjectSubtree root, node; static const char *path[] = { "a", NULL };
static struct { int lookups, exact, from_root, right_path, no_create; _Bool found; } G;
DBusObjectSubtree *verif_stub_fsr (DBusObjectSubtree *subtree, const char **p, dbus_bool_t create_if_not_found, int *index_in_parent, dbus_bool_t *exact_match)
{ G.lookups++; G.exact = (exact_match == NULL); G.from_root = (subtree == &root); G.right_path = (p == path); G.no_create = !create_if_not_found;
  if (exact_match) *exact_match = nondet_bool ();
  return G.found ? &node : NULL; }
void *dbus_malloc0 (size_t n) { return nondet_bool () ? NULL : calloc (1, n); }
void harness (void)
{
  char **out = (char **) 1; T.root = &root; node.n_subtrees = 0; node.subtrees = NULL; G.found = nondet_bool ();
  dbus_bool_t r = _dbus_object_tree_list_registered_unlocked (&T, path, &out);
  __CPROVER_assert (G.lookups == 1 && G.from_root && G.right_path && G.no_create, "listlk.post1 one lookup of exactly the given path, from the root, creating nothing");
  __CPROVER_assert (G.exact, "listlk.post2 the parent path is resolved by the EXACT lookup (no fallback resolution): a path that is not a node of the tree has no children");
  __CPROVER_assert (IMP (r, out != NULL && out[0] == NULL), "listlk.post3 no node / no children => an empty, NULL-terminated listing");
  __CPROVER_assert (IMP (!r, out == NULL), "listlk.post4 FALSE (out of memory) => nothing returned");
  if (r && !G.found) REACH ("path-not-in-tree"); if (r && G.found) REACH ("leaf-node"); if (!r) REACH ("oom");
}
