/* C15 / C14 (P-stub, loop-free): the UNIX_FD branch of dbus_message_iter_append_basic (dbus/dbus-message.c).
 * Property C15 "File descriptors attached to a message arrive ... in the number announced in the header ... every descriptor ... is closed
 * exactly once"; C14 "building ... a message ... reports out-of-memory, leaves ... message contents ... exactly as it was ... and succeeds
 * when retried".  Contract (ghost: dups made, closes made, the message's descriptor count):
 *   - success: exactly one duplicate of the caller's descriptor, stored at index old_n, the body gets the index old_n (UINT32 typed h),
 *     the count becomes old_n + 1 and the UNIX_FDS header field is set to old_n + 1;
 *   - failure BEFORE the body was written (array growth, dup, or writing the index): the message carries exactly the descriptors it
 *     carried before (count unchanged) and a duplicate already made is closed again: nothing leaks, nothing extra would be sent;
 *   - the caller's own descriptor is never closed. */
#include <config.h>
#include "dbus/dbus-internals.h"
#include "verif_prelude.h"
#include <string.h>
#include <stdlib.h>
#include VERIF_TU
#include "../stubs/c15_msg_stubs.c"
static DBusMessage M; static int slots[4]; static int the_fd = 7;
static struct { int expands, dups, dup_ret, closes, closed_fd, writes, write_ok, write_val, write_type, hdr_sets, hdr_val, hdr_ok, opens, closes_sig; } Q;
int *verif_stub_expand_fd_array (DBusMessage *m, unsigned n) { PRE (m == &M && n == 1, "expand_fd_array: room for one more"); Q.expands++; if (nondet_bool ()) return NULL; return &slots[M.n_unix_fds]; }
int _dbus_dup (int fd, DBusError *e) { PRE (fd == the_fd, "_dbus_dup: the caller's descriptor"); if (nondet_bool ()) return -1; Q.dups++; Q.dup_ret = 100; return 100; }
dbus_bool_t _dbus_close (int fd, DBusError *e) { Q.closes++; Q.closed_fd = fd; return 1; }
dbus_bool_t _dbus_type_writer_write_basic (DBusTypeWriter *w, int type, const void *value) { Q.writes++; Q.write_type = type; Q.write_val = (int) *(const dbus_uint32_t *) value; Q.write_ok = nondet_bool (); return Q.write_ok; }
dbus_bool_t verif_stub_set_field_basic (DBusHeader *h, int field, int type, const void *value) { PRE (h == &M.header && field == DBUS_HEADER_FIELD_UNIX_FDS && type == DBUS_TYPE_UINT32, "_dbus_header_set_field_basic: the UNIX_FDS count"); Q.hdr_sets++; Q.hdr_val = (int) *(const dbus_uint32_t *) value; Q.hdr_ok = nondet_bool (); return Q.hdr_ok; }
dbus_bool_t verif_stub_open_signature (DBusMessageRealIter *r) { if (nondet_bool ()) return 0; Q.opens++; return 1; }
dbus_bool_t verif_stub_close_signature (DBusMessageRealIter *r) { Q.closes_sig++; return nondet_bool (); }
dbus_bool_t verif_stub_iter_check (DBusMessageRealIter *r) { return 1; }
dbus_bool_t dbus_type_is_basic (int t) { return 1; }
int _dbus_string_get_length (const DBusString *s) { int r = nondet_int (); __CPROVER_assume (r >= 0 && r <= 0x8000000); return r; }
void harness (void)
{
  DBusMessageIter it; DBusMessageRealIter *real = (DBusMessageRealIter *) &it; unsigned n0 = nondet_unsigned (); __CPROVER_assume (n0 <= 3);
  M.n_unix_fds = n0; M.unix_fds = slots; M.locked = 0; real->message = &M; real->iter_type = DBUS_MESSAGE_ITER_TYPE_WRITER; real->changed_stamp = M.changed_stamp;
  dbus_bool_t r = dbus_message_iter_append_basic (&it, DBUS_TYPE_UNIX_FD, &the_fd);
  __CPROVER_assert (Q.dups <= 1 && (Q.closes == 0 || Q.closed_fd != the_fd), "appfd.post1 at most one duplicate is made; the caller's own descriptor is never closed");
  __CPROVER_assert (IMP (Q.writes == 1, Q.write_type == DBUS_TYPE_UNIX_FD && Q.write_val == (int) n0 && Q.dups == 1), "appfd.post2 the body gets the index of the new descriptor (the old count), after the duplicate exists");
  if (Q.writes == 1 && Q.write_ok)
    { __CPROVER_assert (M.n_unix_fds == n0 + 1 && slots[n0] == Q.dup_ret && Q.closes == 0, "appfd.post3 once the index is in the body the message owns the duplicate: count + 1, stored at the old count");
      __CPROVER_assert (Q.hdr_sets == 1 && Q.hdr_val == (int) n0 + 1, "appfd.post4 the UNIX_FDS header field is set to the new count");
      if (r) REACH ("appended"); }
  else
    { __CPROVER_assert (!r, "appfd.post5 FALSE when the value could not be written");
      __CPROVER_assert (M.n_unix_fds == n0, "appfd.post6 failure before the body was written: the message carries exactly the descriptors it carried before (a retry must not send one too many)");
      __CPROVER_assert (Q.closes == Q.dups && IMP (Q.closes == 1, Q.closed_fd == Q.dup_ret), "appfd.post7 failure before the body was written: a duplicate already made is closed again (nothing leaks)");
      if (Q.dups == 1) REACH ("oom-writing-the-index"); if (Q.expands == 1 && Q.dups == 0) REACH ("failed-before-dup"); }
}
