/* Shared by the C09 harnesses: the real bus/connection.c and bus/expirelist.c (both #included, pristine) on the real
 * dbus/dbus-list.c; pending-reply list of <= 3 entries built by the harness through bus_expire_list_add_link.
 * Allocation: dbus_malloc, dbus_malloc0 and the mempool are bound to CBMC's malloc/calloc/free, so with --malloc-may-fail --malloc-fail-null
 * every allocation of the code under test may fail independently.
 * Everything else the functions call is a contract written as a stub over the ghost record below. */
#include <config.h>
#include "dbus/dbus-internals.h"
#include "verif_prelude.h"
#include <stdlib.h>
#include VERIF_TU            /* bus/connection.c */
#include VERIF_TU2           /* bus/expirelist.c */
#include "dbus/dbus-mempool.h"

#define REACH(tag) __CPROVER_assert(0, "REACH:" tag)
#define IMP(a, b) (!(a) || (b))
#define PRE(c, what) __CPROVER_assert((c), "precondition of " what)
#define ERR_SET(e) ((e)->name != NULL)
_Bool nondet_bool (void); int nondet_int (void); unsigned nondet_uint (void); long nondet_long (void);
#ifndef VERIF_N
#define VERIF_N 3
#endif

const char bus_no_memory_message[] = "Memory allocation failure in message bus";
static int verif_name_is (const char *n, const char *lit) { if (n == NULL) return 0; for (int i = 0; i < 63; i++) { if (n[i] != lit[i]) return 0; if (n[i] == 0) return 1; } return 0; }
#define IS_ACCESS_DENIED(e) verif_name_is ((e)->name, "org.freedesktop.DBus.Error.AccessDenied")
#define IS_LIMITS_EXCEEDED(e) verif_name_is ((e)->name, "org.freedesktop.DBus.Error.LimitsExceeded")
#define IS_NO_MEMORY(e) verif_name_is ((e)->name, "org.freedesktop.DBus.Error.NoMemory")

/* ---- objects ---- */
static char o_conn[3], o_ctx, o_msg, o_timeout, o_loop, o_pool, o_txn;
#define CONN(i) ((DBusConnection *) &o_conn[i])
#define CTX ((BusContext *) &o_ctx)
#define MSG ((DBusMessage *) &o_msg)
#define TXN ((BusTransaction *) &o_txn)
static DBusConnection *pick_conn (void) { int k = nondet_int (); __CPROVER_assume (k >= 0 && k < 3); return CONN (k); }

/* ---- ghost ---- */
static _Bool g_no_reply; static dbus_uint32_t g_serial, g_reply_serial; static int g_limit;
static _Bool g_timeout_enabled; static int g_timeout_interval, g_timeout_restarts;
static long g_now_sec, g_now_usec;
static int g_hooks; static BusTransactionCancelFunction g_hook_fn; static void *g_hook_data; static DBusFreeFunction g_hook_free;
static int g_logs;

/* ---- allocation: CBMC's allocator (may fail under --malloc-may-fail) ---- */
void *dbus_malloc (size_t n) { return malloc (n); }
void *dbus_malloc0 (size_t n) { return calloc (1, n); }
void dbus_free (void *p) { free (p); }
dbus_bool_t _dbus_lock (DBusGlobalLock lock) { return TRUE; }
void _dbus_unlock (DBusGlobalLock lock) { }
/* mempool: "the documented semantics of a pool" (DESIGN 2, stubs table): zeroed elements of the size given at creation */
static int g_pool_elem;
DBusMemPool *_dbus_mem_pool_new (int element_size, dbus_bool_t zero_elements) { if (nondet_bool ()) return NULL; g_pool_elem = element_size; return (DBusMemPool *) &o_pool; }
void _dbus_mem_pool_free (DBusMemPool *pool) { }
void *_dbus_mem_pool_alloc (DBusMemPool *pool) { PRE (pool == (DBusMemPool *) &o_pool && g_pool_elem == sizeof (DBusList), "_dbus_mem_pool_alloc"); return calloc (1, sizeof (DBusList)); }
dbus_bool_t _dbus_mem_pool_dealloc (DBusMemPool *pool, void *element) { free (element); return FALSE; }

/* ---- contracts as stubs ---- */
dbus_bool_t dbus_message_get_no_reply (DBusMessage *m) { PRE (m == MSG, "dbus_message_get_no_reply"); return g_no_reply; }
dbus_uint32_t dbus_message_get_serial (DBusMessage *m) { PRE (m == MSG, "dbus_message_get_serial"); return g_serial; }
dbus_uint32_t dbus_message_get_reply_serial (DBusMessage *m) { PRE (m == MSG, "dbus_message_get_reply_serial"); return g_reply_serial; }
int bus_context_get_max_replies_per_connection (BusContext *c) { PRE (c == CTX, "bus_context_get_max_replies_per_connection"); return g_limit; }
void verif_stub_bus_context_log (BusContext *c, DBusSystemLogSeverity s, const char *fmt, ...) { g_logs++; }
const char *verif_stub_bus_connection_get_name (DBusConnection *c) { return "n"; }
const char *verif_stub_bus_connection_get_loginfo (DBusConnection *c) { return "l"; }
void verif_stub_dbus_set_error (DBusError *e, const char *name, const char *format, ...)
{ PRE (name != NULL && (e == NULL || !ERR_SET (e)), "dbus_set_error: error not already set"); if (e) { e->name = name; e->message = "m"; } }
void dbus_set_error_const (DBusError *e, const char *name, const char *message)
{ PRE (name != NULL && (e == NULL || !ERR_SET (e)), "dbus_set_error_const: error not already set"); if (e) { e->name = name; e->message = message; } }
void _dbus_get_monotonic_time (long *sec, long *usec) { PRE (sec != NULL && usec != NULL, "_dbus_get_monotonic_time"); *sec = g_now_sec; *usec = g_now_usec; }
dbus_bool_t dbus_timeout_get_enabled (DBusTimeout *t) { PRE (t == (DBusTimeout *) &o_timeout, "dbus_timeout_get_enabled"); return g_timeout_enabled; }
void _dbus_timeout_restart (DBusTimeout *t, int interval) { PRE (t == (DBusTimeout *) &o_timeout && interval >= 0, "_dbus_timeout_restart"); g_timeout_enabled = 1; g_timeout_interval = interval; g_timeout_restarts++; }
void _dbus_timeout_disable (DBusTimeout *t) { PRE (t == (DBusTimeout *) &o_timeout, "_dbus_timeout_disable"); g_timeout_enabled = 0; }
/* contract of bus_transaction_add_cancel_hook (connection.c, doc: hooks run in reverse order on cancel, data freed by
 * free_data_function when the transaction ends): on success the triple is registered; on failure nothing is
 * registered and free_data_function is NOT called (the caller still owns data) */
dbus_bool_t verif_stub_add_cancel_hook (BusTransaction *t, BusTransactionCancelFunction f, void *data, DBusFreeFunction ff)
{ PRE (t == TXN && f != NULL, "bus_transaction_add_cancel_hook"); if (nondet_bool ()) return FALSE; g_hooks++; g_hook_fn = f; g_hook_data = data; g_hook_free = ff; return TRUE; }

/* ---- the world: BusConnections with a real expire list ---- */
static BusConnections CS; static BusExpireList XL;
static BusPendingReply *E[3]; static DBusList *LK[3];
static int n0;                                       /* number of entries before the call */
static DBusConnection *e_get[3], *e_send[3]; static dbus_uint32_t e_serial[3]; static long e_sec[3], e_usec[3];

static void build_world (void)
{
  XL.items = NULL; XL.timeout = (DBusTimeout *) &o_timeout; XL.loop = (DBusLoop *) &o_loop; XL.expire_func = bus_pending_reply_expired;
  XL.data = &CS; XL.expire_after = nondet_int ();
  CS.refcount = 1; CS.context = CTX; CS.pending_replies = &XL;
  g_timeout_enabled = nondet_bool (); g_now_sec = nondet_long (); g_now_usec = nondet_long ();
  __CPROVER_assume (g_now_sec > 0 && g_now_usec >= 0 && g_now_usec < 1000000);
  n0 = nondet_int (); __CPROVER_assume (n0 >= 0 && n0 <= VERIF_N);
  /* entry i is list position i (head first); bus_expire_list_add_link prepends, so add in reverse */
  for (int i = 2; i >= 0; i--) if (i < n0)
    {
      E[i] = malloc (sizeof (BusPendingReply)); LK[i] = malloc (sizeof (DBusList)); __CPROVER_assume (E[i] != NULL && LK[i] != NULL);
      e_get[i] = pick_conn (); e_send[i] = nondet_bool () ? pick_conn () : NULL;      /* will_send_reply == NULL: callee already gone */
      e_serial[i] = nondet_uint (); e_sec[i] = nondet_long (); e_usec[i] = nondet_long ();
      E[i]->will_get_reply = e_get[i]; E[i]->will_send_reply = e_send[i]; E[i]->reply_serial = e_serial[i];
      E[i]->expire_item.added_tv_sec = e_sec[i]; E[i]->expire_item.added_tv_usec = e_usec[i];
      LK[i]->data = E[i]; LK[i]->next = LK[i]->prev = NULL;
      bus_expire_list_add_link (&XL, LK[i]);
    }
  g_timeout_restarts = 0;
}
/* list invariant established by bus_connections_expect_reply (no two slots with the same (serial, caller, callee)) */
static int no_duplicates (void)
{
  for (int i = 0; i < 3; i++) for (int j = i + 1; j < 3; j++)
    if (j < n0 && e_serial[i] == e_serial[j] && e_get[i] == e_get[j] && e_send[i] == e_send[j]) return 0;
  return 1;
}
/* snapshot of the list as a sequence of entries (length capped at 5) */
static int snapshot (BusPendingReply **out)
{
  int m = 0; DBusList *l = XL.items;
  for (int i = 0; i < 5; i++) if (l != NULL)
    { out[m++] = l->data; l = (l->next == XL.items) ? NULL : l->next; }
  return l == NULL ? m : 99;
}
static int entry_intact (int i)
{ return E[i]->will_get_reply == e_get[i] && E[i]->will_send_reply == e_send[i] && E[i]->reply_serial == e_serial[i]
         && E[i]->expire_item.added_tv_sec == e_sec[i] && E[i]->expire_item.added_tv_usec == e_usec[i]; }
/* the list is exactly the original one (same entries, same order, same contents) */
static int list_unchanged (void)
{
  BusPendingReply *s[5]; int m = snapshot (s);
  if (m != n0) return 0;
  for (int i = 0; i < 3; i++) if (i < n0 && (s[i] != E[i] || !entry_intact (i))) return 0;
  return 1;
}
static int find_triple (dbus_uint32_t serial, DBusConnection *get, DBusConnection *send)
{ for (int i = 0; i < 3; i++) if (i < n0 && e_serial[i] == serial && e_get[i] == get && e_send[i] == send) return i; return -1; }
