/* C10 / C11 — _dbus_transport_queue_messages (dbus/dbus-transport.c, REAL code), hybrid route: the while loop is closed by a
 * CBMC loop contract (contracts/c10_transport.ovl), the callees are contracts written as stubs.
 *
 * Oracle: doc comment ("Processes data we've read ... converting some of it to messages and queueing those messages on the
 * connection. @returns TRUE if we had enough memory to queue all messages"); property C10 ("A client that sends an invalid
 * message is disconnected" — mechanism "corrupt stream leads to disconnect of that transport only"); property C11
 * ("Messages complete before the first invalid one are all delivered, and no message is produced after corruption").
 *
 *  ensures  every link popped from the loader is passed, before anything else is popped, either to
 *           _dbus_connection_queue_received_message_link of THIS transport's connection (after its size was added to THIS
 *           transport's live_messages counter and the live_messages_changed hook ran), or back to the loader
 *           (_dbus_message_loader_putback_message_link) when the counter could not be added  ==> messages reach the
 *           connection in loader order, each exactly once, none is lost
 *  ensures  _dbus_message_loader_get_is_corrupted at the end  <=>  _dbus_transport_disconnect is called, exactly once, on THIS
 *           transport, after the last message was queued (nothing is queued after it)
 *  ensures  result == FALSE  <=>  out of memory (dispatch status NEED_MEMORY, or the counter could not be added); corruption
 *           alone never yields FALSE
 *  ensures  counter failure => the link is put back, nothing further is popped
 */
#include <config.h>
#include "dbus/dbus-internals.h"
#include "verif_prelude.h"
#include "verif_ghost.h"
#include "dbus/dbus-list.h"
_Bool nondet_bool (void); int nondet_int (void); unsigned long nondet_ulong (void);
#define PRE(c, what) __CPROVER_assert ((c), "precondition of " what)
#define POST(c, what) __CPROVER_assert ((c), what)
#ifndef IMP
#define IMP(a, b) (!(a) || (b))
#endif
#define REACH(tag) __CPROVER_assert (0, "REACH:" tag)
struct c10_queue_ghost {
  unsigned long loader_msgs;      /* framed messages waiting in the loader */
  _Bool corrupted;                /* loader corruption flag (sticky: C11.F3) */
  unsigned long popped, queued, putbacks, lmc, disconnects;
  _Bool outstanding;              /* a popped link has not yet been queued or put back */
  _Bool counted;                  /* ... and its size was added to the live-messages counter */
  _Bool bad;                      /* protocol violation seen by a callee contract (also asserted there) */
  _Bool oom;                      /* a callee reported lack of memory */
  _Bool wrong_disconnect;
};
struct c10_queue_ghost GQ;
_Bool g_has_hook, g_was_corrupt;  /* constants of the call (not assigned inside the loop) */
DBusList g_link;                  /* the link in flight (at most one at a time) */
#include VERIF_TU
long verif_gk, verif_gk2, verif_w, verif_w2; int verif_flag;
void _dbus_real_assert (dbus_bool_t condition, const char *condition_text, const char *file, int line, const char *func)
{ __CPROVER_assert (condition, "dbus assertion (inline helper)"); __CPROVER_assume (condition); }

static DBusTransport T, OTHER;
static char o_conn, o_loader, o_counter, o_msg;

/* CONTRACT _dbus_transport_get_dispatch_status (C08.dispatch_status + C11.F3): may frame further messages unless the loader is
 * corrupted, may find corruption (sticky), may lack memory; DATA_REMAINS only if a framed message waits in the loader;
 * COMPLETE also when the live-messages limit is reached ("complete for now") */
DBusDispatchStatus verif_stub_get_dispatch_status (DBusTransport *transport)
{
  PRE (transport == &T, "_dbus_transport_get_dispatch_status: this transport");
  PRE (!GQ.outstanding, "_dbus_transport_get_dispatch_status: no popped link in flight (each link is queued or put back before the next step)");
  if (!GQ.corrupted)
    {
      if (nondet_bool ()) { unsigned long more = nondet_ulong (); __CPROVER_assume (more <= 0x10000000UL && GQ.loader_msgs <= 0x10000000UL); GQ.loader_msgs += more; }
      if (nondet_bool ()) GQ.corrupted = 1;
    }
  if (nondet_bool ()) { GQ.oom = 1; return DBUS_DISPATCH_NEED_MEMORY; }
  if (nondet_bool ()) return DBUS_DISPATCH_COMPLETE;
  return GQ.loader_msgs > 0 ? DBUS_DISPATCH_DATA_REMAINS : DBUS_DISPATCH_COMPLETE;
}
/* "Pops a loaded message inside a list link (passing ownership of the message and link to the caller). Returns NULL if no messages have been loaded." */
DBusList *_dbus_message_loader_pop_message_link (DBusMessageLoader *loader)
{
  PRE (loader == (DBusMessageLoader *) &o_loader, "_dbus_message_loader_pop_message_link: this transport's loader");
  if (GQ.outstanding) GQ.bad = 1;
  PRE (!GQ.outstanding, "_dbus_message_loader_pop_message_link: the previous link was queued or put back");
  if (GQ.loader_msgs == 0) return NULL;
  GQ.loader_msgs--; GQ.popped++; GQ.outstanding = 1; GQ.counted = 0;
  g_link.data = &o_msg; g_link.next = g_link.prev = NULL;
  return &g_link;
}
/* "Returns a popped message link, used to undo a pop." */
void _dbus_message_loader_putback_message_link (DBusMessageLoader *loader, DBusList *link)
{
  PRE (loader == (DBusMessageLoader *) &o_loader && link == &g_link && GQ.outstanding && !GQ.counted, "_dbus_message_loader_putback_message_link: the link just popped, not counted");
  GQ.outstanding = 0; GQ.loader_msgs++; GQ.putbacks++;
}
dbus_bool_t _dbus_message_add_counter (DBusMessage *message, DBusCounter *counter)
{
  PRE (message == (DBusMessage *) &o_msg && GQ.outstanding && !GQ.counted, "_dbus_message_add_counter: the message of the link just popped, once");
  PRE (counter == (DBusCounter *) &o_counter, "_dbus_message_add_counter: this transport's live_messages counter");
  if (nondet_bool ()) { GQ.oom = 1; return FALSE; }
  GQ.counted = 1; return TRUE;
}
void verif_live_messages_changed (DBusTransport *transport)
{
  PRE (transport == &T && GQ.outstanding && GQ.counted, "live_messages_changed: after the counter was added, before the message is queued");
  GQ.lmc++;
}
/* "Adds a link + message to the incoming message queue" (appends: dbus-connection.c) */
void _dbus_connection_queue_received_message_link (DBusConnection *connection, DBusList *link)
{
  PRE (connection == (DBusConnection *) &o_conn, "_dbus_connection_queue_received_message_link: the connection of THIS transport");
  PRE (link == &g_link && link->data == &o_msg && GQ.outstanding && GQ.counted, "_dbus_connection_queue_received_message_link: the link just popped, counted, not yet queued");
  PRE (GQ.disconnects == 0, "_dbus_connection_queue_received_message_link: nothing is queued after the disconnect");
  if (!GQ.outstanding || link != &g_link) GQ.bad = 1;
  GQ.outstanding = 0; GQ.queued++;
}
dbus_bool_t _dbus_message_loader_get_is_corrupted (DBusMessageLoader *loader)
{ PRE (loader == (DBusMessageLoader *) &o_loader, "_dbus_message_loader_get_is_corrupted: this transport's loader"); return GQ.corrupted; }
/* CONTRACT _dbus_transport_disconnect (enforced by C10.disconnect): afterwards disconnected; only the first call has an effect */
void verif_stub_transport_disconnect (DBusTransport *transport)
{
  if (transport != &T) GQ.wrong_disconnect = 1;
  PRE (transport == &T, "_dbus_transport_disconnect: THIS transport and no other");
  GQ.disconnects++; transport->disconnected = TRUE;
}

static DBusTransportVTable VT;
void harness (void)
{
  /* hybrid route: every static object starts arbitrary -> reset all ghost state explicitly */
  GQ.loader_msgs = nondet_ulong (); __CPROVER_assume (GQ.loader_msgs <= 0x10000000UL);
  GQ.corrupted = nondet_bool (); g_was_corrupt = GQ.corrupted;
  GQ.popped = GQ.queued = GQ.putbacks = GQ.lmc = GQ.disconnects = 0; GQ.outstanding = GQ.counted = GQ.bad = GQ.oom = GQ.wrong_disconnect = 0;
  VT.finalize = NULL; VT.handle_watch = NULL; VT.disconnect = NULL; VT.connection_set = NULL; VT.do_iteration = NULL; VT.get_socket_fd = NULL;
  VT.live_messages_changed = verif_live_messages_changed;          /* the socket transport's hook; a NULL hook is the other vtable case */
  g_has_hook = nondet_bool (); if (!g_has_hook) VT.live_messages_changed = NULL;
  T.refcount = 1; T.vtable = &VT; T.connection = (DBusConnection *) &o_conn; T.loader = (DBusMessageLoader *) &o_loader; T.live_messages = (DBusCounter *) &o_counter;
  T.auth = NULL; T.credentials = NULL; T.disconnected = nondet_bool (); T.authenticated = nondet_bool ();
  OTHER = T; OTHER.disconnected = 0;
  _Bool disc0 = T.disconnected;
  dbus_bool_t ret = _dbus_transport_queue_messages (&T);
  POST (!GQ.bad && !GQ.outstanding && GQ.popped == GQ.queued + GQ.putbacks, "queue_messages: every popped link is queued on the connection or put back, one at a time (loader order kept, none lost or duplicated)");
  POST (IMP (g_has_hook, GQ.lmc == GQ.queued), "queue_messages: live_messages_changed runs once for every message queued");
  POST ((GQ.corrupted != 0) == (GQ.disconnects == 1) && GQ.disconnects <= 1, "queue_messages: loader corrupted <=> _dbus_transport_disconnect called, exactly once");
  POST (!GQ.wrong_disconnect && IMP (GQ.corrupted, T.disconnected) && !OTHER.disconnected, "queue_messages: it is THIS transport that is disconnected, no other");
  POST (IMP (!GQ.corrupted, T.disconnected == disc0), "queue_messages: no corruption => connection state untouched");
  POST ((ret == FALSE) == (GQ.oom != 0), "queue_messages: FALSE <=> out of memory (never for corruption alone)");
  POST (GQ.putbacks <= 1 && IMP (GQ.putbacks == 1, !ret), "queue_messages: a link is put back only when its counter could not be added, and then the call stops with FALSE");
  POST (IMP (g_was_corrupt, GQ.corrupted), "queue_messages: corruption is sticky");
  if (ret && GQ.queued >= 2) REACH ("queued-several"); if (GQ.corrupted && GQ.queued >= 1) REACH ("queued-then-corrupt-disconnect"); if (!ret && GQ.putbacks == 1) REACH ("counter-oom-putback");
  if (!ret && GQ.corrupted) REACH ("oom-and-corrupt"); if (ret && !GQ.corrupted && GQ.queued == 0) REACH ("nothing-to-do");
}
