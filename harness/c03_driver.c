/* C03 / C13 / C14 (T): Hello and the unique-name mint (bus/driver.c).
 *   harness_hello   : bus_driver_handle_hello          loop-free -> P (P-stub route, pristine TU)
 *   harness_welcome : bus_driver_send_welcome_message  loop-free -> P
 *   harness_owner_changed : bus_driver_send_service_owner_changed  loop-free -> P  (the broadcast NameOwnerChanged built by the bus)
 *   harness_mint    : create_unique_client_name        while(TRUE) loop closed by the loop contract of contracts/c03_driver.ovl
 *                     (route hybrid); the counters are static locals: every value admitted by their invariant is covered,
 *                     not only the first call.
 * Callees by contract: stubs/c03_stubs.c; predicates and oracle sentences: spec/bus_typestate.h. */
#include <config.h>
#include "dbus/dbus-internals.h"
#include "verif_prelude.h"
#include "verif_ghost.h"
#include "bus_typestate.h"
#include VERIF_TU
#include "../stubs/c03_stubs.c"

static char transaction_obj;
static struct ts_msg M;

static void any_conn (struct ts_conn *c, int i)
{ c->monitor = 0; c->connected = nondet_bool (); c->can_unix_fd = nondet_bool (); c->active = nondet_bool (); c->name = c->active ? ts_names[i] : NULL; }
/* the Hello call as bus_dispatch hands it to the driver: sanitized, stamped with what the sender is NOW */
static void hello_message (struct ts_conn *from)
{
  M.serial = nondet_uint (); __CPROVER_assume (M.serial != 0); M.reply_serial = 0; M.type = DBUS_MESSAGE_TYPE_METHOD_CALL;
  M.sender = from->active ? TS_SND_UNIQUE : TS_SND_INACTIVE; M.sender_of = from->active ? from : NULL; M.dest = TS_DST_BUS; M.dest_of = NULL;
  M.unknown_stripped = 1; M.container_cleared = 1; M.local_disconnected = 0; M.auto_start = nondet_bool (); M.no_reply = nondet_bool (); M.has_fds = 0; M.is_hello = 1;
  M.error_name = TS_ERR_NONE; M.in_reply_to = NULL; M.has_string_arg = 0; M.string_arg = NULL; M.n_string_args = 0; M.refs = 1;
}

/* ------------------------------------------------------------------------------------------------------------------ */
void harness_hello (void)
{
  ts_reset ();
  any_conn (&ts_conns[0], 0); any_conn (&ts_conns[1], 1); any_conn (&ts_conns[2], 2); any_conn (&ts_conns[3], 3);
  struct ts_conn *conn = &ts_conns[0];
  hello_message (conn);
  ts_transaction = &transaction_obj; ts_bus_connections = &transaction_obj;
  G.dispatched = &M; G.captures = 1; G.capture_ok = 1; G.captured_msg = &M; G.policy_checks = 1; G.policy_allowed = 1;   /* what bus_dispatch did before */
  DBusError err; err.name = NULL; err.message = NULL;
  _Bool was_active = conn->active; const char *name0 = conn->name; enum ts_sender snd0 = M.sender;

  dbus_bool_t ret = bus_driver_handle_hello ((DBusConnection *) conn, (BusTransaction *) ts_transaction, (DBusMessage *) &M, &err);

  __CPROVER_assert (ret == 0 || ret == 1, "post.bool");
  __CPROVER_assert (IMP (!ret, err.name != NULL) && IMP (ret, err.name == NULL), "post.error-iff-false");
  /* S: "Each connection has at least one name, assigned at connection time"; "A connection has exactly one bus name that is a unique connection name.
   *     The unique connection name remains with the connection for its entire lifetime."  => a second Hello must not mint or assign anything */
  __CPROVER_assert (IMP (was_active, !ret && ts_errkind (err.name) == TS_ERR_FAILED && G.limit_checks + G.minted + G.completes + G.welcomes + G.ensures + G.set_sender_calls == 0 &&
                                     conn->name == name0 && conn->active && M.sender == snd0 && ts_str_inits == 0),
                    "post.C03.hello-once: a second Hello is refused with an error and changes nothing: no name minted, none assigned, no welcome");
  __CPROVER_assert (G.limit_checks <= 1 && G.minted <= 1 && G.completes <= 1 && G.welcomes <= 1 && G.ensures <= 1, "post.C03.each-once: each step of Hello at most once");
  __CPROVER_assert (IMP (G.minted == 1, G.limit_checks == 1) && IMP (G.completes == 1, G.minted == 1) && IMP (G.welcomes == 1, conn->completed == 1) && IMP (G.ensures == 1, G.welcomes == 1),
                    "post.C13.order: limits -> mint -> complete -> welcome -> register");
  __CPROVER_assert (IMP (ret, !was_active && G.limit_checks == 1 && G.minted == 1 && conn->completed == 1 && G.welcomes == 1 && G.ensures == 1 && conn->active && conn->name != NULL),
                    "post.C03.hello-complete: success => limits passed, one name minted, connection completed with it, welcome staged, name registered");
  __CPROVER_assert (IMP (ret, M.sender == TS_SND_UNIQUE && M.sender_of == conn), "post.C03.restamped: the Hello message itself now carries the new unique name as sender (so the reply is addressed to it)");
  __CPROVER_assert (IMP (M.sender != snd0, M.sender == TS_SND_UNIQUE && M.sender_of == conn && conn->completed == 1), "post.C03.only-own-name: the only sender ever written is the connection's own new unique name");
  __CPROVER_assert (ts_str_frees == ts_str_inits && ts_str_inits <= 1, "post.string: the name buffer is released on every path");
  __CPROVER_assert (ts_conns[1].completed + ts_conns[2].completed + ts_conns[3].completed == 0 && ts_conns[1].active == (ts_conns[1].name != NULL), "post.frame: no other connection is completed");
#ifdef C03_HELLO_ATOMIC
  /* C14: "In the bus either every effect of a request (state change, signals, reply) takes place or none does and the caller receives a NoMemory error." */
  __CPROVER_assert (IMP (!ret && !was_active, !conn->active && conn->name == NULL && conn->completed == 0), "post.C14.hello-atomic: a failed Hello leaves the connection without a unique name (it can retry)");
#endif
  if (ret) REACH ("hello-ok");
  if (was_active) REACH ("second-hello-refused");
  if (!ret && G.limit_checks == 1 && G.minted == 0 && ts_str_inits == 0 && ts_errkind (err.name) == TS_ERR_LIMITS_EXCEEDED) REACH ("limit-refused");
  if (!ret && conn->completed == 1 && G.welcomes == 0) REACH ("oom-restamping");
  if (!ret && G.welcomes == 1 && G.ensures == 0) REACH ("welcome-failed");
  if (!ret && G.ensures == 1) REACH ("register-failed");
  if (!ret && G.minted == 0 && ts_str_inits == 1) REACH ("mint-oom");
}

/* ------------------------------------------------------------------------------------------------------------------ */
void harness_welcome (void)
{
  ts_reset ();
  any_conn (&ts_conns[0], 0); any_conn (&ts_conns[1], 1); any_conn (&ts_conns[2], 2); any_conn (&ts_conns[3], 3);
  struct ts_conn *conn = &ts_conns[0];
  conn->active = 1; conn->name = ts_names[0];                /* precondition: bus_connection_complete succeeded */
  hello_message (conn);
  ts_transaction = &transaction_obj;
  DBusError err; err.name = NULL; err.message = NULL;

  dbus_bool_t ret = bus_driver_send_welcome_message ((DBusConnection *) conn, (DBusMessage *) &M, (BusTransaction *) ts_transaction, &err);

  struct ts_msg *w = &ts_new_msgs[0];
  __CPROVER_assert (ret == 0 || ret == 1, "post.bool");
  __CPROVER_assert (IMP (!ret, err.name != NULL && ts_errkind (err.name) == TS_ERR_NO_MEMORY) && IMP (ret, err.name == NULL), "post.C14.false-is-oom");
  __CPROVER_assert (ts_new_msgs_used <= 1 && G.from_driver <= 1, "post.one-reply");
  /* S (Hello): reply argument 0, STRING: "Unique name assigned to the connection" */
  __CPROVER_assert (IMP (G.from_driver == 1, G.from_driver_msg == w && G.from_driver_to == conn && w->type == DBUS_MESSAGE_TYPE_METHOD_RETURN && w->in_reply_to == &M && w->reply_serial == M.serial &&
                                            w->has_string_arg && w->n_string_args == 1 && w->string_arg == conn->name),
                    "post.C03.welcome-shape: the reply to Hello is a METHOD_RETURN to that call whose single STRING argument is the connection's unique name, sent through the driver's send path");
  __CPROVER_assert (IMP (ret, G.from_driver == 1), "post.C03.welcome-sent");
  __CPROVER_assert (IMP (ts_new_msgs_used == 1, w->refs == 0) && M.refs == 1, "post.unref: the reply built here is released exactly once");
  if (ret) REACH ("welcome-sent");
  if (!ret && ts_new_msgs_used == 0) REACH ("oom-building");
  if (!ret && ts_new_msgs_used == 1 && G.from_driver == 0) REACH ("oom-appending");
  if (!ret && G.from_driver == 1) REACH ("oom-sending");
}

/* ------------------------------------------------------------------------------------------------------------------ */
void harness_mint (void)
{
  ts_reset ();
  ts_lookup_fresh = 1;
  static DBusString name;
  name.dummy2 = nondet_int (); __CPROVER_assume (0 <= name.dummy2 && name.dummy2 <= 1000);   /* bus_driver_handle_hello passes a freshly initialised (empty) string */
  int len0 = name.dummy2;

  dbus_bool_t ret = create_unique_client_name ((BusRegistry *) &ts_registry_obj, &name);

  __CPROVER_assert (verif_mint_pre == 1, "post.entry: the entry ghost statement was executed");
  __CPROVER_assert (ret == 0 || ret == 1, "post.bool");
  /* S: "Unique connection names must begin with the character ':'" ; the text is ":" major "." minor */
  __CPROVER_assert (IMP (ret, verif_mint_tok_n == 4 && verif_mint_tok_colon && verif_mint_tok_dot && name.dummy2 >= len0 + 4), "post.C03.colon-name: the appended name is ':' INT '.' INT, starting with ':' at the old end of the string");
  /* S: "Unique names are never reused for two different connections to the same bus."  -- by strict monotonicity of the counter pair: */
  __CPROVER_assert (IMP (ret, TS_LEX_LE (verif_mint_major0, verif_mint_minor0, verif_mint_tok_major, verif_mint_tok_minor)), "post.C03.not-before: the minted pair is not below the counter at entry (every earlier name is strictly below the counter)");
  __CPROVER_assert (IMP (ret, TS_LEX_LT (verif_mint_tok_major, verif_mint_tok_minor, verif_mint_major1, verif_mint_minor1)), "post.C03.counter-past: the counter at exit is strictly above the minted pair, so no later call can mint it again");
  __CPROVER_assert (IMP (ret, verif_mint_tok_major > 0 && verif_mint_tok_minor >= 0 && VERIF_MINT_INV (verif_mint_major1, verif_mint_minor1) ), "post.C03.invariant: counter invariant re-established; major part positive");
  __CPROVER_assert (IMP (ret, verif_mint_last_lookup_null && verif_mint_iter_major == verif_mint_tok_major && verif_mint_iter_minor == verif_mint_tok_minor), "post.C03.not-registered: the minted name was looked up and is not registered now");
  if (ret && !verif_mint_retried) REACH ("minted-first-try");
  if (ret && verif_mint_retried) REACH ("minted-after-collision");
  if (!ret) REACH ("oom");
  if (ret && verif_mint_tok_minor == 0 && verif_mint_major0 > 0) REACH ("major-rollover");
  if (ret && verif_mint_major0 == 0) REACH ("very-first-name");
}

/* ------------------------------------------------------------------------------------------------------------------ */
void harness_owner_changed (void)
{
  ts_reset ();
  any_conn (&ts_conns[0], 0); any_conn (&ts_conns[1], 1); any_conn (&ts_conns[2], 2); any_conn (&ts_conns[3], 3);
  ts_transaction = &transaction_obj;
  DBusError err; err.name = NULL; err.message = NULL;
  const char *old_owner = nondet_bool () ? ts_name1 : NULL, *new_owner = nondet_bool () ? ts_name2 : NULL;

  dbus_bool_t ret = bus_driver_send_service_owner_changed (ts_s_other, old_owner, new_owner, (BusTransaction *) ts_transaction, &err);

  struct ts_msg *sig = &ts_new_msgs[0];
  __CPROVER_assert (ret == 0 || ret == 1, "post.bool");
  __CPROVER_assert (IMP (!ret, err.name != NULL) && IMP (ret, err.name == NULL), "post.error-iff-false");
  /* S: bus-originated messages carry sender org.freedesktop.DBus;  C18: captured once, before routing */
  __CPROVER_assert (IMP (G.captures + G.routed > 0, ts_new_msgs_used == 1 && TS_FROM_DRIVER (sig) && sig->type == DBUS_MESSAGE_TYPE_SIGNAL && sig->n_string_args == 3 && sig->string_arg == ts_s_other),
                    "post.C03.driver-signal: what is captured and routed is a signal from org.freedesktop.DBus with three string arguments, the first being the name");
  __CPROVER_assert (G.captures <= 1 && G.routed <= 1 && IMP (G.routed == 1, G.captures == 1 && G.capture_ok && G.captured_msg == sig && G.captured_sender == NULL && G.captured_addressed == NULL && G.routed_addressed == NULL),
                    "post.C18.capture-then-route: captured exactly once as a broadcast of the bus, then routed once as a broadcast");
  __CPROVER_assert (IMP (ret, G.routed == 1 && G.routed_ok), "post.routed");
  __CPROVER_assert (IMP (ts_new_msgs_used == 1, sig->refs == 0), "post.unref: the signal built here is released exactly once on every path");
  if (ret) REACH ("broadcast-routed");
  if (!ret && ts_new_msgs_used == 0) REACH ("oom-building");
  if (!ret && G.captures == 1 && G.routed == 0) REACH ("oom-capturing");
  if (!ret && G.routed == 1) REACH ("routing-failed");
}
