/* C02 / C01 (P-stub, loop-free): dbus_message_iter_init and dbus_message_iter_init_append (dbus/dbus-message.c) with the real
 * _dbus_message_iter_init_common.  Property C02 "converting a message to the other byte order changes no value"; C01 "every ... body
 * value later read ... through the public ... iterator API equals what an independent decoding of the same bytes gives".  A message
 * received in the other byte order is converted in place (ensure_byte_order) when an iterator is opened; contract: the typed reader /
 * writer of the iterator is initialised with the byte order the message has AFTER that conversion (so that numbers are read in the
 * order they are now stored in), over the message's own body and signature. */
#include <config.h>
#include "dbus/dbus-internals.h"
#include "verif_prelude.h"
#include <string.h>
#include <stdlib.h>
#include VERIF_TU
#include "../stubs/c15_msg_stubs.c"
static DBusMessage M; static struct { int order; int conversions, reader_inits, writer_inits; int reader_order; const DBusString *reader_body, *reader_sig; int reader_pos; int writer_order; DBusString *writer_body; int order_reads_before_conversion; } Q;
static DBusString the_sig;
char verif_stub_header_get_byte_order (const DBusHeader *h) { PRE (h == &M.header, "_dbus_header_get_byte_order: this message"); return Q.order; }
void verif_stub_ensure_byte_order (DBusMessage *m) { PRE (m == &M, "ensure_byte_order: this message"); if (Q.order != DBUS_COMPILER_BYTE_ORDER) { Q.order = DBUS_COMPILER_BYTE_ORDER; Q.conversions++; } }
void verif_stub_get_const_signature (DBusHeader *h, const DBusString **type_str_p, int *type_pos_p) { PRE (h == &M.header, "get_const_signature: this message"); *type_str_p = &the_sig; *type_pos_p = 3; }
void _dbus_type_reader_init (DBusTypeReader *r, int byte_order, const DBusString *type_str, int type_pos, const DBusString *value_str, int value_pos)
{ Q.reader_inits++; Q.reader_order = byte_order; Q.reader_sig = type_str; Q.reader_pos = type_pos; Q.reader_body = value_str; PRE (value_pos == 0, "_dbus_type_reader_init: from the start of the body"); }
int _dbus_type_reader_get_current_type (const DBusTypeReader *r) { return nondet_bool () ? DBUS_TYPE_INVALID : DBUS_TYPE_INT32; }
void _dbus_type_writer_init_types_delayed (DBusTypeWriter *w, int byte_order, DBusString *value_str, int value_pos) { Q.writer_inits++; Q.writer_order = byte_order; Q.writer_body = value_str; }
int _dbus_string_get_length (const DBusString *s) { int r = nondet_int (); __CPROVER_assume (r >= 0 && r <= 0x8000000); return r; }
void harness (void)
{
  DBusMessageIter it; Q.order = nondet_bool () ? DBUS_LITTLE_ENDIAN : DBUS_BIG_ENDIAN; int order0 = Q.order; M.locked = 0; M.generation = _dbus_current_generation;
  if (nondet_bool ())
    {
      dbus_message_iter_init (&M, &it);
      __CPROVER_assert (Q.reader_inits == 1 && Q.reader_body == &M.body && Q.reader_sig == &the_sig && Q.reader_pos == 3, "iinit.post1 the reader walks this message's body with this message's signature");
      __CPROVER_assert (Q.reader_order == DBUS_COMPILER_BYTE_ORDER && Q.reader_order == Q.order, "iinit.post2 the reader uses the byte order the message has AFTER it was converted to native order, not the order it arrived in");
      if (order0 != DBUS_COMPILER_BYTE_ORDER) REACH ("read-foreign-order-message"); else REACH ("read-native");
    }
  else
    {
      dbus_message_iter_init_append (&M, &it);
      __CPROVER_assert (Q.writer_inits == 1 && Q.writer_body == &M.body && Q.writer_order == Q.order && Q.writer_order == DBUS_COMPILER_BYTE_ORDER, "iinit.post3 the writer appends to this message's body in the byte order the message has after conversion");
      REACH ("append");
    }
  __CPROVER_assert (Q.conversions == (order0 != DBUS_COMPILER_BYTE_ORDER ? 1 : 0), "iinit.post4 a foreign-order message is converted exactly once when an iterator is opened");
}
