/* C02 (P-stub; the only loop is over the constant number of header fields): _dbus_header_copy (dbus/dbus-marshal-header.c).
 * Property C02 "copying a message yields an equal message with serial zero".  Contract: TRUE => the copy has its own data string holding
 * the same bytes (copied from the source, the string primitives' contracts), the same byte order and padding, the SAME cached
 * position for EVERY header field 0 .. DBUS_HEADER_FIELD_LAST (the cache is part of how every later getter and editor finds a
 * field), and its serial is set to 0, once, on the copy; the source header is not modified; FALSE => the copy's string is released. */
#include <config.h>
#include "dbus/dbus-internals.h"
#include "verif_prelude.h"
#include VERIF_TU
_Bool nondet_bool (void); int nondet_int (void);
#define PRE(c, what) __CPROVER_assert((c), "precondition of " what)
#define IMP(a,b) (!(a) || (b))
#define REACH(tag) __CPROVER_assert(0, "REACH:" tag)
void _dbus_real_assert (dbus_bool_t c, const char *t, const char *f, int l, const char *fn) { __CPROVER_assert (c, "dbus internal assertion"); __CPROVER_assume (c); }
void _dbus_verbose_real (const char *file, const int line, const char *function, const char *format, ...) { }
static DBusHeader S, D; static struct { int inits, copies, frees, serial_sets; dbus_uint32_t serial_to; int src_len; } G;
int verif_stub_get_length (const DBusString *s) { PRE (s == &S.data, "_dbus_string_get_length: the source data"); return G.src_len; }
dbus_bool_t verif_stub_init_preallocated (DBusString *s, int n) { PRE (s == &D.data && n == G.src_len, "_dbus_string_init_preallocated: the copy's own string, sized for the source"); if (nondet_bool ()) return 0; G.inits++; return 1; }
dbus_bool_t verif_stub_string_copy (const DBusString *src, int start, DBusString *dst, int at) { PRE (src == &S.data && start == 0 && dst == &D.data && at == 0 && G.inits == 1, "_dbus_string_copy: whole source into the fresh string"); if (nondet_bool ()) return 0; G.copies++; return 1; }
void verif_stub_string_free (DBusString *s) { PRE (s == &D.data && G.inits == 1, "_dbus_string_free: the copy's string"); G.frees++; }
void verif_stub_set_serial (DBusHeader *h, dbus_uint32_t serial) { PRE (h == &D && G.copies == 1, "_dbus_header_set_serial: on the copy, after its bytes are in place"); G.serial_sets++; G.serial_to = serial; }
void harness (void)
{
  int i; DBusHeaderField f0[DBUS_HEADER_FIELD_LAST + 1];
  for (i = 0; i <= DBUS_HEADER_FIELD_LAST; i++) { S.fields[i].value_pos = nondet_int (); f0[i] = S.fields[i]; D.fields[i].value_pos = 0; }      /* dest as dbus_new0 leaves it */
  S.padding = nondet_int () & 7; S.byte_order = nondet_bool () ? DBUS_LITTLE_ENDIAN : DBUS_BIG_ENDIAN; D.padding = 0; D.byte_order = 0;
  G.src_len = nondet_int (); __CPROVER_assume (G.src_len >= 16 && G.src_len <= 0x8000000);
  int pad0 = S.padding, bo0 = S.byte_order;
  dbus_bool_t r = _dbus_header_copy (&S, &D);
  if (r)
    {
      __CPROVER_assert (G.inits == 1 && G.copies == 1 && G.frees == 0, "hcopy.post1 TRUE: the copy owns a fresh string holding the source's bytes");
      for (i = 0; i <= DBUS_HEADER_FIELD_LAST; i++) __CPROVER_assert (D.fields[i].value_pos == f0[i].value_pos, "hcopy.post2 TRUE: the cached position of EVERY header field (0 .. DBUS_HEADER_FIELD_LAST, inclusive) is the source's");
      __CPROVER_assert (D.padding == pad0 && D.byte_order == bo0, "hcopy.post3 TRUE: same padding and byte order");
      __CPROVER_assert (G.serial_sets == 1 && G.serial_to == 0, "hcopy.post4 TRUE: the copy's serial is reset to 0, once");
      REACH ("copied");
    }
  else
    { __CPROVER_assert (G.frees == G.inits && G.serial_sets == 0, "hcopy.post5 FALSE: the copy's string is released, nothing else done"); REACH ("oom"); }
  for (i = 0; i <= DBUS_HEADER_FIELD_LAST; i++) __CPROVER_assert (S.fields[i].value_pos == f0[i].value_pos, "hcopy.post6 the source header is not modified");
  __CPROVER_assert (S.padding == pad0 && S.byte_order == bo0, "hcopy.post6 the source header is not modified");
}
