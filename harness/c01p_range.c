/* C01.p.range.* (P, dfcc): the two string validators that validate_body_helper calls BEFORE it has checked the
 * terminating NUL -- _dbus_validate_path (OBJECT_PATH) and _dbus_string_validate_utf8 (STRING) -- stay inside
 * [start, start + len) of the string data.
 *
 * Why this unit exists: the C16 units enforce the validators' contracts under the DBusString invariant, i.e. with
 * len + 1 readable bytes and str[len] == 0.  validate_body_helper builds a constant string of claimed_len bytes at p
 * where only claimed_len <= end - p is known: the byte str[len] may be `end` itself.  The stubs used by C01.p.body
 * therefore require only [str, str + len) readable.  Here the real validators are proved memory-safe (CBMC pointer
 * checks, loop contracts of the C16 overlays) on a data object of EXACTLY len bytes without any terminator, and the
 * two facts the C01.p.body stubs assume about the result are enforced under that weaker precondition.
 */
#include "verif_str.h"
#include "dbus/dbus-marshal-validate.h"
long verif_gk, verif_gk2, verif_w, verif_w2; int verif_flag;
#ifdef VERIF_RANGE_UTF8
#define VERIF_FN _dbus_string_validate_utf8
#define VERIF_MINLEN 0
#else
#define VERIF_FN _dbus_validate_path
#define VERIF_MINLEN 1
#endif
dbus_bool_t VERIF_FN (const DBusString *str, int start, int len)
__CPROVER_requires(__CPROVER_is_fresh(str, sizeof(DBusString)))
__CPROVER_requires(STR_FIELDS_OK(str))
__CPROVER_requires(__CPROVER_is_fresh(REAL(str)->str, REAL(str)->len))          /* exactly len bytes: nothing readable at str[len] */
__CPROVER_requires(start >= 0 && len >= 0 && start <= REAL(str)->len)
__CPROVER_assigns(verif_w)
__CPROVER_ensures(__CPROVER_return_value == 0 || __CPROVER_return_value == 1)
__CPROVER_ensures(IMP(__CPROVER_return_value, len >= VERIF_MINLEN && len <= REAL(str)->len - start))
;
void harness (void)
{
  const DBusString *s; int start, len;
  dbus_bool_t r = VERIF_FN (s, start, len);
  if (r) REACH("accept"); else REACH("reject");
  if (r && len > 40) REACH("accept-long");
}
