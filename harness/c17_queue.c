/* C17.queue_received (T, loop-free): _dbus_connection_queue_received_message_link, real body, with the real
 * pending-call accessors.  Oracle: property C17 "completes ... with the reply whose reply-serial matches it ... a reply
 * is never paired with a different call"; the function's own comment "If this is a reply we're waiting on, remove
 * timeout for it".  The message's OWN serial and its REPLY serial are different ghost values.
 * Post: the link is appended to incoming_messages exactly once, n_incoming + 1; a pending call is looked up only under
 * the message's REPLY serial (never under its own serial), and not at all for reply serial 0; the timeout of the call
 * attached under that reply serial is removed (iff it had been added) and no other call is touched; nothing is
 * completed, detached or notified here. */
#include "c17_common.h"
#include "c17_model.h"
static DBusMessage *g_message; static dbus_uint32_t g_own_serial; static int g_appends; static DBusList *g_appended; static int g_own_serial_reads;
dbus_uint32_t dbus_message_get_serial (DBusMessage *m) { g_own_serial_reads++; return g_own_serial; }
dbus_bool_t _dbus_transport_peek_is_authenticated (DBusTransport *t) { return TRUE; }        /* precondition (its entry assertion) */
void _dbus_list_append_link (DBusList **list, DBusList *link) { PRE (list == &G.conn->incoming_messages, "_dbus_list_append_link: the incoming queue"); g_appends++; g_appended = link; }
void _dbus_message_trace_ref (DBusMessage *m, int a, int b, const char *why) { }
void harness (void)
{
  DBusConnection c; char tmo_a, tmo_b; DBusList link;
  c.have_connection_lock = 1; c.expired_messages = NULL; c.incoming_messages = NULL; c.refcount.value = 10; c.mutex = NULL; c.wakeup_main_function = NULL; c.transport = nondet_ptr ();
  c.n_incoming = nondet_int (); __CPROVER_assume (0 <= c.n_incoming && c.n_incoming < 1000000); int n0 = c.n_incoming;
  verif_c17_reset (&c); g_appends = 0; g_appended = NULL; g_own_serial_reads = 0;
  /* two outstanding calls A and B */
  dbus_uint32_t sa = nondet_uint (), sb = nondet_uint (); __CPROVER_assume (sa != 0 && sb != 0 && sa != sb);
  _Bool a_added = nondet_bool (), b_added = nondet_bool (), a_out = nondet_bool ();
  DBusPendingCall *A = verif_pc_alloc (), *B = verif_pc_alloc ();
  verif_pc_init (A, 2, verif_notify, &c, NULL, (DBusTimeout *) &tmo_a, NULL, sa, 0, a_added);
  verif_pc_init (B, 2, verif_notify, &c, NULL, (DBusTimeout *) &tmo_b, NULL, sb, 0, b_added);
  if (a_out) { G.present[0] = 1; G.key[0] = sa; G.val[0] = A; }
  G.present[1] = 1; G.key[1] = sb; G.val[1] = B;
  /* the arriving message: own serial and reply serial are independent */
  dbus_uint32_t rs = nondet_uint (); g_own_serial = nondet_uint (); __CPROVER_assume (g_own_serial != 0 && g_own_serial != rs);
  g_message = verif_new_msg (1, rs, nondet_bool () ? DBUS_MESSAGE_TYPE_METHOD_RETURN : DBUS_MESSAGE_TYPE_SIGNAL);
  link.data = g_message; link.next = link.prev = &link;

  _dbus_connection_queue_received_message_link (&c, &link);

  _Bool answers_a = a_out && rs == sa, answers_b = rs == sb;
  __CPROVER_assert (g_appends == 1 && g_appended == &link && c.n_incoming == n0 + 1, "post the link is appended to incoming_messages exactly once, n_incoming + 1");
  __CPROVER_assert (IMP (rs == 0, G.lookups == 0) && IMP (rs != 0, G.lookups == 1 && G.lookup_key == rs), "post pending calls are looked up under the message's REPLY serial only (none for reply serial 0)");
  __CPROVER_assert (IMP (G.lookups > 0, G.lookup_key != g_own_serial), "post the message's own serial is never used as the key");
  __CPROVER_assert (verif_pc_timeout_added (A) == (a_added && !answers_a) && verif_pc_timeout_added (B) == (b_added && !answers_b), "post exactly the answered call's timeout is disarmed; every other call keeps its timeout");
  __CPROVER_assert (G.timeout_removes == ((answers_a && a_added) || (answers_b && b_added) ? 1 : 0) && IMP (G.timeout_removes == 1, G.timeout_removed == (DBusTimeout *) (answers_a ? &tmo_a : &tmo_b)),
                    "post the connection's timeout list loses exactly the answered call's timeout, iff it had been added");
  __CPROVER_assert (G.removals == 0 && G.notified == 0 && G.completions == 0 && verif_attached (B) && verif_attached (A) == a_out && !verif_pc_completed (A) && !verif_pc_completed (B)
                    && verif_pc_refcount (A) == 2 && verif_pc_refcount (B) == 2, "post nothing is detached, completed or notified by queueing");
  if (answers_a && a_added) REACH ("reply-disarms"); if (rs == 0) REACH ("no-reply-serial"); if (rs != 0 && !answers_a && !answers_b) REACH ("unknown-reply-serial");
  if (g_own_serial == sb && !answers_b) REACH ("own-serial-collides");
}
