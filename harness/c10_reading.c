/* C10 — do_reading (dbus/dbus-transport-socket.c, REAL code, static reached by #include): byte / throttling / authentication
 * aspect.  (The descriptor aspect is unit C15.do_reading, the pure authentication guard is C08.io_guard.read.)
 *
 * Oracle: struct comment "max_bytes_read_per_iteration: To avoid blocking too long"; the comments in the function ("No
 * messages without authentication!", "Try reading more data until we get EAGAIN and return, or exceed max bytes per
 * iteration"); property C10, mechanism "bounded bytes per read iteration".
 *
 *  ensures  no socket read, no loader buffer and no framing unless _dbus_transport_try_to_authenticate answered TRUE
 *  ensures  every single socket read asks for at most max_bytes_read_per_iteration bytes, and (plain path) for at most the
 *           loader's hint max_to_read (lemma F4), into the loader's buffer while it is handed out; the buffer is handed back
 *           before anything is framed and at every exit
 *  ensures  no read is started on a disconnected transport or with the read watch disabled
 *  ensures  a read is started only while the bytes read so far in this call are <= max_bytes_read_per_iteration; so one call
 *           reads at most 2 * max_bytes_read_per_iteration bytes (the running sum may exceed the limit by one read; the name
 *           suggests "<= max", the code and its comment implement "stop once exceeded")
 *  ensures  EOF / hard error => do_io_error (disconnect) and return TRUE; ENOMEM, decode / fd-array / framing failure => FALSE;
 *           EAGAIN => TRUE; nothing else yields FALSE
 *
 * The loop is a backward `goto again`, which cannot carry a CBMC loop contract.
 *   VERIF_MODE 1 (kind P): closed by hand like a loop contract on the transport/loader state: the last callee before the back
 *      edge (_dbus_transport_queue_messages) asserts the invariant (buffer and fd array handed back) and cuts the path.  The
 *      callee contracts do not depend on the only local carried round the loop (`total`), so every property above except the
 *      running-sum one is proved for every iteration.
 *   VERIF_MODE 2 (kind B): the first VERIF_READS (3) reads of a call, `total` computed by the real code from arbitrary read
 *      sizes against an arbitrary limit: no read starts once the sum exceeds the limit.
 */
#include <config.h>
#include "dbus/dbus-internals.h"
#include "verif_prelude.h"
#include "verif_ghost.h"
_Bool nondet_bool (void); int nondet_int (void); unsigned nondet_unsigned (void);
#define PRE(c, what) __CPROVER_assert ((c), "precondition of " what)
#define POST(c, what) __CPROVER_assert ((c), what)
#ifndef IMP
#define IMP(a, b) (!(a) || (b))
#endif
#define REACH(tag) __CPROVER_assert (0, "REACH:" tag)
#ifndef VERIF_MODE
#define VERIF_MODE 1
#endif
#ifndef VERIF_DECODE
#define VERIF_DECODE 0
#endif
#ifndef VERIF_READS
#define VERIF_READS 3
#endif
#include VERIF_TU
void _dbus_real_assert (dbus_bool_t condition, const char *condition_text, const char *file, int line, const char *func)
{ __CPROVER_assert (condition, "dbus assertion (inline helper)"); __CPROVER_assume (condition); }

static DBusTransportSocket ST; static DBusTransport *const t = &ST.base;
static char o_conn, o_auth, o_loader, o_watch; static DBusString s_buf; static int loader_fds[4];
struct c10_read_ghost {
  _Bool authd, can_fd, dec, watch_on;       /* constants of the call */
  _Bool buf_out, fds_out;                   /* loader buffer / fd array handed out */
  int hint; _Bool hint_given;               /* max_to_read of the current get_buffer */
  int enc_len;                              /* length of encoded_incoming */
  long total;                               /* bytes read from the socket in this call */
  unsigned reads, frames, io_errors, iterations; _Bool oom; int last_ret, last_errno;
} GB;
#define IO(what) PRE (GB.authd, what ": message I/O only after _dbus_transport_try_to_authenticate said TRUE")

dbus_bool_t _dbus_transport_try_to_authenticate (DBusTransport *tr) { PRE (tr == t, "_dbus_transport_try_to_authenticate"); return GB.authd; }
void verif_stub_check_read_watch (DBusTransport *tr) { }
void verif_stub_do_io_error (DBusTransport *tr) { PRE (tr == t, "do_io_error: this transport"); GB.io_errors++; tr->disconnected = TRUE; }
dbus_bool_t dbus_watch_get_enabled (DBusWatch *w) { PRE (w == (DBusWatch *) &o_watch, "dbus_watch_get_enabled: the read watch"); return GB.watch_on; }
dbus_bool_t _dbus_auth_needs_decoding (DBusAuth *a) { IO ("_dbus_auth_needs_decoding"); return GB.dec; }
dbus_bool_t _dbus_auth_get_unix_fd_negotiated (DBusAuth *a) { return GB.can_fd; }
int _dbus_string_get_length (const DBusString *s) { PRE (s == &ST.encoded_incoming, "_dbus_string_get_length: encoded_incoming"); return GB.enc_len; }
dbus_bool_t _dbus_string_set_length (DBusString *s, int len) { PRE (s == &ST.encoded_incoming && len == 0, "_dbus_string_set_length: encoded_incoming emptied after decoding"); GB.enc_len = 0; return TRUE; }
dbus_bool_t _dbus_string_compact (DBusString *s, int max_waste) { return nondet_bool (); }
void _dbus_message_loader_get_buffer (DBusMessageLoader *l, DBusString **buffer, int *max_to_read, dbus_bool_t *may_read_unix_fds)
{
  IO ("_dbus_message_loader_get_buffer");
  PRE (l == (DBusMessageLoader *) &o_loader && !GB.buf_out, "_dbus_message_loader_get_buffer: this transport's loader, buffer not outstanding");
  GB.buf_out = 1; *buffer = &s_buf; GB.hint_given = (max_to_read != NULL);
  if (max_to_read != NULL)     /* lemma F4 (C11.F4.loader_buffer): 1 <= hint <= DBUS_MAXIMUM_MESSAGE_LENGTH */
    { int h = nondet_int (); __CPROVER_assume (h >= 1 && h <= DBUS_MAXIMUM_MESSAGE_LENGTH); GB.hint = h; *max_to_read = h; *may_read_unix_fds = nondet_bool (); }
}
void _dbus_message_loader_return_buffer (DBusMessageLoader *l, DBusString *buffer)
{ PRE (l == (DBusMessageLoader *) &o_loader && GB.buf_out && buffer == &s_buf && !GB.fds_out, "_dbus_message_loader_return_buffer: the outstanding buffer, after the fd array"); GB.buf_out = 0; }
dbus_bool_t _dbus_message_loader_get_unix_fds (DBusMessageLoader *l, int **fds, unsigned *max_n_fds)
{ IO ("_dbus_message_loader_get_unix_fds"); PRE (!GB.fds_out, "_dbus_message_loader_get_unix_fds: array not outstanding"); if (nondet_bool ()) { GB.oom = 1; return FALSE; } GB.fds_out = 1; *fds = loader_fds; *max_n_fds = 4; return TRUE; }
void _dbus_message_loader_return_unix_fds (DBusMessageLoader *l, int *fds, unsigned n_fds) { PRE (GB.fds_out && fds == loader_fds, "_dbus_message_loader_return_unix_fds: the outstanding array"); GB.fds_out = 0; }
dbus_bool_t _dbus_auth_decode_data (DBusAuth *a, const DBusString *encoded, DBusString *plaintext)
{ IO ("_dbus_auth_decode_data"); PRE (encoded == &ST.encoded_incoming && plaintext == &s_buf && GB.buf_out, "_dbus_auth_decode_data: encoded_incoming into the loader's buffer while handed out"); if (nondet_bool ()) { GB.oom = 1; return FALSE; } return TRUE; }
/* assumed (kernel): a read of count >= 0 bytes returns -1 or 0..count */
static int a_read (DBusString *buffer, int count, const char *dummy)
{
  PRE (count >= 0 && count <= ST.max_bytes_read_per_iteration, "socket read: at most max_bytes_read_per_iteration bytes are asked for");
  PRE (!t->disconnected && GB.watch_on, "socket read: transport connected and read watch enabled");
  PRE (GB.total <= (long) ST.max_bytes_read_per_iteration, "socket read: started only while the bytes read so far in this call are <= max_bytes_read_per_iteration");
  GB.reads++;
  int n = nondet_int (); __CPROVER_assume (n >= -1 && n <= count);
  GB.last_ret = n; if (n > 0) GB.total += n;
  return n;
}
int _dbus_read_socket (DBusSocket fd, DBusString *buffer, int count)
{
  IO ("_dbus_read_socket");
  if (GB.dec) { PRE (buffer == &ST.encoded_incoming && GB.enc_len == 0, "_dbus_read_socket (encoded): into the empty encoded_incoming"); }
  else { PRE (buffer == &s_buf && GB.buf_out && GB.hint_given && count <= GB.hint, "_dbus_read_socket (plain): into the loader's buffer while handed out, at most the loader's hint (F4)"); }
  int n = a_read (buffer, count, ""); if (GB.dec && n > 0) GB.enc_len = n; return n;
}
int _dbus_read_socket_with_unix_fds (DBusSocket fd, DBusString *buffer, int count, int *fds, unsigned int *n_fds)
{
  IO ("_dbus_read_socket_with_unix_fds");
  PRE (!GB.dec && buffer == &s_buf && GB.buf_out && GB.hint_given && count <= GB.hint && GB.fds_out && fds == loader_fds, "_dbus_read_socket_with_unix_fds: loader's buffer and array while handed out, at most the loader's hint (F4)");
  *n_fds = 0; return a_read (buffer, count, "");
}
int _dbus_save_socket_errno (void) { GB.last_errno = nondet_int (); return GB.last_errno; }
dbus_bool_t _dbus_get_is_errno_enomem (int e) { return e == 1; }
dbus_bool_t _dbus_get_is_errno_eagain_or_ewouldblock (int e) { return e == 2; }
dbus_bool_t _dbus_get_is_errno_epipe (int e) { return e == 3; }
dbus_bool_t _dbus_get_is_errno_etoomanyrefs (int e) { return e == 4; }
const char *_dbus_strerror (int e) { return "e"; }
#define READ_INV (!GB.buf_out && !GB.fds_out)
/* last callee before the back edge */
dbus_bool_t _dbus_transport_queue_messages (DBusTransport *tr)
{
  IO ("_dbus_transport_queue_messages");
  PRE (tr == t && (GB.dec || GB.last_ret > 0), "_dbus_transport_queue_messages: this transport, after bytes arrived");
  __CPROVER_assert (READ_INV, "loop invariant at the back edge (goto again): loader buffer and fd array handed back before framing");
  GB.frames++;
  if (nondet_bool ()) { GB.oom = 1; return FALSE; }
#if VERIF_MODE == 1
  REACH ("back-edge"); __CPROVER_assume (0);
#else
  GB.iterations++; if (GB.iterations >= VERIF_READS) { REACH ("back-edge-after-bound"); __CPROVER_assume (0); }
#endif
  return TRUE;
}

void harness (void)
{
  t->refcount = 1; t->vtable = NULL; t->connection = (DBusConnection *) &o_conn; t->auth = (DBusAuth *) &o_auth; t->loader = (DBusMessageLoader *) &o_loader;
  t->disconnected = nondet_bool (); t->authenticated = nondet_bool ();
  ST.read_watch = t->disconnected ? (nondet_bool () ? NULL : (DBusWatch *) &o_watch) : (DBusWatch *) &o_watch; ST.write_watch = NULL; ST.fd.fd = nondet_int ();
  ST.max_bytes_read_per_iteration = nondet_int (); __CPROVER_assume (ST.max_bytes_read_per_iteration >= 0 && ST.max_bytes_read_per_iteration <= 0x20000000);
  GB.authd = nondet_bool (); GB.can_fd = nondet_bool (); GB.watch_on = nondet_bool ();
#if VERIF_DECODE
  GB.dec = nondet_bool ();                            /* finder only: the decoding branch (dead code today, see below) */
  __CPROVER_assume (!(GB.dec && GB.can_fd));          /* (the code asserts it): encoded transports never negotiate fd passing */
#else
  GB.dec = 0;                                         /* no mechanism of all_mechanisms[] has a decode function (proved in C08.find_mech): the
                                                         decoding branch is dead code; as written it would abort on its own assertion
                                                         "length (encoded_incoming) == bytes_read" whenever the read returns -1 (EAGAIN) */
#endif
  GB.enc_len = nondet_int (); __CPROVER_assume (GB.enc_len >= 0 && GB.enc_len <= 0x20000000);
  GB.buf_out = GB.fds_out = 0; GB.hint = 0; GB.hint_given = 0; GB.total = 0; GB.reads = GB.frames = GB.io_errors = GB.iterations = 0; GB.oom = 0; GB.last_ret = 0; GB.last_errno = 0;
  _Bool disc0 = t->disconnected;
  dbus_bool_t ret = do_reading (t);
  POST (READ_INV, "do_reading: loader buffer and fd array handed back at every return");
  POST (IMP (!GB.authd, ret && GB.reads == 0 && GB.frames == 0), "do_reading: unauthenticated => TRUE, nothing read, nothing framed");
  POST ((ret == FALSE) == (GB.oom || (GB.reads > 0 && GB.last_ret < 0 && GB.last_errno == 1)), "do_reading: FALSE <=> out of memory (ENOMEM, decode / fd array / framing failure)");
  POST (IMP (GB.reads > 0 && (GB.last_ret == 0 || (GB.last_ret < 0 && GB.last_errno != 1 && GB.last_errno != 2)), GB.io_errors == 1 && t->disconnected && ret), "do_reading: EOF or hard error => do_io_error (disconnect), TRUE");
  POST (IMP (GB.io_errors == 0, t->disconnected == disc0), "do_reading: otherwise the connection state is untouched");
  POST (IMP (disc0 || !GB.watch_on, GB.reads == 0), "do_reading: nothing is read on a disconnected transport or with the read watch disabled");
  POST (GB.total <= 2L * ST.max_bytes_read_per_iteration, "do_reading: one call reads at most 2 * max_bytes_read_per_iteration bytes");
#if VERIF_MODE == 2
  if (GB.reads == VERIF_READS) REACH ("three-reads"); if (GB.reads == 2 && GB.total > ST.max_bytes_read_per_iteration && ret) REACH ("stopped-by-the-limit");
#endif
  if (!GB.authd) REACH ("not-authenticated"); if (!ret) REACH ("oom"); if (GB.io_errors == 1) REACH ("eof-or-error"); if (GB.reads == 1 && GB.last_ret < 0 && GB.last_errno == 2) REACH ("eagain");
#if VERIF_DECODE
  if (GB.dec && GB.reads == 1 && GB.frames == 1) REACH ("decoded-read");
#endif
}
