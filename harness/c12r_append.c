/* C12 (P, loop-free apart from constant-string scans): the REAL _dbus_type_writer_append_array ->
 * writer_recurse_init_and_check -> writer_recurse_array (is_array_append branch) of dbus-marshal-recursive.c, called
 * exactly as _dbus_header_set_field_basic does when a field is set for the first time: a values-only writer in the
 * header's byte order at the fields-array length word (offset 12) with the header signature "yyyyuua(yv)".
 * Property C12: "setting a field for the first time ... for messages received from the wire, in either byte order".
 * Wire format (specification): "ARRAY: A UINT32 giving the length of the array data in bytes, followed by alignment
 * padding to the alignment boundary of the array element type, followed by each array element"; the UINT32 is in the
 * message's byte order.
 * Contract: the sub-writer stands at the END of the existing array data: value_pos == 16 + L where L is the length word
 * decoded in the HEADER's byte order (16 = 12 + 4 aligned to the 8-alignment of the struct elements); len_pos == 12,
 * start_pos == 16; byte order inherited; no byte of the header is written. */
#include <config.h>
#include "dbus/dbus-internals.h"
#include "verif_prelude.h"
#include "dbus/dbus-string.h"
#define DBUS_CAN_USE_DBUS_STRING_PRIVATE 1
#include "dbus/dbus-string-private.h"
#include VERIF_TU
#define IMP(a, b) (!(a) || (b))
#define REACH(tag) __CPROVER_assert(0, "REACH:" tag)
_Bool nondet_bool (void); unsigned nondet_uint (void); unsigned char nondet_uchar (void);
_DBUS_STRING_DEFINE_STATIC (hdr_sig, "yyyyuua(yv)");
static unsigned char buf[64] __attribute__ ((aligned (8)));
void harness (void)
{
  DBusString vs; DBusRealString *r = (DBusRealString *) &vs; DBusTypeWriter w, sub; unsigned char old[24]; int i, le = nondet_bool ();
  unsigned L;
  for (i = 0; i < 24; i++) { buf[i] = nondet_uchar (); old[i] = buf[i]; }
  buf[24] = 0;
  r->str = buf; r->len = 24; r->allocated = 64; r->constant = 0; r->locked = 0; r->valid = 1; r->align_offset = 0;
  L = le ? ((unsigned) buf[12] | ((unsigned) buf[13] << 8) | ((unsigned) buf[14] << 16) | ((unsigned) buf[15] << 24))
         : ((unsigned) buf[15] | ((unsigned) buf[14] << 8) | ((unsigned) buf[13] << 16) | ((unsigned) buf[12] << 24));
  __CPROVER_assume (L <= 67108864u);                       /* DBUS_MAXIMUM_ARRAY_LENGTH: a loaded header satisfies it */
  _dbus_type_writer_init_values_only (&w, le ? DBUS_LITTLE_ENDIAN : DBUS_BIG_ENDIAN, &hdr_sig, 6, &vs, 12);
  dbus_bool_t ok = _dbus_type_writer_append_array (&w, &hdr_sig, 7, &sub);
  __CPROVER_assert (ok, "app.post0 appending to an existing array allocates nothing and cannot fail");
  __CPROVER_assert (sub.u.array.len_pos == 12 && sub.u.array.start_pos == 16, "app.post1 length word at 12, elements start at 16 (8-aligned)");
  __CPROVER_assert (sub.value_pos == 16 + (int) L, "app.post2 the sub-writer stands at the end of the existing array data: start + length word decoded in the header's byte order");
  __CPROVER_assert (sub.byte_order == (le ? DBUS_LITTLE_ENDIAN : DBUS_BIG_ENDIAN) && sub.value_str == &vs, "app.post3 byte order and value string inherited");
  for (i = 0; i < 24; i++) __CPROVER_assert (buf[i] == old[i], "app.post4 no byte of the header is written");
  __CPROVER_assert (r->len == 24, "app.post5 length unchanged");
  if (le) REACH ("little-endian"); else REACH ("big-endian"); if (L > 255) REACH ("length-over-one-byte");
}
