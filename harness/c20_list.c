/* C20.list (P, hybrid: loop contract in contracts/c20_objtree.ovl): _dbus_object_tree_list_registered_and_unlock
 * -> _dbus_object_tree_list_registered_unlocked, real bodies.  Oracle [D6]/[P]: the listing is the
 * NULL-terminated array of the names of exactly the children of the node at parent_path, in order.
 * lookup_subtree -> find_subtree_recurse is bound to the whole-lookup contract (NULL or THE node of the path).
 * Children are arbitrary pointers (only the address of their name is formed). */
#define VERIF_TREE_LOOKUP_STUB verif_tree_lookup
#define VERIF_NO_MEMMOVE_STUB 1
#include "c20_common.h"
VERIF_FSR_PROTO(2) { __CPROVER_assert (0, "outside this unit"); return NULL; }
VERIF_FSR_PROTO(3) { __CPROVER_assert (0, "outside this unit"); return NULL; }
VERIF_FSR_PROTO(4) { __CPROVER_assert (0, "outside this unit"); return NULL; }
VERIF_UFR_PROTO(10) { __CPROVER_assert (0, "outside this unit"); return 0; }
#ifndef VERIF_MAX_CHILDREN
#define VERIF_MAX_CHILDREN (1 << 28)
#endif
static DBusObjectTree *g_tree; static const char **g_path; static DBusObjectSubtree *g_target;
static int g_lookups, g_unlocks, g_unlock_after_listing, g_freed_arrays; static char **g_freed_array; static char ***g_out;
static DBusObjectSubtree *verif_tree_lookup (DBusObjectSubtree *subtree, const char **path, dbus_bool_t create, int *iip, dbus_bool_t *em)
{
  PRE (subtree == g_tree->root && path == g_path && create == FALSE && iip == NULL && em == NULL, "lookup_subtree: plain lookup of parent_path from the root");
  g_lookups++;
  return g_target;
}
/* contract of _dbus_strdup: NULL or a fresh copy; the unit records the copy made of child verif_gk's name */
char *_dbus_strdup (const char *str)
{
  PRE (0 <= verif_k && verif_k < verif_n0 && str == (const char *) g_target->subtrees[verif_k]->name, "_dbus_strdup: the name of child i, in order");
  PRE (verif_dup_calls == verif_k, "_dbus_strdup: one copy per child so far");
  if (nondet_bool ()) return NULL;
  char *p = nondet_ptr (); __CPROVER_assume (p != NULL);   /* only its identity matters: never dereferenced in this unit */
  verif_dup_calls = verif_dup_calls + 1;
  if (verif_k == verif_gk) verif_dup_gk = p;
  return p;
}
/* contract of dbus_free_string_array: frees the strings and the array */
void dbus_free_string_array (char **a) { g_freed_arrays++; g_freed_array = a; }
void _dbus_connection_unlock (DBusConnection *c) { PRE (c == g_tree->connection && c != NULL, "_dbus_connection_unlock: the tree's connection"); g_unlocks++; if (*g_out != (char **) 1) g_unlock_after_listing = 1; }

void harness (void)
{
  DBusObjectTree tree; DBusObjectSubtree root_obj; char conn;
  tree.root = &root_obj; tree.refcount = 1; tree.connection = nondet_bool () ? (DBusConnection *) &conn : NULL; g_tree = &tree;
  DBusObjectSubtree *n = malloc (sizeof (DBusObjectSubtree)); __CPROVER_assume (n != NULL);
  int nn = nondet_int (), mx = nondet_int ();
  __CPROVER_assume (0 <= nn && nn <= mx && mx <= VERIF_MAX_CHILDREN);
  n->n_subtrees = nn; n->max_subtrees = mx;
  n->subtrees = (mx == 0) ? NULL : malloc ((size_t) mx * sizeof (DBusObjectSubtree *)); __CPROVER_assume (mx == 0 || n->subtrees != NULL);
  g_target = nondet_bool () ? n : NULL;
  const char *path[1]; path[0] = nondet_ptr (); g_path = path;
  verif_n0 = nn; verif_gk = nondet_long (); verif_k = -1; verif_dup_calls = 0; verif_dup_gk = NULL; g_oom_possible = 1;
  g_lookups = 0; g_unlocks = 0; g_unlock_after_listing = 0; g_freed_arrays = 0; g_freed_array = NULL;
  char **out = (char **) 1; g_out = &out;
  DBusObjectSubtree *old_g = (g_target && 0 <= verif_gk && verif_gk < nn) ? n->subtrees[verif_gk] : NULL;

  dbus_bool_t r = _dbus_object_tree_list_registered_and_unlock (&tree, path, &out);

  __CPROVER_assert (g_lookups == 1, "post0 one lookup of parent_path");
  __CPROVER_assert (g_unlocks == (tree.connection != NULL ? 1 : 0) && IMP (g_unlocks == 1, g_unlock_after_listing), "post0 connection unlocked exactly once, after the listing was stored");
  __CPROVER_assert (r == (out != NULL), "post0 TRUE iff a listing is returned");
  __CPROVER_assert (IMP (g_target != NULL, n->n_subtrees == nn && IMP (0 <= verif_gk && verif_gk < nn, n->subtrees[verif_gk] == old_g)), "post0 the tree is not changed");
  if (r && g_target != NULL)
    {
      __CPROVER_assert (verif_dup_calls == nn, "post1 one copy per child");
      __CPROVER_assert (IMP (0 <= verif_gk && verif_gk < nn, out[verif_gk] == verif_dup_gk && verif_dup_gk != NULL), "post1 entry k is the copy of child k's name, for every k < n_subtrees");
      __CPROVER_assert (out[nn] == NULL && __CPROVER_OBJECT_SIZE (out) == (size_t) (nn + 1) * sizeof (char *), "post1 NULL-terminated after exactly n_subtrees entries");
      __CPROVER_assert (g_freed_arrays == 0, "post1 nothing freed on success");
      if (nn == 0) REACH ("no-children"); else REACH ("children");
    }
  else if (r)
    {
      __CPROVER_assert (out[0] == NULL && verif_dup_calls == 0, "post2 no node at parent_path: empty listing");
      REACH ("no-node");
    }
  else
    {
      __CPROVER_assert (out == NULL, "post3 no memory: NULL listing");
      __CPROVER_assert (IMP (verif_dup_calls > 0 || (g_target != NULL && g_freed_arrays == 1), g_freed_arrays == 1 && g_freed_array != NULL), "post3 partial listing released");
      if (g_freed_arrays == 1) REACH ("oom-midway"); else REACH ("oom-array");
    }
}
