/* C17 / C05 (P-stub, loop-free): the outgoing queue of a connection, real bodies of
 *   _dbus_connection_send_preallocated_unlocked_no_update, _dbus_connection_get_message_to_send,
 *   _dbus_connection_message_sent_unlocked                                        (dbus/dbus-connection.c).
 * Property C05 "messages from one sender to one recipient arrive in the order they were sent"; C17 "message serials assigned
 * by a connection are non-zero"; the queue's own documentation: "Queue of messages we need to send, send the end of the
 * list first".  Contract (FIFO by construction): a message enters ONLY at the head of outgoing_messages (its preallocated
 * link, carrying exactly this message), the next message to write is ONLY the last element, and a sent message leaves ONLY
 * from the end; n_outgoing counts them.  Serial: a message without one gets the connection's next client serial (non-zero),
 * a message that has one keeps it; *client_serial reports it; the message is locked after its serial is final and before
 * the transport is asked to write; the write-only iteration awaits no pending call. */
#include "c17_common.h"
static DBusConnection c; static char o_msg, o_other, o_counter; static DBusList qlink, clink, other_link;
#define MSG ((DBusMessage *) &o_msg)
static struct { int prepends, appends, firsts, lasts, unlinks, refs, counter_links, frees, set_serials, locks, iterations, wakeups, counter_removes, seq, t_serial_final, t_lock, t_iter, t_queue;
  dbus_uint32_t msg_serial, set_to; DBusList *unlinked; unsigned it_flags; DBusPendingCall *it_pending; int it_timeout; } G;
void _dbus_list_prepend_link (DBusList **list, DBusList *link)
{ if (list == &c.outgoing_messages) { G.prepends++; G.t_queue = ++G.seq; __CPROVER_assert (link == &qlink && link->data == MSG, "outq.in1 the link put on the queue is the preallocated one and carries exactly this message"); }
  else PRE (list == &c.expired_messages, "_dbus_list_prepend_link: outgoing or expired list");
  link->next = link->prev = link; *list = link; }
void _dbus_list_append_link (DBusList **list, DBusList *link) { __CPROVER_assert (list != &c.outgoing_messages, "outq.in2 a message never enters the outgoing queue at the end (the end is sent first)"); G.appends++; }
dbus_bool_t _dbus_list_append (DBusList **list, void *data) { __CPROVER_assert (list != &c.outgoing_messages, "outq.in2 a message never enters the outgoing queue at the end (the end is sent first)"); return 0; }
void *_dbus_list_get_last (DBusList **list) { PRE (list == &c.outgoing_messages, "_dbus_list_get_last: the outgoing queue"); G.lasts++; return *list ? other_link.data : NULL; }
DBusList *_dbus_list_get_last_link (DBusList **list) { PRE (list == &c.outgoing_messages, "_dbus_list_get_last_link: the outgoing queue"); G.lasts++; return *list ? &other_link : NULL; }
void *_dbus_list_get_first (DBusList **list) { __CPROVER_assert (list != &c.outgoing_messages, "outq.out1 the next message to send is never taken from the head of the outgoing queue"); G.firsts++; return NULL; }
DBusList *_dbus_list_get_first_link (DBusList **list) { __CPROVER_assert (list != &c.outgoing_messages, "outq.out1 the next message to send is never taken from the head of the outgoing queue"); G.firsts++; return NULL; }
void *_dbus_list_pop_first (DBusList **list) { __CPROVER_assert (list != &c.outgoing_messages, "outq.out1 the next message to send is never taken from the head of the outgoing queue"); G.firsts++; return NULL; }
DBusList *_dbus_list_pop_first_link (DBusList **list) { __CPROVER_assert (list != &c.outgoing_messages, "outq.out1 the next message to send is never taken from the head of the outgoing queue"); PRE (*list == NULL, "expired list empty"); return NULL; }
void _dbus_list_unlink (DBusList **list, DBusList *link) { PRE (list == &c.outgoing_messages, "_dbus_list_unlink: the outgoing queue"); G.unlinks++; G.unlinked = link; }
void _dbus_message_add_counter_link (DBusMessage *m, DBusList *link) { PRE (m == MSG && link == &clink, "_dbus_message_add_counter_link: this message, the preallocated counter link"); G.counter_links++; }
void _dbus_message_remove_counter (DBusMessage *m, DBusCounter *counter) { PRE (m == (DBusMessage *) &o_other && counter == (DBusCounter *) &o_counter, "_dbus_message_remove_counter: the sent message, the outgoing counter"); G.counter_removes++; }
static void *g_prealloc;
void dbus_free (void *p) { PRE (p == g_prealloc, "dbus_free: the preallocated-send record"); G.frees++; }
DBusMessage *dbus_message_ref (DBusMessage *m) { PRE (m == MSG, "dbus_message_ref: this message"); G.refs++; return m; }
dbus_uint32_t dbus_message_get_serial (DBusMessage *m) { PRE (m == MSG, "dbus_message_get_serial: this message"); return G.msg_serial; }
void dbus_message_set_serial (DBusMessage *m, dbus_uint32_t s) { PRE (m == MSG && s != 0 && G.locks == 0, "dbus_message_set_serial: non-zero, message not yet locked"); G.set_serials++; G.msg_serial = s; G.set_to = s; G.t_serial_final = ++G.seq; }
void dbus_message_lock (DBusMessage *m) { PRE (m == MSG, "dbus_message_lock: this message"); G.locks++; G.t_lock = ++G.seq; }
void verif_stub_do_iteration (DBusConnection *cc, DBusPendingCall *p, unsigned int flags, int timeout)
{ PRE (cc == &c && c.have_connection_lock, "_dbus_connection_do_iteration_unlocked: lock held"); G.iterations++; G.t_iter = ++G.seq; G.it_flags = flags; G.it_pending = p; G.it_timeout = timeout;
  if (nondet_bool ()) c.n_outgoing = 0; }            /* the transport may have written everything */
void verif_stub_wakeup (DBusConnection *cc) { G.wakeups++; }
void harness (void)
{
  int mode = nondet_int (); __CPROVER_assume (mode >= 1 && mode <= 3);
  c.have_connection_lock = 1; c.outgoing_messages = nondet_bool () ? &other_link : NULL; c.expired_messages = NULL; c.outgoing_counter = (DBusCounter *) &o_counter;
  other_link.data = &o_other; other_link.next = other_link.prev = &other_link;
  c.n_outgoing = nondet_int (); __CPROVER_assume (c.n_outgoing >= (c.outgoing_messages ? 1 : 0) && c.n_outgoing < 1000000 && IMP (c.outgoing_messages == NULL, c.n_outgoing == 0));
  c.client_serial = nondet_uint (); __CPROVER_assume (c.client_serial != 0);
  int n0 = c.n_outgoing; dbus_uint32_t cs0 = c.client_serial;
  if (mode == 1)
    {
      DBusPreallocatedSend *pre = malloc (sizeof *pre); __CPROVER_assume (pre != NULL); g_prealloc = pre;
      pre->connection = &c; pre->queue_link = &qlink; pre->counter_link = &clink; qlink.data = NULL;
      G.msg_serial = nondet_uint (); dbus_uint32_t ms0 = G.msg_serial; dbus_uint32_t out = 0xdeadbeef; dbus_uint32_t *outp = nondet_bool () ? &out : NULL;
      _dbus_connection_send_preallocated_unlocked_no_update (&c, pre, MSG, outp);
      __CPROVER_assert (G.prepends == 1 && G.appends == 0 && c.outgoing_messages == &qlink, "outq.in3 the message is queued exactly once, at the head");
      __CPROVER_assert (G.refs == 1 && G.counter_links == 1 && G.frees == 1, "outq.in4 queue holds one reference; counter attached; the preallocation record released once");
      __CPROVER_assert (G.iterations == 1 ? 1 : 0, "outq.in5 one write attempt");
      __CPROVER_assert (G.msg_serial != 0 && G.msg_serial == (ms0 != 0 ? ms0 : cs0) && G.set_serials == (ms0 == 0 ? 1 : 0), "outq.ser1 a message without a serial gets the connection's next (non-zero) serial; a message with a serial keeps it");
      __CPROVER_assert (IMP (ms0 == 0, c.client_serial == (cs0 == 0xFFFFFFFFu ? 1u : cs0 + 1u)) && IMP (ms0 != 0, c.client_serial == cs0), "outq.ser2 the serial counter advances only when it was used");
      __CPROVER_assert (IMP (outp != NULL, out == G.msg_serial), "outq.ser3 the caller is told the serial the message carries");
      __CPROVER_assert (G.locks == 1 && G.t_lock < G.t_iter && IMP (G.set_serials == 1, G.t_serial_final < G.t_lock) && G.t_queue < G.t_iter, "outq.ord the message is queued and locked, with its final serial, before the transport is asked to write");
      __CPROVER_assert (G.it_flags == DBUS_ITERATION_DO_WRITING && G.it_pending == NULL, "outq.it a non-blocking write-only iteration that awaits no pending call");
      __CPROVER_assert (G.wakeups == (c.n_outgoing > 0 ? 1 : 0), "outq.wake the main loop is woken iff something is still queued");
      if (ms0 == 0) REACH ("serial-assigned"); else REACH ("serial-kept"); if (G.wakeups) REACH ("still-queued");
    }
  else if (mode == 2)
    {
      DBusMessage *m = _dbus_connection_get_message_to_send (&c);
      __CPROVER_assert (G.lasts == 1 && G.firsts == 0 && m == (c.outgoing_messages ? (DBusMessage *) &o_other : NULL), "outq.out2 the next message to send is the LAST element of the queue (NULL if empty)");
      __CPROVER_assert (c.n_outgoing == n0 && G.unlinks == 0, "outq.out3 peeking removes nothing");
      if (m) REACH ("has-message"); else REACH ("empty");
    }
  else
    {
      __CPROVER_assume (c.outgoing_messages != NULL);
      _dbus_connection_message_sent_unlocked (&c, (DBusMessage *) &o_other);
      __CPROVER_assert (G.unlinks == 1 && G.unlinked == &other_link && G.lasts >= 1 && G.firsts == 0, "outq.out4 the sent message leaves from the END of the queue (the element get_message_to_send returned)");
      __CPROVER_assert (c.n_outgoing == n0 - 1 && c.expired_messages == &other_link && G.counter_removes == 1, "outq.out5 count decremented, link parked for release at unlock, outgoing counter detached");
      REACH ("sent");
    }
}
