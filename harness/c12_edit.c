/* C12 (+C14): edit protocol of the real _dbus_header_set_field_basic / _dbus_header_delete_field /
 * _dbus_header_remove_unknown_fields (dbus/dbus-marshal-header.c), typestate contracts (P-stub / hybrid).
 *
 * Property C12: "Any sequence of header edits ... leaves a message whose serialised form is well-formed";
 * mechanism named by the property: "reserve worst-case padding, edit, then restore exact padding" and
 * "field offset cache must be invalidated whenever bytes move".  Ghost record G_ed:
 *   reserved      : header is in the editing state (padding == 7, length not a multiple of 8 in general)
 *   moved         : bytes moved since the cache was last invalidated
 *   n_*           : event counters
 * Callee contracts (stubs below): the realignment core (_dbus_type_reader_set_basic via set_basic_field,
 * write_basic_field, _dbus_type_reader_delete) REQUIRES the reserved state and may fail; correct_header_padding
 * REQUIRES reserved and leaves it; _dbus_header_cache_invalidate_all REQUIRES corrected padding.
 *
 * -DVERIF_FN=1 set_field_basic, 2 delete_field, 3 remove_unknown_fields (loop contract c12_edit.ovl)
 * -DVERIF_C14=1 adds the atomicity postcondition "FALSE => header as before the call" (C14).            */
#include <config.h>
#include "dbus/dbus-internals.h"
#include "verif_prelude.h"
#include "verif_ghost.h"
struct verif_edit_ghost { int len; int reserved; int moved; int n_reserve, n_edit, n_failed_edit, n_correct, n_inval;
                          int field_present; int remaining; int cur_code; int cur_valid; int stepped_over_unknown; const void *arr; const void *sub; };
#define VERIF_INC(x) do { if ((x) < 1000000) (x)++; } while (0)
extern struct verif_edit_ghost G_ed;
#include VERIF_TU
#ifndef IMP
#define IMP(a, b) (!(a) || (b))
#endif
#define REACH(tag) __CPROVER_assert(0, "REACH:" tag)
long verif_gk, verif_gk2, verif_w, verif_w2; int verif_flag;
struct verif_edit_ghost G_ed;
_Bool nondet_bool (void); int nondet_int (void); unsigned char nondet_uchar (void);
static DBusHeader *the_header;
#define PRE(c, what) __CPROVER_assert ((c), "precondition of " what)

int verif_stub_string_get_length (const DBusString *s) { PRE (s == &the_header->data, "_dbus_string_get_length: the header string"); return G_ed.len; }
char verif_stub_get_byte_order (const DBusHeader *h) { return nondet_bool () ? 'l' : 'B'; }
/* reserve_header_padding: FALSE => nothing changed; TRUE => padding 7, length grown by 7 - old padding */
dbus_bool_t verif_stub_reserve (DBusHeader *h)
{ PRE (h == the_header, "reserve_header_padding: this header");
  if (nondet_bool ()) return 0;
  G_ed.len += 7 - (int) h->padding; h->padding = 7; G_ed.reserved = 1; VERIF_INC (G_ed.n_reserve); return 1; }
/* correct_header_padding: requires the reserved state (its own assertion padding == 7) */
void verif_stub_correct (DBusHeader *h)
{ int unpadded; unsigned p;
  PRE (h == the_header && G_ed.reserved == 1 && h->padding == 7, "correct_header_padding: padding was reserved (padding == 7)");
  unpadded = G_ed.len - 7; p = (unsigned) ((8 - (unpadded & 7)) & 7);
  G_ed.len = unpadded + (int) p; h->padding = p; G_ed.reserved = 0; VERIF_INC (G_ed.n_correct); }
void verif_stub_invalidate_all (DBusHeader *h)
{ PRE (h == the_header && G_ed.reserved == 0, "_dbus_header_cache_invalidate_all: after the padding was corrected");
  G_ed.moved = 0; VERIF_INC (G_ed.n_inval); }
/* the realignment core: bytes move only while the maximum padding is reserved */
static dbus_bool_t edit_core (const char *unused)
{ if (nondet_bool ()) { VERIF_INC (G_ed.n_failed_edit); if (nondet_bool ()) G_ed.moved = 1; return 0; }   /* whether a failing edit already moved bytes is not known */
  { int d = nondet_int (); __CPROVER_assume (d >= -4096 && d <= 4096 && G_ed.len + d >= 16 + 7 && G_ed.len + d <= 0x10000000); G_ed.len += d; }
  G_ed.moved = 1; VERIF_INC (G_ed.n_edit); return 1; }
dbus_bool_t verif_stub_set_basic_field (DBusTypeReader *reader, int field, int type, const void *value, const DBusTypeReader *realign_root)
{ PRE (G_ed.reserved == 1, "set_basic_field: maximum padding reserved before bytes move"); PRE (G_ed.field_present, "set_basic_field: the field exists"); return edit_core (0); }
dbus_bool_t verif_stub_write_basic_field (DBusTypeWriter *writer, int field, int type, const void *value)
{ PRE (G_ed.reserved == 1, "write_basic_field: maximum padding reserved before bytes move"); PRE (!G_ed.field_present, "write_basic_field: appended only if the field does not exist yet");
  PRE (writer->value_pos == G_ed.len - 7, "write_basic_field: appends at the end of the fields, before the padding");
  if (!edit_core (0)) return 0; G_ed.field_present = 1; return 1; }
dbus_bool_t verif_stub_reader_delete (DBusTypeReader *reader, const DBusTypeReader *realign_root)
{ PRE (G_ed.reserved == 1, "_dbus_type_reader_delete: maximum padding reserved before bytes move");
#if VERIF_FN == 3
  PRE (G_ed.cur_valid && G_ed.cur_code > DBUS_HEADER_FIELD_LAST, "_dbus_type_reader_delete: only a field with an unknown code is deleted");
#endif
  if (!edit_core (0)) return 0;
  G_ed.field_present = 0; G_ed.cur_valid = 0; if (G_ed.remaining > 0) G_ed.remaining--; return 1; }
dbus_bool_t verif_stub_cache_check (DBusHeader *h, int field) { return G_ed.field_present; }
dbus_bool_t verif_stub_find_field (DBusHeader *h, int field, DBusTypeReader *reader, DBusTypeReader *realign_root) { return G_ed.field_present; }
void verif_stub_writer_init_values_only (DBusTypeWriter *w, int byte_order, const DBusString *type_str, int type_pos, DBusString *value_str, int value_pos)
{ PRE (value_str == &the_header->data && value_pos == 12, "_dbus_type_writer_init_values_only: at the fields array length"); w->value_str = value_str; w->value_pos = value_pos; }
dbus_bool_t verif_stub_writer_append_array (DBusTypeWriter *w, const DBusString *ct, int cts, DBusTypeWriter *sub)
{ sub->value_str = w->value_str; sub->u.array.len_pos = 12; sub->u.array.start_pos = 16; sub->value_pos = G_ed.len - (int) the_header->padding; return 1; }
dbus_bool_t verif_stub_writer_unrecurse (DBusTypeWriter *w, DBusTypeWriter *sub) { return 1; }
/* array reader of remove_unknown_fields: `remaining` elements left */
void verif_stub_reader_init (DBusTypeReader *r, int bo, const DBusString *ts, int tp, const DBusString *vs, int vp) { PRE (vs == &the_header->data && vp == 12, "_dbus_type_reader_init: at the fields array"); }
void verif_stub_reader_recurse (DBusTypeReader *r, DBusTypeReader *sub) { if (G_ed.arr == NULL) G_ed.arr = sub; else { PRE (r == G_ed.arr, "_dbus_type_reader_recurse: into the current array element"); G_ed.sub = sub; } }
int verif_stub_reader_get_current_type (const DBusTypeReader *r) { if (r == G_ed.sub) return DBUS_TYPE_BYTE; PRE (r == G_ed.arr, "_dbus_type_reader_get_current_type: the array reader"); return G_ed.remaining > 0 ? DBUS_TYPE_STRUCT : DBUS_TYPE_INVALID; }
void verif_stub_reader_read_basic (const DBusTypeReader *r, void *value) { G_ed.cur_code = nondet_uchar (); G_ed.cur_valid = 1; *(unsigned char *) value = (unsigned char) G_ed.cur_code; }
dbus_bool_t verif_stub_reader_next (DBusTypeReader *r)
{ PRE (G_ed.cur_valid, "_dbus_type_reader_next: the element's code was read");
  if (G_ed.cur_code > DBUS_HEADER_FIELD_LAST) G_ed.stepped_over_unknown = 1;
  G_ed.cur_valid = 0; if (G_ed.remaining > 0) G_ed.remaining--; return G_ed.remaining > 0; }

void harness (void)
{
  DBusHeader H; dbus_bool_t r; int len0, field, type, i; unsigned pad0; dbus_uint32_t v;
  the_header = &H;
  for (i = 0; i <= DBUS_HEADER_FIELD_LAST; i++) H.fields[i].value_pos = nondet_int ();
  H.padding = nondet_uchar () & 7;
  G_ed.len = nondet_int (); __CPROVER_assume (G_ed.len >= 16 && G_ed.len <= 0x8000000 && G_ed.len % 8 == 0 && (int) H.padding <= G_ed.len - 16);
  G_ed.reserved = 0; G_ed.moved = 0; G_ed.n_reserve = G_ed.n_edit = G_ed.n_failed_edit = G_ed.n_correct = G_ed.n_inval = 0;
  G_ed.field_present = nondet_bool (); G_ed.remaining = nondet_int (); __CPROVER_assume (G_ed.remaining >= 0); G_ed.cur_valid = 0; G_ed.cur_code = 0; G_ed.stepped_over_unknown = 0; G_ed.arr = NULL; G_ed.sub = NULL;
  field = nondet_int (); type = nondet_int (); __CPROVER_assume (field >= 1 && field <= DBUS_HEADER_FIELD_LAST);
  /* cache consistency (what _dbus_header_cache_revalidate / _dbus_header_load establish): NONEXISTENT => absent */
  __CPROVER_assume (IMP (H.fields[field].value_pos == _DBUS_HEADER_FIELD_VALUE_NONEXISTENT, !G_ed.field_present));
  len0 = G_ed.len; pad0 = H.padding;
#if VERIF_FN == 1
  r = _dbus_header_set_field_basic (&H, field, type, &v);
  __CPROVER_assert (IMP (r, G_ed.n_reserve == 1 && G_ed.n_edit == 1 && G_ed.n_correct == 1 && G_ed.n_inval == 1), "edit.set success: reserve, one edit, correct, invalidate - each exactly once");
  __CPROVER_assert (IMP (r, G_ed.field_present), "edit.set success: the field exists afterwards");
#elif VERIF_FN == 2
  { int present0 = G_ed.field_present;
  r = _dbus_header_delete_field (&H, field);
  __CPROVER_assert (IMP (r && present0, G_ed.n_reserve == 1 && G_ed.n_edit == 1 && G_ed.n_correct == 1 && G_ed.n_inval == 1), "edit.delete success on an existing field: reserve, one delete, correct, invalidate - each exactly once");
  __CPROVER_assert (IMP (r && !present0, G_ed.n_reserve == 0 && G_ed.n_edit == 0 && G_ed.len == len0 && H.padding == pad0), "edit.delete of an absent field changes nothing");
  __CPROVER_assert (IMP (r, !G_ed.field_present), "edit.delete success: the field is gone"); }
#else
  r = _dbus_header_remove_unknown_fields (&H);
  __CPROVER_assert (IMP (r, G_ed.n_edit == G_ed.n_reserve && G_ed.n_edit == G_ed.n_correct && G_ed.n_edit == G_ed.n_inval), "edit.strip success: every delete is bracketed by reserve / correct / invalidate");
  __CPROVER_assert (IMP (r, !G_ed.stepped_over_unknown && G_ed.remaining == 0), "edit.strip success: the whole array was visited and no field with an unknown code was stepped over");
#endif
  __CPROVER_assert (IMP (r, G_ed.reserved == 0 && G_ed.len % 8 == 0 && H.padding <= 7), "edit success: padding corrected, header length a multiple of 8");
  __CPROVER_assert (IMP (r, G_ed.moved == 0), "edit success: cache invalidated after the last byte move");
  __CPROVER_assert (G_ed.n_failed_edit <= 1 && IMP (r, G_ed.n_failed_edit == 0), "edit: TRUE only if no edit step failed; the first failure ends the operation");
  /* what a failure leaves: the header is never left in the editing state (padding == 7, length 7 - padding too long);
   * a failure in reserve_header_padding comes before any byte moved */
  __CPROVER_assert (IMP (!r, G_ed.reserved == 0 && G_ed.len % 8 == 0 && H.padding <= 7), "edit failure: padding corrected, header length a multiple of 8 (not left in the editing state)");
  __CPROVER_assert (IMP (!r && G_ed.n_failed_edit == 0, G_ed.moved == 0 && G_ed.n_reserve == G_ed.n_correct), "edit failure in reserve_header_padding: nothing moved since the last consistent state");
  __CPROVER_assert (IMP (!r && G_ed.n_failed_edit == 1, G_ed.n_correct == G_ed.n_reserve && G_ed.n_inval == G_ed.n_edit), "edit failure in the realignment core: padding corrected once more, cache not invalidated for the failed step");
#if VERIF_C14
  /* C14: "an operation that fails for lack of memory leaves the observable state unchanged".  The header bytes
   * are what dbus_message_marshal / the transport put on the wire, so length and padding are observable. */
#if VERIF_FN != 3
  __CPROVER_assert (IMP (!r, G_ed.reserved == 0 && G_ed.len == len0 && H.padding == pad0), "post.C14 edit failure leaves the header consistent: length and padding as before the call, not left in the editing state");
  __CPROVER_assert (IMP (!r, G_ed.n_edit == 0 && G_ed.n_inval == 0), "post.C14 edit failure: no successful byte move happened, cache untouched");
#else
  __CPROVER_assert (IMP (!r, G_ed.reserved == 0 && G_ed.len % 8 == 0), "post.C14 edit failure leaves the header consistent: length a multiple of 8, not left in the editing state");
#endif
#endif
  if (r && G_ed.n_edit >= 1) REACH("edited");
  if (!r && G_ed.n_failed_edit == 1) REACH("failed-in-realignment-core");
  if (!r && G_ed.n_failed_edit == 0) REACH("failed-in-reserve");
#if VERIF_FN == 3
  if (r && G_ed.n_edit >= 2) REACH("two-unknown-fields-removed");
  if (r && G_ed.n_edit == 0) REACH("nothing-to-remove");
#endif
#if VERIF_FN == 1
  if (r && G_ed.n_edit == 1 && len0 != G_ed.len) REACH("length-changed");
#endif
}
