/* C07 / C13 (T): bus_driver_handle_add_match and bus_driver_handle_remove_match (bus/driver.c, static, loop-free) —
 * P-stub route on the pristine TU: every callee is a contract written as a stub (assert pre / havoc / assume post /
 * ghost record G), bound with --replace-calls.
 * AddMatch:   the per-connection limit is compared before anything else and a refusal (LimitsExceeded) mutates nothing;
 *             the rule text goes through bus_match_rule_parse and its error (MatchRuleInvalid, ...) is passed on;
 *             an eavesdrop='true' rule is added only after both privilege checks said yes;
 *             TRUE <=> the rule is in the matchmaker exactly once and the ack was staged; a failed ack rolls the rule back;
 *             the parser's reference to the rule is released exactly once on every path.
 * RemoveMatch: TRUE <=> bus_matchmaker_remove_rule_by_value returned TRUE (exactly one call, after the ack was staged);
 *             its error (MatchRuleNotFound) is passed on; nothing is ever added.
 */
#include <config.h>
#include "dbus/dbus-internals.h"
#include <stdarg.h>
#include <stdlib.h>
#include VERIF_TU
#include "c07_common.h"
void _dbus_real_assert (dbus_bool_t condition, const char *condition_text, const char *file, int line, const char *func)
{ __CPROVER_assert (condition, "dbus assertion (error protocol / internal)"); __CPROVER_assume (condition); }
void _dbus_real_assert_not_reached (const char *explanation, const char *file, int line) { __CPROVER_assert (0, "dbus assert_not_reached"); __CPROVER_assume (0); }
void _dbus_verbose_real (const char *file, const int line, const char *function, const char *format, ...) {}
#define ERR_SET(e) ((e)->name != NULL)
static const char some_text[] = "t";
/* ghost */
static struct { int parses, adds, removes, by_value, acks, unrefs, priv_checks, aa_checks, logs; _Bool priv_ok, aa_ok, by_value_ok, add_ok, ack_ok; int order_ack_before_remove; const char *parse_err; } G;
static int g_limit, g_n; static _Bool g_eaves; static char rule_o, mm_o, ctx_o; static DBusConnection *g_conn; static DBusMessage *g_msg; static BusTransaction *g_tr;
static const DBusString *g_str; static const char *g_text;
#define RULE ((BusMatchRule *) &rule_o)
#define MM ((BusMatchmaker *) &mm_o)
#define CTX ((BusContext *) &ctx_o)
BusContext *verif_stub_transaction_get_context (BusTransaction *t) { PRE (t == g_tr, "bus_transaction_get_context"); return CTX; }
int verif_stub_get_max_match_rules (BusContext *c) { PRE (c == CTX, "bus_context_get_max_match_rules_per_connection"); return g_limit; }
int verif_stub_get_n_match_rules (DBusConnection *c) { PRE (c == g_conn, "bus_connection_get_n_match_rules"); return g_n; }
void verif_stub_error_init (DBusError *e) { PRE (e != NULL, "dbus_error_init"); e->name = NULL; e->message = NULL; }
dbus_bool_t verif_stub_error_is_set (const DBusError *e) { PRE (e != NULL, "dbus_error_is_set"); return ERR_SET (e); }
void verif_stub_set_error (DBusError *e, const char *name, const char *format, ...) { PRE (name != NULL && (e == NULL || !ERR_SET (e)), "dbus_set_error: error not already set"); if (e) { e->name = name; e->message = some_text; } }
void verif_stub_set_error_const (DBusError *e, const char *name, const char *message) { PRE (name != NULL && (e == NULL || !ERR_SET (e)), "dbus_set_error_const: error not already set"); if (e) { e->name = name; e->message = message; } }
void verif_stub_move_error (DBusError *src, DBusError *dest) { PRE (src != NULL && (dest == NULL || !ERR_SET (dest)), "dbus_move_error"); if (dest) { dest->name = src->name; dest->message = src->message; } src->name = NULL; src->message = NULL; }
dbus_bool_t verif_stub_connection_is_active (DBusConnection *c) { return nondet_bool (); }
const char *verif_stub_connection_get_name (DBusConnection *c) { return some_text; }
void verif_stub_context_log (BusContext *c, DBusSystemLogSeverity s, const char *fmt, ...) { G.logs++; }
const char *verif_stub_context_get_type (BusContext *c) { return some_text; }
/* dbus_message_get_args (message, error, DBUS_TYPE_STRING, &text, DBUS_TYPE_INVALID): the single string argument or an error */
dbus_bool_t verif_stub_message_get_args (DBusMessage *m, DBusError *error, int first_type, ...)
{
  va_list ap; const char **out;
  PRE (m == g_msg && error != NULL && !ERR_SET (error) && first_type == DBUS_TYPE_STRING, "dbus_message_get_args: one STRING argument, clear error");
  if (nondet_bool ()) { error->name = DBUS_ERROR_INVALID_ARGS; error->message = some_text; return FALSE; }
  va_start (ap, first_type); out = va_arg (ap, const char **); va_end (ap); *out = g_text; return TRUE;
}
void verif_stub_init_const (DBusString *s, const char *value) { PRE (s != NULL && value == g_text, "_dbus_string_init_const: the message's string argument"); g_str = s; }
BusMatchRule *verif_stub_rule_parse (DBusConnection *c, const DBusString *text, DBusError *error)
{
  PRE (c == g_conn && text == g_str && error != NULL && !ERR_SET (error), "bus_match_rule_parse: owner = the calling connection, text = the message's argument, clear error");
  G.parses++;
  if (nondet_bool ()) { int k = nondet_int (); G.parse_err = k == 0 ? DBUS_ERROR_MATCH_RULE_INVALID : k == 1 ? DBUS_ERROR_LIMITS_EXCEEDED : DBUS_ERROR_NO_MEMORY; error->name = G.parse_err; error->message = some_text; return NULL; }
  return RULE;
}
dbus_bool_t verif_stub_rule_get_eaves (BusMatchRule *r) { PRE (r == RULE, "bus_match_rule_get_client_is_eavesdropping"); return g_eaves; }
dbus_bool_t verif_stub_check_privileged (DBusConnection *c, BusTransaction *t, DBusMessage *m, DBusError *error)
{ PRE (c == g_conn && t == g_tr && m == g_msg && error != NULL && !ERR_SET (error), "bus_driver_check_caller_is_privileged"); G.priv_checks++; G.priv_ok = nondet_bool (); if (!G.priv_ok) { error->name = DBUS_ERROR_ACCESS_DENIED; error->message = some_text; } return G.priv_ok; }
dbus_bool_t verif_stub_aa_allows_eavesdropping (DBusConnection *c, const char *bustype, DBusError *error)
{ PRE (c == g_conn && error != NULL && !ERR_SET (error), "bus_apparmor_allows_eavesdropping"); G.aa_checks++; G.aa_ok = nondet_bool (); if (!G.aa_ok) { error->name = DBUS_ERROR_ACCESS_DENIED; error->message = some_text; } return G.aa_ok; }
BusMatchmaker *verif_stub_get_matchmaker (DBusConnection *c) { PRE (c == g_conn, "bus_connection_get_matchmaker"); return MM; }
dbus_bool_t verif_stub_add_rule (BusMatchmaker *mm, BusMatchRule *r)
{ PRE (mm == MM && r == RULE, "bus_matchmaker_add_rule: the connection's matchmaker, the parsed rule"); PRE (g_n < g_limit, "bus_matchmaker_add_rule: the connection is below max_match_rules_per_connection (C13)");
  PRE (IMP (g_eaves, G.priv_checks == 1 && G.priv_ok && G.aa_checks == 1 && G.aa_ok), "bus_matchmaker_add_rule: an eavesdropping rule only after both privilege checks allowed it");
  G.add_ok = nondet_bool (); if (G.add_ok) G.adds++; return G.add_ok; }
void verif_stub_remove_rule (BusMatchmaker *mm, BusMatchRule *r) { PRE (mm == MM && r == RULE && G.adds == 1 && G.removes == 0, "bus_matchmaker_remove_rule: rollback of the rule just added"); G.removes++; }
dbus_bool_t verif_stub_send_ack (DBusConnection *c, BusTransaction *t, DBusMessage *m, DBusError *error)
{ PRE (c == g_conn && t == g_tr && m == g_msg && error != NULL && !ERR_SET (error), "bus_driver_send_ack_reply"); G.ack_ok = nondet_bool (); if (G.ack_ok) G.acks++; else { error->name = DBUS_ERROR_NO_MEMORY; error->message = some_text; } return G.ack_ok; }
dbus_bool_t verif_stub_remove_by_value (BusMatchmaker *mm, BusMatchRule *r, DBusError *error)
{ PRE (mm == MM && r == RULE && error != NULL && !ERR_SET (error), "bus_matchmaker_remove_rule_by_value: the connection's matchmaker, the parsed rule, clear error");
  G.by_value++; G.order_ack_before_remove = G.acks; G.by_value_ok = nondet_bool (); if (!G.by_value_ok) { error->name = DBUS_ERROR_MATCH_RULE_NOT_FOUND; error->message = some_text; } return G.by_value_ok; }
void verif_stub_rule_unref (BusMatchRule *r) { PRE (r == RULE && G.unrefs == 0, "bus_match_rule_unref: the parsed rule, once"); G.unrefs++; }
#define NAME_IS(n, lit27, c36) ((n) != NULL && (n)[27] == (lit27) && ((c36) == 0 || (n)[36] == (c36)))

void harness (void)
{
  static char co, mo, to; DBusError err; err.name = NULL; err.message = NULL;
  g_conn = (DBusConnection *) &co; g_msg = (DBusMessage *) &mo; g_tr = (BusTransaction *) &to; g_text = some_text;
  g_limit = nondet_int (); g_n = nondet_int (); __CPROVER_assume (g_n >= 0); g_eaves = nondet_bool ();
  G.parses = G.adds = G.removes = G.by_value = G.acks = G.unrefs = G.priv_checks = G.aa_checks = G.logs = 0; G.parse_err = NULL; G.order_ack_before_remove = -1;
#if VERIF_FN == 1
  dbus_bool_t ok = bus_driver_handle_add_match (g_conn, g_tr, g_msg, &err);
  __CPROVER_assert ((ok != 0) == !ERR_SET (&err), "post1 FALSE <=> error set");
  __CPROVER_assert (IMP (g_n >= g_limit, !ok && NAME_IS (err.name, 'L', 0) && G.parses == 0 && G.adds == 0 && G.acks == 0), "post2 at the limit => LimitsExceeded, and nothing was parsed, added or acknowledged (C13)");
  __CPROVER_assert (IMP (ok, G.parses == 1 && G.adds == 1 && G.removes == 0 && G.acks == 1), "post3 TRUE => parsed once, added once, acknowledged once");
  __CPROVER_assert (G.adds - G.removes == (ok ? 1 : 0), "post4 the rule is in the matchmaker iff TRUE (a failed ack rolls it back)");
  __CPROVER_assert (G.unrefs == (G.parses == 1 && G.parse_err == NULL ? 1 : 0), "post5 the parser's reference is released exactly once on every path");
  __CPROVER_assert (IMP (G.parse_err != NULL, !ok && err.name == G.parse_err && G.adds == 0), "post6 a rejected rule text => the parser's error (MatchRuleInvalid / LimitsExceeded / NoMemory) is passed on, nothing added");
  __CPROVER_assert (IMP (ok && g_eaves, G.priv_ok && G.aa_ok), "post7 an eavesdropping rule is accepted only from a privileged caller");
  __CPROVER_assert (G.by_value == 0, "post8 AddMatch never removes by value");
  if (ok) REACH ("added"); if (!ok && g_n >= g_limit) REACH ("limit"); if (!ok && G.parse_err) REACH ("invalid"); if (!ok && G.removes == 1) REACH ("rolled-back"); if (ok && g_eaves) REACH ("eavesdropper");
#else
  dbus_bool_t ok = bus_driver_handle_remove_match (g_conn, g_tr, g_msg, &err);
  __CPROVER_assert ((ok != 0) == !ERR_SET (&err), "post1 FALSE <=> error set");
  __CPROVER_assert (IMP (ok, G.parses == 1 && G.by_value == 1 && G.by_value_ok && G.acks == 1), "post2 TRUE => exactly one removal by value, which succeeded, and one ack");
  __CPROVER_assert (IMP (G.by_value == 1 && !G.by_value_ok, !ok && NAME_IS (err.name, 'M', 'N')), "post3 no equal rule => MatchRuleNotFound");
  __CPROVER_assert (IMP (G.by_value == 1, G.order_ack_before_remove == 1), "post4 the ack is staged before the rule is removed (the ack can be cancelled, the removal cannot)");
  __CPROVER_assert (G.by_value <= 1 && G.adds == 0 && G.removes == 0, "post5 at most one removal; nothing is added");
  __CPROVER_assert (G.unrefs == (G.parses == 1 && G.parse_err == NULL ? 1 : 0), "post6 the parsed value rule is released exactly once on every path");
  __CPROVER_assert (IMP (G.parse_err != NULL, !ok && err.name == G.parse_err && G.by_value == 0), "post7 a rejected rule text => the parser's error is passed on, nothing removed");
#ifdef VERIF_NO_ACK_ON_FAILURE
  /* "RemoveMatch removes one rule equal to its argument OR fails with MatchRuleNotFound": a failing call must not also be
   * acknowledged.  A non-OOM failure does not cancel the transaction (bus_dispatch executes it and adds the error reply),
   * so an ack staged before the failure reaches the caller as a success reply, followed by the error. */
  __CPROVER_assert (IMP (!ok && !NAME_IS (err.name, 'N', 0), G.acks == 0), "post8 a RemoveMatch that fails (other than for lack of memory) has not staged a success reply");
#endif
  if (ok) REACH ("removed"); if (!ok && G.by_value == 1) REACH ("not-found"); if (!ok && G.parse_err) REACH ("invalid");
#endif
}
