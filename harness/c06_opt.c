/* C06: bus_client_policy_optimize (bus/policy.c) changes no decision.  B: rule lists of length <= VERIF_N (3), mixed
 * send/receive/own rules with every attribute symbolic.
 * Oracle: the property statement ("pruning of rules shadowed by a later catch-all must not change any decision") and
 * the man page's "the last rule that matches the message determines whether it may be sent": a rule may be dropped
 * only if a later rule of the same family matches every message the dropped one matches.
 *   -DVERIF_Q=0/1/2  question asked before and after: can_send / can_receive / can_own (the real functions, whose
 *                    semantics are fixed by the C06.*_n3 units; both calls see the same facts record F)
 * Callees of the optimiser: real dbus-list.c unlink code; the link pool and dbus_free are stubs that record frees. */
#define VERIF_WHAT 3
#include "c06_common.h"
#ifndef VERIF_Q
#define VERIF_Q 0
#endif
#include "dbus/dbus-mempool.h"
static int g_link_frees, g_rule_frees, g_other_frees;
static BusPolicyRule R0, R1, R2; static DBusList L0, L1, L2;
/* dbus-list.c free_link: the pool is the documented pool semantics (DESIGN 2, stubs table) */
dbus_bool_t _dbus_lock (DBusGlobalLock lock) { return TRUE; }
void _dbus_unlock (DBusGlobalLock lock) { }
dbus_bool_t _dbus_mem_pool_dealloc (DBusMemPool *pool, void *element)
{ PRE (element == &L0 || element == &L1 || element == &L2, "_dbus_mem_pool_dealloc: a link of this list"); g_link_frees++; return FALSE; }
void dbus_free (void *p)
{ if (p == &R0 || p == &R1 || p == &R2) g_rule_frees++; else if (p != NULL) g_other_frees++; }

static dbus_bool_t ask (BusClientPolicy *pol, const char *nm)
{
  dbus_int32_t toggles; dbus_bool_t log;
#if VERIF_Q == 0
  return bus_client_policy_check_can_send (pol, REG, F.requested_reply, F.peer_is_connection ? PEER : NULL, MSG, &toggles, &log);
#elif VERIF_Q == 1
  DBusConnection *proposed = (DBusConnection *) &o_prop;
  return bus_client_policy_check_can_receive (pol, REG, F.requested_reply, F.peer_is_connection ? PEER : NULL,
                                              F.proposed_is_addressed ? proposed : (DBusConnection *) &o_addr, proposed, MSG, &toggles);
#else
  DBusString name; _dbus_string_init_const (&name, nm);
  return bus_client_policy_check_can_own (pol, &name);
#endif
}

void harness (void)
{
  BusPolicyRule *const Rp[3] = { &R0, &R1, &R2 }; DBusList *const Lp[3] = { &L0, &L1, &L2 };
  BusClientPolicy pol; spec_rule S[VERIF_N];
  int n = nondet_int (); __CPROVER_assume (n >= 0 && n <= VERIF_N);
  havoc_facts (); __CPROVER_assume (facts_ok ());
  pol.refcount = 1; pol.rules = NULL;
  for (int i = 0; i < VERIF_N; i++) if (i < n)
    {
      DBusList *l = Lp[i];
      build_rule (Rp[i], &S[i]); l->data = Rp[i];
      if (pol.rules == NULL) { l->next = l->prev = l; pol.rules = l; }
      else { l->next = pol.rules; l->prev = pol.rules->prev; pol.rules->prev->next = l; pol.rules->prev = l; }
    }
  const char *nm = pick ();
  dbus_bool_t before = ask (&pol, nm);
  bus_client_policy_optimize (&pol);
  dbus_bool_t after = ask (&pol, nm);
  __CPROVER_assert (before == after, "post1 optimiser preserves the decision for every message / name");
  /* what is left is a sub-list in the original order; every dropped rule was unreferenced exactly once */
  int kept = 0; DBusList *l = pol.rules; int last = -1, ordered = 1;
  for (int i = 0; i < VERIF_N; i++) if (l != NULL && kept == i)
    {
      int idx = l->data == &R0 ? 0 : l->data == &R1 ? 1 : l->data == &R2 ? 2 : -1;
      if (idx <= last) ordered = 0;
      last = idx; kept++;
      l = (l->next == pol.rules) ? NULL : l->next;
    }
  __CPROVER_assert (ordered && l == NULL && kept <= n, "post2 remaining rules are a subsequence of the original list");
  __CPROVER_assert (g_link_frees == n - kept && g_rule_frees == n - kept, "post3 each dropped rule and its link released exactly once");
  if (kept < n) REACH ("something-pruned");
  if (kept == n && n == 3) REACH ("nothing-pruned");
  if (before) REACH ("allowed"); else REACH ("denied");
}
