/* C04 / C14: B units on the REAL owner-queue code of bus/services.c running on the REAL dbus/dbus-list.c.
 *   VERIF_OP 1  bus_service_add_owner      2  bus_service_remove_owner      3  bus_service_swap_owner
 *   VERIF_HOOK  additionally run the cancel hook the operation registered (transaction cancel) and compare
 *               the queue with the pre-state (C14: "cancel hooks restore")
 *   VERIF_STRICT (op 1) position of a waiting requester strictly by the specification text
 * Bounds: queue before the call <= VERIF_MAXQ entries, requester one of VERIF_MAXQ+1 connections.
 * Trusted stubs: list links and BusOwner objects come from static pools that may fail at every call
 * (dbus-mempool.c is not verified); hash table primitives are ghost counters.
 * Reference model: array queue of spec/ownership_ref.h (written from the specification). */
#include <config.h>
#include "dbus/dbus-internals.h"
#include VERIF_TU
#include "c04_common.h"
#ifndef VERIF_MAXQ
#define VERIF_MAXQ 2
#endif
#define REF_QMAX (VERIF_MAXQ + 1)
#include "ownership_ref.h"
#define NCONN (VERIF_MAXQ + 1)

static char cobj[NCONN]; static char c_tx, c_hash, c_pre;
#define CONN(i) ((DBusConnection *) &cobj[i])
#define TX ((BusTransaction *) &c_tx)
static const char n0[] = ":1.0", n1[] = ":1.1", n2[] = ":1.2", n3[] = ":1.3", n4[] = ":1.4";
static const char *const cname[5] = { n0, n1, n2, n3, n4 };
static const char svc_name[] = "n";
static int conn_ix (DBusConnection *c) { int i, r = -1; for (i = 0; i < NCONN; i++) if (c == CONN (i)) r = i; return r; }
static int name_ix (const char *s) { int i, r = -1; for (i = 0; i < NCONN; i++) if (s == cname[i]) r = i; return r; }

/* ---- trusted pools (may fail at every call) ---- */
#define NLINK 10
static DBusList link_pool[NLINK]; static int link_used; static int links_freed;
DBusList *verif_alloc_link (void *data) { if (nondet_bool () || link_used >= NLINK) return NULL; DBusList *l = &link_pool[link_used++]; l->data = data; l->prev = l->next = NULL; return l; }
void verif_free_link (DBusList *l) { PRE (l != NULL, "free_link"); links_freed++; }
static BusOwner owner_pool[2]; static int owner_used, owners_freed;
void *_dbus_mem_pool_alloc (DBusMemPool *pool) { if (nondet_bool () || owner_used >= 2) return NULL; BusOwner *o = &owner_pool[owner_used++]; o->refcount = 0; o->service = NULL; o->conn = NULL; o->allow_replacement = 0; o->do_not_queue = 0; return o; }
static void *g_dealloc[4]; 
dbus_bool_t _dbus_mem_pool_dealloc (DBusMemPool *pool, void *element) { if (owners_freed < 4) g_dealloc[owners_freed] = element; owners_freed++; return FALSE; }
static int was_dealloc (void *p) { int i, r = 0; for (i = 0; i < 4; i++) if (i < owners_freed && g_dealloc[i] == p) r = 1; return r; }
static long cancel_data_store[16]; static int cancel_data_used;
void *dbus_malloc (size_t n) { if (nondet_bool () || cancel_data_used || n > sizeof cancel_data_store) return NULL; cancel_data_used = 1; return cancel_data_store; }
void dbus_free (void *p) { }
/* ---- ghost state of the neighbours ---- */
int g_owned[NCONN];      /* delta of n_services_owned per connection */
int g_connref[NCONN];
struct ev { int kind, to, oldc, newc; } g_ev[4]; int g_nev;
static void log_ev (int kind, int to, int oldc, int newc) { if (g_nev < 4) { g_ev[g_nev].kind = kind; g_ev[g_nev].to = to; g_ev[g_nev].oldc = oldc; g_ev[g_nev].newc = newc; } g_nev++; }
int g_hooks; BusTransactionCancelFunction g_hook_fn; void *g_hook_data; DBusFreeFunction g_hook_free;
int g_hash_removed, g_hash_inserted, g_prealloc_freed;

dbus_bool_t bus_driver_send_service_acquired (DBusConnection *c, const char *name, BusTransaction *t, DBusError *e)
{ PRE (conn_ix (c) >= 0 && name == svc_name && t == TX && e != NULL && !ERR_SET (e), "bus_driver_send_service_acquired");
  if (nondet_bool ()) { stub_fail (e); return FALSE; } log_ev (REF_SIG_ACQUIRED, conn_ix (c), -1, -1); return TRUE; }
dbus_bool_t bus_driver_send_service_lost (DBusConnection *c, const char *name, BusTransaction *t, DBusError *e)
{ PRE (conn_ix (c) >= 0 && name == svc_name && t == TX && e != NULL && !ERR_SET (e), "bus_driver_send_service_lost");
  if (nondet_bool ()) { stub_fail (e); return FALSE; } log_ev (REF_SIG_LOST, conn_ix (c), -1, -1); return TRUE; }
dbus_bool_t bus_driver_send_service_owner_changed (const char *name, const char *old_owner, const char *new_owner, BusTransaction *t, DBusError *e)
{ PRE (name == svc_name && t == TX && e != NULL && !ERR_SET (e) && (old_owner == NULL || name_ix (old_owner) >= 0) && (new_owner == NULL || name_ix (new_owner) >= 0), "bus_driver_send_service_owner_changed");
  if (nondet_bool ()) { stub_fail (e); return FALSE; } log_ev (REF_SIG_CHANGED, -1, old_owner ? name_ix (old_owner) : -1, new_owner ? name_ix (new_owner) : -1); return TRUE; }
const char *bus_connection_get_name (DBusConnection *c) { PRE (conn_ix (c) >= 0, "bus_connection_get_name"); return cname[conn_ix (c)]; }
dbus_bool_t bus_connection_add_owned_service (DBusConnection *c, BusService *s) { PRE (conn_ix (c) >= 0, "bus_connection_add_owned_service"); if (nondet_bool ()) return FALSE; g_owned[conn_ix (c)]++; return TRUE; }
void bus_connection_add_owned_service_link (DBusConnection *c, DBusList *l) { PRE (conn_ix (c) >= 0 && l != NULL, "bus_connection_add_owned_service_link"); g_owned[conn_ix (c)]++; }
void bus_connection_remove_owned_service (DBusConnection *c, BusService *s) { PRE (conn_ix (c) >= 0, "bus_connection_remove_owned_service"); g_owned[conn_ix (c)]--; }
dbus_bool_t bus_transaction_add_cancel_hook (BusTransaction *t, BusTransactionCancelFunction f, void *d, DBusFreeFunction ff)
{ PRE (t == TX && f != NULL, "bus_transaction_add_cancel_hook"); if (nondet_bool ()) return FALSE; g_hooks++; g_hook_fn = f; g_hook_data = d; g_hook_free = ff; return TRUE; }
DBusConnection *dbus_connection_ref (DBusConnection *c) { PRE (conn_ix (c) >= 0, "dbus_connection_ref"); g_connref[conn_ix (c)]++; return c; }
void dbus_connection_unref (DBusConnection *c) { PRE (conn_ix (c) >= 0, "dbus_connection_unref"); g_connref[conn_ix (c)]--; }
dbus_bool_t _dbus_hash_table_remove_string (DBusHashTable *t, const char *k) { PRE (k == svc_name, "_dbus_hash_table_remove_string"); g_hash_removed++; return TRUE; }
DBusPreallocatedHash *_dbus_hash_table_preallocate_entry (DBusHashTable *t) { return nondet_bool () ? NULL : (DBusPreallocatedHash *) &c_pre; }
void _dbus_hash_table_free_preallocated_entry (DBusHashTable *t, DBusPreallocatedHash *p) { PRE (p == (DBusPreallocatedHash *) &c_pre, "_dbus_hash_table_free_preallocated_entry"); g_prealloc_freed++; }
void _dbus_hash_table_insert_string_preallocated (DBusHashTable *t, DBusPreallocatedHash *p, char *k, void *v) { PRE (p == (DBusPreallocatedHash *) &c_pre && k == svc_name, "_dbus_hash_table_insert_string_preallocated"); g_hash_inserted++; }

static BusRegistry reg; static BusService svc;
int in_n, in_who, in_allow0, in_allow1, in_dnq0; unsigned in_flags; int out_at0, out_at1, out_at2, out_n;   /* copies for counterexample extraction */
static void snapshot (ref_queue *q)
{ int m = 0, i; DBusList *l = svc.owners;
  for (i = 0; i < REF_QMAX; i++) { q->e[i].conn = -1; q->e[i].allow = 0; q->e[i].dnq = 0; }
  for (i = 0; i < REF_QMAX + 1; i++)
    if (l != NULL)
      { BusOwner *o = l->data; if (m < REF_QMAX) { q->e[m].conn = conn_ix (o->conn); q->e[m].allow = o->allow_replacement; q->e[m].dnq = o->do_not_queue; }
        m++; l = (l->next == svc.owners) ? NULL : l->next; }
  q->n = m; }
static int q_equal (const ref_queue *a, const ref_queue *b)
{ int i, eq = (a->n == b->n); for (i = 0; i < REF_QMAX; i++) if (i < a->n && i < b->n && (a->e[i].conn != b->e[i].conn || a->e[i].allow != b->e[i].allow || a->e[i].dnq != b->e[i].dnq)) eq = 0; return eq; }
static int q_distinct (const ref_queue *a)
{ int i, j, ok = 1; for (i = 0; i < REF_QMAX; i++) for (j = 0; j < REF_QMAX; j++) if (i < j && j < a->n && a->e[i].conn == a->e[j].conn) ok = 0; return ok; }
static int queue_has_freed_owner (void)
{ int i, bad = 0; DBusList *l = svc.owners;
  for (i = 0; i < REF_QMAX + 1; i++) if (l != NULL) { if (was_dealloc (l->data)) bad = 1; l = (l->next == svc.owners) ? NULL : l->next; }
  return bad; }
static int owned_unchanged (void) { int i, ok = 1; for (i = 0; i < NCONN; i++) if (g_owned[i] != 0) ok = 0; return ok; }

void harness (void)
{
  static BusOwner pre_o[VERIF_MAXQ]; static DBusList pre_l[VERIF_MAXQ]; DBusError err; int i;
  reg.refcount = 1; reg.service_hash = (DBusHashTable *) &c_hash;
  svc.refcount = 1; svc.registry = &reg; svc.name = (char *) svc_name; svc.owners = NULL; err.name = NULL; err.message = NULL;
  int n = nondet_int (); __CPROVER_assume (n >= 0 && n <= VERIF_MAXQ);
  /* LIST_OK(owners, n): circular doubly linked, entry i belongs to connection i (all distinct: OWN_INV) */
  for (i = 0; i < VERIF_MAXQ; i++) if (i < n)
    { pre_o[i].refcount = 1; pre_o[i].service = &svc; pre_o[i].conn = CONN (i); pre_o[i].allow_replacement = nondet_bool (); pre_o[i].do_not_queue = nondet_bool ();
      pre_l[i].data = &pre_o[i];
      if (svc.owners == NULL) { pre_l[i].next = pre_l[i].prev = &pre_l[i]; svc.owners = &pre_l[i]; }
      else { pre_l[i].next = svc.owners; pre_l[i].prev = svc.owners->prev; svc.owners->prev->next = &pre_l[i]; svc.owners->prev = &pre_l[i]; } }
  int who = nondet_int (); __CPROVER_assume (who >= 0 && who < NCONN);
  ref_queue pre, post, E; snapshot (&pre); E = pre;
  int was = ref_q_find (&pre, who);
  in_n = n; in_who = who; in_allow0 = pre.e[0].allow; in_allow1 = pre.e[1].allow; in_dnq0 = pre.e[0].dnq;
  dbus_bool_t ok;

#if VERIF_OP == 1   /* ------------------------------------------------ bus_service_add_owner */
  dbus_uint32_t flags = nondet_uint ();
  __CPROVER_assume (!(n >= 1 && who == 0));      /* requires: requester is not the current primary (C04.acquire_table establishes it) */
#ifdef VERIF_STRICT
  /* call context established by C04.acquire_table (precondition of its add_owner stub): with DO_NOT_QUEUE the requester is
   * only enqueued when it is about to replace the primary */
  __CPROVER_assume (n == 0 || !(flags & REF_FLAG_DO_NOT_QUEUE) || ((flags & REF_FLAG_REPLACE_EXISTING) && pre_o[0].allow_replacement));
#endif
  ok = bus_service_add_owner (&svc, CONN (who), flags, TX, &err);
  snapshot (&post); in_flags = flags; out_n = post.n; out_at0 = post.e[0].conn; out_at1 = post.e[1].conn; out_at2 = post.e[2].conn;
  ref_entry x; x.conn = who; x.allow = (flags & REF_FLAG_ALLOW_REPLACEMENT) != 0; x.dnq = (flags & REF_FLAG_DO_NOT_QUEUE) != 0;
  int replace = (flags & REF_FLAG_REPLACE_EXISTING) != 0;
  int divergent = n >= 1 && replace && !pre.e[0].allow;    /* REPLACE_EXISTING given but replacement not possible */
  if (ok)
    {
      int at = ref_q_find (&post, who);
      ref_queue A = post, B = pre;
      POST (post.n == (was < 0 ? n + 1 : n), "add.len queue grows by one iff the requester is new");
      POST (at >= 0 && q_distinct (&post), "add.once requester in the queue, no connection twice");
      if (at >= 0) ref_q_remove_at (&A, at);
      if (was >= 0) ref_q_remove_at (&B, was);
      POST (q_equal (&A, &B), "add.others every other entry keeps its order and its stored flags");
      POST (at >= 0 && post.e[at].allow == x.allow && post.e[at].dnq == x.dnq, "add.flags requester's flags are those of the latest request");
      POST (IMP (n >= 1, post.e[0].conn == pre.e[0].conn), "add.head the primary stays at the head");
      if (n == 0) POST (at == 0 && g_nev == 1 && g_ev[0].kind == REF_SIG_ACQUIRED && g_ev[0].to == who, "add.first first owner becomes primary, NameAcquired staged for it (once)");
      else POST (g_nev == 0, "add.nosig no signal when only the waiting queue changes");
#ifdef VERIF_STRICT
      if (n >= 1) POST (at == ref_wait_position (n, was, pre.e[0].allow, flags), "add.specpos position by the specification: behind the primary only if replacement is possible, else appended / unchanged");
#else
      if (n >= 1 && !divergent) POST (at == ref_wait_position (n, was, pre.e[0].allow, flags), "add.pos position: directly behind the primary when replacing, else appended (new) / unchanged (queued)");
#endif
      POST (g_owned[who] == (was < 0 ? 1 : 0), "add.owned n_services_owned of the requester +1 iff new entry");
      POST (g_hooks == (was < 0 ? 1 : 0), "add.hook a new entry registers exactly one cancel hook");
    }
  else
    {
      POST (q_equal (&post, &pre), "add.fail FALSE leaves the queue (order, flags) unchanged");
      POST (ERR_SET (&err), "add.fail FALSE sets the error");
      POST (owned_unchanged () && g_hooks == 0, "add.fail FALSE leaves n_services_owned unchanged and registers no hook");
    }
  if (ok && n == 0) REACH ("add-first");
  if (ok && n >= 1 && was < 0 && !replace) REACH ("add-append");
  if (ok && n >= 1 && was < 0 && replace) REACH ("add-behind-primary");
  if (ok && was >= 1 && replace) REACH ("add-requeue-moved");
  if (ok && was >= 1 && !replace) REACH ("add-refresh");
  if (ok && divergent) REACH ("add-replace-not-possible");
  if (!ok) REACH ("add-failed");
#ifdef VERIF_HOOK
  if (ok && g_hooks == 1)
    { ref_queue back; g_hook_fn (g_hook_data); snapshot (&back);
      POST (q_equal (&back, &pre), "add.cancel cancel hook restores the queue");
      POST (IMP (n == 0, g_hash_removed == 1) && IMP (n > 0, g_hash_removed == 0), "add.cancel an emptied name leaves the registry");
      if (g_hook_free) g_hook_free (g_hook_data);
      POST (owned_unchanged (), "add.cancel n_services_owned restored");
      POST (!queue_has_freed_owner (), "add.cancel no queued owner object has been deallocated");
      REACH ("add-cancelled"); }
#endif

#elif VERIF_OP == 2 /* ------------------------------------------------ bus_service_remove_owner */
  __CPROVER_assume (n >= 1 && was >= 0);         /* requires: the connection is in the queue (callers: in_queue check / services_owned) */
  ok = bus_service_remove_owner (&svc, CONN (who), TX, &err);
  snapshot (&post);
  if (ok)
    {
      ref_q_remove_at (&E, was);
      POST (q_equal (&post, &E), "rem.queue queue = old queue without the requester, order and flags of the others kept");
      if (was == 0 && n == 1)
        POST (g_nev == 2 && g_ev[0].kind == REF_SIG_LOST && g_ev[0].to == who && g_ev[1].kind == REF_SIG_CHANGED && g_ev[1].oldc == who && g_ev[1].newc == -1,
              "rem.sig last owner: NameLost(requester) then NameOwnerChanged(old=requester,new=none)");
      else if (was == 0)
        POST (g_nev == 3 && g_ev[0].kind == REF_SIG_LOST && g_ev[0].to == who && g_ev[1].kind == REF_SIG_CHANGED && g_ev[1].oldc == who && g_ev[1].newc == pre.e[1].conn
              && g_ev[2].kind == REF_SIG_ACQUIRED && g_ev[2].to == pre.e[1].conn,
              "rem.sig primary leaves: NameLost(old) -> NameOwnerChanged(old,new) -> NameAcquired(new = second entry)");
      else POST (g_nev == 0, "rem.sig a waiting entry leaves silently");
      POST (g_hash_removed == (n == 1 ? 1 : 0), "rem.unlink name leaves the registry iff its queue became empty");
      POST (g_hooks == (was == 0 ? 1 : 0), "rem.hook removal of the primary registers exactly one restore hook");
    }
  else
    {
      POST (q_equal (&post, &pre), "rem.fail FALSE leaves the queue (order, flags) unchanged");
      POST (ERR_SET (&err), "rem.fail FALSE sets the error");
      POST (owned_unchanged () && g_hooks == 0 && g_hash_removed == 0, "rem.fail FALSE leaves n_services_owned and the registry unchanged");
    }
  if (ok && was == 0 && n == 1) REACH ("rem-last");
  if (ok && was == 0 && n > 1) REACH ("rem-primary");
  if (ok && was > 0) REACH ("rem-waiting");
  if (!ok) REACH ("rem-failed");
#ifdef VERIF_HOOK
  if (ok && g_hooks == 1)
    { ref_queue back; g_hook_fn (g_hook_data); snapshot (&back);
      POST (q_equal (&back, &pre), "rem.restore restore hook puts the owner back where it was");
      POST (g_hash_inserted == g_hash_removed, "rem.restore registry entry restored iff it was removed");
      if (g_hook_free) g_hook_free (g_hook_data);
      POST (owned_unchanged (), "rem.restore n_services_owned as before once the transaction is freed");
      POST (!queue_has_freed_owner (), "rem.restore no queued owner object has been deallocated");
      REACH ("rem-restored"); }
#endif

#elif VERIF_OP == 3 /* ------------------------------------------------ bus_service_swap_owner */
  __CPROVER_assume (n >= 2 && who == 0);         /* requires: connection is the primary and somebody waits behind it (add_owner ran before) */
  ok = bus_service_swap_owner (&svc, CONN (who), TX, &err);
  snapshot (&post);
  if (ok)
    {
      ref_entry p = E.e[0]; E.e[0] = E.e[1]; E.e[1] = p;   /* "the current primary owner moves to the second position in the queue" */
      POST (q_equal (&post, &E), "swap.queue second entry becomes primary, old primary second, rest and all flags kept");
      POST (g_nev == 3 && g_ev[0].kind == REF_SIG_LOST && g_ev[0].to == 0 && g_ev[1].kind == REF_SIG_CHANGED && g_ev[1].oldc == 0 && g_ev[1].newc == pre.e[1].conn
            && g_ev[2].kind == REF_SIG_ACQUIRED && g_ev[2].to == pre.e[1].conn, "swap.sig NameLost(old) -> NameOwnerChanged(old,new) -> NameAcquired(new)");
      POST (owned_unchanged () && g_hash_removed == 0, "swap.owned nobody's n_services_owned changes");
    }
  else
    {
      POST (q_equal (&post, &pre), "swap.fail FALSE leaves the queue (order, flags) unchanged");
      POST (ERR_SET (&err), "swap.fail FALSE sets the error");
      POST (owned_unchanged () && g_hooks == 0, "swap.fail FALSE leaves n_services_owned unchanged, no hook");
    }
  if (ok) REACH ("swapped");
  if (!ok) REACH ("swap-failed");
#ifdef VERIF_HOOK
  if (ok && g_hooks == 1)
    { ref_queue back; g_hook_fn (g_hook_data); snapshot (&back);
      POST (q_equal (&back, &pre), "swap.restore restore hook puts the old primary back at the head");
      if (g_hook_free) g_hook_free (g_hook_data);
      POST (owned_unchanged (), "swap.restore n_services_owned as before once the transaction is freed");
      POST (!queue_has_freed_owner (), "swap.restore no queued owner object has been deallocated");
      REACH ("swap-restored"); }
#endif

#elif VERIF_OP == 4 /* ------------------------------------------------ bus_service_list_queued_owners */
  __CPROVER_assume (n >= 1);                     /* OWN_INV: a registered name has >= 1 owner */
  DBusList *out = NULL; (void) was; (void) who;
  ok = bus_service_list_queued_owners (&svc, &out);
  snapshot (&post);
  POST (q_equal (&post, &pre), "listq.frame the queue itself is not changed");
  if (ok)
    { int m = 0, good = 1; DBusList *l = out;
      for (i = 0; i < REF_QMAX + 1; i++) if (l != NULL) { if (m < REF_QMAX && l->data != (void *) cname[pre.e[m].conn]) good = 0; m++; l = (l->next == out) ? NULL : l->next; }
      POST (m == n && good, "listq.names result = unique names of the queued connections, primary first, queue order"); REACH ("listed"); }
  else { POST (out == NULL, "listq.fail FALSE returns an empty list"); REACH ("list-oom"); }
#endif
}
