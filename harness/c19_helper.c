/* C19: the setuid activation helper, bus/activation-helper.c, run_launch_helper and everything below it
 * except desktop_file_for_name (own unit: C19.helper_find_file).  P-stub route, loop-free: the real
 * functions run_launch_helper, clear_environment, check_bus_name, get_correct_parser, check_dbus_user,
 * check_permissions, launch_bus_name, get_parameters_for_service, check_service_name,
 * exec_for_correct_user, switch_user are compiled from the pristine file; libc / libdbus / parser callees
 * are contracts written as stubs that update and REQUIRE the ghost record H.
 * Oracle: spec/activation_ref.h (clauses A1-A7, S2-S4, S7, D1, R1). */
#include <config.h>
#include "dbus/dbus-internals.h"
#include <stdlib.h>
#include <string.h>
#include VERIF_TU
#include "activation_ref.h"
_Bool nondet_bool(void); int nondet_int(void); unsigned nondet_unsigned(void); long nondet_long(void); void *nondet_ptr(void);
#define PRE(c, what) __CPROVER_assert((c), "precondition of " what)
#define IMP(a,b) (!(a) || (b))
#define REACH(tag) __CPROVER_assert(0, "REACH:" tag)
#define ERR_SET(e) ((e)->name != NULL)
struct c19_helper_ghost {
  struct { /* inputs: havocked by the harness */
    _Bool clearenv_ok, name_valid, parser_ok, parser_oom, has_dbus_user, caller_pw_found, uid_match, euid_root,
          file_found, file_oom, has_name, name_equal, has_exec, has_user, svc_pw_found, initgroups_ok, setgid_ok, setuid_ok, argv_ok, exec_ok, setenv_ok;
    int name_len; } in;
  /* typestate */
  _Bool env_cleared, env_addr_set, env_type_set, validated_whole_name, parser_from_system_config, caller_checked, file_found_for_name,
        name_compared_with_file, got_exec, got_user, groups_inited, gid_set, uid_set, argv_from_exec;
  _Bool ev_caller_pw, ev_uid, ev_euid;
  unsigned execs, setenvs, validations, parser_loads, parser_unrefs, file_frees, lookups, const_inits;
  const DBusString *const_str; const char *const_val; const char *cfg_appended;
} H;
static const char *g_bus_name;                         /* the helper's single argument (A1) */
static char o_parser, o_file; static char g_dbus_user[] = "messagebus";
static char *v_name, *v_exec, *v_user; static char *argv_store[2]; static char arg0[] = "/p";
static struct passwd pw_caller, pw_svc; static uid_t g_uid, g_euid;
static const char some_string[] = "s";
void _dbus_real_assert (dbus_bool_t condition, const char *condition_text, const char *file, int line, const char *func)
{ __CPROVER_assert(condition, "dbus internal assertion"); __CPROVER_assume(condition); }
void _dbus_real_assert_not_reached (const char *explanation, const char *file, int line) { __CPROVER_assert(0, "dbus assert_not_reached"); __CPROVER_assume(0); }
void _dbus_verbose_real (const char *file, const int line, const char *function, const char *format, ...) {}
/* compare a C string with a literal, constant bound (unrolled) */
#define SAME_LIT(p, lit) same_lit((p), (lit), sizeof(lit))
static _Bool same_lit (const char *p, const char *lit, unsigned n) { for (unsigned i = 0; i < n; i++) if (p[i] != lit[i]) return 0; return 1; }
/* ---- error protocol ---- */
void dbus_error_init (DBusError *e) { PRE(e != NULL, "dbus_error_init"); e->name = NULL; e->message = NULL; }
dbus_bool_t dbus_error_is_set (const DBusError *e) { PRE(e != NULL, "dbus_error_is_set"); return ERR_SET(e); }
void verif_stub_dbus_set_error (DBusError *e, const char *name, const char *format, ...) { PRE(name != NULL && (e == NULL || !ERR_SET(e)), "dbus_set_error: error not already set"); if (e) { e->name = name; e->message = some_string; } }
void dbus_error_free (DBusError *e) { PRE(e != NULL, "dbus_error_free"); e->name = NULL; e->message = NULL; }
void dbus_set_error_const (DBusError *e, const char *name, const char *message) { PRE(name != NULL && (e == NULL || !ERR_SET(e)), "dbus_set_error_const: error not already set"); if (e) { e->name = name; e->message = message; } }
/* ---- environment (A6, S7) ---- */
dbus_bool_t _dbus_clearenv (void) { PRE(!H.validated_whole_name && H.parser_loads == 0 && H.lookups == 0, "_dbus_clearenv: before anything else looks at the environment or the argument"); if (!H.in.clearenv_ok) return 0; H.env_cleared = 1; return 1; }
dbus_bool_t dbus_setenv (const char *var, const char *value)
{ PRE(H.env_cleared && var != NULL && value != NULL, "dbus_setenv: only after the environment was cleared"); H.setenvs++;
  if (!H.in.setenv_ok) return 0;
  if (SAME_LIT(var, "DBUS_STARTER_ADDRESS")) { PRE(SAME_LIT(value, DBUS_SYSTEM_BUS_DEFAULT_ADDRESS), "DBUS_STARTER_ADDRESS is the system bus address"); H.env_addr_set = 1; }
  else if (SAME_LIT(var, "DBUS_STARTER_BUS_TYPE")) { PRE(SAME_LIT(value, "system"), "DBUS_STARTER_BUS_TYPE is system"); H.env_type_set = 1; }
  else PRE(0, "dbus_setenv: only the two DBUS_STARTER_ variables are set");
  return 1; }
/* ---- name validation (A4; C16) ---- */
void _dbus_string_init_const (DBusString *str, const char *value) { PRE(str != NULL && value != NULL, "_dbus_string_init_const"); H.const_str = str; H.const_val = value; H.const_inits++; }
int _dbus_string_get_length (const DBusString *str) { PRE(str == H.const_str, "_dbus_string_get_length: the constant string wrapping the argument"); return H.in.name_len; }   /* == strlen(value) */
/* contract enforced by unit C16.bus_name: TRUE iff [start, start+len) is a valid bus name */
dbus_bool_t _dbus_validate_bus_name (const DBusString *str, int start, int len)
{ H.validations++; H.validated_whole_name = (str == H.const_str && H.const_val == g_bus_name && start == 0 && len == H.in.name_len); return H.in.name_valid; }
/* ---- configuration (A2, A5) ---- */
dbus_bool_t _dbus_string_init (DBusString *str) { return nondet_bool(); }
dbus_bool_t _dbus_string_append (DBusString *str, const char *buffer) { PRE(buffer != NULL, "_dbus_string_append"); if (nondet_bool()) return 0; H.cfg_appended = buffer; return 1; }
void _dbus_string_free (DBusString *str) {}
const char *_dbus_string_get_const_data (const DBusString *str) { return some_string; }   /* only feeds _dbus_verbose */
BusConfigParser *bus_config_load (const DBusString *file, dbus_bool_t is_toplevel, const BusConfigParser *parent, DBusError *error)
{ PRE(H.cfg_appended != NULL && SAME_LIT(H.cfg_appended, DBUS_SYSTEM_CONFIG_FILE) && is_toplevel && parent == NULL, "bus_config_load: only the predefined system configuration file");
  PRE(error != NULL && !ERR_SET(error), "bus_config_load: error clear");
  H.parser_loads++; if (!H.in.parser_ok) { error->name = H.in.parser_oom ? DBUS_ERROR_NO_MEMORY : DBUS_ERROR_FAILED; return NULL; }
  H.parser_from_system_config = 1; return (BusConfigParser *)&o_parser; }
void bus_config_parser_unref (BusConfigParser *p) { PRE(p == (BusConfigParser *)&o_parser, "bus_config_parser_unref: the loaded parser"); H.parser_unrefs++; }
const char *bus_config_parser_get_user (BusConfigParser *p) { PRE(p == (BusConfigParser *)&o_parser, "bus_config_parser_get_user"); return H.in.has_dbus_user ? g_dbus_user : NULL; }
/* ---- who is calling (A5) ---- */
struct passwd *getpwnam (const char *name)
{ if (name == g_dbus_user) { H.ev_caller_pw = 1; return H.in.caller_pw_found ? &pw_caller : NULL; }
  PRE(name == v_user && H.got_user, "getpwnam: either the configured bus user or the User of the service file");
  return H.in.svc_pw_found ? &pw_svc : NULL; }
uid_t getuid (void) { H.ev_uid = 1; return g_uid; }
uid_t geteuid (void) { H.ev_euid = 1; return g_euid; }
/* ---- the service file (A2, S2-S4) ---- */
BusDesktopFile *verif_stub_desktop_file_for_name (BusConfigParser *parser, const char *name, DBusError *error)
{ PRE(parser == (BusConfigParser *)&o_parser && name == g_bus_name && H.validated_whole_name && H.in.name_valid, "desktop_file_for_name: for the validated argument, in the directories of the system configuration");
  H.caller_checked = H.ev_caller_pw && H.ev_uid && H.ev_euid && H.in.has_dbus_user && H.in.caller_pw_found && H.in.uid_match && H.in.euid_root;
  PRE(H.caller_checked, "desktop_file_for_name: only after the invoking user was compared with the bus user and the effective uid with root");
  PRE(error != NULL && !ERR_SET(error), "desktop_file_for_name: error clear");
  H.lookups++; if (!H.in.file_found) { error->name = H.in.file_oom ? DBUS_ERROR_NO_MEMORY : DBUS_ERROR_SPAWN_SERVICE_NOT_FOUND; return NULL; }
  H.file_found_for_name = 1; return (BusDesktopFile *)&o_file; }
void bus_desktop_file_free (BusDesktopFile *f) { PRE(f == (BusDesktopFile *)&o_file, "bus_desktop_file_free"); H.file_frees++; }
dbus_bool_t bus_desktop_file_get_string (BusDesktopFile *f, const char *section, const char *keyname, char **val, DBusError *error)
{ PRE(f == (BusDesktopFile *)&o_file && H.file_found_for_name && SAME_LIT(section, "D-BUS Service") && val != NULL, "bus_desktop_file_get_string: group 'D-BUS Service' of the file found for the name");
  PRE(error != NULL && !ERR_SET(error), "bus_desktop_file_get_string: error clear");
  _Bool is_name = SAME_LIT(keyname, "Name"), is_exec = SAME_LIT(keyname, "Exec"), is_user = SAME_LIT(keyname, "User");
  PRE(is_name || is_exec || is_user, "bus_desktop_file_get_string: key is Name, Exec or User");
  _Bool present = is_name ? H.in.has_name : is_exec ? H.in.has_exec : H.in.has_user;
  if (!present || nondet_bool()) { error->name = present ? DBUS_ERROR_NO_MEMORY : DBUS_ERROR_FAILED; return 0; }
  char *c = malloc(4); __CPROVER_assume(c != NULL);
  if (is_name) v_name = c; else if (is_exec) { v_exec = c; H.got_exec = 1; } else { v_user = c; H.got_user = 1; }
  *val = c; return 1; }
/* strcmp by contract: result 0 iff equal; records what was compared with what */
int strcmp (const char *a, const char *b)
{ PRE((a == g_bus_name && b == v_name) || (a == v_name && b == g_bus_name), "strcmp: the argument against the Name of the service file");
  H.name_compared_with_file = 1; if (H.in.name_equal) return 0; int r = nondet_int(); __CPROVER_assume(r != 0); return r; }
void dbus_free (void *p) { free(p); }
/* ---- becoming the service user (S4, R1) ---- */
int initgroups (const char *user, gid_t group) { PRE(user == v_user && group == pw_svc.pw_gid && !H.gid_set && !H.uid_set, "initgroups: for User, before setgid/setuid"); if (!H.in.initgroups_ok) return -1; H.groups_inited = 1; return 0; }
int setgid (gid_t gid) { PRE(gid == pw_svc.pw_gid && H.groups_inited && !H.uid_set, "setgid: primary group of User, after initgroups, before setuid"); if (!H.in.setgid_ok) return -1; H.gid_set = 1; return 0; }
int setuid (uid_t uid) { PRE(uid == pw_svc.pw_uid && H.gid_set, "setuid: uid of User, after setgid"); if (!H.in.setuid_ok) return -1; H.uid_set = 1; return 0; }
/* ---- exec ---- */
dbus_bool_t _dbus_shell_parse_argv (const char *command_line, int *argcp, char ***argvp, DBusError *error)
{ PRE(command_line == v_exec && H.got_exec, "_dbus_shell_parse_argv: the Exec line of the service file");
  PRE(error != NULL && !ERR_SET(error), "_dbus_shell_parse_argv: error clear");
  if (!H.in.argv_ok) { error->name = DBUS_ERROR_SPAWN_FILE_INVALID; return 0; }
  argv_store[0] = arg0; argv_store[1] = NULL; *argcp = 1; *argvp = argv_store; H.argv_from_exec = 1; return 1; }
void dbus_free_string_array (char **a) { PRE(a == argv_store, "dbus_free_string_array"); }
int execv (const char *path, char *const argv[])
{ PRE(ACT_EXEC_ONLY_IF(H), "execv: ACT_EXEC_ONLY_IF (environment cleared, name valid, service file found, Name equal, Exec and User present, caller checked, switched to User, argv parsed from Exec)");
  PRE(path == arg0 && argv == argv_store, "execv: argv[0] of the parsed Exec line");
  PRE(H.execs == 0, "execv: at most once");
#ifdef VERIF_ENV_STRICT
  PRE(H.env_addr_set && H.env_type_set, "execv: DBUS_STARTER_ADDRESS and DBUS_STARTER_BUS_TYPE are set (S7)");
#endif
  H.execs++; REACH("exec"); return H.in.exec_ok ? 0 : -1; }

void harness (void)
{
  static char name_buf[4]; g_bus_name = name_buf;
  DBusError err; err.name = NULL; err.message = NULL;
  /* havoc every ghost input */
  H.in.clearenv_ok = nondet_bool(); H.in.name_valid = nondet_bool(); H.in.parser_ok = nondet_bool(); H.in.parser_oom = nondet_bool(); H.in.has_dbus_user = nondet_bool();
  H.in.caller_pw_found = nondet_bool(); H.in.uid_match = nondet_bool(); H.in.euid_root = nondet_bool(); H.in.file_found = nondet_bool(); H.in.file_oom = nondet_bool();
  H.in.has_name = nondet_bool(); H.in.name_equal = nondet_bool(); H.in.has_exec = nondet_bool(); H.in.has_user = nondet_bool(); H.in.svc_pw_found = nondet_bool();
  H.in.initgroups_ok = nondet_bool(); H.in.setgid_ok = nondet_bool(); H.in.setuid_ok = nondet_bool(); H.in.argv_ok = nondet_bool(); H.in.exec_ok = nondet_bool(); H.in.setenv_ok = nondet_bool();
  H.in.name_len = nondet_int(); __CPROVER_assume(H.in.name_len >= 0);
  pw_caller.pw_uid = nondet_unsigned(); pw_svc.pw_uid = nondet_unsigned(); pw_svc.pw_gid = nondet_unsigned();
  g_uid = H.in.uid_match ? pw_caller.pw_uid : nondet_unsigned(); __CPROVER_assume(H.in.uid_match || g_uid != pw_caller.pw_uid);
  g_euid = H.in.euid_root ? 0 : nondet_unsigned(); __CPROVER_assume(H.in.euid_root || g_euid != 0);

  dbus_bool_t ret = run_launch_helper (g_bus_name, &err);

  _Bool all_good = H.in.clearenv_ok && H.in.name_valid && H.in.parser_ok && H.in.has_dbus_user && H.in.caller_pw_found && H.in.uid_match && H.in.euid_root &&
                   H.in.file_found && H.in.has_name && H.in.name_equal && H.in.has_exec && H.in.has_user && H.in.svc_pw_found && H.in.initgroups_ok && H.in.setgid_ok && H.in.setuid_ok && H.in.argv_ok;
  __CPROVER_assert(H.execs <= 1, "post1 at most one exec");
  __CPROVER_assert(IMP(H.execs == 1, all_good), "post2 exec only if: environment cleared, valid name, parser from system.conf, caller is the bus user and helper is setuid root, service file found, Name equal, Exec and User present, switched to User, Exec parsed (A4 A5 A6 S2 S3 S4 R1)");
  __CPROVER_assert(IMP(H.execs == 1, H.validations >= 1 && H.validated_whole_name), "post3 the name was validated as a whole C string (start 0, len strlen) by the C16 bus-name predicate");
  __CPROVER_assert(IMP(ret, H.execs == 1 && H.in.exec_ok), "post4 success is reported only when the program was executed");
  __CPROVER_assert(IMP(!ret, ERR_SET(&err)), "post5 every refusal carries an error (A7: anything out of the ordinary aborts)");
  __CPROVER_assert(IMP(!H.in.name_valid, H.parser_loads == 0 && H.lookups == 0 && H.execs == 0), "post6 an invalid name stops the helper before the configuration or any service file is touched");
  __CPROVER_assert(H.parser_unrefs == (H.parser_loads == 1 && H.in.parser_ok ? 1 : 0) && H.file_frees == H.file_found_for_name, "post7 parser and service file released exactly once when obtained");
  __CPROVER_assert(IMP(H.execs == 1, H.parser_from_system_config), "post8 service directories come from the predefined system configuration only (A1)");
  /* not asserted: all_good => exec (allocation may fail anywhere) */
  if (ret) REACH("launched"); else REACH("refused");
  if (!ret && H.execs == 1) REACH("exec-failed");
  if (!ret && H.file_found_for_name && !H.in.name_equal) REACH("name-mismatch");
  if (!ret && H.file_found_for_name && H.in.name_equal && H.in.has_exec && !H.in.has_user) REACH("no-user");
  if (!ret && !H.in.name_valid) REACH("invalid-name");
  if (!ret && H.groups_inited && !H.gid_set) REACH("setgid-failed");
}
