/* C15: definitions of the ghost variables used by the units whose contract text is compiled inside
 * the real translation unit (see c15_close_pre.h). */
struct verif_close_ghost { unsigned calls; int recorded_fd; };
struct verif_close_ghost G_close;
long verif_gk, verif_gk2, verif_w, verif_w2; int verif_flag;
