/* C14 — DBusList primitives of dbus/dbus-list.c (REAL code, statics reached by #include) on lists of <= VERIF_LN (3) elements,
 * with the link pool bound to a failing allocator.
 *
 * Abstract state: the SEQUENCE of (link, data) pairs read from the head by following `next`, plus well-formedness
 * LIST_OK: circular, next/prev mutually consistent, length <= bound.  The lists are built by the harness (never by dbus-list).
 * Contracts (oracle: the doc comments in dbus-list.c and the property statement for the FALSE case):
 *   _dbus_list_append      "Appends a value to the list. May return FALSE if insufficient memory exists to add a list link."
 *                          TRUE  => seq' = seq ++ [data], old links keep identity, order and data;   FALSE => seq' = seq
 *   _dbus_list_prepend     TRUE  => seq' = [data] ++ seq;                                           FALSE => seq' = seq
 *   _dbus_list_insert_after "Inserts data into the list after the given existing link ... or NULL to prepend"
 *   _dbus_list_insert_before_link / _after_link / _append_link / _prepend_link  (no allocation; documented positions)
 *   _dbus_list_remove      "Removes a value from the list ... only the first value equal to the given data is removed.  TRUE if a value was found"
 *   _dbus_list_remove_last "... only the last value equal to the given data is removed"
 *   _dbus_list_pop_first / _pop_last "Removes the first/last value in the list and returns it", NULL for an empty list
 *   _dbus_list_clear       "Frees all links in the list and sets the list head to NULL" — every link released exactly once
 * On FALSE additionally: the pool holds what it held (nothing leaked: allocations == releases during the call).
 *
 * VERIF_OP == 20: the LIFO-stack contract assumed by stubs/list_as_stack.c (signature units C16.sig.*): append pushes,
 * pop_last returns the most recently appended datum (NULL and *list == NULL when empty), clear empties — stated on the real
 * code for stacks of depth <= 3, plus the push/pop round trip.
 *
 * Stubbed (assumed): _dbus_mem_pool_* = allocator of zeroed sizeof(DBusList) blocks that may fail at every call and reports
 * "pool now empty" on the last release (documented semantics of dbus-mempool.c, which is not verified); _dbus_lock may fail
 * only before the global locks were initialised (dbus-threads.c). */
#include <config.h>
#include "dbus/dbus-internals.h"
#include "verif_prelude.h"
#include "verif_ghost.h"
#include "dbus/dbus-list.h"
#include "dbus/dbus-mempool.h"
#include <stdlib.h>
_Bool nondet_bool (void); int nondet_int (void);
#define PRE(c, what) __CPROVER_assert ((c), "precondition of " what)
#define POST(c, what) __CPROVER_assert ((c), what)
#ifndef IMP
#define IMP(a, b) (!(a) || (b))
#endif
#define REACH(tag) __CPROVER_assert (0, "REACH:" tag)
#ifndef VERIF_LN
#define VERIF_LN 3
#endif
#ifndef VERIF_OP
#define VERIF_OP 1
#endif

struct DBusMemPool { int live; };
int g_pool_news, g_pool_frees, g_link_allocs, g_link_frees, g_lock_held; _Bool g_locks_ready;
static DBusList *g_old[VERIF_LN + 1]; static int g_old_n; static int g_freed[VERIF_LN + 1]; int g_foreign_frees;
DBusMemPool *_dbus_mem_pool_new (int element_size, dbus_bool_t zero_elements)
{
  PRE (element_size == (int) sizeof (DBusList) && zero_elements, "_dbus_mem_pool_new: pool of zeroed DBusList elements");
  DBusMemPool *p = malloc (sizeof *p); if (p == NULL) return NULL;
  p->live = 0; g_pool_news++; return p;
}
void _dbus_mem_pool_free (DBusMemPool *pool) { PRE (pool != NULL && pool->live == 0, "_dbus_mem_pool_free: only an empty pool is destroyed"); free (pool); g_pool_frees++; }
void *_dbus_mem_pool_alloc (DBusMemPool *pool)
{
  PRE (pool != NULL && g_lock_held == 1, "_dbus_mem_pool_alloc: live pool, list lock held");
  void *m = calloc (1, sizeof (DBusList)); if (m == NULL) return NULL;
  pool->live++; g_link_allocs++; return m;
}
dbus_bool_t _dbus_mem_pool_dealloc (DBusMemPool *pool, void *element)
{
  PRE (pool != NULL && pool->live > 0 && g_lock_held == 1, "_dbus_mem_pool_dealloc: live pool with elements, list lock held");
  _Bool mine = 0;
  for (int i = 0; i < VERIF_LN + 1; i++) if (i < g_old_n && element == (void *) g_old[i]) { g_freed[i]++; mine = 1; }
  if (!mine) g_foreign_frees++;
  free (element); pool->live--; g_link_frees++;
  return pool->live == 0;
}
dbus_bool_t _dbus_lock (DBusGlobalLock lock)
{
  PRE (lock == _DBUS_LOCK_list && g_lock_held == 0, "_dbus_lock: the list lock, not held");
  if (!g_locks_ready) { if (nondet_bool ()) return FALSE; g_locks_ready = 1; }     /* first use initialises the global locks: may fail (OOM) */
  g_lock_held = 1; return TRUE;
}
void _dbus_unlock (DBusGlobalLock lock) { PRE (lock == _DBUS_LOCK_list && g_lock_held == 1, "_dbus_unlock: the list lock, held"); g_lock_held = 0; }

#include VERIF_TU

static char obj[4];                         /* data values: &obj[0..2] (duplicates possible), &obj[3] never in the list initially */
/* read the list into arrays; returns its length, or -1 if it is not a well-formed circular list of <= VERIF_LN + 1 links */
static int read_list (DBusList *head, DBusList *q[VERIF_LN + 2], void *d[VERIF_LN + 2])
{
  if (head == NULL) return 0;
  int m = 0; DBusList *l = head;
  for (int i = 0; i < VERIF_LN + 2; i++)
    {
      if (l == NULL || l->next == NULL || l->next->prev != l) return -1;
      q[m] = l; d[m] = l->data; m++;
      l = l->next;
      if (l == head) return m;
    }
  return -1;
}

void harness (void)
{
  DBusList *L[VERIF_LN + 1]; void *D[VERIF_LN + 1]; DBusList *head = NULL;
  int n = nondet_int (); __CPROVER_assume (n >= 0 && n <= VERIF_LN);
  /* LIST_OK(head, n) built by hand: heap links (so that releasing them is legal), circular, doubly linked */
  for (int i = 0; i < VERIF_LN; i++) if (i < n)
    {
      L[i] = malloc (sizeof (DBusList)); __CPROVER_assume (L[i] != NULL);
      int c = nondet_int (); __CPROVER_assume (c >= 0 && c <= 2); D[i] = &obj[c]; L[i]->data = D[i];
      if (head == NULL) { L[i]->next = L[i]->prev = L[i]; head = L[i]; }
      else { L[i]->next = head; L[i]->prev = head->prev; head->prev->next = L[i]; head->prev = L[i]; }
      g_old[i] = L[i];
    }
  g_old_n = n;
  /* the pool: exists iff links exist anywhere in the process (ours + `extra` of other lists) */
  int extra = nondet_int (); __CPROVER_assume (extra >= 0 && extra <= 2);
  if (n + extra > 0) { list_pool = malloc (sizeof (DBusMemPool)); __CPROVER_assume (list_pool != NULL); list_pool->live = n + extra; g_locks_ready = 1; }
  else { list_pool = NULL; g_locks_ready = nondet_bool (); }
  int live0 = n + extra;
  DBusList *head0 = head;
  DBusList *q[VERIF_LN + 2]; void *d[VERIF_LN + 2]; int m;
  void *data = &obj[nondet_bool () ? 3 : 1];
  dbus_bool_t ret = TRUE;
#define POOL_BALANCED (g_link_allocs == g_link_frees && g_pool_news == g_pool_frees && (live0 > 0 ? (list_pool != NULL && list_pool->live == live0) : list_pool == NULL))
#define SAME_PREFIX(k) ((k < 1 || (q[0] == L[0] && d[0] == D[0])) && (k < 2 || (q[1] == L[1] && d[1] == D[1])) && (k < 3 || (q[2] == L[2] && d[2] == D[2])))
#define UNCHANGED_LIST (head == head0 && m == n && SAME_PREFIX (n))
/* old element i sits at position p of the new list, same link, same data */
#define AT(p, i) (q[p] == L[i] && d[p] == D[i])

#if VERIF_OP == 1 || VERIF_OP == 2          /* append / prepend */
#if VERIF_OP == 1
  ret = _dbus_list_append (&head, data);
#define WHO "_dbus_list_append"
#else
  ret = _dbus_list_prepend (&head, data);
#define WHO "_dbus_list_prepend"
#endif
  m = read_list (head, q, d);
  POST (m >= 0, WHO ": LIST_OK re-established");
  POST (IMP (!ret, UNCHANGED_LIST), WHO ": FALSE => same head, same links in the same order with the same data");
  POST (IMP (!ret, POOL_BALANCED), WHO ": FALSE => nothing leaked: the pool holds what it held");
  POST (IMP (ret, m == n + 1 && g_link_allocs == 1 && g_link_frees == 0), WHO ": TRUE => exactly one link more");
#if VERIF_OP == 1
  POST (IMP (ret, SAME_PREFIX (n) && d[n] == data && (n == 0 || head == head0)), WHO ": TRUE => old elements keep link, order and data; the new datum is last");
#else
  POST (IMP (ret, d[0] == data && (n < 1 || AT (1, 0)) && (n < 2 || AT (2, 1)) && (n < 3 || AT (3, 2))), WHO ": TRUE => the new datum is first; old elements keep link, order and data behind it");
#endif
  if (ret && n == VERIF_LN) REACH ("grown-from-full-bound"); if (ret && n == 0) REACH ("first-element"); if (!ret && n > 0) REACH ("oom-nonempty"); if (!ret && n == 0 && g_pool_news == 1) REACH ("oom-after-pool-created");

#elif VERIF_OP == 3                          /* insert_after */
  int pos = nondet_int (); __CPROVER_assume (pos >= -1 && pos < n);           /* -1: after_this_link == NULL ("or NULL to prepend") */
  ret = _dbus_list_insert_after (&head, pos < 0 ? NULL : L[pos], data);
#define WHO "_dbus_list_insert_after"
  m = read_list (head, q, d);
  POST (m >= 0, WHO ": LIST_OK re-established");
  POST (IMP (!ret, UNCHANGED_LIST), WHO ": FALSE => same head, same links in the same order with the same data");
  POST (IMP (!ret, POOL_BALANCED), WHO ": FALSE => nothing leaked: the pool holds what it held");
  POST (IMP (ret, m == n + 1 && d[pos + 1] == data), WHO ": TRUE => one link more, the new datum directly behind the given link (first if NULL)");
  POST (IMP (ret, (n < 1 || AT (0 <= pos ? 0 : 1, 0)) && (n < 2 || AT (1 <= pos ? 1 : 2, 1)) && (n < 3 || AT (2 <= pos ? 2 : 3, 2))), WHO ": TRUE => old elements keep link, relative order and data");
  if (ret && pos >= 0 && pos < n - 1) REACH ("inserted-in-the-middle"); if (ret && pos < 0 && n > 0) REACH ("null-prepends"); if (!ret) REACH ("oom");

#elif VERIF_OP >= 4 && VERIF_OP <= 7         /* link variants: cannot fail, no allocation */
  DBusList *nl = malloc (sizeof (DBusList)); __CPROVER_assume (nl != NULL); nl->data = data; nl->next = nl->prev = NULL;
  int pos = nondet_int (); __CPROVER_assume (pos >= -1 && pos < n);
#if VERIF_OP == 4
  _dbus_list_append_link (&head, nl); int where = n;
#define WHO "_dbus_list_append_link"
#elif VERIF_OP == 5
  _dbus_list_prepend_link (&head, nl); int where = 0;
#define WHO "_dbus_list_prepend_link"
#elif VERIF_OP == 6
  _dbus_list_insert_before_link (&head, pos < 0 ? NULL : L[pos], nl); int where = pos < 0 ? n : pos;      /* "or NULL to append" */
#define WHO "_dbus_list_insert_before_link"
#else
  _dbus_list_insert_after_link (&head, pos < 0 ? NULL : L[pos], nl); int where = pos + 1;                  /* "or NULL to prepend" */
#define WHO "_dbus_list_insert_after_link"
#endif
  m = read_list (head, q, d);
  POST (m == n + 1 && q[where] == nl && d[where] == data, WHO ": the given link sits at the documented position");
  POST ((n < 1 || AT (0 < where ? 0 : 1, 0)) && (n < 2 || AT (1 < where ? 1 : 2, 1)) && (n < 3 || AT (2 < where ? 2 : 3, 2)), WHO ": old elements keep link, relative order and data");
  POST (g_link_allocs == 0 && g_link_frees == 0, WHO ": no allocation");
  if (n == VERIF_LN) REACH ("full-bound"); if (n == 0) REACH ("empty");

#elif VERIF_OP == 8 || VERIF_OP == 9         /* remove (first match) / remove_last (last match) */
  data = &obj[nondet_bool () ? 3 : (nondet_bool () ? 0 : 1)];
#if VERIF_OP == 8
  ret = _dbus_list_remove (&head, data);
#define WHO "_dbus_list_remove"
  int hit = (n > 0 && D[0] == data) ? 0 : (n > 1 && D[1] == data) ? 1 : (n > 2 && D[2] == data) ? 2 : -1;
#else
  ret = _dbus_list_remove_last (&head, data);
#define WHO "_dbus_list_remove_last"
  int hit = (n > 2 && D[2] == data) ? 2 : (n > 1 && D[1] == data) ? 1 : (n > 0 && D[0] == data) ? 0 : -1;
#endif
  m = read_list (head, q, d);
  POST (m >= 0, WHO ": LIST_OK re-established");
  POST ((ret != 0) == (hit >= 0), WHO ": TRUE iff a value equal to data was in the list");
  POST (IMP (!ret, UNCHANGED_LIST && g_link_frees == 0), WHO ": FALSE => list unchanged, nothing released");
  POST (IMP (ret, m == n - 1 && g_link_frees == 1 && g_freed[hit] == 1 && g_foreign_frees == 0), WHO ": TRUE => exactly the matching (first resp. last) link is released, once");
  POST (IMP (ret, (n < 1 || hit == 0 || AT (0, 0)) && (n < 2 || hit == 1 || AT (hit < 1 ? 0 : 1, 1)) && (n < 3 || hit == 2 || AT (hit < 2 ? 1 : 2, 2))), WHO ": TRUE => the other elements keep link, relative order and data");
  if (ret && n == 3 && hit == 1) REACH ("removed-middle"); if (ret && n == 1) REACH ("removed-only-element"); if (!ret && n > 0) REACH ("not-found");
  if (ret && n == 3 && D[0] == D[2] && hit == (VERIF_OP == 8 ? 0 : 2)) REACH ("duplicate-resolved");

#elif VERIF_OP == 10 || VERIF_OP == 11       /* pop_first / pop_last */
#if VERIF_OP == 10
  void *got = _dbus_list_pop_first (&head); int hit = 0;
#define WHO "_dbus_list_pop_first"
#else
  void *got = _dbus_list_pop_last (&head); int hit = n - 1;
#define WHO "_dbus_list_pop_last"
#endif
  m = read_list (head, q, d);
  POST (m >= 0, WHO ": LIST_OK re-established");
  POST (IMP (n == 0, got == NULL && head == NULL && g_link_frees == 0), WHO ": empty list => NULL, nothing changes");
  POST (IMP (n > 0, got == D[hit] && m == n - 1 && g_link_frees == 1 && g_freed[hit] == 1 && g_foreign_frees == 0), WHO ": returns the data of the first resp. last element and releases exactly that link");
  POST (IMP (n > 0, (hit == 0 || AT (0, 0)) && (n < 2 || hit == 1 || AT (hit < 1 ? 0 : 1, 1)) && (n < 3 || hit == 2 || AT (hit < 2 ? 1 : 2, 2))), WHO ": the other elements keep link, order and data");
  POST (IMP (n == 1, head == NULL), WHO ": popping the only element leaves the empty list (NULL head)");
  POST (IMP (n == 1 && extra == 0, list_pool == NULL && g_pool_frees == 1), WHO ": the pool is destroyed with its last element");
  if (n == 3) REACH ("popped-from-3"); if (n == 0) REACH ("empty"); if (n == 1 && extra == 0) REACH ("pool-destroyed");

#elif VERIF_OP == 12                         /* clear */
#define WHO "_dbus_list_clear"
  _dbus_list_clear (&head);
  POST (head == NULL, WHO ": the list head is NULL");
  POST (g_link_frees == n && g_foreign_frees == 0 && (n < 1 || g_freed[0] == 1) && (n < 2 || g_freed[1] == 1) && (n < 3 || g_freed[2] == 1), WHO ": every link of the list is released exactly once, nothing else");
  POST (extra > 0 ? (list_pool != NULL && list_pool->live == extra) : list_pool == NULL, WHO ": links of other lists stay in the pool");
  if (n == VERIF_LN) REACH ("cleared-3"); if (n == 0) REACH ("empty");

#elif VERIF_OP == 20                         /* LIFO stack contract == stubs/list_as_stack.c (justification of that stub) */
#define WHO "stack contract"
  /* the abstract stack is D[0..n) with the top at D[n-1] */
  void *x = &obj[3];
  ret = _dbus_list_append (&head, x);                                  /* push */
  m = read_list (head, q, d);
  POST (IMP (ret, m == n + 1 && SAME_PREFIX (n) && d[n] == x && head != NULL), WHO ": append pushes (stack below unchanged, *list != NULL)");
  POST (IMP (!ret, UNCHANGED_LIST), WHO ": a failed push leaves the stack as it was");
  if (ret)
    {
      void *top = _dbus_list_pop_last (&head);                         /* pop right after push */
      m = read_list (head, q, d);
      POST (top == x, WHO ": pop_last returns the most recently appended datum");
      POST (m == n && SAME_PREFIX (n) && (n == 0) == (head == NULL), WHO ": push then pop gives the stack back; *list == NULL iff it is empty");
      REACH ("push-pop");
    }
  /* pop on the stack as it now is (n elements again, or still n after the failed push) */
  void *top2 = _dbus_list_pop_last (&head);
  m = read_list (head, q, d);
  POST (IMP (n == 0, top2 == NULL && head == NULL), WHO ": pop_last on the empty stack returns NULL");
  POST (IMP (n > 0, top2 == D[n - 1] && m == n - 1 && SAME_PREFIX (n - 1) && (n == 1) == (head == NULL)), WHO ": pop_last returns the top and leaves the rest; *list == NULL iff now empty");
  _dbus_list_clear (&head);
  POST (head == NULL, WHO ": clear empties the stack (*list == NULL)");
  if (n == VERIF_LN) REACH ("depth-3"); if (n == 0) REACH ("empty"); if (!ret) REACH ("push-oom");
#else
#error "unknown VERIF_OP"
#endif
}
