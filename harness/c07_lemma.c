/* C07 (L): the unrolled macro forms of the oracle (used inside loop invariants and DFCC-instrumented harnesses) agree with
 * the plain C forms of spec/match_ref.h (used by the native replay) on all strings of at most REF_MAXS bytes:
 *   REF_ARGM == ref_arg_matches;  REF_PATH_IN_NS_N == ref_path_in_namespace;  REF_STREQ_N == ref_streq;
 *   the conjunct-by-conjunct header predicate of harness/c07_match.c == ref_header_matches.  No dbus code involved. */
#include "match_ref.h"
_Bool nondet_bool (void); int nondet_int (void); unsigned nondet_uint (void); char nondet_char (void);
#define REACH(tag) __CPROVER_assert(0, "REACH:" tag)
#define IMP(a, b) (!(a) || (b))
typedef struct { char v[REF_MAXS + 1]; long len; _Bool present; } S;
static void mk (S *s) { unsigned n = nondet_uint (); __CPROVER_assume (n <= REF_MAXS); s->len = n; s->present = 1; for (int k = 0; k <= REF_MAXS; k++) { char c = nondet_char (); if (k < (int) n) __CPROVER_assume (c != 0); else c = 0; s->v[k] = c; } }
static void opt (S *s) { mk (s); s->present = nondet_bool (); }
#define EQ(a, b) REF_STREQ_N ((a).v, (a).len, (b).v, (b).len)
void harness (void)
{
  /* 1. argument predicate */
  S e, a; mk (&e); mk (&a); int kind = nondet_int (); __CPROVER_assume (kind >= 0 && kind <= 2); int t = nondet_int ();
  int f = ref_arg_matches (kind, e.v, e.len, t, a.v, a.len); int m = REF_ARGM (kind, e.v, e.len, t, a.v, a.len);
  __CPROVER_assert ((f != 0) == (m != 0), "lemma1 REF_ARGM == ref_arg_matches");
  /* 2. strings and path namespace */
  __CPROVER_assert ((ref_streq (e.v, a.v) != 0) == (EQ (e, a) != 0), "lemma2 REF_STREQ_N == ref_streq");
  __CPROVER_assert ((ref_path_in_namespace (a.v, e.v) != 0) == (REF_PATH_IN_NS_N (a.v, a.len, e.v, e.len) != 0), "lemma3 REF_PATH_IN_NS_N == ref_path_in_namespace");
  /* 3. header predicate */
  S fi, fm, fp, fd, ri, rm, rs, rd, rp; opt (&fi); opt (&fm); opt (&fp); opt (&fd); opt (&ri); opt (&rm); opt (&rs); opt (&rd); opt (&rp);
  _Bool is_ns = nondet_bool (), has_type = nondet_bool (), eaves = nondet_bool (), sender_is_bus = nondet_bool (), rcpt_is_conn = nondet_bool (), owns_s = nondet_bool (), owns_d = nondet_bool ();
  int rtype = nondet_int (), ftype = nondet_int ();
  RefRule r; RefMsgFacts mf;
  r.has_type = has_type; r.type = rtype; r.sender = rs.present ? &rs.v[0] : (const char *) 0; r.interface = ri.present ? &ri.v[0] : (const char *) 0; r.member = rm.present ? &rm.v[0] : (const char *) 0; r.destination = rd.present ? &rd.v[0] : (const char *) 0;
  r.path = (rp.present && !is_ns) ? &rp.v[0] : (const char *) 0; r.path_namespace = (rp.present && is_ns) ? &rp.v[0] : (const char *) 0; r.eavesdrop = eaves;
  mf.type = ftype; mf.interface = fi.present ? &fi.v[0] : (const char *) 0; mf.member = fm.present ? &fm.v[0] : (const char *) 0; mf.path = fp.present ? &fp.v[0] : (const char *) 0; mf.destination = fd.present ? &fd.v[0] : (const char *) 0; mf.sender_is_bus = sender_is_bus; mf.recipient_is_conn = rcpt_is_conn;
  int want = ref_header_matches (&r, &mf, owns_s, owns_d);
  /* the bus driver's name is longer than REF_MAXS: a short rule sender never equals it */
  _Bool c_type = IMP (has_type, rtype == ftype);
  _Bool c_sender = IMP (rs.present, sender_is_bus ? 0 : owns_s);
  _Bool c_iface = IMP (ri.present, fi.present && EQ (fi, ri));
  _Bool c_member = IMP (rm.present, fm.present && EQ (fm, rm));
  _Bool c_path = IMP (rp.present && !is_ns, fp.present && EQ (fp, rp));
  _Bool c_pathns = IMP (rp.present && is_ns, fp.present && REF_PATH_IN_NS_N (fp.v, fp.len, rp.v, rp.len));
  _Bool c_dest = IMP (rd.present, fd.present && (rcpt_is_conn ? owns_d : EQ (rd, fd)));
  _Bool c_eaves = IMP (fd.present, eaves);
  __CPROVER_assert ((want != 0) == (c_type && c_sender && c_iface && c_member && c_path && c_pathns && c_dest && c_eaves), "lemma4 conjunct form of the header predicate == ref_header_matches");
  if (f) REACH ("arg-match"); else REACH ("arg-mismatch"); if (want) REACH ("header-match"); else REACH ("header-mismatch");
}
