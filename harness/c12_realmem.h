/* Memory model shared by C12.real_delete.* / C12.real_replace.* (bounded units on a concrete header skeleton):
 *  - memmove / memcpy / memset: exact ISO C semantics as byte loops (sizes are small; CBMC's built-in array models of these
 *    functions run out of memory in propositional reduction on this code);
 *  - dbus_malloc / dbus_malloc0 / dbus_realloc: every call may FAIL (nondeterministic, = --malloc-may-fail --malloc-fail-null
 *    restricted to the library's allocations); a successful dbus_realloc grows the block IN PLACE (one of the behaviours ISO C
 *    allows): every block has room for VERIF_N + VERIF_SLACK bytes, and a request beyond that is outside the bound of the unit
 *    (assumed away, stated in `bounds`);
 *  - fixup_alignment: align_offset stays 0 (platform fact of DESIGN 3.5: the allocator returns 8-aligned blocks);
 *  - DBusList as used for the array-length fixups: a pool of 4 links (append may fail). */
#ifndef VERIF_SLACK
#define VERIF_SLACK 24
#endif
#define VERIF_MEMMAX (VERIF_N + VERIF_SLACK)
static int g_allocs, g_failed_allocs;
void *verif_mem_memmove (void *dst, const void *src, size_t n)
{ unsigned char tmp[VERIF_MEMMAX]; size_t k;
  __CPROVER_assert (n <= VERIF_MEMMAX, "memmove within the bound of the unit");
  for (k = 0; k < VERIF_MEMMAX; k++) { if (k >= n) break; tmp[k] = ((const unsigned char *) src)[k]; }
  for (k = 0; k < VERIF_MEMMAX; k++) { if (k >= n) break; ((unsigned char *) dst)[k] = tmp[k]; }
  return dst; }
void *verif_mem_memcpy (void *dst, const void *src, size_t n) { return verif_mem_memmove (dst, src, n); }
void *verif_mem_memset (void *dst, int c, size_t n)
{ size_t k; __CPROVER_assert (n <= VERIF_MEMMAX, "memset within the bound of the unit");
  for (k = 0; k < VERIF_MEMMAX; k++) { if (k >= n) break; ((unsigned char *) dst)[k] = (unsigned char) c; } return dst; }
void *verif_mem_malloc (size_t bytes)
{ void *p; if (bytes == 0) return NULL; g_allocs++; if (nondet_bool ()) { g_failed_allocs++; return NULL; }
  __CPROVER_assume (bytes <= VERIF_MEMMAX); p = malloc (VERIF_MEMMAX); __CPROVER_assume (p != NULL); return p; }
void *verif_mem_malloc0 (size_t bytes)
{ unsigned char *p = verif_mem_malloc (bytes); size_t k; if (p) for (k = 0; k < VERIF_MEMMAX; k++) { if (k >= bytes) break; p[k] = 0; } return p; }
void *verif_mem_realloc (void *memory, size_t bytes)
{ if (memory == NULL) return verif_mem_malloc (bytes);
  if (bytes == 0) { free (memory); return NULL; }
  g_allocs++; if (nondet_bool ()) { g_failed_allocs++; return NULL; }
  __CPROVER_assume (bytes <= __CPROVER_OBJECT_SIZE (memory)); return memory; }
void verif_mem_free (void *memory) { if (memory) free (memory); }
void verif_mem_fixup_alignment (DBusRealString *real) { __CPROVER_assert (real->align_offset == 0, "blocks are 8-aligned: no alignment shift"); }
/* DBusList for fixups */
static DBusList g_links[4]; static int g_nlinks;
dbus_bool_t _dbus_list_append (DBusList **list, void *data)
{ DBusList *l; if (nondet_bool ()) return 0; __CPROVER_assert (g_nlinks < 4, "fixup list within the bound of the unit"); l = &g_links[g_nlinks++]; l->data = data;
  if (*list == NULL) { l->next = l; l->prev = l; *list = l; } else { DBusList *last = (*list)->prev; last->next = l; l->prev = last; l->next = *list; (*list)->prev = l; } return 1; }
DBusList *_dbus_list_get_first_link (DBusList **list) { return *list; }
void _dbus_list_free_link (DBusList *link) { }
int _dbus_list_get_length (DBusList **list) { int n = 0; DBusList *l = *list; if (!l) return 0; do { n++; l = l->next; } while (l != *list && n < 4); return n; }
#define REALMEM_REPLACE "memmove:verif_mem_memmove,memcpy:verif_mem_memcpy,memset:verif_mem_memset,dbus_malloc:verif_mem_malloc,dbus_malloc0:verif_mem_malloc0,dbus_realloc:verif_mem_realloc,dbus_free:verif_mem_free,fixup_alignment:verif_mem_fixup_alignment"
