/* C17.do_iteration (P; rely/guarantee over the connection lock): _dbus_connection_do_iteration_unlocked and the REAL
 * _dbus_connection_acquire_io_path / _dbus_connection_release_io_path (dbus/dbus-connection.c).
 * Property C17: "... completes exactly once ... under every interleaving of reply arrival, timeout, ... blocking waits
 * and dispatch, from one or several threads".  The function's own contract (its doc comment): "If pending is not NULL
 * then a check is made if the pending call is completed AFTER the io path has been [ac]quired ... This must be done
 * since the _dbus_connection_acquire_io_path releases the connection lock for a while."
 * Other threads are the ENVIRONMENT of this sequential proof: whenever this thread takes the connection mutex again
 * (_dbus_rmutex_lock) after having released it, the shared state may have changed arbitrarily within what other threads
 * can do: the awaited call may have been completed (never un-completed), its reply may have been queued (or taken), and
 * the I/O path may be held or free.  A condition-variable wait is the same step on the io-path state.
 * Post: the transport is entered (possibly sleeping in poll) only while this thread holds the I/O path AND, judged on
 * the state after the LAST re-acquisition of the lock, the awaited call is neither completed nor has its reply queued;
 * the I/O path is released again; the lock is held at exit; no write is asked for when nothing is queued for sending. */
#define VERIF_ENV_ON_LOCK 1
#include "c17_common.h"
static DBusConnection c; static char pend, transp;
static struct { _Bool completed, in_queue; dbus_uint32_t serial; int iterations, env_steps; _Bool had_lock_before; unsigned it_flags; int it_timeout; } G;
void verif_env_step (void)
{ /* called from _dbus_rmutex_lock: this thread did not hold the lock (TOOK_LOCK_CHECK asserts it right after) */
  G.env_steps++;
  if (!G.completed) G.completed = nondet_bool ();        /* completed is monotone */
  G.in_queue = G.completed ? 0 : nondet_bool ();         /* a completed call's reply has been taken from the queue */
}
DBusList *_dbus_list_pop_first_link (DBusList **list) { PRE (*list == NULL, "expired list empty"); return NULL; }
void _dbus_condvar_wait (DBusCondVar *cv, DBusCMutex *m)
{ /* invariant cut: returns with the io path in any state; the surrounding loop continues while it is held, so only the
     exits are followed (partial correctness; termination of the wait is liveness, outside) */
  c.io_path_acquired = nondet_bool (); __CPROVER_assume (!c.io_path_acquired); }
dbus_bool_t _dbus_condvar_wait_timeout (DBusCondVar *cv, DBusCMutex *m, int ms) { c.io_path_acquired = nondet_bool (); return nondet_bool (); }
dbus_bool_t verif_stub_pc_completed (DBusPendingCall *p) { PRE (p == (DBusPendingCall *) &pend && c.have_connection_lock, "_dbus_pending_call_get_completed_unlocked: lock held"); return G.completed; }
dbus_uint32_t verif_stub_pc_serial (DBusPendingCall *p) { PRE (p == (DBusPendingCall *) &pend && c.have_connection_lock, "_dbus_pending_call_get_reply_serial_unlocked: lock held"); return G.serial; }
dbus_bool_t verif_stub_peek_for_reply (DBusConnection *cc, dbus_uint32_t serial) { PRE (cc == &c && c.have_connection_lock && serial == G.serial, "_dbus_connection_peek_for_reply_unlocked: lock held, the awaited call's serial"); return G.in_queue; }
static _Bool g_with_pending;
void verif_stub_transport_do_iteration (DBusTransport *t, unsigned int flags, int timeout_milliseconds)
{
  PRE (t == (DBusTransport *) &transp && c.have_connection_lock, "_dbus_transport_do_iteration: lock held");
  __CPROVER_assert (c.io_path_acquired, "post1 the transport is entered only by the holder of the I/O path");
  __CPROVER_assert (!g_with_pending || (!G.completed && !G.in_queue), "post2 the transport is not entered (never sleeps in poll) when the awaited call is already completed or its reply already queued, judged after the lock was last re-acquired");
  G.iterations++; G.it_flags = flags; G.it_timeout = timeout_milliseconds;
}
void verif_stub_connection_last_unref (DBusConnection *cc) { __CPROVER_assert (0, "the caller's reference keeps the connection alive"); }
void harness (void)
{
  unsigned flags = nondet_uint (); int timeout = nondet_int (); g_with_pending = nondet_bool ();
  __CPROVER_assume (timeout >= -1);
  c.have_connection_lock = 1; c.expired_messages = NULL; c.refcount.value = 3; c.generation = _dbus_current_generation; c.mutex = NULL; c.io_path_mutex = NULL; c.io_path_cond = NULL; c.transport = (DBusTransport *) &transp;
  c.io_path_acquired = nondet_bool ();                 /* another thread may be inside the transport */
  c.n_outgoing = nondet_int (); __CPROVER_assume (c.n_outgoing >= 0);
  G.completed = nondet_bool (); G.in_queue = G.completed ? 0 : nondet_bool (); G.serial = nondet_uint (); G.iterations = 0; G.env_steps = 0;
  _Bool other_holds = c.io_path_acquired;
  _dbus_connection_do_iteration_unlocked (&c, g_with_pending ? (DBusPendingCall *) &pend : NULL, flags, timeout);
  __CPROVER_assert (c.have_connection_lock, "post3 the connection lock is held at exit");
  __CPROVER_assert (G.iterations <= 1, "post4 at most one transport iteration");
  __CPROVER_assert (IMP (G.iterations == 1, !c.io_path_acquired), "post5 the I/O path taken for the iteration is released again");
  __CPROVER_assert (IMP (G.iterations == 1 && c.n_outgoing == 0, !(G.it_flags & DBUS_ITERATION_DO_WRITING)), "post6 no write is asked for when nothing is queued for sending");
  __CPROVER_assert (IMP (G.iterations == 1, G.it_timeout == timeout), "post7 the caller's timeout is passed on");
  __CPROVER_assert (G.env_steps >= 1, "post8 acquiring the I/O path released the lock (other threads may have run)");
  __CPROVER_assert (c.refcount.value == 3, "post9 reference count restored");
  if (G.iterations == 1 && g_with_pending) REACH ("iteration-while-awaiting");
  if (G.iterations == 0 && g_with_pending && G.completed) REACH ("completed-by-another-thread");
  if (G.iterations == 0 && g_with_pending && G.in_queue) REACH ("reply-queued-by-another-thread");
  if (G.iterations == 0 && !g_with_pending) REACH ("io-path-busy");
  if (other_holds && G.iterations == 1) REACH ("waited-for-io-path");
}
