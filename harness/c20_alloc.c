/* C20.alloc (B, names <= VERIF_NAME_MAX bytes): the real allocate_subtree_object / _dbus_object_subtree_new
 * meet the contract assumed for them in C20.find: NULL, or a fresh node named like the argument, with no
 * handler, no children, no parent, refcount 1, not a fallback. */
#define VERIF_NO_MEMMOVE_STUB 1
#include "c20_common.h"
#ifndef VERIF_NAME_MAX
#define VERIF_NAME_MAX 7
#endif
VERIF_FSR_PROTO(2) { __CPROVER_assert (0, "outside this unit"); return NULL; }
VERIF_FSR_PROTO(3) { __CPROVER_assert (0, "outside this unit"); return NULL; }
VERIF_FSR_PROTO(4) { __CPROVER_assert (0, "outside this unit"); return NULL; }
VERIF_UFR_PROTO(10) { __CPROVER_assert (0, "outside this unit"); return 0; }
static DBusHandlerResult h_msg (DBusConnection *c, DBusMessage *m, void *d) { return DBUS_HANDLER_RESULT_HANDLED; }
static void h_unreg (DBusConnection *c, void *d) { }
void harness (void)
{
  char name[VERIF_NAME_MAX + 1];
  int len = nondet_int (); __CPROVER_assume (0 <= len && len <= VERIF_NAME_MAX);
  for (int q = 0; q < VERIF_NAME_MAX; q++) __CPROVER_assume (q >= len || name[q] != 0);
  name[len] = 0;
  DBusObjectPathVTable vt; vt.message_function = nondet_bool () ? h_msg : NULL; vt.unregister_function = nondet_bool () ? h_unreg : NULL;
  const DBusObjectPathVTable *vtp = nondet_bool () ? &vt : NULL;
  void *ud = nondet_ptr ();
  g_oom_possible = 1; verif_gk = nondet_long ();
  DBusObjectSubtree *s = _dbus_object_subtree_new (name, vtp, ud);
  if (s == NULL) { REACH ("oom"); return; }
  __CPROVER_assert (IMP (0 <= verif_gk && verif_gk <= len, s->name[verif_gk] == name[verif_gk]), "new node is named like the argument (every byte incl. NUL)");
  __CPROVER_assert (__CPROVER_OBJECT_SIZE (s) >= sizeof (DBusObjectSubtree) && __CPROVER_OBJECT_SIZE (s) >= _DBUS_STRUCT_OFFSET (DBusObjectSubtree, name) + len + 1, "block holds the struct and the name");
  __CPROVER_assert (s->parent == NULL && s->subtrees == NULL && s->n_subtrees == 0 && s->max_subtrees == 0 && s->invoke_as_fallback == 0 && s->refcount.value == 1, "fresh node: no parent, no children, refcount 1, not a fallback");
  __CPROVER_assert (s->message_function == (vtp ? vt.message_function : NULL) && s->unregister_function == (vtp ? vt.unregister_function : NULL) && s->user_data == ud, "handler fields as given");
  if (len == VERIF_NAME_MAX) REACH ("longest"); if (len == 0) REACH ("empty"); if (vtp == NULL) REACH ("no-vtable");
}
