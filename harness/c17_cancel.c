/* C17.cancel / C17.timeout (T, loop-free), real bodies:
 *  -DVERIF_FN_CANCEL:  dbus_pending_call_cancel -> _dbus_connection_remove_pending_call ->
 *                      _dbus_connection_detach_pending_call_and_unlock -> free_pending_call_on_hash_removal.
 *     Oracle: dbus_pending_call_cancel doc "Cancels the pending call, such that any reply or error received will
 *     just be ignored. Drops the dbus library's internal reference"; "canceling a pending call will not simulate a
 *     timed-out call"; property C17 "A cancelled call is never notified".
 *     Post: detached, NOT completed, no reply stored, never notified, timeout removed iff added, only the table's
 *     reference dropped, lock taken and released once; cancelling a call that is already detached changes nothing.
 *  -DVERIF_FN_TIMEOUT: reply_handler_timeout (the DBusTimeout handler of an outstanding call).
 *     Oracle: dbus_connection_send_with_reply doc "If no reply is received in the given timeout_milliseconds, this
 *     function expires the pending reply and generates a synthetic error reply"; property C17 "timeout handler
 *     synthesizes error through the same completion path".
 *     Post: the preallocated timeout error is queued exactly once, the call stays attached (so that dispatching the
 *     error completes it, C17.dispatch), is not completed here, not notified here; timeout removed; lock balanced. */
#include "c17_common.h"
#include "c17_model.h"
static int g_queued, g_status_updates, g_conn_unrefs; static DBusList *g_tl;
void _dbus_list_append_link (DBusList **list, DBusList *link) { if (link == g_tl) g_queued++; G.synthesized++; }
void _dbus_message_trace_ref (DBusMessage *m, int a, int b, const char *why) { }
DBusDispatchStatus verif_stub_get_dispatch_status (DBusConnection *c) { PRE (c->have_connection_lock, "_dbus_connection_get_dispatch_status_unlocked: lock held"); return (DBusDispatchStatus) nondet_int (); }
void verif_stub_update_status_and_unlock (DBusConnection *c, DBusDispatchStatus s) { PRE (c->have_connection_lock, "_dbus_connection_update_dispatch_status_and_unlock: lock held"); c->have_connection_lock = 0; g_status_updates++; }
void verif_stub_connection_unref (DBusConnection *c) { PRE (!c->have_connection_lock, "dbus_connection_unref: lock not held"); g_conn_unrefs++; c->refcount.value--; }
void harness (void)
{
  DBusConnection c; char tmo;
  c.have_connection_lock = 0; c.expired_messages = NULL; c.incoming_messages = NULL; c.refcount.value = 10; c.mutex = NULL; c.wakeup_main_function = NULL;
  c.n_incoming = nondet_int (); __CPROVER_assume (0 <= c.n_incoming && c.n_incoming < 1000000);
  verif_c17_reset (&c); g_queued = g_status_updates = g_conn_unrefs = 0;
  dbus_uint32_t serial = nondet_uint (); __CPROVER_assume (serial != 0);
  DBusMessage *err = verif_new_msg (0, serial, DBUS_MESSAGE_TYPE_ERROR);
  g_tl = malloc (sizeof (DBusList)); __CPROVER_assume (g_tl != NULL); g_tl->data = err; g_tl->next = g_tl->prev = g_tl;
  _Bool has_fn = nondet_bool (), has_timeout = nondet_bool (), attached = nondet_bool ();
  DBusPendingCall *p = verif_pc_alloc ();
#ifdef VERIF_FN_CANCEL
  _Bool t_added = attached && has_timeout && nondet_bool ();
  int rc = attached ? 2 : 1;                     /* the application's reference (it is calling us) + the table's */
  verif_pc_init (p, rc, has_fn ? verif_notify : NULL, &c, NULL, has_timeout ? (DBusTimeout *) &tmo : NULL, g_tl, serial, 0, t_added);
  if (attached) { G.present[0] = 1; G.key[0] = serial; G.val[0] = p; }
  /* a second, unrelated outstanding call must not be disturbed */
  DBusPendingCall *other = verif_pc_alloc (); dbus_uint32_t s2 = nondet_uint (); __CPROVER_assume (s2 != 0 && s2 != serial);
  verif_pc_init (other, 2, NULL, &c, NULL, NULL, NULL, s2, 0, 0); G.present[1] = 1; G.key[1] = s2; G.val[1] = other;

  dbus_pending_call_cancel (p);

  __CPROVER_assert (!c.have_connection_lock, "post lock released");
  __CPROVER_assert (!verif_attached (p) && G.removals == (attached ? 1 : 0), "post the call is detached (once)");
  __CPROVER_assert (!verif_pc_completed (p) && verif_pc_reply (p) == NULL && verif_pc_timeout_link (p) == g_tl, "post cancelling does not complete the call nor consume its timeout error");
  __CPROVER_assert (G.notified == 0, "post a cancelled call is not notified");
  __CPROVER_assert (G.timeout_removes == (t_added ? 1 : 0) && !verif_pc_timeout_added (p), "post its timeout is removed from the connection iff it had been added");
  __CPROVER_assert (verif_pc_refcount (p) == 1, "post only the table's reference is dropped");
  __CPROVER_assert (verif_attached (other) && verif_pc_refcount (other) == 2 && G.synthesized == 0, "post other outstanding calls untouched, nothing queued");
  __CPROVER_assert (c.refcount.value == 10, "post connection reference balance");
  if (attached) REACH ("cancel-outstanding"); else REACH ("cancel-detached");
#else
  __CPROVER_assume (attached && has_timeout);     /* the handler only runs for an added timeout of an attached call */
  verif_pc_init (p, 2, has_fn ? verif_notify : NULL, &c, NULL, (DBusTimeout *) &tmo, g_tl, serial, 0, 1);
  G.present[0] = 1; G.key[0] = serial; G.val[0] = p;

  dbus_bool_t r = reply_handler_timeout (p);

  __CPROVER_assert (r == TRUE && !c.have_connection_lock && g_status_updates == 1, "post handled; lock released through the dispatch-status update");
  __CPROVER_assert (g_queued == 1 && G.synthesized == 1 && verif_pc_timeout_link (p) == NULL, "post the preallocated timeout error is queued exactly once");
  __CPROVER_assert (verif_attached (p) && !verif_pc_completed (p) && G.notified == 0 && G.completions == 0, "post the call stays attached and uncompleted: dispatching the queued error completes it");
  __CPROVER_assert (G.timeout_removes == 1 && !verif_pc_timeout_added (p), "post the timeout is removed so that it cannot fire twice");
  __CPROVER_assert (c.refcount.value == 10 && g_conn_unrefs == 1 && verif_pc_refcount (p) == 2, "post reference balance");
  REACH ("timeout-fired");
#endif
}
