/* C07: match_rule_matches (bus/signals.c, static) — hybrid route.
 *   - the real function from the overlay copy of bus/signals.c (loop contract on the args loop, ghost witness
 *     "verif_w = i" before each rejecting return inside the loop; contracts/c07_signals.ovl);
 *   - the message accessors, the DBusMessageIter functions and connection_is_primary_owner are contracts written
 *     as stubs (bound with --replace-calls) that deliver a symbolic "message facts" record;
 *   - precondition RULE_OK = what bus_match_rule_set_* / bus_match_rule_parse establish (units C07.setters, C07.parse);
 *   - postcondition: result == the specification's match predicate (spec/match_ref.h), memory safety.
 * -DVERIF_ASSUME_NONEMPTY_PATHARG: additionally assume that an argNpath value is not empty (unit C07.match.nonempty);
 *  WITHOUT it (unit C07.match) the precondition admits argNpath='' because the parser accepts it.
 *
 * Everything outside the real function is loop-free and call-free where DFCC instruments it (spec expressions are
 * macros over ghost copies of the strings): DFCC instrumentation of helper loops made symbolic execution explode. */
#include <config.h>
#include "dbus/dbus-internals.h"
#include "verif_prelude.h"
#define C07_GHOST_DEFINE
#include "c07_ghost.h"
#include <stdlib.h>
/* ghost state of the iterator contract (declared in c07_ghost.h):
 *   verif_it_calls/_pos/_end; verif_cur_* = the argument delivered by the latest get_arg_type (ghost copy);
 *   verif_rec_* = ghost copy of the message argument with index verif_gk;
 *   verif_argstore = the string-like argument as it lies in the message body;
 *   verif_gk_* = the rule's argument match with index verif_gk, copied by the harness before the call (the matcher does
 *   not write the rule).  Invariants talk about these scalars instead of dereferencing rule->args[verif_gk] (each
 *   dereference inside an invariant costs six generated pointer checks, three times). */
unsigned char *verif_argblk; unsigned verif_argn; _Bool verif_arg_le;
#ifdef VERIF_FINDER
/* finder build (plain cbmc, the args loop unwound for a rule with one argument match on index 0): the inputs are copied
 * into in_* variables by explicit assignments so that they can be read off the counterexample trace and replayed natively */
unsigned char in_buf[REF_MAXS + 1]; int in_len, in_kind, in_atype, in_alen, in_a0, in_a1, in_a2, in_a3, in_a4, in_a5, in_a6, in_a7;
#endif
/* representation -> specification: kind and length of an argument match */
#define C07_KIND(l) (((l) & BUS_MATCH_ARG_IS_PATH) ? REF_ARG_PATH : ((l) & BUS_MATCH_ARG_NAMESPACE) ? REF_ARG_NAMESPACE : REF_ARG_PLAIN)
#define C07_LEN(l) ((long) ((l) & ~BUS_MATCH_ARG_FLAGS))
#include VERIF_TU
#include "c07_common.h"

/* ---- message facts (ghost inputs, havocked in the harness) ---- */
static DBusMessage *g_msg; static BusMatchRule *g_rule; static DBusConnection *g_sender, *g_addressed;
static int f_type; static VStr FI, FM, FP, FD;      /* interface, member, path, destination of the message (p == NULL: absent) */
static _Bool g_owns_sender, g_owns_dest;            /* name-registry facts: sender owns rule->sender, addressed owns rule->destination */
static int g_owner_queries;

/* ---- contracts as stubs ---- */
int verif_stub_get_type (DBusMessage *m) { PRE (m == g_msg, "dbus_message_get_type: the message being matched"); return f_type; }
const char *verif_stub_get_interface (DBusMessage *m) { PRE (m == g_msg, "dbus_message_get_interface"); return FI.p; }
const char *verif_stub_get_member (DBusMessage *m) { PRE (m == g_msg, "dbus_message_get_member"); return FM.p; }
const char *verif_stub_get_path (DBusMessage *m) { PRE (m == g_msg, "dbus_message_get_path"); return FP.p; }
const char *verif_stub_get_destination (DBusMessage *m) { PRE (m == g_msg, "dbus_message_get_destination"); return FD.p; }
/* connection_is_primary_owner(c, name): a fact of the name registry; only the two questions the specification needs
 * may be asked (does the sender own the rule's sender name; does the addressed recipient own the rule's destination) */
dbus_bool_t verif_stub_is_primary_owner (DBusConnection *c, const char *name)
{
  PRE (c != NULL && name != NULL, "connection_is_primary_owner: non-NULL connection and name");
  g_owner_queries++;
  if (c == g_sender && name == g_rule->sender) return g_owns_sender;
  if (c == g_addressed && name == g_rule->destination) return g_owns_dest;
  __CPROVER_assert (0, "connection_is_primary_owner asked only about (sender, rule.sender) or (addressed recipient, rule.destination)");
  return nondet_bool ();
}
dbus_bool_t verif_stub_iter_init (DBusMessage *m, DBusMessageIter *it)
{ PRE (m == g_msg && it != NULL, "dbus_message_iter_init"); verif_it_calls = 0; verif_it_pos = 0; verif_it_end = 0; return nondet_bool (); }
/* dbus_message_iter_get_arg_type: type of the current argument; DBUS_TYPE_INVALID at the end (and from then on).
 * A string-like argument lies in the message body: 4-byte length word, bytes without NUL, NUL (wire format).
 * DFCC forbids allocation inside a contract loop, so the body fragment is one region verif_argblk of 4+n+1 bytes
 * (n arbitrary, fixed by the harness; the region is the tail of the static array verif_argstore, so that the byte
 * after the NUL is out of bounds) whose content is chosen afresh at every call: for the single arbitrary
 * iteration a loop contract leaves, that is an arbitrary string of arbitrary length <= REF_MAXS. */
#define C07_ARGB(k) { char c = 0; if ((k) < n) { c = nondet_char (); __CPROVER_assume (c != 0); s[k] = c; } verif_cur_v[k] = c; }
#define C07_REC(k) verif_rec_buf[k] = verif_cur_v[k];
int verif_stub_iter_get_arg_type (DBusMessageIter *it)
{
  int t; unsigned n = 0;
  PRE (verif_it_end || verif_it_pos == verif_it_calls, "dbus_message_iter_get_arg_type: iterator advanced exactly once per argument index");
  if (verif_it_end) t = DBUS_TYPE_INVALID; else { t = nondet_int (); if (t == DBUS_TYPE_INVALID) verif_it_end = 1; }
  if (t == DBUS_TYPE_STRING || t == DBUS_TYPE_OBJECT_PATH)
    {
      char *s = (char *) verif_argblk + 4; n = verif_argn;
      if (verif_arg_le) { verif_argblk[0] = n; verif_argblk[1] = 0; verif_argblk[2] = 0; verif_argblk[3] = 0; }   /* length word, little endian */
      else { verif_argblk[0] = 0; verif_argblk[1] = 0; verif_argblk[2] = 0; verif_argblk[3] = n; }                  /* big endian */
      C07_ARGB (0) C07_ARGB (1) C07_ARGB (2) C07_ARGB (3) C07_ARGB (4) C07_ARGB (5) C07_ARGB (6) C07_ARGB (7)
      s[n] = 0; verif_cur_v[REF_MAXS] = 0;
    }
  verif_cur_type = t; verif_cur_len = (int) n;
#ifdef VERIF_FINDER
  /* replayable inputs only: STRING arguments over the alphabet { / a . } (an arbitrary byte string is not a valid D-Bus string / object path) */
  __CPROVER_assume (t != DBUS_TYPE_OBJECT_PATH);
  for (int k = 0; k < REF_MAXS; k++) __CPROVER_assume (verif_cur_v[k] == 0 || verif_cur_v[k] == '/' || verif_cur_v[k] == 'a' || verif_cur_v[k] == '.');
  if (verif_it_calls == 0) { in_atype = t; in_alen = (int) n; in_a0 = (unsigned char) verif_cur_v[0]; in_a1 = (unsigned char) verif_cur_v[1]; in_a2 = (unsigned char) verif_cur_v[2]; in_a3 = (unsigned char) verif_cur_v[3];
                             in_a4 = (unsigned char) verif_cur_v[4]; in_a5 = (unsigned char) verif_cur_v[5]; in_a6 = (unsigned char) verif_cur_v[6]; in_a7 = (unsigned char) verif_cur_v[7]; }
#endif
  if (verif_it_calls == verif_gk)
    {
      verif_rec_type = t; verif_rec_len = (int) n;
      C07_REC (0) C07_REC (1) C07_REC (2) C07_REC (3) C07_REC (4) C07_REC (5) C07_REC (6) C07_REC (7) C07_REC (8)
    }
  verif_it_calls++;
  return t;
}
void verif_stub_iter_get_basic (DBusMessageIter *it, void *value)
{
  PRE (verif_cur_type == DBUS_TYPE_STRING || verif_cur_type == DBUS_TYPE_OBJECT_PATH, "dbus_message_iter_get_basic into a char*: current argument is a string or object path");
  PRE (value != NULL, "dbus_message_iter_get_basic: value");
  *(const char **) value = (const char *) verif_argblk + 4;
}
dbus_bool_t verif_stub_iter_next (DBusMessageIter *it)
{ PRE (!verif_it_end, "dbus_message_iter_next: there is a current argument"); verif_it_pos++; return nondet_bool (); }

/* the literal org.freedesktop.DBus as a heap string of exactly 21 bytes (longer than the symbolic bound) */
static void mk_dbus_vstr (VStr *s)
{
  static const char bus[] = "org.freedesktop.DBus"; no_vstr (s);
  s->p = malloc (sizeof bus); __CPROVER_assume (s->p != NULL);
#define CB(k) s->p[k] = bus[k];
  CB (0) CB (1) CB (2) CB (3) CB (4) CB (5) CB (6) CB (7) CB (8) CB (9) CB (10) CB (11) CB (12) CB (13) CB (14) CB (15) CB (16) CB (17) CB (18) CB (19) CB (20)
  s->len = sizeof bus - 1; s->is_dbus = 1;
}
/* equality of two names each of which is a symbolic string (<= REF_MAXS bytes) or that literal */
#define NAME_EQ(a, b) (((a).is_dbus || (b).is_dbus) ? ((a).is_dbus && (b).is_dbus) : VSTR_EQ (a, b))
#define MAXARGS (DBUS_MAXIMUM_MATCH_RULE_ARG_NUMBER + 1)
#define OPT_VSTR(s) if (nondet_bool ()) mk_vstr (&(s)); else no_vstr (&(s))

void harness (void)
{
  BusMatchRule r; static char mo, so, ao; VStr RI, RM, RS, RD, RP, B; char *AA[MAXARGS + 1]; unsigned int LL[MAXARGS + 1];
  g_msg = (DBusMessage *) &mo; g_rule = &r;
  g_sender = nondet_bool () ? (DBusConnection *) &so : NULL;
  g_addressed = nondet_bool () ? (DBusConnection *) &ao : (nondet_bool () ? g_sender : NULL);
  /* ---- message facts ---- */
  f_type = nondet_int ();
  OPT_VSTR (FI); OPT_VSTR (FM); OPT_VSTR (FP);
  /* DESTINATION header: absent (broadcast), an arbitrary name (<= 8 bytes: may equal the rule's destination or not), or org.freedesktop.DBus */
  if (nondet_bool ()) no_vstr (&FD); else if (nondet_bool ()) mk_vstr (&FD); else mk_dbus_vstr (&FD);
  g_owns_sender = nondet_bool (); g_owns_dest = nondet_bool (); g_owner_queries = 0;
  verif_argn = nondet_uint (); __CPROVER_assume (verif_argn <= REF_MAXS);
  verif_argblk = &verif_argstore[REF_MAXS - verif_argn];
  verif_arg_le = nondet_bool ();   /* byte order of the message */
  /* ---- RULE_OK ---- */
  r.refcount = 1; r.matches_go_to = NULL; r.flags = nondet_uint ();
  __CPROVER_assume ((r.flags & ~0x1ffu) == 0);
  __CPROVER_assume (!((r.flags & BUS_MATCH_PATH) && (r.flags & BUS_MATCH_PATH_NAMESPACE)));   /* bus_match_rule_set_path clears both, sets one */
  r.message_type = nondet_int ();
  __CPROVER_assume (IMP (r.flags & BUS_MATCH_MESSAGE_TYPE, r.message_type != DBUS_MESSAGE_TYPE_INVALID));  /* parser: type value is one of the four names */
  if (r.flags & BUS_MATCH_INTERFACE) mk_vstr (&RI); else no_vstr (&RI);
  if (r.flags & BUS_MATCH_MEMBER) mk_vstr (&RM); else no_vstr (&RM);
  if (!(r.flags & BUS_MATCH_DESTINATION)) no_vstr (&RD); else if (nondet_bool ()) mk_vstr (&RD); else mk_dbus_vstr (&RD);
  if (r.flags & (BUS_MATCH_PATH | BUS_MATCH_PATH_NAMESPACE)) mk_vstr (&RP); else no_vstr (&RP);
  __CPROVER_assume (IMP (r.flags & (BUS_MATCH_PATH | BUS_MATCH_PATH_NAMESPACE), RP.len >= 1 && RP.v[0] == '/'));   /* parser: value passed _dbus_validate_path (C16.path: begins with '/') */
  if (!(r.flags & BUS_MATCH_SENDER)) no_vstr (&RS);
  else if (nondet_bool ()) mk_vstr (&RS);
  else mk_dbus_vstr (&RS);      /* the one name longer than the symbolic bound that the matcher treats specially */
  r.interface = RI.p; r.member = RM.p; r.sender = RS.p; r.destination = RD.p; r.path = RP.p;
  r.args = NULL; r.arg_lens = NULL; r.args_len = 0;
  int n = 0; no_vstr (&B);
  if (r.flags & BUS_MATCH_ARGS)
    {
      /* args / arg_lens: n+1 slots, slot n is the NULL / 0 terminator; a set slot k holds a NUL-terminated block of
       * exactly (arg_lens[k] & ~FLAGS)+1 bytes.  The matcher only reads, so all set slots may share one symbolic
       * block B: for the single arbitrary iteration the loop contract leaves, that is fully general. */
      n = nondet_int (); __CPROVER_assume (n >= 1 && n <= MAXARGS);
      mk_vstr (&B);
      /* the two arrays are the last n+1 slots of fixed arrays of MAXARGS+1 slots (so that slot n+1 is out of bounds);
       * every slot is chosen independently (pointers are assigned, not assumed: CBMC dereferences through value sets) */
      r.args = &AA[MAXARGS - n]; r.arg_lens = &LL[MAXARGS - n];
      for (int k = 0; k < MAXARGS; k++)
        {
          if (nondet_bool ()) { AA[k] = NULL; LL[k] = 0; }
          else
            {
              unsigned fl = nondet_bool () ? 0 : (nondet_bool () ? BUS_MATCH_ARG_IS_PATH : BUS_MATCH_ARG_NAMESPACE);   /* the parser never sets both flags */
#ifdef VERIF_ASSUME_NONEMPTY_PATHARG
              __CPROVER_assume (!(fl == BUS_MATCH_ARG_IS_PATH && B.len == 0));
#endif
              AA[k] = B.p; LL[k] = (unsigned) B.len | fl;
            }
        }
      r.args[n] = NULL; r.arg_lens[n] = 0; r.args_len = n;
    }
  /* ---- already_matched: the caller has checked these keys itself (get_recipients_from_list: the rule pools are
   * indexed by message type and interface) ---- */
  unsigned am = nondet_uint (); __CPROVER_assume ((am & ~(unsigned) (BUS_MATCH_MESSAGE_TYPE | BUS_MATCH_INTERFACE)) == 0);
  __CPROVER_assume (IMP ((am & r.flags & BUS_MATCH_MESSAGE_TYPE), r.message_type == f_type));
  __CPROVER_assume (IMP ((am & r.flags & BUS_MATCH_INTERFACE), FI.p != NULL && VSTR_EQ (FI, RI)));
  /* ghost index (arbitrary, never assigned afterwards) and the copy of the rule's argument match at that index */
  verif_gk = nondet_int (); verif_gk_set = 0; verif_gk_kind = 0; verif_gk_len = 0;
  verif_gk_val[0] = B.v[0]; verif_gk_val[1] = B.v[1]; verif_gk_val[2] = B.v[2]; verif_gk_val[3] = B.v[3]; verif_gk_val[4] = B.v[4];
  verif_gk_val[5] = B.v[5]; verif_gk_val[6] = B.v[6]; verif_gk_val[7] = B.v[7]; verif_gk_val[8] = B.v[8];
  if ((r.flags & BUS_MATCH_ARGS) && verif_gk >= 0 && verif_gk < n && r.args[verif_gk] != NULL)
    { verif_gk_set = 1; verif_gk_kind = C07_KIND (r.arg_lens[verif_gk]); verif_gk_len = C07_LEN (r.arg_lens[verif_gk]); }
  verif_w = -1; verif_it_calls = 0; verif_it_pos = 0; verif_it_end = 0; verif_rec_type = 0; verif_rec_len = 0; verif_cur_type = 0; verif_cur_len = 0;

#ifdef VERIF_FINDER
  __CPROVER_assume (r.flags == BUS_MATCH_ARGS && n == 1 && r.args[0] != NULL && FD.p == NULL);
  in_len = (int) B.len; in_kind = C07_KIND (r.arg_lens[0]);
  for (int k = 0; k <= REF_MAXS; k++) { __CPROVER_assume (B.v[k] == 0 || B.v[k] == '/' || B.v[k] == 'a' || B.v[k] == '.'); in_buf[k] = (unsigned char) B.v[k]; }
  __CPROVER_assume (in_kind != REF_ARG_NAMESPACE || (B.len == 1 && B.v[0] == 'a') || (B.len == 3 && B.v[0] == 'a' && B.v[1] == '.' && B.v[2] == 'a'));   /* the parser validates the namespace value */
#endif
  dbus_bool_t ret = match_rule_matches (&r, g_sender, g_addressed, g_msg, (BusMatchFlags) am);

  /* ---- specification (conjunct by conjunct; the same text as ref_header_matches in spec/match_ref.h, on the ghost
   *      copies; unit C07.ref_lemma shows that the two forms agree) ---- */
  /* type: "Match on the message type." */
  _Bool c_type = IMP (r.flags & BUS_MATCH_MESSAGE_TYPE, r.message_type == f_type);
  /* sender: "Match messages sent by a particular sender."; the bus driver sends as org.freedesktop.DBus */
  _Bool c_sender = IMP (r.flags & BUS_MATCH_SENDER, g_sender == NULL ? RS.is_dbus : g_owns_sender);
  /* interface: "If a message omits the interface header, it must not match any rule that specifies this key." */
  _Bool c_iface = IMP (r.flags & BUS_MATCH_INTERFACE, FI.p != NULL && VSTR_EQ (FI, RI));
  /* member: "Matches messages which have the give method or signal name." */
  _Bool c_member = IMP (r.flags & BUS_MATCH_MEMBER, FM.p != NULL && VSTR_EQ (FM, RM));
  /* path: "Matches messages which are sent from or to the given object." */
  _Bool c_path = IMP (r.flags & BUS_MATCH_PATH, FP.p != NULL && VSTR_EQ (FP, RP));
  /* path_namespace: "... the object path is either the given value, or that value followed by one or more path components." */
  _Bool c_pathns = IMP (r.flags & BUS_MATCH_PATH_NAMESPACE, FP.p != NULL && REF_PATH_IN_NS_N (FP.v, FP.len, RP.v, RP.len));
  /* destination: "Matches messages which are being sent to the given unique name." */
  /* two cases.  The addressed recipient is a connection: it must own the rule's destination name.  There is no recipient
   * connection (the bus driver, or a name nobody owns yet: ServiceUnknown / activation -- what a monitor's filter sees):
   * the name "being sent to" is the DESTINATION header field itself, compared as a string with the rule's value
   * (BecomeMonitor: filters are match rules evaluated on the message's header fields). */
  _Bool c_dest_conn = IMP ((r.flags & BUS_MATCH_DESTINATION) && g_addressed != NULL, FD.p != NULL && g_owns_dest);
  _Bool c_dest_name = IMP ((r.flags & BUS_MATCH_DESTINATION) && g_addressed == NULL, FD.p != NULL && NAME_EQ (RD, FD));
  _Bool c_dest = c_dest_conn && c_dest_name;
  /* eavesdrop: "match rules do not match messages which have a DESTINATION field unless the match rule specifically
   * requests this ... by specifying eavesdrop='true'" */
  _Bool c_eaves = IMP (FD.p != NULL, (r.flags & BUS_MATCH_CLIENT_IS_EAVESDROPPING) != 0);
  _Bool hdr = c_type && c_sender && c_iface && c_member && c_path && c_pathns && c_dest && c_eaves;
  _Bool has_args = (r.flags & BUS_MATCH_ARGS) != 0;
  int wkind = 0; _Bool wset = 0;
  if (has_args && verif_w >= 0 && verif_w < n) { wset = (r.args[verif_w] != NULL); wkind = C07_KIND (r.arg_lens[verif_w]); }
  __CPROVER_assert (ret == 0 || ret == 1, "post0 result is a boolean");
  __CPROVER_assert (IMP (ret, c_type), "post1a match => type key matches");
  __CPROVER_assert (IMP (ret, c_sender), "post1b match => sender key matches (the sender owns the name; the bus driver is org.freedesktop.DBus)");
  __CPROVER_assert (IMP (ret, c_iface), "post1c match => interface key matches (absent interface never matches)");
  __CPROVER_assert (IMP (ret, c_member), "post1d match => member key matches");
  __CPROVER_assert (IMP (ret, c_path), "post1e match => path key matches");
  __CPROVER_assert (IMP (ret, c_pathns), "post1f match => path_namespace key matches (value itself or value followed by path components)");
  __CPROVER_assert (IMP (ret, c_dest_conn), "post1g.conn match, recipient is a connection => DESTINATION present and that connection owns the rule's destination name");
  __CPROVER_assert (IMP (ret, c_dest_name), "post1g.name match, no recipient connection (bus driver / unowned name) => DESTINATION present and string-equal to the rule's destination");
  __CPROVER_assert (IMP (ret, c_eaves), "post1h match => message has no DESTINATION or the rule says eavesdrop='true'");
  __CPROVER_assert (IMP (ret && has_args, G_AT (verif_gk, n, C07_ARG_SPEC_GK (verif_rec_type, verif_rec_buf, verif_rec_len))),
                    "post2 match => every argument match (argN / argNpath / arg0namespace) is satisfied per specification");
  __CPROVER_assert (IMP (!ret && verif_w < 0, !hdr), "post3 no match, decided before the arguments => a header key does not match per specification");
  __CPROVER_assert (IMP (!ret && verif_w >= 0, has_args && verif_w < n && verif_it_calls == verif_w + 1 && wset &&
                         !REF_ARGM (wkind, B.v, B.len, verif_cur_type, verif_cur_v, (long) verif_cur_len)),
                    "post4 no match, decided at argument w => the rule's match on argument w is not satisfied per specification");
  __CPROVER_assert (IMP (ret && has_args, verif_it_calls == n), "post5 match => every argument index of the rule was examined");
  __CPROVER_assert (g_owner_queries <= 2, "post6 at most the two name-registry questions");
  if (ret) REACH ("match"); else REACH ("no-match");
  if (ret && has_args && n >= 2) REACH ("match-with-args");
  if (!ret && verif_w >= 1) REACH ("arg-mismatch");
  if (!ret && verif_w < 0 && !has_args) REACH ("header-mismatch");
  if (ret && (r.flags & BUS_MATCH_PATH_NAMESPACE) && FP.len > RP.len && RP.len > 1) REACH ("match-path-namespace");
  if (ret && (r.flags & BUS_MATCH_DESTINATION) && g_addressed) REACH ("match-destination-owner");
  if (ret && (r.flags & BUS_MATCH_DESTINATION) && !g_addressed && !RD.is_dbus) REACH ("match-destination-unowned-name");
  if (ret && (r.flags & BUS_MATCH_DESTINATION) && !g_addressed && RD.is_dbus) REACH ("match-destination-bus-driver");
  if (!ret && verif_w < 0 && (r.flags & BUS_MATCH_DESTINATION) && !g_addressed && RD.is_dbus && FD.p && !FD.is_dbus && c_type && c_sender && c_iface && c_member && c_path && c_pathns && c_eaves) REACH ("rule-for-bus-driver-does-not-match-other-destination");
  if (ret && (r.flags & BUS_MATCH_SENDER) && g_sender) REACH ("match-sender");
  if (ret && (r.flags & BUS_MATCH_SENDER) && !g_sender) REACH ("match-sender-bus-driver");
  if (ret && verif_gk_set && verif_gk_kind == REF_ARG_PATH && verif_rec_len > B.len) REACH ("match-argpath-rule-is-prefix");
  if (ret && verif_gk_set && verif_gk_kind == REF_ARG_PATH && verif_rec_len < B.len) REACH ("match-argpath-arg-is-prefix");
  if (ret && verif_gk_set && verif_gk_kind == REF_ARG_NAMESPACE && verif_rec_len > B.len) REACH ("match-arg0namespace-prefix");
}
