/* C07: match_rule_matches (bus/signals.c, static) — hybrid route.
 *   - the real function from the overlay copy of bus/signals.c (loop contract on the args loop, ghost witness
 *     "verif_w = i" before each rejecting return inside the loop; contracts/c07_signals.ovl);
 *   - the message accessors, the DBusMessageIter functions and connection_is_primary_owner are contracts written
 *     as stubs (bound with --replace-calls) that deliver a symbolic "message facts" record;
 *   - precondition RULE_OK = what bus_match_rule_set_* / bus_match_rule_parse establish (units C07.setters, C07.parse);
 *   - postcondition: result == the specification's match predicate (spec/match_ref.h), memory safety.
 * -DVERIF_ASSUME_NONEMPTY_PATHARG: additionally assume that an argNpath value is not empty (unit C07.match.nonempty);
 *  WITHOUT it (unit C07.match) the precondition admits argNpath='' because the parser accepts it. */
#include <config.h>
#include "dbus/dbus-internals.h"
#include "verif_prelude.h"
#include "verif_ghost.h"
#include "match_ref.h"
#include <stdlib.h>
long verif_gk, verif_gk2, verif_w, verif_w2; int verif_flag;
/* ---- ghost state of the iterator contract ---- */
int verif_it_calls, verif_it_pos, verif_it_end;
int verif_cur_type; const char *verif_cur_str; int verif_cur_len;     /* argument delivered by the latest get_arg_type */
int verif_rec_type; int verif_rec_len; char verif_rec_buf[REF_MAXS + 1]; /* copy of the argument with index verif_gk */
/* the rule's argument match with index verif_gk, copied by the harness before the call (the matcher does not write the
 * rule): set?, kind, length, value.  Invariants talk about these scalars instead of dereferencing rule->args[verif_gk]
 * (each dereference inside an invariant costs six generated pointer checks, three times). */
_Bool verif_gk_set; int verif_gk_kind; long verif_gk_len; char verif_gk_val[REF_MAXS + 1];
#define C07_ARG_SPEC_GK(t, a, al) (!verif_gk_set || REF_ARGM (verif_gk_kind, verif_gk_val, verif_gk_len, t, a, (long) (al)))
/* representation -> specification: kind and value of the k-th argument match of a rule */
#define C07_KIND(l) (((l) & BUS_MATCH_ARG_IS_PATH) ? REF_ARG_PATH : ((l) & BUS_MATCH_ARG_NAMESPACE) ? REF_ARG_NAMESPACE : REF_ARG_PLAIN)
#define C07_LEN(l) ((long) ((l) & ~BUS_MATCH_ARG_FLAGS))
#include VERIF_TU
#define IMP(a, b) (!(a) || (b))
#define REACH(tag) __CPROVER_assert(0, "REACH:" tag)
#define PRE(c, what) __CPROVER_assert((c), "precondition of " what)
_Bool nondet_bool (void); int nondet_int (void); unsigned nondet_uint (void); char nondet_char (void);

/* ---- message facts (ghost inputs, havocked in the harness) ---- */
static DBusMessage *g_msg; static BusMatchRule *g_rule; static DBusConnection *g_sender, *g_addressed;
static int f_type; static const char *f_interface, *f_member, *f_path, *f_destination;
static _Bool g_owns_sender, g_owns_dest;      /* name-registry facts: sender owns rule->sender, addressed owns rule->destination */
static int g_owner_queries;

/* ---- contracts as stubs ---- */
int verif_stub_get_type (DBusMessage *m) { PRE (m == g_msg, "dbus_message_get_type: the message being matched"); return f_type; }
const char *verif_stub_get_interface (DBusMessage *m) { PRE (m == g_msg, "dbus_message_get_interface"); return f_interface; }
const char *verif_stub_get_member (DBusMessage *m) { PRE (m == g_msg, "dbus_message_get_member"); return f_member; }
const char *verif_stub_get_path (DBusMessage *m) { PRE (m == g_msg, "dbus_message_get_path"); return f_path; }
const char *verif_stub_get_destination (DBusMessage *m) { PRE (m == g_msg, "dbus_message_get_destination"); return f_destination; }
/* connection_is_primary_owner(c, name): a fact of the name registry; only the two questions the specification needs
 * may be asked (does the sender own the rule's sender name; does the addressed recipient own the rule's destination) */
dbus_bool_t verif_stub_is_primary_owner (DBusConnection *c, const char *name)
{
  PRE (c != NULL && name != NULL, "connection_is_primary_owner: non-NULL connection and name");
  g_owner_queries++;
  if (c == g_sender && name == g_rule->sender) return g_owns_sender;
  if (c == g_addressed && name == g_rule->destination) return g_owns_dest;
  __CPROVER_assert (0, "connection_is_primary_owner asked only about (sender, rule.sender) or (addressed recipient, rule.destination)");
  return nondet_bool ();
}
dbus_bool_t verif_stub_iter_init (DBusMessage *m, DBusMessageIter *it)
{ PRE (m == g_msg && it != NULL, "dbus_message_iter_init"); verif_it_calls = 0; verif_it_pos = 0; verif_it_end = 0; return nondet_bool (); }
/* dbus_message_iter_get_arg_type: type of the current argument; DBUS_TYPE_INVALID at the end (and from then on).
 * String-like arguments point into the message body: 4-byte length word, bytes without NUL, NUL (wire format). */
#define NZ(k) if ((k) < n) __CPROVER_assume (s[k] != 0)
#define CP(k) verif_rec_buf[k] = ((k) <= n) ? s[k] : 0
int verif_stub_iter_get_arg_type (DBusMessageIter *it)
{
  int t; char *s = NULL; unsigned n = 0;
  PRE (verif_it_end || verif_it_pos == verif_it_calls, "dbus_message_iter_get_arg_type: iterator advanced exactly once per argument index");
  if (verif_it_end) t = DBUS_TYPE_INVALID; else { t = nondet_int (); if (t == DBUS_TYPE_INVALID) verif_it_end = 1; }
  if (t == DBUS_TYPE_STRING || t == DBUS_TYPE_OBJECT_PATH)
    {
      n = nondet_uint (); __CPROVER_assume (n <= REF_MAXS);
      unsigned char *blk = malloc (4 + n + 1); __CPROVER_assume (blk != NULL);
      if (nondet_bool ()) { blk[0] = n; blk[1] = 0; blk[2] = 0; blk[3] = 0; } else { blk[0] = 0; blk[1] = 0; blk[2] = 0; blk[3] = n; }
      s = (char *) blk + 4;
      NZ (0); NZ (1); NZ (2); NZ (3); NZ (4); NZ (5); NZ (6); NZ (7);
      s[n] = 0;
    }
  verif_cur_type = t; verif_cur_str = s; verif_cur_len = (int) n;
  if (verif_it_calls == verif_gk)
    {
      verif_rec_type = t; verif_rec_len = (int) n;
      if (s != NULL) { CP (0); CP (1); CP (2); CP (3); CP (4); CP (5); CP (6); CP (7); CP (8); }
    }
  verif_it_calls++;
  return t;
}
void verif_stub_iter_get_basic (DBusMessageIter *it, void *value)
{
  PRE (verif_cur_type == DBUS_TYPE_STRING || verif_cur_type == DBUS_TYPE_OBJECT_PATH, "dbus_message_iter_get_basic into a char*: current argument is a string or object path");
  PRE (value != NULL, "dbus_message_iter_get_basic: value");
  *(const char **) value = verif_cur_str;
}
dbus_bool_t verif_stub_iter_next (DBusMessageIter *it)
{ PRE (!verif_it_end, "dbus_message_iter_next: there is a current argument"); verif_it_pos++; return nondet_bool (); }

/* a NUL-terminated heap string of symbolic length <= REF_MAXS and symbolic content (exactly n+1 bytes) */
static char *mk_str (void)
{
  unsigned n = nondet_uint (); __CPROVER_assume (n <= REF_MAXS);
  char *s = malloc (n + 1); __CPROVER_assume (s != NULL);
  NZ (0); NZ (1); NZ (2); NZ (3); NZ (4); NZ (5); NZ (6); NZ (7);
  s[n] = 0; return s;
}
#define MAXARGS (DBUS_MAXIMUM_MATCH_RULE_ARG_NUMBER + 1)

void harness (void)
{
  BusMatchRule r; static char mo, so, ao;
  g_msg = (DBusMessage *) &mo; g_rule = &r;
  g_sender = nondet_bool () ? (DBusConnection *) &so : NULL;
  g_addressed = nondet_bool () ? (DBusConnection *) &ao : (nondet_bool () ? g_sender : NULL);
  /* ---- message facts ---- */
  f_type = nondet_int ();
  f_interface = nondet_bool () ? mk_str () : NULL; f_member = nondet_bool () ? mk_str () : NULL;
  f_path = nondet_bool () ? mk_str () : NULL; f_destination = nondet_bool () ? mk_str () : NULL;
  g_owns_sender = nondet_bool (); g_owns_dest = nondet_bool (); g_owner_queries = 0;
  /* ---- RULE_OK ---- */
  r.refcount = 1; r.matches_go_to = NULL; r.flags = nondet_uint ();
  __CPROVER_assume ((r.flags & ~0x1ffu) == 0);
  __CPROVER_assume (!((r.flags & BUS_MATCH_PATH) && (r.flags & BUS_MATCH_PATH_NAMESPACE)));   /* bus_match_rule_set_path clears both, sets one */
  r.message_type = nondet_int ();
  __CPROVER_assume (IMP (r.flags & BUS_MATCH_MESSAGE_TYPE, r.message_type != DBUS_MESSAGE_TYPE_INVALID));  /* parser: type value is one of the four names */
  r.interface = (r.flags & BUS_MATCH_INTERFACE) ? mk_str () : NULL;
  r.member = (r.flags & BUS_MATCH_MEMBER) ? mk_str () : NULL;
  r.sender = (r.flags & BUS_MATCH_SENDER) ? mk_str () : NULL;
  r.destination = (r.flags & BUS_MATCH_DESTINATION) ? mk_str () : NULL;
  r.path = (r.flags & (BUS_MATCH_PATH | BUS_MATCH_PATH_NAMESPACE)) ? mk_str () : NULL;
  r.args = NULL; r.arg_lens = NULL; r.args_len = 0;
  unsigned L = 0; char *B = NULL; int n = 0;
  if (r.flags & BUS_MATCH_ARGS)
    {
      /* args / arg_lens: n+1 slots, slot n is the NULL / 0 terminator; a set slot k holds a NUL-terminated block of
       * exactly (arg_lens[k] & ~FLAGS)+1 bytes.  The matcher only reads, so all set slots may share one symbolic
       * block B (length L): for the single arbitrary iteration the loop contract leaves, that is fully general. */
      n = nondet_int (); __CPROVER_assume (n >= 1 && n <= MAXARGS);
      L = nondet_uint (); __CPROVER_assume (L <= REF_MAXS);
      B = malloc (L + 1); __CPROVER_assume (B != NULL); B[L] = 0;
      r.args = malloc (sizeof (char *) * (n + 1)); r.arg_lens = malloc (sizeof (unsigned int) * (n + 1));
      __CPROVER_assume (r.args != NULL && r.arg_lens != NULL);
      for (int k = 0; k < MAXARGS; k++) if (k < n)
        {
          if (nondet_bool ()) { r.args[k] = NULL; r.arg_lens[k] = 0; }
          else
            {
              unsigned fl = nondet_bool () ? 0 : (nondet_bool () ? BUS_MATCH_ARG_IS_PATH : BUS_MATCH_ARG_NAMESPACE);  /* the parser never sets both */
#ifdef VERIF_ASSUME_NONEMPTY_PATHARG
              __CPROVER_assume (!(fl == BUS_MATCH_ARG_IS_PATH && L == 0));
#endif
              r.args[k] = B; r.arg_lens[k] = L | fl;
            }
        }
      r.args[n] = NULL; r.arg_lens[n] = 0; r.args_len = n;
    }
  /* ---- already_matched: the caller has checked these keys itself (get_recipients_from_list: the rule pools are
   * indexed by message type and interface) ---- */
  unsigned am = nondet_uint (); __CPROVER_assume ((am & ~(unsigned) (BUS_MATCH_MESSAGE_TYPE | BUS_MATCH_INTERFACE)) == 0);
  __CPROVER_assume (IMP ((am & r.flags & BUS_MATCH_MESSAGE_TYPE), r.message_type == f_type));
  __CPROVER_assume (IMP ((am & r.flags & BUS_MATCH_INTERFACE), f_interface != NULL && ref_streq (f_interface, r.interface)));
  /* ghost index (arbitrary, never assigned afterwards) and the copy of the rule's argument match at that index */
  verif_gk = nondet_int (); verif_gk_set = 0; verif_gk_kind = 0; verif_gk_len = 0;
  if ((r.flags & BUS_MATCH_ARGS) && verif_gk >= 0 && verif_gk < n && r.args[verif_gk] != NULL)
    {
      verif_gk_set = 1; verif_gk_kind = C07_KIND (r.arg_lens[verif_gk]); verif_gk_len = C07_LEN (r.arg_lens[verif_gk]);
      for (int k = 0; k <= REF_MAXS; k++) verif_gk_val[k] = (k <= verif_gk_len) ? r.args[verif_gk][k] : 0;
    }
  verif_w = -1; verif_it_calls = 0; verif_it_pos = 0; verif_it_end = 0; verif_rec_type = 0; verif_rec_len = 0; verif_cur_type = 0; verif_cur_str = NULL; verif_cur_len = 0;

  dbus_bool_t ret = match_rule_matches (&r, g_sender, g_addressed, g_msg, (BusMatchFlags) am);

  /* ---- specification ---- */
  RefRule rr; RefMsgFacts mf;
  rr.has_type = (r.flags & BUS_MATCH_MESSAGE_TYPE) != 0; rr.type = r.message_type;
  rr.sender = r.sender; rr.interface = r.interface; rr.member = r.member; rr.destination = r.destination;
  rr.path = (r.flags & BUS_MATCH_PATH) ? r.path : NULL; rr.path_namespace = (r.flags & BUS_MATCH_PATH_NAMESPACE) ? r.path : NULL;
  rr.eavesdrop = (r.flags & BUS_MATCH_CLIENT_IS_EAVESDROPPING) != 0;
  mf.type = f_type; mf.interface = f_interface; mf.member = f_member; mf.path = f_path; mf.destination = f_destination;
  mf.sender_is_bus = (g_sender == NULL); mf.recipient_is_conn = (g_addressed != NULL);
  int hdr = ref_header_matches (&rr, &mf, g_owns_sender, g_owns_dest);
  int has_args = (r.flags & BUS_MATCH_ARGS) != 0;
  __CPROVER_assert (ret == 0 || ret == 1, "post0 result is a boolean");
  __CPROVER_assert (IMP (ret, hdr), "post1 match => every header key of the rule matches per specification (type, sender, interface, member, path, path_namespace, destination, eavesdrop)");
  __CPROVER_assert (IMP (ret && has_args, G_AT (verif_gk, n, C07_ARG_SPEC_GK (verif_rec_type, verif_rec_buf, verif_rec_len))),
                    "post2 match => every argument match (argN / argNpath / arg0namespace) is satisfied per specification");
  __CPROVER_assert (IMP (!ret && verif_w < 0, !hdr), "post3 no match, decided before the arguments => a header key does not match per specification");
  __CPROVER_assert (IMP (!ret && verif_w >= 0, has_args && verif_w < n && verif_it_calls == verif_w + 1 && r.args[verif_w] != NULL &&
                         !ref_arg_matches (C07_KIND (r.arg_lens[verif_w]), r.args[verif_w], C07_LEN (r.arg_lens[verif_w]), verif_cur_type, verif_cur_str, verif_cur_len)),
                    "post4 no match, decided at argument w => the rule's match on argument w is not satisfied per specification");
  __CPROVER_assert (IMP (ret && has_args, verif_it_calls == n), "post5 match => every argument index of the rule was examined");
  __CPROVER_assert (g_owner_queries <= 2, "post6 at most the two name-registry questions");
  /* lemma: the macro form of the argument predicate (used in the invariant) equals the plain C form */
  if (has_args && verif_w >= 0 && verif_w < n && r.args[verif_w] != NULL && (verif_cur_type == DBUS_TYPE_STRING || verif_cur_type == DBUS_TYPE_OBJECT_PATH))
    __CPROVER_assert (REF_ARGM (C07_KIND (r.arg_lens[verif_w]), r.args[verif_w], C07_LEN (r.arg_lens[verif_w]), verif_cur_type, verif_cur_str, verif_cur_len)
                      == ref_arg_matches (C07_KIND (r.arg_lens[verif_w]), r.args[verif_w], C07_LEN (r.arg_lens[verif_w]), verif_cur_type, verif_cur_str, verif_cur_len),
                      "lemma macro and function forms of the argument predicate agree");
  if (ret) REACH ("match"); else REACH ("no-match");
  if (ret && has_args && n >= 2) REACH ("match-with-args");
  if (!ret && verif_w >= 1) REACH ("arg-mismatch");
  if (!ret && verif_w < 0 && !has_args) REACH ("header-mismatch");
  if (ret && (r.flags & BUS_MATCH_PATH_NAMESPACE)) REACH ("match-path-namespace");
  if (ret && (r.flags & BUS_MATCH_DESTINATION)) REACH ("match-destination");
  if (ret && (r.flags & BUS_MATCH_SENDER) && g_sender) REACH ("match-sender");
  if (ret && has_args && verif_gk >= 0 && verif_gk < n && r.args[verif_gk] && (r.arg_lens[verif_gk] & BUS_MATCH_ARG_IS_PATH) && verif_rec_len != (int) L) REACH ("match-argpath-prefix");
  if (ret && has_args && verif_gk >= 0 && verif_gk < n && r.args[verif_gk] && (r.arg_lens[verif_gk] & BUS_MATCH_ARG_NAMESPACE) && verif_rec_len != (int) L) REACH ("match-arg0namespace-prefix");
}
