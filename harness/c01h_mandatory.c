/* C01.2: the real static check_mandatory_fields() of dbus/dbus-marshal-header.c == the column "Required in" of the
 * specification's "Header Fields" table (spec/header_ref.h: hdr_ref_required), for every message type byte
 * (1..255; 0 is refused earlier by _dbus_header_load) and every combination of cached / absent fields.
 * Loop-free; _dbus_header_get_message_type / _dbus_string_get_byte are the real code.                           */
#include <config.h>
#include "dbus/dbus-internals.h"
#include "verif_prelude.h"
#include "verif_ghost.h"
#include "dbus/dbus-string.h"
#define DBUS_CAN_USE_DBUS_STRING_PRIVATE 1
#include "dbus/dbus-string-private.h"
#include VERIF_TU
#define BODY_REF_MAXSTR 1
#include "header_ref.h"
#ifndef IMP
#define IMP(a, b) (!(a) || (b))
#endif
#define REACH(tag) __CPROVER_assert(0, "REACH:" tag)
long verif_gk, verif_gk2, verif_w, verif_w2; int verif_flag;
int nondet_int (void); unsigned char nondet_uchar (void);
static int missing_code_to_field (DBusValidity v)
{
  switch (v)
    {
    case DBUS_INVALID_MISSING_PATH: return HR_PATH; case DBUS_INVALID_MISSING_INTERFACE: return HR_INTERFACE; case DBUS_INVALID_MISSING_MEMBER: return HR_MEMBER;
    case DBUS_INVALID_MISSING_ERROR_NAME: return HR_ERROR_NAME; case DBUS_INVALID_MISSING_REPLY_SERIAL: return HR_REPLY_SERIAL; default: return -1;
    }
}
void harness (void)
{
  DBusHeader H; DBusRealString *d = (DBusRealString *) &H.data; static unsigned char b[24]; int i, t, old_gk; unsigned present = 0; DBusValidity r;
  for (i = 0; i < 16; i++) b[i] = nondet_uchar ();
  d->str = b; d->len = 16; d->allocated = 24; d->constant = 0; d->locked = 0; d->valid = 1; d->align_offset = 0;
  __CPROVER_assume (b[1] != 0);           /* established by _dbus_header_load before the call (and asserted by _dbus_header_get_message_type) */
  t = b[1];
  for (i = 0; i <= DBUS_HEADER_FIELD_LAST; i++)
    { H.fields[i].value_pos = nondet_int (); __CPROVER_assume (H.fields[i].value_pos >= -2);
      if (H.fields[i].value_pos >= 0) present |= 1u << i; }
  __CPROVER_assume (verif_gk >= 0 && verif_gk <= DBUS_HEADER_FIELD_LAST); old_gk = H.fields[verif_gk].value_pos;
  r = check_mandatory_fields (&H);
  __CPROVER_assert ((r == DBUS_VALID) == hdr_ref_mandatory_ok (t, present), "mandatory.table: VALID iff every field the 'Header Fields' table requires for this message type is present");
  __CPROVER_assert (IMP (r != DBUS_VALID, missing_code_to_field (r) > 0 && hdr_ref_required (t, missing_code_to_field (r)) && !(present & (1u << missing_code_to_field (r)))), "mandatory.reason: the reason names a field that the table requires and that is absent");
  __CPROVER_assert (H.fields[verif_gk].value_pos == old_gk && b[1] == t, "mandatory.frame: nothing is modified");
  if (r == DBUS_VALID && t == DBUS_MESSAGE_TYPE_SIGNAL) REACH("signal-ok");
  if (r == DBUS_INVALID_MISSING_INTERFACE) REACH("signal-without-interface");
  if (r == DBUS_INVALID_MISSING_REPLY_SERIAL && t == DBUS_MESSAGE_TYPE_METHOD_RETURN) REACH("return-without-reply-serial");
  if (r == DBUS_INVALID_MISSING_ERROR_NAME) REACH("error-without-name");
  if (r == DBUS_VALID && t > 4 && present == 0) REACH("unknown-type-nothing-required");
  if (r == DBUS_VALID && t == DBUS_MESSAGE_TYPE_METHOD_CALL && !(present & (1u << HR_INTERFACE))) REACH("call-without-interface-ok");
}
