/* C19: pending_activation_finished_cb (bus/activation.c, static): what happens when a started process
 * exits before its service took the name.  B unit: the table of pending activations has <= 3 entries
 * (ghost iteration replaces the hash iterator), Exec lines come from a pool of 2 literals (or NULL for an
 * activation without service file).  pending_activation_failed is bound to its contract (unit
 * C19.pending_activation_failed: every waiter of THAT activation gets exactly one error, then it is
 * removed from the table).  strcmp is CBMC's model run on the concrete literals.
 * Oracle: specification S5 "It then tries to spawn the executable associated with it. If this fails, it
 * will report an error"; property C19 "if starting fails, the started process exits without taking the
 * name ... every waiting sender receives exactly one error" -- an error about ITS OWN start: activations that
 * share the failed executable (same Exec line) fail with it, an activation of a different executable is
 * not affected.  Exit status 0 is not a failure (the program may have daemonized; code comment + dbus-daemon
 * behaviour documented in the function: "just ignore when a process exits with status 0"). */
#include <config.h>
#include "dbus/dbus-internals.h"
#include <stdlib.h>
#include <string.h>
#include VERIF_TU
#include "../stubs/c19_act_common.c"
#define NT 3
static char o_table, o_ctx, o_sitter, helper_path[] = "/h"; static char exec_a[] = "/a", exec_b[] = "/b";
static BusActivation A; static BusPendingActivation pa[NT]; static char names[NT][2];
struct { struct { _Bool helper, exited, has_status; int err_kind, exit_code; } in;      /* err_kind 0 ChildExited, 1 ChildSignaled, 2 ExecFailed */
  _Bool present[NT]; unsigned failed[NT], order[NT], seq; const char *failed_with[NT]; _Bool failed_err_set[NT];
  int it; unsigned refs, unrefs, iter_inits; _Bool cur_is_child_exited; } F;
static int idx_of (BusPendingActivation *p) { for (int i = 0; i < NT; i++) if (p == &pa[i]) return i; return -1; }
const char *bus_context_get_servicehelper (BusContext *c) { PRE(c == (BusContext *)&o_ctx, "bus_context_get_servicehelper"); return F.in.helper ? helper_path : NULL; }
DBusBabysitter *_dbus_babysitter_ref (DBusBabysitter *s) { F.refs++; return s; }
void _dbus_babysitter_unref (DBusBabysitter *s) { F.unrefs++; }
dbus_bool_t _dbus_babysitter_get_child_exited (DBusBabysitter *s) { return F.in.exited; }
void _dbus_babysitter_set_child_exit_error (DBusBabysitter *s, DBusError *error)
{ PRE(F.in.exited && error != NULL && !ERR_SET(error), "_dbus_babysitter_set_child_exit_error: child exited, error clear");
  error->name = F.in.err_kind == 0 ? DBUS_ERROR_SPAWN_CHILD_EXITED : F.in.err_kind == 1 ? DBUS_ERROR_SPAWN_CHILD_SIGNALED : DBUS_ERROR_SPAWN_EXEC_FAILED; error->message = some_string; F.cur_is_child_exited = (F.in.err_kind == 0); }
dbus_bool_t dbus_error_has_name (const DBusError *e, const char *name)
{ PRE(e != NULL && name != NULL && name[33] == 'C' && name[38] == 'E', "dbus_error_has_name: asked for Spawn.ChildExited"); return ERR_SET(e) && e->name[33] == 'C' && e->name[38] == 'E'; }
dbus_bool_t _dbus_babysitter_get_child_exit_status (DBusBabysitter *s, int *status) { PRE(status != NULL, "_dbus_babysitter_get_child_exit_status"); if (!F.in.has_status) return 0; *status = F.in.exit_code; return 1; }
/* ghost iteration over the 3-slot table; tolerates removal of the current entry (as the real iterator does) */
void _dbus_hash_iter_init (DBusHashTable *t, DBusHashIter *iter) { PRE(t == (DBusHashTable *)&o_table, "_dbus_hash_iter_init: pending activations"); F.it = -1; F.iter_inits++; }
dbus_bool_t _dbus_hash_iter_next (DBusHashIter *iter) { for (int i = 0; i < NT; i++) if (i > F.it && F.present[i]) { F.it = i; return 1; } F.it = NT; return 0; }
void *_dbus_hash_iter_get_value (DBusHashIter *iter) { PRE(F.it >= 0 && F.it < NT, "_dbus_hash_iter_get_value: positioned"); __CPROVER_assume(F.it >= 0 && F.it < NT); return &pa[F.it]; }
/* contract of pending_activation_failed (C19.pending_activation_failed) */
void verif_stub_pending_failed (BusPendingActivation *p, const DBusError *how)
{ int k = idx_of(p); PRE(k >= 0 && F.present[k], "pending_activation_failed: an activation that is still in the table");
  PRE(how != NULL && ERR_SET(how), "pending_activation_failed: with a set error");
  __CPROVER_assume(k >= 0 && k < NT); F.failed[k]++; F.order[k] = ++F.seq; F.failed_with[k] = how->name; F.present[k] = 0; }
static _Bool same_exec (const char *a, const char *b) { return a != NULL && b != NULL && a[1] == b[1]; }     /* pool: "/a", "/b" */
void harness (void)
{
  F.in.helper = nondet_bool(); F.in.exited = nondet_bool(); F.in.has_status = nondet_bool(); F.in.err_kind = nondet_int(); F.in.exit_code = nondet_int();
  __CPROVER_assume(F.in.err_kind >= 0 && F.in.err_kind <= 2);
  A.pending_activations = (DBusHashTable *)&o_table; A.context = (BusContext *)&o_ctx;
  int self = nondet_int(); __CPROVER_assume(self >= 0 && self < NT);
  const char *old_exec[NT]; _Bool was[NT];
  for (int i = 0; i < NT; i++)
    { F.present[i] = (i == self) || nondet_bool(); was[i] = F.present[i]; pa[i].refcount = 1; pa[i].activation = &A; pa[i].service_name = names[i];
      pa[i].exec = nondet_bool() ? exec_a : (nondet_bool() ? exec_b : NULL); pa[i].babysitter = (i == self) ? (DBusBabysitter *)&o_sitter : NULL; old_exec[i] = pa[i].exec; F.failed[i] = 0; F.order[i] = 0; }
  __CPROVER_assume(pa[self].exec != NULL);       /* a spawned activation always has the Exec line it was spawned from */
  pending_activation_finished_cb ((DBusBabysitter *)&o_sitter, &pa[self]);
  _Bool normal_exit = F.in.exited && F.in.err_kind == 0 && F.in.has_status && F.in.exit_code == 0;
  _Bool failure = F.in.exited && !normal_exit;
  for (int i = 0; i < NT; i++)
    {
      _Bool due = failure && was[i] && (i == self || same_exec(old_exec[i], old_exec[self]));
      __CPROVER_assert(F.failed[i] == (due ? 1 : 0), "post1 a failed start is reported to the waiters of that activation and of the activations with the same Exec line, exactly once each, and to no others");
      __CPROVER_assert(IMP(was[i] && !due, F.present[i] && pa[i].refcount == 1), "post2 an activation of a different executable stays pending, untouched");
      __CPROVER_assert(IMP(due && i != self, F.order[i] < F.order[self]), "post3 the activation whose process exited is destroyed last");
      __CPROVER_assert(IMP(due, F.failed_with[i] != NULL), "post4 the error handed on is set");
    }
  __CPROVER_assert(IMP(!F.in.exited || normal_exit, F.seq == 0), "post5 a running child, or exit status 0 (with or without servicehelper), is not a failure: nobody is sent an error");
  __CPROVER_assert(IMP(failure && F.in.err_kind != 0, (F.in.err_kind == 1 ? (F.failed_with[self][33] == 'C' && F.failed_with[self][38] == 'S') : (F.failed_with[self][33] == 'E' && F.failed_with[self][37] == 'F'))), "post6 a signal / exec error is reported as such, not overwritten");
  __CPROVER_assert(IMP(failure && F.in.err_kind == 0 && F.in.has_status && F.in.helper && F.in.exit_code == BUS_SPAWN_EXIT_CODE_EXEC_FAILED, F.failed_with[self][33] == 'E' && F.failed_with[self][37] == 'F'), "post7 with the servicehelper the helper's exit code selects the error (9 => Spawn.ExecFailed)");
  __CPROVER_assert(F.refs == 1 && F.unrefs == 1, "post8 babysitter reference balanced");
  if (failure) REACH("failed"); if (normal_exit && F.in.helper) REACH("exit0-helper"); if (normal_exit && !F.in.helper) REACH("exit0-session"); if (!F.in.exited) REACH("still-running");
  if (failure && F.seq == 3) REACH("three-failed"); if (failure && F.seq == 1 && was[0] && was[1] && was[2]) REACH("others-different-exec-untouched");
}
