/* C06: merging the policy of an included configuration file into the including one (bus/policy.c), so that "every bus
 * configuration of allow and deny rules (default, mandatory, per-user and per-group contexts)" takes effect wherever it was written.
 *  MODE 1 (P-stub, loop-free) bus_policy_merge: TRUE => each of the six contexts of the absorbed policy (default, mandatory,
 *    at_console true/false, per-uid table, per-gid table) was appended exactly once to the SAME context of the absorbing policy -
 *    whether or not any other context is empty; FALSE iff one step failed; the absorbed policy is not modified.
 *  MODE 2 (B, <= 2 ids, ghost table) merge_id_hash: every id of the absorbed table is merged into the list kept under the SAME id of
 *    the destination (created if absent), each once.
 *  MODE 3 (B, <= 3 rules, REAL dbus-list.c) append_copy_of_policy_list: TRUE => destination = old destination followed by the source's
 *    rules in source order, each rule referenced once more; FALSE => destination and reference counts unchanged; source unchanged. */
#include <config.h>
#include "dbus/dbus-internals.h"
#include "verif_prelude.h"
#include VERIF_TU
_Bool nondet_bool (void); int nondet_int (void);
#define PRE(c, what) __CPROVER_assert((c), "precondition of " what)
#define IMP(a,b) (!(a) || (b))
#define REACH(tag) __CPROVER_assert(0, "REACH:" tag)
void _dbus_real_assert (dbus_bool_t c, const char *t, const char *f, int l, const char *fn) { __CPROVER_assert (c, "dbus internal assertion"); __CPROVER_assume (c); }
void _dbus_real_assert_not_reached (const char *x, const char *f, int l) { __CPROVER_assert (0, "dbus assert_not_reached"); __CPROVER_assume (0); }
void _dbus_verbose_real (const char *file, const int line, const char *function, const char *format, ...) { }
static BusPolicy P, A; static char h_pu, h_pg, h_au, h_ag;
#if VERIF_MODE == 1
static struct { int list_calls[4], hash_calls[2], wrong, fail_at, step; } G;
dbus_bool_t verif_stub_append_copy (DBusList **list, DBusList **to_append)
{ int k = -1;
  if (list == &P.default_rules && to_append == &A.default_rules) k = 0; else if (list == &P.mandatory_rules && to_append == &A.mandatory_rules) k = 1;
  else if (list == &P.at_console_true_rules && to_append == &A.at_console_true_rules) k = 2; else if (list == &P.at_console_false_rules && to_append == &A.at_console_false_rules) k = 3;
  if (k < 0) { G.wrong++; return 1; } G.list_calls[k]++; return ++G.step != G.fail_at; }
dbus_bool_t verif_stub_merge_id_hash (DBusHashTable *dest, DBusHashTable *from)
{ int k = -1; if (dest == (DBusHashTable *) &h_pu && from == (DBusHashTable *) &h_au) k = 0; else if (dest == (DBusHashTable *) &h_pg && from == (DBusHashTable *) &h_ag) k = 1;
  if (k < 0) { G.wrong++; return 1; } G.hash_calls[k]++; return ++G.step != G.fail_at; }
void harness (void)
{
  static DBusList l[8]; int i;
  /* any of the absorbed policy's lists may be empty */
  A.default_rules = nondet_bool () ? &l[0] : NULL; A.mandatory_rules = nondet_bool () ? &l[1] : NULL; A.at_console_true_rules = nondet_bool () ? &l[2] : NULL; A.at_console_false_rules = nondet_bool () ? &l[3] : NULL;
  P.default_rules = nondet_bool () ? &l[4] : NULL; P.mandatory_rules = NULL; P.at_console_true_rules = NULL; P.at_console_false_rules = NULL;
  P.rules_by_uid = (DBusHashTable *) &h_pu; P.rules_by_gid = (DBusHashTable *) &h_pg; A.rules_by_uid = (DBusHashTable *) &h_au; A.rules_by_gid = (DBusHashTable *) &h_ag;
  G.fail_at = nondet_int (); __CPROVER_assume (G.fail_at >= 0 && G.fail_at <= 7);       /* 0: nothing fails */
  dbus_bool_t r = bus_policy_merge (&P, &A);
  __CPROVER_assert (G.wrong == 0, "merge.post1 a context is only ever merged into the same context of the absorbing policy");
  __CPROVER_assert (IMP (r, G.list_calls[0] == 1 && G.list_calls[1] == 1 && G.list_calls[2] == 1 && G.list_calls[3] == 1), "merge.post2 TRUE: default, mandatory and both at_console contexts absorbed exactly once each");
  __CPROVER_assert (IMP (r, G.hash_calls[0] == 1 && G.hash_calls[1] == 1), "merge.post3 TRUE: the per-user and the per-group tables are absorbed exactly once each, whatever else the file contains");
  __CPROVER_assert (r == (G.fail_at == 0 || G.fail_at > G.step), "merge.post4 FALSE exactly when a step failed");
  for (i = 0; i < 4; i++) __CPROVER_assert (G.list_calls[i] <= 1, "merge.post5 no context absorbed twice");
  if (r && !A.default_rules && !A.mandatory_rules && !A.at_console_true_rules && !A.at_console_false_rules) REACH ("only-user-or-group-sections");
  if (!r) REACH ("failed-step");
}
#elif VERIF_MODE == 2
#define NI 2
static struct { _Bool present[NI]; unsigned long id[NI]; DBusList *src[NI]; int it; int get_calls, appends[NI], wrong; DBusList *dst[NI]; } G;
void _dbus_hash_iter_init (DBusHashTable *t, DBusHashIter *iter) { PRE (t == (DBusHashTable *) &h_au, "_dbus_hash_iter_init: the absorbed table"); G.it = -1; }
dbus_bool_t _dbus_hash_iter_next (DBusHashIter *iter) { for (int i = 0; i < NI; i++) if (i > G.it && G.present[i]) { G.it = i; return 1; } G.it = NI; return 0; }
uintptr_t _dbus_hash_iter_get_uintptr_key (DBusHashIter *iter) { __CPROVER_assume (G.it >= 0 && G.it < NI); return G.id[G.it]; }
void *_dbus_hash_iter_get_value (DBusHashIter *iter) { __CPROVER_assume (G.it >= 0 && G.it < NI); return &G.src[G.it]; }
DBusList **verif_stub_get_list (DBusHashTable *hash, unsigned long key)
{ PRE (hash == (DBusHashTable *) &h_pu, "get_list: the destination table"); G.get_calls++; if (nondet_bool ()) return NULL; for (int i = 0; i < NI; i++) if (G.present[i] && G.id[i] == key) return &G.dst[i]; G.wrong++; return &G.dst[0]; }
dbus_bool_t verif_stub_append_copy (DBusList **list, DBusList **to_append)
{ int k = -1; for (int i = 0; i < NI; i++) if (to_append == &G.src[i]) k = i; PRE (k >= 0, "append_copy_of_policy_list: a list of the absorbed table"); __CPROVER_assume (k >= 0 && k < NI);
  __CPROVER_assert (list == &G.dst[k], "idhash.post1 the rules of an id are appended to the destination's list for the SAME id"); G.appends[k]++; return nondet_bool (); }
void harness (void)
{
  for (int i = 0; i < NI; i++) { G.present[i] = nondet_bool (); G.id[i] = (unsigned long) nondet_int (); } __CPROVER_assume (G.id[0] != G.id[1]);
  dbus_bool_t r = merge_id_hash ((DBusHashTable *) &h_pu, (DBusHashTable *) &h_au);
  __CPROVER_assert (G.wrong == 0, "idhash.post2 only ids of the absorbed table are looked up");
  for (int i = 0; i < NI; i++) __CPROVER_assert (IMP (r, G.appends[i] == (G.present[i] ? 1 : 0)), "idhash.post3 TRUE: every id of the absorbed table merged exactly once, no other");
  if (r && G.present[0] && G.present[1]) REACH ("two-ids"); if (!r) REACH ("failed");
}
#else
#ifndef NR
#define NR 2
#endif
#if VERIF_NS > 0
#define REACH_OOM REACH ("oom");
#else
#define REACH_OOM
#endif
static DBusList src_l[NR], dst_l[NR]; static BusPolicyRule rule[2 * NR]; static DBusList pool[NR + 1]; static int pool_used, links_freed;
DBusList *verif_alloc_link (void *data) { if (nondet_bool () || pool_used >= NR + 1) return NULL; DBusList *l = &pool[pool_used++]; l->data = data; l->prev = l->next = NULL; return l; }
void verif_free_link (DBusList *l) { PRE (l != NULL, "free_link"); links_freed++; }
static void mk (DBusList *l, int n, int base, DBusList **head) { for (int i = 0; i < NR; i++) { l[i].data = &rule[base + i]; if (i < n) { l[i].next = &l[(i + 1) % n]; l[i].prev = &l[(i + n - 1) % n]; } } *head = n ? &l[0] : NULL; }
static int walk (DBusList **head, int *out, int cap) { int n = 0; DBusList *l = _dbus_list_get_first_link (head); for (int k = 0; k < 2 * NR + 1; k++) { if (!l) break; if (n < cap) { int j, f = -1; for (j = 0; j < 2 * NR; j++) if (l->data == (void *) &rule[j]) f = j; out[n] = f; } n++; l = _dbus_list_get_next_link (head, l); } return n; }
void harness (void)
{
  DBusList *src, *dst; int ns = VERIF_NS, nd = VERIF_ND, i, seq[2 * NR], n;
  mk (dst_l, nd, 0, &dst); mk (src_l, ns, NR, &src); for (i = 0; i < 2 * NR; i++) { rule[i].refcount = 1; seq[i] = -1; }
  dbus_bool_t r = append_copy_of_policy_list (&dst, &src);
  n = walk (&dst, seq, 2 * NR);
  if (r)
    { __CPROVER_assert (n == nd + ns, "copy.post1 TRUE: destination grows by the number of source rules");
      for (i = 0; i < NR; i++) { __CPROVER_assert (IMP (i < nd, seq[i] == i), "copy.post2 TRUE: the old destination rules stay in front, in order"); __CPROVER_assert (IMP (i < ns, seq[nd + i] == NR + i), "copy.post3 TRUE: then the source's rules, in source order"); }
      for (i = 0; i < NR; i++) __CPROVER_assert (rule[NR + i].refcount == (i < ns ? 2 : 1) && rule[i].refcount == 1, "copy.post4 TRUE: each copied rule is referenced exactly once more");
      REACH ("copied"); }
  else
    { __CPROVER_assert (n == nd, "copy.post5 FALSE: destination unchanged"); for (i = 0; i < NR; i++) __CPROVER_assert (IMP (i < nd, seq[i] == i), "copy.post5 FALSE: destination unchanged");
      for (i = 0; i < 2 * NR; i++) __CPROVER_assert (rule[i].refcount == 1, "copy.post6 FALSE: no reference taken"); REACH_OOM }
  int s2[NR]; for (i = 0; i < NR; i++) s2[i] = -1; n = walk (&src, s2, NR); __CPROVER_assert (n == ns, "copy.post7 the source list is not modified"); for (i = 0; i < NR; i++) __CPROVER_assert (IMP (i < ns, s2[i] == NR + i), "copy.post7 the source list is not modified");
}
#endif
