/* C08.send_error / send_ok / send_data / send_agree / send_rejected / shutdown_mech — the reply writers of
 * dbus/dbus-auth.c (real code) on the DBusString contract model.  Each unit proves the text of the stub that
 * stands for the function elsewhere (harness/c08_auth.h):
 *
 *  send_error (1)      TRUE => exactly one line "ERROR ...\r\n" appended to outgoing; FALSE => nothing appended.
 *                      Nothing else of the conversation changes.  [spec: "ERROR [human-readable error explanation]"]
 *  send_ok (2)         TRUE => exactly one line "OK <guid>\r\n", state = WaitingForBegin; FALSE => outgoing has its old
 *                      length and text, state unchanged.  [spec: "OK <GUID in hex>"; "send OK, goto WaitingForBegin"]
 *  send_data (3)       TRUE => exactly one line "DATA[ <hex>]\r\n"; FALSE => outgoing restored.  State unchanged.
 *  send_agree (4)      requires fd passing possible; TRUE => one line "AGREE_UNIX_FD\r\n", state WaitingForBegin,
 *                      unix_fd_negotiated set.
 *  send_rejected (5)   FALSE => nothing changed at all.  TRUE => one line "REJECTED <mechs>\r\n" listing exactly the allowed
 *                      mechanisms; failures + 1; requested identity string, desired and authorized credentials cleared,
 *                      mech = NULL; state = NeedDisconnect if failures' >= max_failures else WaitingForAuth.
 *                      [spec: "REJECTED <space-separated list of mechanism names>", "If the client is rejected too many
 *                       times the server must disconnect the client", CANCEL: "abort the current authentication exchange"]
 *  shutdown_mech (6)   identity string emptied, authorized and desired credentials cleared, mechanism's shutdown hook run
 *                      (cookie id reset for DBUS_COOKIE_SHA1), mech = NULL.
 * All: no temporary string is leaked or used after free (g_str_live), every DBusString precondition holds.
 */
#include "c08_model.h"
#include VERIF_TU
#include "c08_auth.h"

#ifndef VERIF_FN
#define VERIF_FN 1
#endif

void harness (void)
{
  DBusAuthServer S; DBusAuth *auth = &S.base;
  c08_make_auth (&S);
  __CPROVER_assume (AUTH_INV (auth));
  struct c08_snap old = c08_take (auth);
  int old_tag = STAG (&auth->outgoing);
  dbus_bool_t ret;

#if VERIF_FN == 1
  static const char msg[] = "x";
  ret = send_error (auth, nondet_bool () ? msg : "Unknown command");
  POST (IMP (ret, g_out_lines == 1 && g_out_last == SPEC_REPLY_ERROR), "send_error: TRUE => exactly one ERROR line queued");
  POST (IMP (!ret, g_out_lines == 0 && SLEN (&auth->outgoing) == old.out_len), "send_error: FALSE => nothing queued");
  POST (ST (auth) == old.state && S.failures == old.failures && auth->mech == old.mech && CRED_EQ (auth->authorized_identity, &old.authz), "send_error: conversation state untouched");
#elif VERIF_FN == 2
  __CPROVER_assume (ST (auth) == S_WFA || ST (auth) == S_WFD);
  ret = send_ok (auth);
  POST (IMP (ret, g_out_lines == 1 && g_out_last == SPEC_REPLY_OK && ST (auth) == S_WFB), "send_ok: TRUE => one OK line queued and state WaitingForBegin");
  POST (IMP (!ret, g_out_lines == 0 && SLEN (&auth->outgoing) == old.out_len && STAG (&auth->outgoing) == old_tag && ST (auth) == old.state), "send_ok: FALSE => outgoing restored, state unchanged");
  POST (S.failures == old.failures && auth->mech == old.mech && CRED_EQ (auth->authorized_identity, &old.authz), "send_ok: identity, mechanism, failure count untouched");
#elif VERIF_FN == 3
  DBusString data; _Bool with = nondet_bool ();
  if (with) c08_havoc_string (&data);
  ret = send_data (auth, with ? &data : NULL);
  POST (IMP (ret, g_out_lines == 1 && g_out_last == SPEC_REPLY_DATA), "send_data: TRUE => exactly one DATA line queued");
  POST (IMP (!ret, g_out_lines == 0 && SLEN (&auth->outgoing) == old.out_len && STAG (&auth->outgoing) == old_tag), "send_data: FALSE => outgoing restored");
  POST (ST (auth) == old.state && S.failures == old.failures && auth->mech == old.mech && CRED_EQ (auth->authorized_identity, &old.authz), "send_data: conversation state untouched");
#elif VERIF_FN == 4
  __CPROVER_assume (ST (auth) == S_WFB && auth->unix_fd_possible);
  ret = send_agree_unix_fd (auth);
  POST (IMP (ret, g_out_lines == 1 && g_out_last == SPEC_REPLY_AGREE_UNIX_FD && ST (auth) == S_WFB), "send_agree_unix_fd: TRUE => one AGREE_UNIX_FD line, state WaitingForBegin");
  POST (IMP (!ret, g_out_lines == 0 && SLEN (&auth->outgoing) == old.out_len && ST (auth) == old.state), "send_agree_unix_fd: FALSE => nothing queued");
  POST (auth->unix_fd_negotiated, "send_agree_unix_fd: fd passing recorded as negotiated");
  POST (S.failures == old.failures && auth->mech == old.mech && CRED_EQ (auth->authorized_identity, &old.authz) && g_mech_ok == old.mech_ok, "send_agree_unix_fd: identity untouched");
#elif VERIF_FN == 5
  __CPROVER_assume (IS_LIVE_STATE (ST (auth)));
  __CPROVER_assume (g_dirty == 0 || g_dirty == MECHID (auth->mech));   /* precondition, see verif_stub_send_rejected */
  int old_mechid = MECHID (auth->mech);
  ret = send_rejected (auth);
  /* the contract's ghost effect: a rejection voids any earlier mechanism success */
  if (ret) { g_mech_ok = 0; g_dirty = 0; }
  POST (IMP (ret, g_out_lines == 1 && g_out_last == SPEC_REPLY_REJECTED), "send_rejected: TRUE => exactly one REJECTED line queued");
  POST (IMP (ret, S.failures == old.failures + 1), "send_rejected: TRUE => failures + 1");
  POST (IMP (ret, ST (auth) == (S.failures >= S.max_failures ? S_DISC : S_WFA)), "send_rejected: TRUE => WaitingForAuth, or NeedDisconnect when the maximum is reached");
  POST (IMP (ret, CRED_EMPTY (auth->authorized_identity) && CRED_EMPTY (auth->desired_identity) && SLEN (&auth->identity) == 0 && auth->mech == NULL && !auth->already_asked_for_initial_response),
        "send_rejected: TRUE => authorized and desired identity cleared, mechanism shut down");
  POST (IMP (ret && old_mechid == MECH_SHA1, auth->cookie_id == -1), "send_rejected: TRUE => cookie challenge forgotten");
  POST (IMP (ret && auth->allowed_mechs == NULL, g_out_names == 3), "send_rejected: all three mechanisms listed when no restriction is set");
  POST (g_out_names <= 3, "send_rejected: at most the three known mechanisms listed");
  POST (IMP (!ret, g_out_lines == 0 && SLEN (&auth->outgoing) == old.out_len && ST (auth) == old.state && S.failures == old.failures && auth->mech == old.mech &&
             CRED_EQ (auth->authorized_identity, &old.authz) && CRED_EQ (auth->desired_identity, &old.desired) && SLEN (&auth->identity) == old.identity_len && auth->cookie_id == old.cookie_id),
        "send_rejected: FALSE => nothing changed");
  if (ret) ASSERT_AUTH_INV (auth);
  if (ret && ST (auth) == S_DISC) REACH ("rejected-disconnect");
  if (ret && ST (auth) == S_WFA) REACH ("rejected-again");
#elif VERIF_FN == 6
  int old_mechid = MECHID (auth->mech);
  shutdown_mech (auth);
  ret = TRUE;
  POST (CRED_EMPTY (auth->authorized_identity) && CRED_EMPTY (auth->desired_identity), "shutdown_mech: authorized and desired identity cleared");
  POST (SLEN (&auth->identity) == 0 && auth->mech == NULL && !auth->already_asked_for_initial_response, "shutdown_mech: requested identity string and mechanism forgotten");
  POST (IMP (old_mechid == MECH_SHA1, auth->cookie_id == -1 && SLEN (&auth->challenge) == 0), "shutdown_mech: cookie challenge forgotten");
  POST (ST (auth) == old.state && S.failures == old.failures && SLEN (&auth->outgoing) == old.out_len, "shutdown_mech: state, failures, outgoing untouched");
#endif
  POST (g_str_live == 0, "no temporary string leaked");
  POST (str_ok (&auth->outgoing) && !(STAG (&auth->outgoing) & TAG_OPEN), "outgoing holds whole lines only");
#if VERIF_FN != 6
  if (!ret) REACH ("false-oom");
#endif
  if (ret) REACH ("true");
}
