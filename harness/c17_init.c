/* C17.init (T, loop-free): _dbus_connection_new_for_transport, real body; every allocator a stub that may fail.
 * Establishes the invariant of C17.serial: a new connection starts with client_serial == 1 (non-zero; D-Bus
 * specification: "The serial number must not be zero"), with an empty pending_replies table whose value free
 * function is free_pending_call_on_hash_removal, refcount 1, lock not held. */
#include "c17_common.h"
#include <stdlib.h>
int _dbus_current_generation = 1;
void verif_stub_connection_last_unref (DBusConnection *c) { __CPROVER_assert (0, "connection finalized while in use"); }
static char o_watch, o_tmo, o_hash, o_msg, o_counter, o_tree, o_transport; static DBusFreeFunction g_value_free; static int g_hash_type; static _Bool g_set_conn_ok; static DBusConnection *g_set_conn_arg; static int g_transport_refs;
#define MAYBE(p) (nondet_bool () ? NULL : (void *) (p))
DBusWatchList *_dbus_watch_list_new (void) { return MAYBE (&o_watch); }
DBusTimeoutList *_dbus_timeout_list_new (void) { return MAYBE (&o_tmo); }
DBusHashTable *_dbus_hash_table_new (DBusHashType type, DBusFreeFunction kf, DBusFreeFunction vf) { g_hash_type = type; g_value_free = vf; return MAYBE (&o_hash); }
void *dbus_malloc0 (size_t n) { return nondet_bool () ? NULL : calloc (1, n); }
void dbus_free (void *p) { free (p); }
void _dbus_rmutex_new_at_location (DBusRMutex **l) { *l = MAYBE (l); }
void _dbus_cmutex_new_at_location (DBusCMutex **l) { *l = MAYBE (l); }
void _dbus_condvar_new_at_location (DBusCondVar **l) { *l = MAYBE (l); }
void _dbus_rmutex_free_at_location (DBusRMutex **l) { } void _dbus_cmutex_free_at_location (DBusCMutex **l) { } void _dbus_condvar_free_at_location (DBusCondVar **l) { }
DBusMessage *dbus_message_new_signal (const char *p, const char *i, const char *n) { return MAYBE (&o_msg); }
void dbus_message_unref (DBusMessage *m) { }
DBusList *_dbus_list_alloc_link (void *data) { if (nondet_bool ()) return NULL; DBusList *l = malloc (sizeof (DBusList)); if (l) l->data = data; return l; }
void _dbus_list_free_link (DBusList *l) { free (l); }
DBusList *_dbus_list_pop_first_link (DBusList **list) { PRE (*list == NULL, "expired list empty"); return NULL; }
DBusCounter *_dbus_counter_new (void) { return MAYBE (&o_counter); }
void _dbus_counter_unref (DBusCounter *c) { }
DBusObjectTree *_dbus_object_tree_new (DBusConnection *c) { return MAYBE (&o_tree); }
void _dbus_object_tree_unref (DBusObjectTree *t) { }
void _dbus_disable_sigpipe (void) { }
void _dbus_data_slot_list_init (DBusDataSlotList *l) { l->slots = NULL; l->n_slots = 0; }
dbus_bool_t _dbus_transport_set_connection (DBusTransport *t, DBusConnection *c) { PRE (c->have_connection_lock, "_dbus_transport_set_connection: lock held"); g_set_conn_arg = c; return g_set_conn_ok; }
DBusTransport *_dbus_transport_ref (DBusTransport *t) { g_transport_refs++; return t; }
void _dbus_hash_table_unref (DBusHashTable *t) { } void _dbus_watch_list_free (DBusWatchList *w) { } void _dbus_timeout_list_free (DBusTimeoutList *t) { }
void harness (void)
{
  g_set_conn_ok = nondet_bool (); g_transport_refs = 0; g_value_free = NULL; g_hash_type = -1; g_set_conn_arg = NULL; _dbus_current_generation = 1;
  DBusConnection *c = _dbus_connection_new_for_transport ((DBusTransport *) &o_transport);
  if (c == NULL) { __CPROVER_assert (g_transport_refs == 0, "post failure takes no transport reference"); REACH ("failed"); return; }
  __CPROVER_assert (c->client_serial == 1, "post a new connection starts with client_serial == 1 (never 0)");
  __CPROVER_assert (c->pending_replies == (DBusHashTable *) &o_hash && g_hash_type == DBUS_HASH_INT && g_value_free == (DBusFreeFunction) free_pending_call_on_hash_removal,
                    "post pending_replies is an int-keyed table releasing calls through free_pending_call_on_hash_removal");
  __CPROVER_assert (!c->have_connection_lock && c->refcount.value == 1 && c->transport == (DBusTransport *) &o_transport && g_transport_refs == 1 && g_set_conn_arg == c, "post unlocked, one reference, bound to the transport");
  __CPROVER_assert (c->incoming_messages == NULL && c->outgoing_messages == NULL && c->expired_messages == NULL && c->n_incoming == 0 && c->n_outgoing == 0 && c->filter_list == NULL && c->disconnect_message_link != NULL && !c->dispatch_acquired,
                    "post empty queues, Disconnected message preallocated");
  REACH ("created");
}
