/* C17.pcnew (T, loop-free): _dbus_pending_call_new_unlocked (dbus-pending-call.c), real body (with the real
 * dbus_pending_call_allocate/free_data_slot wrappers).  Oracle: dbus_connection_send_with_reply doc: "If -1 is passed for
 * the timeout, a sane default timeout is used ... If DBUS_TIMEOUT_INFINITE is passed for the timeout, no timeout will be
 * set and the call will block forever";  "@param timeout_milliseconds timeout in milliseconds, -1 (or
 * DBUS_TIMEOUT_USE_DEFAULT) for default or DBUS_TIMEOUT_INFINITE for no timeout".
 * Post: INFINITE => no DBusTimeout is created (timeout == NULL); -1 => the default interval
 * (_DBUS_DEFAULT_TIMEOUT_VALUE); any other value >= 0 => a timeout with EXACTLY that interval, the given handler and the
 * call as its data; fields initialised (refcount 1, connection set and ref'd once, not completed, no reply, serial 0);
 * no memory => NULL, nothing leaked (slot refs, blocks, connection refs balanced). */
#include <config.h>
#include "dbus/dbus-internals.h"
#include "verif_prelude.h"
#include <stdlib.h>
#include "dbus/dbus-connection-internal.h"
#define REACH(tag) __CPROVER_assert(0, "REACH:" tag)
#define IMP(a, b) (!(a) || (b))
#define PRE(c, what) __CPROVER_assert((c), "precondition of " what)
_Bool nondet_bool (void); int nondet_int (void); void *nondet_ptr (void);
#include VERIF_TU_PC
static int g_slot_allocs, g_slot_frees, g_blocks, g_timeout_news, g_interval, g_conn_refs; static DBusTimeoutHandler g_handler; static void *g_tdata, *g_block; static char o_tmo; static DBusConnection *g_conn;
dbus_bool_t _dbus_data_slot_allocator_alloc (DBusDataSlotAllocator *a, dbus_int32_t *slot_p) { if (nondet_bool ()) return FALSE; g_slot_allocs++; *slot_p = 0; return TRUE; }
void _dbus_data_slot_allocator_free (DBusDataSlotAllocator *a, dbus_int32_t *slot_p) { PRE (*slot_p >= 0, "_dbus_data_slot_allocator_free: slot allocated"); g_slot_frees++; }
void _dbus_data_slot_list_init (DBusDataSlotList *l) { l->slots = NULL; l->n_slots = 0; }
void *dbus_malloc0 (size_t n) { if (nondet_bool ()) return NULL; void *p = calloc (1, n); if (p) { g_blocks++; g_block = p; } return p; }
void dbus_free (void *p) { if (p) g_blocks--; free (p); }
DBusTimeout *_dbus_timeout_new (int interval, DBusTimeoutHandler h, void *data, DBusFreeFunction f) { g_timeout_news++; g_interval = interval; g_handler = h; g_tdata = data; return nondet_bool () ? NULL : (DBusTimeout *) &o_tmo; }
DBusConnection *_dbus_connection_ref_unlocked (DBusConnection *c) { PRE (c == g_conn, "_dbus_connection_ref_unlocked"); g_conn_refs++; return c; }
dbus_int32_t _dbus_atomic_inc (DBusAtomic *a) { dbus_int32_t o = a->value; a->value = o + 1; return o; }
dbus_int32_t _dbus_atomic_dec (DBusAtomic *a) { dbus_int32_t o = a->value; a->value = o - 1; return o; }
void _dbus_trace_ref (const char *n, void *o, int a, int b, const char *w, const char *e, int *en) { }
void _dbus_warn_return_if_fail (const char *function, const char *assertion, const char *file, int line) { __CPROVER_assert (0, "an API precondition check (_dbus_return_if_fail) fired"); }
static dbus_bool_t handler (void *d) { return TRUE; }
void harness (void)
{
  char conn; g_conn = (DBusConnection *) &conn;
  g_slot_allocs = g_slot_frees = g_blocks = g_timeout_news = g_conn_refs = 0; g_interval = -7; g_handler = NULL; g_tdata = NULL; g_block = NULL; notify_user_data_slot = -1;
  int tm = nondet_int (); __CPROVER_assume (tm >= 0 || tm == -1);                  /* the function's entry assertion */
  DBusPendingCall *p = _dbus_pending_call_new_unlocked (g_conn, tm, handler);
  if (p == NULL)
    { __CPROVER_assert (g_slot_allocs == g_slot_frees && g_blocks == 0 && g_conn_refs == 0, "post no memory: NULL, slot reference, block and connection reference all given back"); REACH ("oom"); return; }
  __CPROVER_assert (IMP (tm == DBUS_TIMEOUT_INFINITE, p->timeout == NULL && g_timeout_news == 0), "post1 DBUS_TIMEOUT_INFINITE creates no timeout: the call can only end by a reply or disconnect");
  __CPROVER_assert (IMP (tm != DBUS_TIMEOUT_INFINITE, p->timeout == (DBusTimeout *) &o_tmo && g_timeout_news == 1 && g_handler == handler && g_tdata == p), "post2 otherwise exactly one timeout, with the given handler and the call as its data");
  __CPROVER_assert (IMP (tm == -1, g_interval == _DBUS_DEFAULT_TIMEOUT_VALUE), "post3 -1 selects the default interval");
  __CPROVER_assert (IMP (tm >= 0 && tm != DBUS_TIMEOUT_INFINITE, g_interval == tm), "post4 any other value is used as the interval EXACTLY");
  __CPROVER_assert (p == g_block && p->refcount.value == 1 && p->connection == g_conn && g_conn_refs == 1 && !p->completed && !p->timeout_added && p->reply == NULL && p->timeout_link == NULL
                    && p->function == NULL && p->reply_serial == 0 && g_slot_allocs == 1 && g_slot_frees == 0 && g_blocks == 1, "post5 fresh call: one reference, bound to the connection (ref'd once), not completed, no reply, serial 0");
  if (tm == DBUS_TIMEOUT_INFINITE) REACH ("infinite"); if (tm == -1) REACH ("default"); if (tm > 6 * 60 * 60 * 1000 && tm != DBUS_TIMEOUT_INFINITE) REACH ("long"); if (tm == 0) REACH ("zero");
}
