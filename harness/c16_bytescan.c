/* C16/C01: _dbus_string_validate_ascii (every byte < 128) and _dbus_string_validate_nul (every
 * byte == 0: header padding rule "padding must be zero"), both directions.  -DVERIF_ASCII=0|1 */
#include "verif_str.h"
long verif_gk, verif_gk2, verif_w, verif_w2; int verif_flag;
#define B SB(str, start)
#if VERIF_ASCII
#define VERIF_FN _dbus_string_validate_ascii
#define BYTE_OK(c) ((c) != 0 && (c) < 128)   /* "valid ASCII with no nul bytes" (API documentation) */
#else
#define VERIF_FN _dbus_string_validate_nul
#define BYTE_OK(c) ((c) == 0)
#endif
dbus_bool_t VERIF_FN (const DBusString *str, int start, int len)
STR_OK_REQUIRES(str)
__CPROVER_requires(start >= 0 && len >= 0 && start <= REAL(str)->len)
__CPROVER_assigns(verif_w)
__CPROVER_ensures(__CPROVER_return_value == 0 || __CPROVER_return_value == 1)
__CPROVER_ensures(IMP(__CPROVER_return_value, len <= REAL(str)->len - start && G_AT(verif_gk, len, BYTE_OK(B[verif_gk]))))
__CPROVER_ensures(IMP(!__CPROVER_return_value, len > REAL(str)->len - start || (0 <= verif_w && verif_w < len && !BYTE_OK(B[verif_w]))))
;
void harness (void)
{
  const DBusString *s; int start, len;
  dbus_bool_t r = VERIF_FN (s, start, len);
  if (r) REACH("accept"); else REACH("reject");
  if (r && len > 1000) REACH("accept-long");
}
