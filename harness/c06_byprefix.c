/* C06: bus_connection_is_queued_owner_by_prefix (bus/connection.c), B: <= 3 owned names.
 * Contract (man page, send_destination_prefix): TRUE iff the connection is primary or queued owner of at least one
 * name that "matches the prefix" -- "a prefix of "a.b" matches names "a.b" or "a.b.c" or "a.b.c.d", but not "a.bc"
 * or "a.c"".  This is the contract that the C06.send_* units assume for this callee. */
#include <config.h>
#include "dbus/dbus-internals.h"
#include "verif_prelude.h"
#include VERIF_TU
#include "policy_ref.h"
#define REACH(tag) __CPROVER_assert(0, "REACH:" tag)
#define PRE(c, what) __CPROVER_assert((c), "precondition of " what)
#ifndef VERIF_N
#define VERIF_N 3
#endif
_Bool nondet_bool (void); int nondet_int (void);
static char POOL[5][8] = { "a.b", "a.b.c", "a.bc", "a.c", "a" };
static char *pick (void) { int k = nondet_int (); __CPROVER_assume (k >= 0 && k < 5); return POOL[k]; }
static char o_conn; static BusConnectionData D;
static char o_svc[3]; static const char *svc_name[3];
/* services_owned holds BusService pointers (bus_connection_add_owned_service_link); their names come from the registry */
void *dbus_connection_get_data (DBusConnection *c, dbus_int32_t slot) { PRE (c == (DBusConnection *) &o_conn && slot == connection_data_slot, "dbus_connection_get_data"); return &D; }
const char *bus_service_get_name (BusService *s) { PRE (s != NULL && __CPROVER_same_object (s, o_svc), "bus_service_get_name"); return svc_name[(char *) s - o_svc]; }

void harness (void)
{
  static DBusList L0, L1, L2; DBusList *const Lp[3] = { &L0, &L1, &L2 };
  int n = nondet_int (); __CPROVER_assume (n >= 0 && n <= VERIF_N);
  D.services_owned = NULL; D.n_services_owned = n;
  for (int i = 0; i < VERIF_N; i++) if (i < n)
    {
      DBusList *l = Lp[i]; svc_name[i] = pick (); l->data = &o_svc[i];
      if (D.services_owned == NULL) { l->next = l->prev = l; D.services_owned = l; }
      else { l->next = D.services_owned; l->prev = D.services_owned->prev; D.services_owned->prev->next = l; D.services_owned->prev = l; }
    }
  const char *prefix = pick ();
  dbus_bool_t ret = bus_connection_is_queued_owner_by_prefix ((DBusConnection *) &o_conn, prefix);
  int expect = 0;
  for (int i = 0; i < VERIF_N; i++) if (i < n && spec_name_in_namespace (svc_name[i], prefix)) expect = 1;
  __CPROVER_assert ((ret != 0) == expect, "post1 TRUE iff some owned name is the prefix or the prefix followed by '.' and more");
  __CPROVER_assert (D.n_services_owned == n && (n == 0 ? D.services_owned == NULL : D.services_owned == &L0), "post2 owned list unchanged");
  if (ret) REACH ("owner"); else REACH ("not-owner");
  if (!ret && n == 3) REACH ("three-names-none-matches");
}
