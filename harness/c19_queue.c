/* C19: the held-message queue of a pending activation, bus/activation.c.
 *   VERIF_FN == 2  bus_activation_send_pending_auto_activation_messages   B, <= 3 waiters
 *   VERIF_FN == 3  try_send_activation_failure (static)                    B, <= 3 waiters
 *   VERIF_FN == 5  bus_activation_service_created                          B, <= 3 waiters
 *   VERIF_FN == 4  pending_activation_failed (static)                      hybrid: retry loop closed by a loop
 *                  contract (contracts/c19_activation.ovl), try_send_activation_failure by its contract
 * The waiter list (circular DBusList) is built by the harness; the real accessors of dbus/dbus-list.c are
 * linked.  Hash-table lookups/removals are contracts over a one-entry ghost map (hash tables are never
 * executed, DESIGN 3.7).
 * Oracle (spec/activation_ref.h): S1 "start that service, wait for it to request that name, and deliver the
 * message to it"; S5 "If this fails, it will report an error"; property C19: "delivers each held message
 * exactly once in arrival order, subject to policy; if starting fails ... every waiting sender receives
 * exactly one error". */
#include <config.h>
#include "dbus/dbus-internals.h"
#include <stdlib.h>
#include <string.h>
#ifndef VERIF_N
#define VERIF_N 3
#endif
/* ghost record (declared before the TU: the loop contract of pending_activation_failed names it) */
struct c19_queue_ghost { unsigned dispatched[VERIF_N], err_replies[VERIF_N], oom_replies[VERIF_N], seq, order[VERIF_N], removed, hooks, executed, cancelled, txn_new, waits, rounds_ok, rounds_failed;
         _Bool dispatch_fails[VERIF_N], dispatch_oom[VERIF_N]; } Q;
_Bool g_map_has;     /* ghost map name -> pending activation: is the entry present */
#include VERIF_TU
#include "../stubs/c19_act_common.c"
static char o_table, o_ctx, o_txn, o_owner, o_service, o_hash_entry; static char g_name[] = "x.y";
static BusActivation A; static BusPendingActivation *g_pending;     /* ghost map: name -> g_pending iff g_map_has */
static DBusList links[VERIF_N]; static BusPendingActivationEntry ent[VERIF_N]; static char conns[VERIF_N], msgs[VERIF_N]; static unsigned n_ent;
static _Bool connected[VERIF_N];
static int idx_of_msg (DBusMessage *m) { for (int i = 0; i < VERIF_N; i++) if (m == (DBusMessage *)&msgs[i]) return i; return -1; }
/* attributes of the held messages: arbitrary (a held message may be any method call or signal, with or without NO_REPLY_EXPECTED) */
static int g_msg_type[VERIF_N]; static _Bool g_msg_no_reply[VERIF_N];
int dbus_message_get_type (DBusMessage *m) { int k = idx_of_msg (m); PRE(k >= 0, "dbus_message_get_type: a held message"); __CPROVER_assume(k >= 0 && k < VERIF_N); return g_msg_type[k]; }
dbus_bool_t dbus_message_get_no_reply (DBusMessage *m) { int k = idx_of_msg (m); PRE(k >= 0, "dbus_message_get_no_reply: a held message"); __CPROVER_assume(k >= 0 && k < VERIF_N); return g_msg_no_reply[k]; }
dbus_bool_t dbus_connection_get_is_connected (DBusConnection *c) { for (int i = 0; i < VERIF_N; i++) if (c == (DBusConnection *)&conns[i]) return connected[i]; PRE(0, "dbus_connection_get_is_connected: a waiter's connection"); return 0; }
void *_dbus_hash_table_lookup_string (DBusHashTable *table, const char *key) { PRE(table == (DBusHashTable *)&o_table && key == g_name, "_dbus_hash_table_lookup_string: pending activations by the service's name"); return g_map_has ? g_pending : NULL; }
/* removal drops the table's reference (value free function = bus_pending_activation_unref, real code) */
dbus_bool_t _dbus_hash_table_remove_string (DBusHashTable *table, const char *key)
{ PRE(table == (DBusHashTable *)&o_table && (key == g_name || (g_pending && key == g_pending->service_name)), "_dbus_hash_table_remove_string: pending activations, this name");
  Q.removed++; if (!g_map_has) return 0; g_map_has = 0;
#if VERIF_FN == 2
  bus_pending_activation_unref (g_pending);
#endif
  return 1; }
DBusPreallocatedHash *_dbus_hash_table_preallocate_entry (DBusHashTable *table) { return nondet_bool() ? (DBusPreallocatedHash *)&o_hash_entry : NULL; }
void _dbus_hash_table_free_preallocated_entry (DBusHashTable *table, DBusPreallocatedHash *p) {}
void *dbus_malloc (size_t n) { return nondet_bool() ? malloc(n) : NULL; }
void dbus_free (void *p) { free(p); }
const char *bus_service_get_name (BusService *s) { PRE(s == (BusService *)&o_service, "bus_service_get_name"); return g_name; }
DBusConnection *bus_service_get_primary_owners_connection (BusService *s) { return (DBusConnection *)&o_owner; }
dbus_bool_t bus_transaction_add_cancel_hook (BusTransaction *t, BusTransactionCancelFunction f, void *data, DBusFreeFunction free_f) { PRE(t == (BusTransaction *)&o_txn, "bus_transaction_add_cancel_hook"); if (nondet_bool()) return 0; Q.hooks++; return 1; }
/* contract of bus_dispatch_matches (bus-dispatch helper's units): consults policy for this one message and queues it to the
 * addressed recipient and matching eavesdroppers within the transaction, or fails with an error (denial or OOM) */
dbus_bool_t bus_dispatch_matches (BusTransaction *t, DBusConnection *sender, DBusConnection *recipient, DBusMessage *message, DBusError *error)
{ int k = idx_of_msg(message);
  PRE(t == (BusTransaction *)&o_txn && k >= 0 && sender == ent[k].connection && recipient == (DBusConnection *)&o_owner, "bus_dispatch_matches: held message k from its sender to the new primary owner, in the caller's transaction");
  PRE(error != NULL && !ERR_SET(error), "bus_dispatch_matches: error clear");
  PRE(g_map_has, "bus_dispatch_matches: the held messages are still registered (removed only after all were dispatched)");
  __CPROVER_assume(k >= 0 && k < VERIF_N); Q.dispatched[k]++; Q.order[k] = ++Q.seq;
  if (Q.dispatch_fails[k]) { error->name = Q.dispatch_oom[k] ? DBUS_ERROR_NO_MEMORY : DBUS_ERROR_ACCESS_DENIED; error->message = some_string; return 0; }
  return 1; }
dbus_bool_t bus_transaction_send_error_reply (BusTransaction *t, DBusConnection *connection, const DBusError *error, DBusMessage *in_reply_to)
{ int k = idx_of_msg(in_reply_to);
  PRE(connection != NULL, "bus_transaction_send_error_reply: connection != NULL");
  PRE(t == (BusTransaction *)&o_txn && k >= 0 && connection == ent[k].connection && error != NULL && ERR_SET(error), "bus_transaction_send_error_reply: to waiter k, in reply to its own message, with a set error");
  __CPROVER_assume(k >= 0 && k < VERIF_N); if (nondet_bool()) return 0; Q.err_replies[k]++; if (Q.order[k] == 0) Q.order[k] = ++Q.seq; return 1; }
void bus_connection_send_oom_error (DBusConnection *connection, DBusMessage *in_reply_to)
{ int k = idx_of_msg(in_reply_to); PRE(connection != NULL && k >= 0 && connection == ent[k].connection, "bus_connection_send_oom_error: to waiter k"); __CPROVER_assume(k >= 0 && k < VERIF_N); Q.oom_replies[k]++; }
BusTransaction *bus_transaction_new (BusContext *c) { PRE(c == (BusContext *)&o_ctx, "bus_transaction_new"); Q.txn_new++; return nondet_bool() ? (BusTransaction *)&o_txn : NULL; }
void bus_transaction_execute_and_free (BusTransaction *t) { PRE(t == (BusTransaction *)&o_txn && Q.executed == 0 && Q.cancelled == 0, "bus_transaction_execute_and_free: once"); Q.executed++; }
void bus_transaction_cancel_and_free (BusTransaction *t) { PRE(t == (BusTransaction *)&o_txn && Q.executed == 0 && Q.cancelled == 0, "bus_transaction_cancel_and_free: once"); Q.cancelled++; }
#if VERIF_FN == 5
#include <stdarg.h>
static char replies[VERIF_N]; static struct { unsigned made[VERIF_N], sent[VERIF_N], unrefs[VERIF_N], order[VERIF_N], seq, success_value_ok[VERIF_N]; } R;
static int idx_of_reply (DBusMessage *m) { for (int i = 0; i < VERIF_N; i++) if (m == (DBusMessage *)&replies[i]) return i; return -1; }
DBusMessage *dbus_message_new_method_return (DBusMessage *call) { int k = idx_of_msg(call); PRE(k >= 0 && R.made[k] == 0, "dbus_message_new_method_return: one reply per held StartServiceByName call"); __CPROVER_assume(k >= 0 && k < VERIF_N); if (nondet_bool()) return NULL; R.made[k]++; return (DBusMessage *)&replies[k]; }
dbus_bool_t dbus_message_append_args (DBusMessage *m, int first_arg_type, ...)
{ int k = idx_of_reply(m); PRE(k >= 0 && first_arg_type == DBUS_TYPE_UINT32, "dbus_message_append_args: UINT32 result on the reply"); __CPROVER_assume(k >= 0 && k < VERIF_N);
  va_list ap; va_start(ap, first_arg_type); dbus_uint32_t *v = va_arg(ap, dbus_uint32_t *); int end = va_arg(ap, int); va_end(ap);
  PRE(v != NULL && end == DBUS_TYPE_INVALID, "dbus_message_append_args: one argument"); if (nondet_bool()) return 0; R.success_value_ok[k] = (*v == DBUS_START_REPLY_SUCCESS); return 1; }
dbus_bool_t bus_transaction_send_from_driver (BusTransaction *t, DBusConnection *c, DBusMessage *m)
{ int k = idx_of_reply(m); PRE(t == (BusTransaction *)&o_txn && k >= 0 && c != NULL && c == ent[k].connection && R.success_value_ok[k], "bus_transaction_send_from_driver: SUCCESS reply k to the caller that asked, in the caller's transaction");
  __CPROVER_assume(k >= 0 && k < VERIF_N); if (nondet_bool()) return 0; R.sent[k]++; R.order[k] = ++R.seq; return 1; }
void dbus_message_unref (DBusMessage *m) { int k = idx_of_reply(m); if (k >= 0) R.unrefs[k]++; }
#else
/* entry release (only reached when the last reference goes): not of interest here */
void dbus_message_unref (DBusMessage *m) {}
#endif
void dbus_connection_unref (DBusConnection *c) {}
DBusLoop *bus_context_get_loop (BusContext *c) { return nondet_ptr(); }
void _dbus_loop_remove_timeout (DBusLoop *l, DBusTimeout *t) {}
void _dbus_timeout_unref (DBusTimeout *t) {}
dbus_bool_t _dbus_babysitter_set_watch_functions (DBusBabysitter *s, DBusAddWatchFunction a, DBusRemoveWatchFunction r, DBusWatchToggledFunction t, void *d, DBusFreeFunction f) { return 1; }
void _dbus_babysitter_unref (DBusBabysitter *s) {}
void _dbus_wait_for_memory (void) { Q.waits++; }
#if VERIF_FN == 4
/* contract of try_send_activation_failure as checked (bounded) by C19.try_send_failure_n3 */
dbus_bool_t verif_stub_try_send (BusPendingActivation *p, const DBusError *how)
{ PRE(p == g_pending && how != NULL && ERR_SET(how) && g_map_has, "try_send_activation_failure: the still-registered pending activation, a set error");
  if (nondet_bool()) { Q.rounds_ok++; return 1; } Q.rounds_failed++; return 0; }
#endif

#if VERIF_FN == 4
/* loop-free set-up (DFCC wants a contract on every loop it sees): the waiter list is not traversed in this unit */
static void build (void)
{
  n_ent = nondet_unsigned(); __CPROVER_assume(n_ent >= 1 && n_ent <= VERIF_N);
  g_pending = malloc(sizeof *g_pending); __CPROVER_assume(g_pending != NULL);
  g_pending->refcount = 1; g_pending->activation = &A; g_pending->service_name = g_name; g_pending->entries = nondet_ptr(); g_pending->n_entries = n_ent;
  A.pending_activations = (DBusHashTable *)&o_table; A.context = (BusContext *)&o_ctx; A.n_pending_activations = n_ent;
  g_map_has = 1; Q.rounds_ok = Q.rounds_failed = Q.waits = Q.removed = 0;
}
#else
static void build (void)
{
  n_ent = nondet_unsigned(); __CPROVER_assume(n_ent >= 1 && n_ent <= VERIF_N);
  for (int i = 0; i < VERIF_N; i++)
    {
      links[i].data = &ent[i]; links[i].next = &links[((unsigned)i + 1 < n_ent) ? i + 1 : 0]; links[i].prev = &links[i == 0 ? n_ent - 1 : i - 1];
      ent[i].activation_message = (DBusMessage *)&msgs[i]; ent[i].connection = nondet_bool() ? (DBusConnection *)&conns[i] : NULL; ent[i].auto_activation = nondet_bool();
      __CPROVER_assume(ent[i].connection != NULL || ent[i].auto_activation);   /* struct comment: connection NULL => bus-originated, always auto */
      connected[i] = nondet_bool(); Q.dispatch_fails[i] = nondet_bool(); Q.dispatch_oom[i] = nondet_bool();
      g_msg_type[i] = nondet_bool() ? DBUS_MESSAGE_TYPE_METHOD_CALL : DBUS_MESSAGE_TYPE_SIGNAL; g_msg_no_reply[i] = nondet_bool();
#ifndef VERIF_NULLCONN_MAY_FAIL
      /* ASSUMPTION of the green unit: dispatching a bus-originated held message (connection == NULL, the
       * systemd ActivationRequest) does not fail.  Without it the unchanged tree fails (unit ..._nullconn). */
      __CPROVER_assume(ent[i].connection != NULL || !Q.dispatch_fails[i]);
#endif
    }
  g_pending = malloc(sizeof *g_pending); __CPROVER_assume(g_pending != NULL);
  g_pending->refcount = 1; g_pending->activation = &A; g_pending->service_name = g_name; g_pending->exec = NULL; g_pending->systemd_service = NULL;
  g_pending->entries = &links[0]; g_pending->n_entries = n_ent; g_pending->babysitter = NULL; g_pending->timeout = NULL; g_pending->timeout_added = 0;
  A.pending_activations = (DBusHashTable *)&o_table; A.context = (BusContext *)&o_ctx; A.n_pending_activations = nondet_int(); __CPROVER_assume(A.n_pending_activations >= (int)n_ent && A.n_pending_activations < 1000000);
  g_map_has = 1;
}
#endif
void harness (void)
{
  build();
#if VERIF_FN == 2
  g_map_has = nondet_bool(); _Bool had_pending = g_map_has;
  dbus_bool_t ret = bus_activation_send_pending_auto_activation_messages (&A, (BusService *)&o_service, (BusTransaction *)&o_txn);
  unsigned last = 0;
  for (int i = 0; i < VERIF_N; i++)
    {
      _Bool in = (unsigned)i < n_ent;
      _Bool due = in && ent[i].auto_activation && (ent[i].connection == NULL || connected[i]);
      if (!in || !ret) continue;
      if (!had_pending) { __CPROVER_assert(Q.dispatched[i] == 0 && Q.removed == 0, "post0 no pending activation for the name => nothing is dispatched"); continue; }
      __CPROVER_assert(Q.dispatched[i] == (due ? 1 : 0), "post1 each held auto-start message of a live sender is dispatched exactly once; explicit StartServiceByName waiters and dead senders never (ACT_ONCE_IN_ORDER)");
      __CPROVER_assert(IMP(due && Q.dispatch_fails[i], Q.err_replies[i] + Q.oom_replies[i] == 1), "post2 a held message refused at dispatch (policy or OOM) is answered with exactly one error to its sender");
      __CPROVER_assert(IMP(!(due && Q.dispatch_fails[i]), Q.err_replies[i] + Q.oom_replies[i] == 0), "post3 no error for a delivered message");
      if (due) { __CPROVER_assert(Q.order[i] > last, "post4 held messages are dispatched in arrival (list) order"); last = Q.order[i]; }
    }
  __CPROVER_assert(IMP(ret && had_pending, Q.removed == 1 && !g_map_has), "post5 after dispatch the held messages are removed from the pending table (cannot be delivered twice)");
  __CPROVER_assert(IMP(!ret, Q.removed == 0 && g_map_has && Q.hooks == 0), "post6 failure (OOM while arming the restore hook) removes nothing; the caller cancels the transaction");
  __CPROVER_assert(IMP(ret && Q.removed == 1, Q.hooks == 1), "post7 removal is undone if the transaction is cancelled (restore hook armed first)");
  if (ret && had_pending) REACH("delivered"); if (ret && !had_pending) REACH("no-pending"); if (!ret) REACH("oom");
  if (ret && n_ent == 3 && Q.seq == 3) REACH("three-dispatched"); if (ret && Q.err_replies[0] == 1) REACH("denied-first");
#elif VERIF_FN == 5
  g_map_has = nondet_bool(); _Bool had_pending = g_map_has; DBusError err; err.name = NULL; err.message = NULL;
  dbus_bool_t ret = bus_activation_service_created (&A, g_name, (BusTransaction *)&o_txn, &err);
  unsigned last = 0;
  for (int i = 0; i < VERIF_N; i++)
    {
      if ((unsigned)i >= n_ent) continue;
      _Bool due = had_pending && ent[i].connection != NULL && connected[i] && !ent[i].auto_activation;
      __CPROVER_assert(IMP(ret, R.sent[i] == (due ? 1 : 0)), "post1 every connected StartServiceByName caller gets exactly one SUCCESS reply; auto-start senders get none (their message is delivered instead) (S8)");
      __CPROVER_assert(R.sent[i] <= 1 && R.made[i] == R.unrefs[i], "post2 never two replies to one caller; every reply object released");
      if (ret && due) { __CPROVER_assert(R.order[i] > last, "post3 replies are queued in waiter order"); last = R.order[i]; }
    }
  __CPROVER_assert(IMP(!ret, ERR_SET(&err)), "post4 failure (OOM) carries an error; the caller cancels the transaction");
  __CPROVER_assert(Q.removed == 0 && g_map_has == had_pending, "post5 the pending activation stays registered (held messages are dispatched later by send_pending_auto_activation_messages)");
  if (ret && had_pending) REACH("answered"); if (ret && !had_pending) REACH("no-pending"); if (!ret) REACH("oom"); if (ret && R.seq == 3) REACH("three-replies");
#elif VERIF_FN == 3
  DBusError how; how.name = DBUS_ERROR_SPAWN_EXEC_FAILED; how.message = some_string;
  dbus_bool_t ret = try_send_activation_failure (g_pending, &how);
  unsigned last = 0;
  for (int i = 0; i < VERIF_N; i++)
    {
      if ((unsigned)i >= n_ent) continue;
      _Bool waiting = ent[i].connection != NULL && connected[i];
      __CPROVER_assert(IMP(ret, Q.err_replies[i] == (waiting ? 1 : 0)), "post1 every waiting (connected) sender is sent exactly one error; nobody else (ACT_ONE_ERROR_EACH)");
      __CPROVER_assert(Q.err_replies[i] <= 1 && Q.dispatched[i] == 0 && Q.oom_replies[i] == 0, "post2 never two errors to one waiter, nothing else sent");
      if (ret && waiting) { __CPROVER_assert(Q.order[i] > last, "post3 errors are queued in waiter order"); last = Q.order[i]; }
    }
  __CPROVER_assert(IMP(ret, Q.executed == 1 && Q.cancelled == 0), "post4 TRUE => the transaction carrying the errors was executed once");
  __CPROVER_assert(IMP(!ret, Q.executed == 0 && (Q.cancelled == 1 || Q.txn_new == 1)), "post5 FALSE => nothing was delivered (transaction cancelled or never created)");
  __CPROVER_assert(g_map_has && Q.removed == 0 && g_pending->n_entries == (int)n_ent, "post6 the pending activation itself is not touched");
  if (ret) REACH("fanned-out"); else REACH("oom"); if (ret && n_ent == 3 && Q.seq == 3) REACH("three-errors"); if (!ret && Q.cancelled) REACH("cancelled");
#else
  DBusError how; how.name = DBUS_ERROR_SPAWN_EXEC_FAILED; how.message = some_string;
  pending_activation_failed (g_pending, &how);
  __CPROVER_assert(Q.rounds_ok == 1, "post1 exactly one successful fan-out round: every waiter got exactly one error (ACT_ONE_ERROR_EACH)");
  __CPROVER_assert(Q.removed == 1 && !g_map_has, "post2 the failed activation is removed from the pending table afterwards (a later request starts afresh)");
  __CPROVER_assert(Q.waits == Q.rounds_failed, "post3 one wait per failed round");
  REACH("done"); if (Q.rounds_failed > 0) REACH("retried");
#endif
}
