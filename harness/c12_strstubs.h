/* Contract stubs shared by the C12 padding units and the bounded in-place edit unit.
 * Needs: static DBusHeader H; static unsigned char *hb (the bytes behind H.data); static int cap (bytes really
 * allocated behind hb); G_b.lengthen_ok / G_b.aligned; PRE(); nondet_bool(); nondet_uchar(). */
/* DBusString length primitives (documented behaviour, dbus-string.c): lengthen may fail and then changes nothing; new
 * bytes are not initialised; shorten never fails and keeps the allocation; align_length appends NUL bytes and
 * cannot fail while the new length still fits the allocation (set_length only reallocates beyond it). */
int verif_stub_string_get_length (const DBusString *s) { return ((const DBusRealString *) s)->len; }
dbus_bool_t verif_stub_string_lengthen (DBusString *s, int extra)
{ DBusRealString *r = (DBusRealString *) s; int k;
  PRE (extra >= 0 && r == (DBusRealString *) &H.data, "_dbus_string_lengthen: non-negative amount, the header string");
  if (r->len + extra > r->allocated - 8 && nondet_bool ()) return 0;          /* reallocation needed and refused */
  __CPROVER_assume (r->len + extra + 8 <= cap);                                 /* the harness block is large enough to model the grown allocation */
  if (r->len + extra > r->allocated - 8) r->allocated = r->len + extra + 8;
  for (k = 0; k < 7; k++) if (k < extra) hb[r->len + k] = nondet_uchar ();      /* "the new bytes are not initialized" (extra <= 7 here) */
  PRE (extra <= 7, "_dbus_string_lengthen: at most the maximum padding");
  r->len += extra; hb[r->len] = 0; G_b.lengthen_ok = 1; return 1; }
void verif_stub_string_shorten (DBusString *s, int n)
{ DBusRealString *r = (DBusRealString *) s; PRE (n >= 0 && n <= r->len, "_dbus_string_shorten: at most the whole string"); r->len -= n; hb[r->len] = 0; }
dbus_bool_t verif_stub_string_align_length (DBusString *s, int alignment)
{ DBusRealString *r = (DBusRealString *) s; int to = (r->len + alignment - 1) & ~(alignment - 1), k;
  PRE (alignment == 8, "_dbus_string_align_length: 8");
  if (to > r->allocated - 8 && nondet_bool ()) return 0;                       /* would need a reallocation: may fail */
  __CPROVER_assume (to + 8 <= cap);
  for (k = 0; k < 7; k++) if (r->len + k < to) hb[r->len + k] = 0;             /* "by appending nul bytes" */
  r->len = to; hb[to] = 0; G_b.aligned = 1; return 1; }

