/* C09, policy side: "Under a policy that admits only requested replies (the system-bus default), a method return or
 * error reaches a connection only if [it is a requested reply] ... any other reply is refused as access denied."
 * The system bus default context (bus/system.conf.in) for replies is
 *     <deny send_type="method_call"/>  <allow send_type="signal"/>
 *     <allow send_requested_reply="true" send_type="method_return"/>  <allow send_requested_reply="true" send_type="error"/>
 *     <allow receive_type="method_call"/> <allow receive_type="method_return"/> <allow receive_type="error"/> <allow receive_type="signal"/>
 * (receive rules: requested_reply defaults to "true" on <allow>).  The real bus_client_policy_check_can_send /
 * _can_receive on exactly these lists: a reply passes iff requested_reply, whatever its other header fields. */
#define VERIF_WHAT 3
#include "c06_common.h"
static BusPolicyRule R[8]; static DBusList L[8];
static void add (BusClientPolicy *pol, int i, int kind, int allow, int type, int rr)
{
  spec_rule s; __CPROVER_assume (1);
  s.kind = kind; s.allow = allow; s.message_type = type; s.path = s.interface = s.member = s.error_name = s.peer_name = NULL; s.peer_is_prefix = 0;
  s.broadcast = SPEC_TRI_ANY; s.eavesdrop = 0; s.requested_reply = rr; s.min_fds = 0; s.max_fds = SPEC_MAX_FDS; s.own_name = NULL; s.own_is_prefix = 0;
  R[i].refcount = 1; R[i].allow = allow; R[i].type = kind == 0 ? BUS_POLICY_RULE_SEND : BUS_POLICY_RULE_RECEIVE;
  if (kind == 0) fill_send (&R[i], &s); else fill_receive (&R[i], &s);
  L[i].data = &R[i];
  if (pol->rules == NULL) { L[i].next = L[i].prev = &L[i]; pol->rules = &L[i]; }
  else { L[i].next = pol->rules; L[i].prev = pol->rules->prev; pol->rules->prev->next = &L[i]; pol->rules->prev = &L[i]; }
}
void harness (void)
{
  BusClientPolicy pol; pol.refcount = 1; pol.rules = NULL;
  havoc_facts (); __CPROVER_assume (facts_ok ());
  /* allow defaults: requested_reply = true; deny defaults: false (bus_policy_rule_new) */
  add (&pol, 0, 0, 0, DBUS_MESSAGE_TYPE_METHOD_CALL, 0);
  add (&pol, 1, 0, 1, DBUS_MESSAGE_TYPE_SIGNAL, 1);
  add (&pol, 2, 0, 1, DBUS_MESSAGE_TYPE_METHOD_RETURN, 1);
  add (&pol, 3, 0, 1, DBUS_MESSAGE_TYPE_ERROR, 1);
  add (&pol, 4, 1, 1, DBUS_MESSAGE_TYPE_METHOD_CALL, 1);
  add (&pol, 5, 1, 1, DBUS_MESSAGE_TYPE_METHOD_RETURN, 1);
  add (&pol, 6, 1, 1, DBUS_MESSAGE_TYPE_ERROR, 1);
  add (&pol, 7, 1, 1, DBUS_MESSAGE_TYPE_SIGNAL, 1);
  dbus_int32_t t1, t2; dbus_bool_t log = 0;
  DBusConnection *proposed = (DBusConnection *) &o_prop;
  dbus_bool_t s = bus_client_policy_check_can_send (&pol, REG, F.requested_reply, F.peer_is_connection ? PEER : NULL, MSG, &t1, &log);
  dbus_bool_t r = bus_client_policy_check_can_receive (&pol, REG, F.requested_reply, F.peer_is_connection ? PEER : NULL, proposed, proposed, MSG, &t2);
  if (spec_is_reply (&F))
    {
      __CPROVER_assert ((s != 0) == (F.requested_reply != 0), "post1 system-bus default: a method return / error may be sent iff it is a requested reply");
      __CPROVER_assert ((r != 0) == (F.requested_reply != 0), "post2 system-bus default: a method return / error may be received (by its addressee) iff it is a requested reply");
      if (s && r) REACH ("requested-reply-passes"); if (!s && !r) REACH ("unrequested-reply-refused");
    }
  if (F.type == DBUS_MESSAGE_TYPE_METHOD_CALL) { __CPROVER_assert (!s, "post3 system-bus default: method calls are not sendable without further configuration"); REACH ("call-refused"); }
}
