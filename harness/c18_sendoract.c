/* C18 (P-stub, loop-free): bus_driver_send_or_activate (bus/driver.c): a message the bus itself originates for another service (the
 * systemd activation environment update).  Property C18: a monitor "receives exactly one copy of every message the bus subsequently
 * processes ... bus-generated signals ...".  bus_transaction_send_from_driver captures the message for monitors itself
 * (contract enforced by C03.from_driver / C18.capture); the activation path does not.  Contract: on every successful path the
 * message is captured for monitors exactly ONCE - by this function when it hands the message to activation, by
 * bus_transaction_send_from_driver when the destination is connected - and it is sent or held exactly once. */
#include <config.h>
#include "dbus/dbus-internals.h"
#include "verif_prelude.h"
#include VERIF_TU
_Bool nondet_bool (void);
#define PRE(c, what) __CPROVER_assert((c), "precondition of " what)
#define IMP(a,b) (!(a) || (b))
#define REACH(tag) __CPROVER_assert(0, "REACH:" tag)
void _dbus_real_assert (dbus_bool_t c, const char *t, const char *f, int l, const char *fn) { __CPROVER_assert (c, "dbus internal assertion"); __CPROVER_assume (c); }
void _dbus_verbose_real (const char *file, const int line, const char *function, const char *format, ...) { }
static char o_tx, o_msg, o_ctx, o_reg, o_svc, o_conn, o_act; static const char dest[] = "org.freedesktop.systemd1";
static struct { _Bool exists; int captures, sends, holds, err; } G;
const char *dbus_message_get_destination (DBusMessage *m) { PRE (m == (DBusMessage *) &o_msg, "dbus_message_get_destination"); return dest; }
void _dbus_string_init_const (DBusString *s, const char *v) { }
BusContext *bus_transaction_get_context (BusTransaction *t) { return (BusContext *) &o_ctx; }
BusRegistry *bus_context_get_registry (BusContext *c) { return (BusRegistry *) &o_reg; }
BusActivation *bus_context_get_activation (BusContext *c) { return (BusActivation *) &o_act; }
BusService *bus_registry_lookup (BusRegistry *r, const DBusString *n) { return G.exists ? (BusService *) &o_svc : NULL; }
DBusConnection *bus_service_get_primary_owners_connection (BusService *s) { PRE (s == (BusService *) &o_svc, "bus_service_get_primary_owners_connection"); return (DBusConnection *) &o_conn; }
dbus_bool_t bus_transaction_capture (BusTransaction *t, DBusConnection *sender, DBusConnection *addressed, DBusMessage *m) { PRE (t == (BusTransaction *) &o_tx && m == (DBusMessage *) &o_msg && sender == NULL, "bus_transaction_capture: this message, from the bus"); if (nondet_bool ()) return 0; G.captures++; return 1; }
/* contract of bus_transaction_send_from_driver: TRUE => the message was captured for monitors (once) and staged for the connection */
dbus_bool_t bus_transaction_send_from_driver (BusTransaction *t, DBusConnection *c, DBusMessage *m) { PRE (t == (BusTransaction *) &o_tx && c == (DBusConnection *) &o_conn && m == (DBusMessage *) &o_msg, "bus_transaction_send_from_driver: to the primary owner"); if (nondet_bool ()) return 0; G.captures++; G.sends++; return 1; }
dbus_bool_t bus_activation_activate_service (BusActivation *a, DBusConnection *c, BusTransaction *t, dbus_bool_t auto_activation, DBusMessage *m, const char *name, DBusError *e)
{ PRE (a == (BusActivation *) &o_act && c == NULL && t == (BusTransaction *) &o_tx && auto_activation && m == (DBusMessage *) &o_msg && name == dest, "bus_activation_activate_service: bus-originated, auto-activation, this destination");
  if (nondet_bool ()) { e->name = "e"; G.err = 1; return 0; } G.holds++; return 1; }
dbus_bool_t dbus_error_is_set (const DBusError *e) { return e->name != NULL; }
void dbus_set_error_const (DBusError *e, const char *name, const char *message) { e->name = name; G.err = 1; }
const char bus_no_memory_message[] = "oom";
void harness (void)
{
  DBusError err; err.name = NULL; err.message = NULL; G.exists = nondet_bool ();
  dbus_bool_t r = bus_driver_send_or_activate ((BusTransaction *) &o_tx, (DBusMessage *) &o_msg, &err);
  __CPROVER_assert (IMP (r, G.captures == 1), "soa.post1 success: monitors are given exactly one copy of a message the bus originates, whether the destination is connected or has to be started");
  __CPROVER_assert (IMP (r, G.sends + G.holds == 1 && G.sends == (G.exists ? 1 : 0)), "soa.post2 success: sent to the primary owner if the name is owned, otherwise handed to activation; exactly once");
  __CPROVER_assert (G.captures <= 1, "soa.post3 never more than one capture");
  __CPROVER_assert (IMP (!r, err.name != NULL), "soa.post4 failure sets the error");
  if (r && G.exists) REACH ("sent"); if (r && !G.exists) REACH ("activation"); if (!r) REACH ("failed");
}
