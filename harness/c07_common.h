/* C07 harness helpers: symbolic strings with a ghost copy, and loop-free models of the libc string functions.
 *
 * Why loop-free models: inside a loop closed by a DFCC loop contract every callee must be loop-free (or unwound
 * before instrumentation), and CBMC's built-in strlen/memcmp models fail DFCC's frame checks.  The models below read
 * exactly the bytes the real functions read (so out-of-bounds reads are still caught by the pointer checks) for
 * strings / byte counts up to C07_LIBC_MAX and assert that bound ("within the unit's string bound").
 */
#ifndef C07_COMMON_H
#define C07_COMMON_H
#include <stddef.h>
#include "match_ref.h"
_Bool nondet_bool (void); int nondet_int (void); unsigned nondet_uint (void); char nondet_char (void); long nondet_long (void);
#ifndef IMP
#define IMP(a, b) (!(a) || (b))
#endif
#ifndef REACH
#define REACH(tag) __CPROVER_assert(0, "REACH:" tag)
#endif
#define PRE(c, what) __CPROVER_assert((c), "precondition of " what)

/* ---- a NUL-terminated heap string p of exactly len+1 bytes, symbolic length <= REF_MAXS, symbolic content without
 *      NUL; v[] is a ghost copy of the content (spec expressions read v/len: no pointer checks, no loops) ---- */
typedef struct { char *p; long len; char v[REF_MAXS + 1]; _Bool is_dbus; } VStr;
#define C07_FILL(k) { char c = 0; if ((k) < n) { c = nondet_char (); __CPROVER_assume (c != 0); s->p[k] = c; } s->v[k] = c; }
static void mk_vstr (VStr *s)
{
  unsigned n = nondet_uint (); __CPROVER_assume (n <= REF_MAXS);
  s->p = malloc (n + 1); __CPROVER_assume (s->p != NULL); s->len = n; s->is_dbus = 0;
  C07_FILL (0) C07_FILL (1) C07_FILL (2) C07_FILL (3) C07_FILL (4) C07_FILL (5) C07_FILL (6) C07_FILL (7)
  s->p[n] = 0; s->v[REF_MAXS] = 0;
}
static void no_vstr (VStr *s) { s->p = NULL; s->len = 0; s->is_dbus = 0; s->v[0] = 0; s->v[1] = 0; s->v[2] = 0; s->v[3] = 0; s->v[4] = 0; s->v[5] = 0; s->v[6] = 0; s->v[7] = 0; s->v[8] = 0; }
/* equality of two such strings on their ghost copies */
#define VSTR_EQ(a, b) ((a).len == (b).len && REF_EQN ((a).v, (b).v, (a).len))

/* ---- libc models (loop-free, bounded) ---- */
#ifndef C07_LIBC_MAX
#define C07_LIBC_MAX 24
#endif
#define C07_SL(k) if (s[k] == 0) return (k)
size_t verif_strlen (const char *s)
{
  C07_SL (0); C07_SL (1); C07_SL (2); C07_SL (3); C07_SL (4); C07_SL (5); C07_SL (6); C07_SL (7); C07_SL (8); C07_SL (9); C07_SL (10); C07_SL (11);
  C07_SL (12); C07_SL (13); C07_SL (14); C07_SL (15); C07_SL (16); C07_SL (17); C07_SL (18); C07_SL (19); C07_SL (20); C07_SL (21); C07_SL (22); C07_SL (23);
  __CPROVER_assert (0, "libc model: strlen argument within the unit's string bound"); __CPROVER_assume (0); return 0;
}
#define C07_SC(k) { unsigned char x = (unsigned char) a[k], y = (unsigned char) b[k]; if (x != y) return x < y ? -1 : 1; if (x == 0) return 0; }
int verif_strcmp (const char *a, const char *b)
{
  C07_SC (0) C07_SC (1) C07_SC (2) C07_SC (3) C07_SC (4) C07_SC (5) C07_SC (6) C07_SC (7) C07_SC (8) C07_SC (9) C07_SC (10) C07_SC (11)
  C07_SC (12) C07_SC (13) C07_SC (14) C07_SC (15) C07_SC (16) C07_SC (17) C07_SC (18) C07_SC (19) C07_SC (20) C07_SC (21) C07_SC (22) C07_SC (23)
  __CPROVER_assert (0, "libc model: strcmp arguments within the unit's string bound"); __CPROVER_assume (0); return 0;
}
#define C07_SN(k) if ((k) < n) { unsigned char x = (unsigned char) a[k], y = (unsigned char) b[k]; if (x != y) return x < y ? -1 : 1; if (x == 0) return 0; } else return 0;
int verif_strncmp (const char *a, const char *b, size_t n)
{
  C07_SN (0) C07_SN (1) C07_SN (2) C07_SN (3) C07_SN (4) C07_SN (5) C07_SN (6) C07_SN (7) C07_SN (8) C07_SN (9) C07_SN (10) C07_SN (11)
  C07_SN (12) C07_SN (13) C07_SN (14) C07_SN (15) C07_SN (16) C07_SN (17) C07_SN (18) C07_SN (19) C07_SN (20) C07_SN (21) C07_SN (22) C07_SN (23)
  __CPROVER_assert (0, "libc model: strncmp count within the unit's string bound"); __CPROVER_assume (0); return 0;
}
#define C07_MC(k) if ((k) < n) { unsigned char x = ((const unsigned char *) a)[k], y = ((const unsigned char *) b)[k]; if (x != y) return x < y ? -1 : 1; } else return 0;
int verif_memcmp (const void *a, const void *b, size_t n)
{
  C07_MC (0) C07_MC (1) C07_MC (2) C07_MC (3) C07_MC (4) C07_MC (5) C07_MC (6) C07_MC (7) C07_MC (8) C07_MC (9) C07_MC (10) C07_MC (11)
  C07_MC (12) C07_MC (13) C07_MC (14) C07_MC (15) C07_MC (16) C07_MC (17) C07_MC (18) C07_MC (19) C07_MC (20) C07_MC (21) C07_MC (22) C07_MC (23)
  __CPROVER_assert (0, "libc model: memcmp count within the unit's string bound"); __CPROVER_assume (0); return 0;
}
#endif
