/* C03 / C05 / C18 / C10 / C14 (T): one dispatch step, bus_dispatch (static, bus/dispatch.c), on the pristine TU.
 * Every callee is bound to its contract (stubs/c03_stubs.c, predicates in spec/bus_typestate.h); the
 * callee contracts REQUIRE the typestate ("true sender stamped, unknown fields stripped, captured once,
 * nothing decided before capture, ..."), so CBMC checks the order of events on every path of the real
 * function; the postconditions below state "exactly once" / "never after" / "only if".
 * The only loop of bus_dispatch (wait for the preallocated OOM error) is closed by the loop contract in
 * contracts/c03_dispatch.ovl (route hybrid: DFCC used for the loop only). */
#include <config.h>
#include "dbus/dbus-internals.h"
#include "verif_prelude.h"
#include "verif_ghost.h"
#include "bus_typestate.h"   /* declares the ghost flags named by the loop contract */
/* Variadic callees break DFCC (DESIGN 2 D): the two variadic functions bus_dispatch calls are remapped to fixed-arity ghost
 * functions carrying their contract.  What this drops: the format string and the format arguments of three log calls and of
 * one dbus_set_error (the arguments are calls of side-effect-free accessors).  Nothing else of the TU is touched. */
#include "bus.h"
#include <dbus/dbus-errors.h>
#define C03_REMAP_VARIADIC 1
void ts_log (BusContext *ctx, DBusSystemLogSeverity sev, const char *msg);
void ts_set_error (DBusError *e, const char *name);
#define bus_context_log(ctx, sev, ...) ts_log ((ctx), (sev), "log")
#define dbus_set_error(e, name, ...) ts_set_error ((e), (name))
#include VERIF_TU
#include "../stubs/c03_stubs.c"

static char transaction_obj;

void harness (void)
{
  /* ---- ghost inputs: every connection state, every message shape ---- */
  ts_reset ();
  for (int i = 0; i < TS_NCONN; i++)
    {
      ts_conns[i].monitor = nondet_bool (); ts_conns[i].connected = nondet_bool (); ts_conns[i].can_unix_fd = nondet_bool ();
      ts_conns[i].active = nondet_bool ();
      ts_conns[i].name = ts_conns[i].active ? ts_names[i] : NULL;   /* active <=> has a unique name (bus_connection_is_active) */
    }
  struct ts_conn *conn = &ts_conns[0];
  static struct ts_msg M;
  M.serial = nondet_uint (); M.reply_serial = nondet_uint (); M.type = nondet_int ();
  M.sender = TS_SND_CLIENT; M.sender_of = NULL;                    /* whatever the client wrote */
  int d = nondet_int (); M.dest = d == 0 ? TS_DST_NONE : d == 1 ? TS_DST_BUS : d == 2 ? TS_DST_NAME : TS_DST_UNIQUE;
  M.dest_of = nondet_bool () ? &ts_conns[1] : &ts_conns[2];
  M.unknown_stripped = 0; M.container_cleared = 0;
  M.local_disconnected = nondet_bool (); M.auto_start = nondet_bool (); M.no_reply = nondet_bool (); M.has_fds = nondet_bool (); M.is_hello = nondet_bool ();
  M.error_name = TS_ERR_NONE; M.in_reply_to = NULL; M.has_string_arg = 0; M.string_arg = NULL; M.n_string_args = 0; M.refs = 1;
  /* precondition of bus_dispatch: the message came through the loader.
   * S: "The serial of this message [...] This must not be zero."  (enforced by _dbus_header_load, C01) */
  __CPROVER_assume (M.serial != 0);
  __CPROVER_assume (M.dest != TS_DST_UNIQUE || M.dest_of->name != NULL);
  /* registry (ghost map, one entry): the destination name has an owner or not; an owned name has a primary owner (OWN_INV, C04) */
  G.lookup_found = nondet_bool (); int o = nondet_int (); G.lookup_owner = o == 0 ? &ts_conns[0] : o == 1 ? &ts_conns[1] : &ts_conns[2];
  __CPROVER_assume (M.dest != TS_DST_UNIQUE || !G.lookup_found || G.lookup_owner == M.dest_of);
  G.dispatched = &M; G.origin = conn; ts_transaction = &transaction_obj;
  _Bool was_active = conn->active, was_monitor = conn->monitor;
  _Bool named = (M.dest == TS_DST_NAME || M.dest == TS_DST_UNIQUE);

  DBusHandlerResult r = bus_dispatch ((DBusConnection *) conn, (DBusMessage *) &M);

  int E = G.error_replies, O = G.oom_errors;
  _Bool observed = G.captures + G.policy_checks + G.driver_handled + G.activations + G.routed + G.error_replies > 0;
  /* ---- frame / bookkeeping ---- */
  __CPROVER_assert (conn->refs == 0, "post.refs: connection reference taken for the step is released");
  __CPROVER_assert (r == DBUS_HANDLER_RESULT_HANDLED || r == DBUS_HANDLER_RESULT_NOT_YET_HANDLED, "post.result: HANDLED or NOT_YET_HANDLED");
  __CPROVER_assert (M.refs == 1, "post.msgref: the dispatched message is not unreferenced by the step");
  /* ---- C03: true sender before anything observes the message ---- */
  __CPROVER_assert (IMP (observed, TS_SANITIZED (&M, conn)), "post.C03.stamped: whatever observed the message saw the true sender, no unknown fields, no client container-instance");
  __CPROVER_assert (IMP (M.sender != TS_SND_CLIENT, TS_TRUE_SENDER (&M, conn)), "post.C03.only-true-sender: the bus never writes another sender into the message");
  __CPROVER_assert (IMP (conn->staged + ts_conns[1].staged + ts_conns[2].staged + ts_conns[3].staged > 0, TS_SANITIZED (&M, conn)), "post.C03.staged-sanitized");
  /* ---- C18: a monitor that sends is closed and nothing is routed ---- */
  __CPROVER_assert (IMP (was_monitor, (M.local_disconnected && M.type == DBUS_MESSAGE_TYPE_SIGNAL ? conn->disconnected == 1 && conn->closed == 0 : conn->closed == 1 && conn->disconnected == 0)
                                      && !observed && G.transactions_new == 0 && E == 0 && O == 0 && G.lookups == 0 && M.sender == TS_SND_CLIENT && r == DBUS_HANDLER_RESULT_HANDLED),
                    "post.C18.monitor-sender: closed (or disconnected on Local.Disconnected), nothing captured, routed, answered");
  /* ---- C18: captured exactly once per processed message (processed = has a transaction and the true sender) ---- */
  __CPROVER_assert (G.captures == ((G.transactions_new == 1 && M.sender != TS_SND_CLIENT) ? 1 : 0), "post.C18.capture-once: exactly one capture per processed message, none otherwise");
  __CPROVER_assert (IMP (G.captures == 1, G.captured_msg == &M && G.captured_sender == conn), "post.C18.capture-args: the dispatched message with its real sending connection");
  __CPROVER_assert (IMP (G.captures == 1 && G.routed == 1, G.captured_addressed == G.routed_addressed), "post.C18.capture-addressed: monitors are told the same addressed recipient that is used for routing");
  __CPROVER_assert (IMP (G.captures == 1 && !G.capture_ok, O == 1 && G.policy_checks + G.driver_handled + G.activations + G.routed + E == 0 && conn->closed == 0),
                    "post.C18.capture-oom: failing to capture is an OOM of the whole step");
  /* ---- C10: unregistered sender of anything but a message to the bus is closed; nothing routed for it ---- */
  __CPROVER_assert (IMP (!was_active && !was_monitor && M.dest != TS_DST_BUS,
                         G.policy_checks + G.driver_handled + G.activations + G.routed + G.lookups + E == 0 &&
                         IMP (G.captures == 1 && G.capture_ok, conn->closed == 1 && O == 0)),
                    "post.C10.unregistered: not routed, not handled; closed once it has been shown to the monitors");
#ifdef C03_STRICT_UNREGISTERED
  /* S (Hello): "If an application without a unique name tries to send a message to another application, or a message to the
   * message bus itself that isn't the org.freedesktop.DBus.Hello message, it will be disconnected from the bus." */
  __CPROVER_assert (IMP (!was_active && !was_monitor && M.dest != TS_DST_BUS && !(M.local_disconnected && M.type == DBUS_MESSAGE_TYPE_SIGNAL) && O == 0, conn->closed == 1),
                    "post.C10.unregistered-strict: every such message gets the connection closed");
#endif
  __CPROVER_assert (IMP (conn->closed > 0, conn->closed == 1 && (was_monitor || !was_active) && G.routed + G.driver_handled + G.activations == 0), "post.C10.close-only: only monitors and unregistered senders are closed, and then nothing is routed");
  __CPROVER_assert (ts_conns[1].closed + ts_conns[2].closed + ts_conns[3].closed + ts_conns[1].disconnected + ts_conns[2].disconnected + ts_conns[3].disconnected == 0, "post.C10.bystanders: no other connection is closed");
  /* ---- messages to the bus itself: captured, then the gate (sender only), then the driver ---- */
  __CPROVER_assert (IMP (G.driver_handled > 0, G.driver_handled == 1 && M.dest == TS_DST_BUS && G.policy_checks == 1 && G.policy_allowed && G.activations == 0 && G.lookups == 0
                                               && (was_active || M.is_hello) && IMP (G.routed == 1, G.driver_ok && G.routed_addressed == NULL)),
                    "post.driver: only for messages addressed to the bus, once, after the gate allowed; afterwards only shown to match rules");
  __CPROVER_assert (IMP (M.dest == TS_DST_BUS && G.policy_checks == 1, G.policy_sender == conn && G.policy_addressed == NULL && G.policy_proposed == NULL), "post.driver-gate: gate consulted for (sender, no recipient)");
  __CPROVER_assert (IMP (M.dest == TS_DST_BUS && G.policy_checks == 1 && !G.policy_allowed, G.driver_handled == 0 && E + O >= 1), "post.C05.denied-to-bus: denied => not handled, answered with an error");
  /* ---- C05: the addressed recipient is the primary owner looked up in this step ---- */
  __CPROVER_assert (G.routed <= 1 && G.lookups <= 1 && G.owner_queries <= 1 && G.activations <= 1, "post.C05.once: at most one lookup, one routing call, one activation");
  __CPROVER_assert (IMP (G.routed == 1, conn->active && !was_monitor && (was_active || (M.is_hello && G.driver_ok)) && (named || M.dest == TS_DST_BUS || M.type == DBUS_MESSAGE_TYPE_SIGNAL)
                                        && IMP (M.dest == TS_DST_BUS, G.driver_handled == 1 && G.driver_ok)),
                    "post.C05.routed-only: routing only for registered senders; without destination only signals; to the bus only after the driver handled it");
  __CPROVER_assert (IMP (G.routed == 1 && named, G.lookups == 1 && G.lookup_found && G.owner_queries == 1 && G.routed_addressed == G.lookup_owner), "post.C05.owner: unicast goes to the primary owner found by this step's lookup");
  __CPROVER_assert (IMP (G.routed == 1 && !named, G.routed_addressed == NULL && G.lookups == 0), "post.C05.broadcast: no addressed recipient without DESTINATION");
  __CPROVER_assert (G.staged_addressed <= 1, "post.C05.single-send: the addressed recipient gets at most one copy");
  __CPROVER_assert (IMP (G.staged_addressed == 1 && G.executed == 1, E == 0 && O == 0 && G.routed_ok), "post.C05.deliver-xor-error: a delivery is never accompanied by an error reply");
  __CPROVER_assert (IMP (E >= 1, E == 1 && G.error_reply_to == conn && G.error_reply_in_reply_to == &M && G.error_reply_name != TS_ERR_NONE), "post.C05.error-to-sender: exactly one error reply, to the sender, in reply to this message");
  __CPROVER_assert (IMP (E == 1 && G.error_reply_ok, G.staged_addressed == 0 && O == 0), "post.C05.no-delivery-after-denial: an error reply excludes any delivery to the addressed recipient");
  __CPROVER_assert (IMP (G.routed == 1 && !G.routed_ok, E + O >= 1), "post.C05.refused: a refused/failed routing is answered");
  /* no owner */
  __CPROVER_assert (IMP (was_active && !was_monitor && named && !G.lookup_found && G.captures == 1 && G.capture_ok && !M.auto_start,
                         G.routed == 0 && G.activations == 0 && E == 1 && G.error_reply_name == TS_ERR_NAME_HAS_NO_OWNER && G.staged_addressed == 0),
                    "post.C05.no-owner: NameHasNoOwner error reply, nothing routed");
  __CPROVER_assert (IMP (G.activations == 1, was_active && named && !G.lookup_found && M.auto_start && G.routed == 0 && G.policy_checks == 0), "post.C05.activation: only for ownerless names with auto-start; message not routed in this step");
  /* ---- C14: transaction executed exactly once, or cancelled with the OOM error; never both ---- */
  __CPROVER_assert (G.executed + G.cancelled == G.transactions_new && G.transactions_new <= 1, "post.C14.finish-once: a created transaction is executed or cancelled exactly once");
  __CPROVER_assert (O <= 1 && IMP (O == 1, G.executed == 0 && conn->oom_errors == 1), "post.C14.oom-never-executed: after the OOM error the transaction is never executed");
  __CPROVER_assert (IMP (G.cancelled == 1, O == 1), "post.C14.cancel-means-oom: a cancelled step is reported as NoMemory to the sender");
  __CPROVER_assert (IMP (E == 1, G.error_reply_name != TS_ERR_NO_MEMORY), "post.C14.nomem-not-allocated: NoMemory is answered with the preallocated error, not by allocating a reply");
  __CPROVER_assert (IMP (E == 1 && !G.error_reply_ok, O == 1), "post.C14.reply-oom: failing to build the error reply is an OOM of the step");
  __CPROVER_assert (IMP (G.transactions_new == 1 && O == 0, G.executed == 1), "post.C14.else-executed: otherwise executed exactly once");
  /* ---- NOT_YET_HANDLED: left to libdbus, nothing happened here ---- */
  __CPROVER_assert (IMP (r == DBUS_HANDLER_RESULT_NOT_YET_HANDLED, !was_monitor && M.dest == TS_DST_NONE && M.type != DBUS_MESSAGE_TYPE_SIGNAL && !observed && G.transactions_new == 0 && E + O == 0 && conn->closed + conn->disconnected == 0
                         && M.unknown_stripped && M.container_cleared), "post.not-yet-handled: only destination-less non-signals, untouched apart from sanitizing");

  /* ---- vacuity guards ---- */
  if (was_monitor && conn->closed == 1) REACH ("monitor-sender-closed");
  if (was_monitor && conn->disconnected == 1) REACH ("monitor-disconnected");
  if (r == DBUS_HANDLER_RESULT_NOT_YET_HANDLED) REACH ("not-yet-handled");
  if (!was_active && !was_monitor && conn->closed == 1) REACH ("unregistered-closed");
  if (G.driver_handled == 1 && G.executed == 1 && E == 0) REACH ("driver-handled");
  if (G.driver_handled == 1 && !was_active && G.routed == 1) REACH ("hello-path");
  if (G.driver_handled == 1 && !G.driver_ok && E == 1) REACH ("driver-error-reply");
  if (M.dest == TS_DST_BUS && G.policy_checks == 1 && !G.policy_allowed && E == 1) REACH ("denied-error-reply");
  if (G.error_reply_name == TS_ERR_NAME_HAS_NO_OWNER && E == 1) REACH ("no-owner-error");
  if (G.activations == 1) REACH ("activation");
  if (G.routed == 1 && G.staged_addressed == 1 && G.executed == 1) REACH ("unicast-delivered");
  if (G.routed == 1 && !named && G.executed == 1) REACH ("broadcast");
  if (G.routed == 1 && G.cancelled == 1) REACH ("routed-oom-cancelled");
  if (G.transactions_new == 0 && O == 1) REACH ("oom-before-transaction");
  if (E == 1 && O == 1) REACH ("error-reply-oom");
  if (ts_waited) REACH ("waited-for-memory");
}
