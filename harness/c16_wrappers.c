/* C16 "same verdict through every route": the public validation functions of dbus-syntax.c and
 * dbus_signature_validate() return exactly what the internal predicate returns on the whole C string
 * (start 0, length strlen), and report InvalidArgs / InvalidSignature otherwise.  P-stub route:
 * the internal predicates are bound to contract stubs that record how they were called. */
#include <config.h>
#include "dbus/dbus-internals.h"
#include "dbus/dbus-string.h"
#define DBUS_CAN_USE_DBUS_STRING_PRIVATE 1
#include "dbus/dbus-string-private.h"
#include "dbus/dbus-marshal-validate.h"
#include "dbus/dbus-syntax.h"
#include "dbus/dbus-signature.h"
#include "dbus/dbus-errors.h"
#include <string.h>
_Bool nondet_bool (void); int nondet_int (void);
static const char *g_value; static int g_len; static int g_calls; static int g_which; static dbus_bool_t g_verdict; static int g_err_sets; static const char *g_err_name;
#define REAL(s) ((const DBusRealString *)(s))
void verif_stub_string_init_const (DBusString *str, const char *value)
{ __CPROVER_assert (value != NULL, "precondition of _dbus_string_init_const"); DBusRealString *r = (DBusRealString *) str; r->str = (unsigned char *) value; r->len = g_len; r->allocated = g_len + 8; r->constant = 1; r->locked = 1; r->valid = 1; r->align_offset = 0; }
int verif_stub_string_get_length (const DBusString *str) { return REAL (str)->len; }
#define PRED(fn, id) dbus_bool_t fn (const DBusString *str, int start, int len) \
 { __CPROVER_assert (REAL (str)->str == (const unsigned char *) g_value && start == 0 && len == g_len, "predicate applied to the whole string"); \
   if (id == g_which) { g_calls++; return g_verdict; } return nondet_bool (); }
PRED (_dbus_validate_path, 1) PRED (_dbus_validate_interface, 2) PRED (_dbus_validate_member, 3) PRED (_dbus_validate_error_name, 4) PRED (_dbus_validate_bus_name, 5) PRED (_dbus_string_validate_utf8, 6)
DBusValidity _dbus_validate_signature_with_reason (const DBusString *str, int start, int len)
{ __CPROVER_assert (REAL (str)->str == (const unsigned char *) g_value && start == 0 && len == g_len, "predicate applied to the whole string");
  g_calls++; if (g_verdict) return DBUS_VALID; DBusValidity r = nondet_int (); __CPROVER_assume (r != DBUS_VALID); return r; }
const char *_dbus_validity_to_error_message (DBusValidity v) { return "x"; }
void verif_stub_dbus_set_error (DBusError *error, const char *name, const char *format, ...)
{ __CPROVER_assert (name != NULL && (error == NULL || error->name == NULL), "precondition of dbus_set_error"); g_err_sets++; g_err_name = name; if (error) { error->name = name; error->message = "m"; } }
void _dbus_real_assert (dbus_bool_t c, const char *t, const char *f, int l, const char *fn) { __CPROVER_assert (c, "dbus assertion"); __CPROVER_assume (c); }
void _dbus_warn_check_failed (const char *format, ...) { __CPROVER_assert (0, "a _dbus_return_if_fail check fired"); }
static const char inv_args[] = DBUS_ERROR_INVALID_ARGS;
void harness (void)
{
  static char text[4]; DBusError err; dbus_bool_t r; int which = nondet_int ();
  __CPROVER_assume (which >= 1 && which <= 7);
  g_value = text; g_len = nondet_int (); __CPROVER_assume (g_len >= 0 && g_len <= _DBUS_STRING_MAX_LENGTH); g_verdict = nondet_bool (); g_which = which; g_calls = 0; g_err_sets = 0; g_err_name = NULL;
  err.name = NULL; err.message = NULL;
  DBusError *e = nondet_bool () ? &err : NULL;
  switch (which)
    {
    case 1: r = dbus_validate_path (text, e); break;
    case 2: r = dbus_validate_interface (text, e); break;
    case 3: r = dbus_validate_member (text, e); break;
    case 4: r = dbus_validate_error_name (text, e); break;
    case 5: r = dbus_validate_bus_name (text, e); break;
    case 6: r = dbus_validate_utf8 (text, e); break;
    default: r = dbus_signature_validate (text, e); break;
    }
  __CPROVER_assert (g_calls >= 1, "the internal predicate was consulted");
  __CPROVER_assert ((r != 0) == (g_verdict != 0), "public verdict == internal predicate's verdict");
  __CPROVER_assert (r || g_err_sets == 1, "a rejection sets the error exactly once");
  __CPROVER_assert (r || (which == 7 ? strcmp (g_err_name, DBUS_ERROR_INVALID_SIGNATURE) == 0 : strcmp (g_err_name, DBUS_ERROR_INVALID_ARGS) == 0), "documented error name");
  __CPROVER_assert (!r || g_err_sets == 0, "no error on acceptance");
  if (r) __CPROVER_assert (0, "REACH:accept"); else __CPROVER_assert (0, "REACH:reject");
  if (which == 7 && !r) __CPROVER_assert (0, "REACH:signature-reject");
  if (which == 5 && r) __CPROVER_assert (0, "REACH:bus-name-accept");
}
