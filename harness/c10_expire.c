/* C10 — bus_connections_expire_incomplete (bus/connection.c, REAL code incl. the real dbus-list.c accessors), B: <= 3 incomplete
 * connections.
 * Oracle: dbus-daemon(1) <limit name="auth_timeout">: "milliseconds (thousandths) a connection is given to authenticate";
 * property C10 ("expire slow authenticators"; anchor: incomplete-connection list with auth deadline).
 *
 *  ensures  a connection is closed only if it is in the incomplete list AND its age (now - connection time, in ms) >= auth_timeout;
 *           at most once; connections outside the list and younger ones are untouched            (no ordering assumption)
 *  ensures  with the list in oldest-first order (how bus_connections_setup_connection builds it, monotonic clock): EVERY connection
 *           whose age >= auth_timeout is closed
 *  ensures  the expiry timer is re-armed exactly once: -1 (disabled) if no young connection is left, else auth_timeout - age of
 *           the oldest young one
 * The age is computed with the same floating-point expression as bus/expirelist.h states it (ms = d_sec * 1000 + d_usec / 1000);
 * the oracle below is written in that form so that no floating-point equivalence has to be proved (measured for C09: integer
 * oracle vs. double code does not terminate). */
#include <config.h>
#include "dbus/dbus-internals.h"
#include VERIF_TU
_Bool nondet_bool (void); int nondet_int (void); long nondet_long (void);
#define PRE(c, what) __CPROVER_assert ((c), "precondition of " what)
#define POST(c, what) __CPROVER_assert ((c), what)
#ifndef IMP
#define IMP(a, b) (!(a) || (b))
#endif
#define REACH(tag) __CPROVER_assert (0, "REACH:" tag)
void _dbus_real_assert (dbus_bool_t condition, const char *condition_text, const char *file, int line, const char *func)
{ __CPROVER_assert (condition, "dbus assertion"); __CPROVER_assume (condition); }
void _dbus_real_assert_not_reached (const char *explanation, const char *file, int line) { __CPROVER_assert (0, "dbus assert_not_reached"); __CPROVER_assume (0); }
#define NC 3
static char c_obj[NC + 1], c_ctx, c_timeout; static BusConnectionData D[NC + 1]; static BusConnections conns;
static DBusList L0, L1, L2;       /* separate objects (cheaper than an array of links) */
int closed[NC + 1]; int g_set_calls, g_set_value, g_logs; long now_sec, now_usec; int in_timeout;
static int idx (DBusConnection *c) { return c == (DBusConnection *) &c_obj[0] ? 0 : c == (DBusConnection *) &c_obj[1] ? 1 : c == (DBusConnection *) &c_obj[2] ? 2 : 3; }
void _dbus_get_monotonic_time (long *tv_sec, long *tv_usec) { *tv_sec = now_sec; *tv_usec = now_usec; }
int bus_context_get_auth_timeout (BusContext *c) { PRE (c == (BusContext *) &c_ctx, "bus_context_get_auth_timeout"); return in_timeout; }
void *dbus_connection_get_data (DBusConnection *c, dbus_int32_t slot) { PRE (slot == connection_data_slot, "dbus_connection_get_data: the bus's data slot"); return &D[idx (c)]; }
void bus_context_log (BusContext *context, DBusSystemLogSeverity severity, const char *msg, ...) { g_logs++; }
void dbus_connection_close (DBusConnection *c) { closed[idx (c)]++; }
void bus_expire_timeout_set_interval (DBusTimeout *timeout, int next_interval) { PRE (timeout == (DBusTimeout *) &c_timeout, "bus_expire_timeout_set_interval: the expiry timer of the incomplete list"); g_set_calls++; g_set_value = next_interval; }
/* age in milliseconds, in the form bus/expirelist.h documents it */
#define AGE(i) ((((double) now_sec) - ((double) D[i].connection_tv_sec)) * 1000.0 + (((double) now_usec) - ((double) D[i].connection_tv_usec)) / 1000.0)

/* n is a constant in each call, so that the list shape is concrete and the code's age expressions are syntactically the oracle's */
static void run (const int n)
{
  DBusList *L[NC] = { &L0, &L1, &L2 };
  conns.refcount = 1; conns.context = (BusContext *) &c_ctx; conns.expire_timeout = (DBusTimeout *) &c_timeout; conns.incomplete = NULL; conns.n_incomplete = n; conns.completed = NULL;
  now_sec = nondet_long (); now_usec = nondet_long (); __CPROVER_assume (now_sec >= 0 && now_sec < 0x7fffffffL && now_usec >= 0 && now_usec < 1000000);
  in_timeout = nondet_int (); __CPROVER_assume (in_timeout >= 0);
  for (int i = 0; i < NC + 1; i++)
    {
      D[i].connections = &conns; D[i].connection = (DBusConnection *) &c_obj[i];
      D[i].connection_tv_sec = nondet_long (); D[i].connection_tv_usec = nondet_long ();
      /* monotonic clock: a connection was made no later than now */
      __CPROVER_assume (D[i].connection_tv_sec >= 0 && D[i].connection_tv_usec >= 0 && D[i].connection_tv_usec < 1000000
                        && (D[i].connection_tv_sec < now_sec || (D[i].connection_tv_sec == now_sec && D[i].connection_tv_usec <= now_usec)));
      closed[i] = 0;
    }
  for (int i = 0; i < NC; i++) if (i < n)
    {
      L[i]->data = &c_obj[i]; D[i].link_in_connection_list = L[i];
      if (conns.incomplete == NULL) { L[i]->next = L[i]->prev = L[i]; conns.incomplete = L[i]; }
      else { L[i]->next = conns.incomplete; L[i]->prev = conns.incomplete->prev; conns.incomplete->prev->next = L[i]; conns.incomplete->prev = L[i]; }
    }
  _Bool sorted = nondet_bool ();
  double a0 = AGE (0), a1 = AGE (1), a2 = AGE (2);
  _Bool x0 = n > 0 && a0 >= (double) in_timeout, x1 = n > 1 && a1 >= (double) in_timeout, x2 = n > 2 && a2 >= (double) in_timeout;
  /* oldest-first order, used only through its consequence "the expired connections form a prefix of the list" (stated on the
   * verdicts rather than on the ages, so that no transitivity over floating-point comparisons has to be derived by the solver) */
  if (sorted) __CPROVER_assume (IMP (x1, x0) && IMP (x2, x1));
  g_set_calls = 0; g_logs = 0;
  bus_connections_expire_incomplete (&conns);
  POST (closed[0] <= 1 && closed[1] <= 1 && closed[2] <= 1 && closed[3] == 0, "expire_incomplete: no connection is closed twice, none outside the list");
  POST (IMP (closed[0], x0) && IMP (closed[1], x1) && IMP (closed[2], x2), "expire_incomplete: only connections in the incomplete list whose age >= auth_timeout are closed (others untouched)");
  POST (IMP (sorted, (closed[0] == 1) == x0 && (closed[1] == 1) == x1 && (closed[2] == 1) == x2), "expire_incomplete: oldest-first list => EVERY incomplete connection whose age >= auth_timeout is closed");
  POST (g_set_calls == 1, "expire_incomplete: the expiry timer is re-armed exactly once");
  POST (IMP (sorted && x0 == (n > 0) && x1 == (n > 1) && x2 == (n > 2), g_set_value == -1), "expire_incomplete: nothing young left => timer disabled (-1)");
  POST (IMP (sorted && n > 0 && !x0, g_set_value == (int) (((double) in_timeout) - a0)), "expire_incomplete: otherwise the timer fires when the oldest young connection reaches auth_timeout");
  POST (IMP (sorted && n > 1 && x0 && !x1, g_set_value == (int) (((double) in_timeout) - a1)), "expire_incomplete: (second) timer at the oldest young connection");
  POST (conns.n_incomplete == n && conns.incomplete == (n > 0 ? L[0] : NULL), "expire_incomplete: the list itself is not modified here (removal happens when the close is dispatched)");
  if (n == 3 && closed[0] && closed[1] && !closed[2]) REACH ("two-expired-one-young"); if (n == 3 && closed[2]) REACH ("all-expired"); if (n == 0) REACH ("empty"); if (n > 0 && !closed[0]) REACH ("none-expired");
  if (!sorted && n == 3 && !closed[1] && x2) REACH ("unsorted-list-leaves-an-old-one");
}
void harness (void)
{
  int n = nondet_int ();
  if (n == 0) run (0); else if (n == 1) run (1); else if (n == 2) run (2); else run (3);
}
