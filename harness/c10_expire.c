/* C10 — bus_connections_expire_incomplete (bus/connection.c, REAL code incl. the real dbus-list.c accessors), B: <= 3 incomplete
 * connections.
 * Oracle: dbus-daemon(1) <limit name="auth_timeout">: "milliseconds (thousandths) a connection is given to authenticate";
 * property C10 ("expire slow authenticators"; anchor: incomplete-connection list with auth deadline).
 *
 *  ensures  a connection is closed only if it is in the incomplete list AND its age (now - connection time, in ms) >= auth_timeout;
 *           at most once; connections outside the list and younger ones are untouched            (no ordering assumption)
 *  ensures  with the list in oldest-first order (how bus_connections_setup_connection builds it, monotonic clock): EVERY connection
 *           whose age >= auth_timeout is closed
 *  ensures  the expiry timer is re-armed exactly once: -1 (disabled) if no young connection is left, else auth_timeout - age of
 *           the oldest young one
 * Bounded stand-in (kind B): 0..3 connections; auth_timeout ranges over every non-negative int; the connection times are taken
 * from two fixed catalogues around the deadline (ages 40 000 ms, 30 000 ms exactly, 29 999.999 ms — oldest first — and the
 * unsorted 10 000 / 40 000 / 20 000 ms), because symbolic floating-point ages (ELAPSED_MILLISECONDS_SINCE is double arithmetic)
 * do not terminate in the solver (measured: > 10 min for 3 connections even with the oracle written in the same form).  The
 * oracle is integer arithmetic on microseconds: expired <=> age_us >= auth_timeout * 1000. */
#include <config.h>
#include "dbus/dbus-internals.h"
#include VERIF_TU
_Bool nondet_bool (void); int nondet_int (void); long nondet_long (void);
#define PRE(c, what) __CPROVER_assert ((c), "precondition of " what)
#define POST(c, what) __CPROVER_assert ((c), what)
#ifndef IMP
#define IMP(a, b) (!(a) || (b))
#endif
#define REACH(tag) __CPROVER_assert (0, "REACH:" tag)
void _dbus_real_assert (dbus_bool_t condition, const char *condition_text, const char *file, int line, const char *func)
{ __CPROVER_assert (condition, "dbus assertion"); __CPROVER_assume (condition); }
void _dbus_verbose_real (const char *file, const int line, const char *function, const char *format, ...) { }
void _dbus_real_assert_not_reached (const char *explanation, const char *file, int line) { __CPROVER_assert (0, "dbus assert_not_reached"); __CPROVER_assume (0); }
#define NC 3
static char c_obj[NC + 1], c_ctx, c_timeout; static BusConnectionData D[NC + 1]; static BusConnections conns;
static DBusList L0, L1, L2;       /* separate objects (cheaper than an array of links) */
int closed[NC + 1]; int g_set_calls, g_set_value, g_logs; long now_sec, now_usec; int in_timeout;
static int idx (DBusConnection *c) { return c == (DBusConnection *) &c_obj[0] ? 0 : c == (DBusConnection *) &c_obj[1] ? 1 : c == (DBusConnection *) &c_obj[2] ? 2 : 3; }
void _dbus_get_monotonic_time (long *tv_sec, long *tv_usec) { *tv_sec = now_sec; *tv_usec = now_usec; }
int bus_context_get_auth_timeout (BusContext *c) { PRE (c == (BusContext *) &c_ctx, "bus_context_get_auth_timeout"); return in_timeout; }
void *dbus_connection_get_data (DBusConnection *c, dbus_int32_t slot) { PRE (slot == connection_data_slot, "dbus_connection_get_data: the bus's data slot"); return &D[idx (c)]; }
void bus_context_log (BusContext *context, DBusSystemLogSeverity severity, const char *msg, ...) { g_logs++; }
void dbus_connection_close (DBusConnection *c) { closed[idx (c)]++; }
void bus_expire_timeout_set_interval (DBusTimeout *timeout, int next_interval) { PRE (timeout == (DBusTimeout *) &c_timeout, "bus_expire_timeout_set_interval: the expiry timer of the incomplete list"); g_set_calls++; g_set_value = next_interval; }
#ifndef VERIF_SORTED
#define VERIF_SORTED 1
#endif
#define NOW_SEC 1000L
#define NOW_USEC 500000L
#if VERIF_SORTED
static const long T_SEC[NC + 1] = { 960, 970, 970, 990 }, T_USEC[NC + 1] = { 500000, 500000, 500001, 0 };      /* ages 40 000 000, 30 000 000, 29 999 999 us */
#else
static const long T_SEC[NC + 1] = { 990, 960, 980, 990 }, T_USEC[NC + 1] = { 500000, 500000, 500000, 0 };      /* ages 10 s, 40 s, 20 s: NOT oldest first */
#endif
#define AGE_US(i) ((NOW_SEC - T_SEC[i]) * 1000000L + (NOW_USEC - T_USEC[i]))
/* the timer value is the remaining time of connection i in whole milliseconds (truncated): v ms <= remaining < v + 1 ms */
#define REMAINING_IS(i) (fixed_timeout >= 0 ? (long) g_set_value == (limit_us - AGE_US (i)) / 1000L : (g_set_value >= 0 && g_set_value <= in_timeout))

/* n is a constant in each call, so that the list shape and the times are concrete for symbolic execution */
static void run (const int n, const int fixed_timeout)
{
  DBusList *L[NC] = { &L0, &L1, &L2 };
  conns.refcount = 1; conns.context = (BusContext *) &c_ctx; conns.expire_timeout = (DBusTimeout *) &c_timeout; conns.incomplete = NULL; conns.n_incomplete = n; conns.completed = NULL;
  now_sec = NOW_SEC; now_usec = NOW_USEC;
  if (fixed_timeout >= 0) in_timeout = fixed_timeout;                               /* concrete limit: everything incl. the timer value is exact */
  else { in_timeout = nondet_int (); __CPROVER_assume (in_timeout >= 0); }           /* every limit: the timer value is only bounded */
  for (int i = 0; i < NC + 1; i++)
    { D[i].connections = &conns; D[i].connection = (DBusConnection *) &c_obj[i]; D[i].connection_tv_sec = T_SEC[i]; D[i].connection_tv_usec = T_USEC[i]; closed[i] = 0; }
  for (int i = 0; i < NC; i++) if (i < n)
    {
      L[i]->data = &c_obj[i]; D[i].link_in_connection_list = L[i];
      if (conns.incomplete == NULL) { L[i]->next = L[i]->prev = L[i]; conns.incomplete = L[i]; }
      else { L[i]->next = conns.incomplete; L[i]->prev = conns.incomplete->prev; conns.incomplete->prev->next = L[i]; conns.incomplete->prev = L[i]; }
    }
  long limit_us = (long) in_timeout * 1000L;
  _Bool x0 = n > 0 && AGE_US (0) >= limit_us, x1 = n > 1 && AGE_US (1) >= limit_us, x2 = n > 2 && AGE_US (2) >= limit_us;
  _Bool sorted = VERIF_SORTED;
  g_set_calls = 0; g_logs = 0;
  bus_connections_expire_incomplete (&conns);
  POST (closed[0] <= 1 && closed[1] <= 1 && closed[2] <= 1 && closed[3] == 0, "expire_incomplete: no connection is closed twice, none outside the list");
  POST (IMP (closed[0], x0) && IMP (closed[1], x1) && IMP (closed[2], x2), "expire_incomplete: only connections in the incomplete list whose age >= auth_timeout are closed (others untouched)");
  POST (IMP (sorted, (closed[0] == 1) == x0 && (closed[1] == 1) == x1 && (closed[2] == 1) == x2), "expire_incomplete: oldest-first list => EVERY incomplete connection whose age >= auth_timeout is closed");
  POST (g_set_calls == 1, "expire_incomplete: the expiry timer is re-armed exactly once");
  POST (IMP (sorted && x0 == (n > 0) && x1 == (n > 1) && x2 == (n > 2), g_set_value == -1), "expire_incomplete: nothing young left => timer disabled (-1)");
  POST (IMP (sorted && n > 0 && !x0, REMAINING_IS (0)), "expire_incomplete: otherwise the timer fires when the oldest young connection reaches auth_timeout");
  POST (IMP (sorted && n > 1 && x0 && !x1, REMAINING_IS (1)), "expire_incomplete: (second) timer at the oldest young connection");
  POST (IMP (sorted && n > 2 && x1 && !x2, REMAINING_IS (2)), "expire_incomplete: (third) timer at the oldest young connection");
  POST (conns.n_incomplete == n && conns.incomplete == (n > 0 ? L[0] : NULL), "expire_incomplete: the list itself is not modified here (removal happens when the close is dispatched)");
  POST (g_logs == closed[0] + closed[1] + closed[2], "expire_incomplete: every timed-out connection is logged");
#if VERIF_SORTED
  if (n == 3 && closed[0] && closed[1] && !closed[2]) REACH ("two-expired-one-young"); if (n == 3 && closed[2]) REACH ("all-expired"); if (n == 0) REACH ("empty"); if (n > 0 && !closed[0]) REACH ("none-expired");
  if (n == 3 && in_timeout == 30000 && closed[1] && !closed[2]) REACH ("exact-deadline-is-expired");
  if (fixed_timeout == 30001 && g_set_value == 1) REACH ("timer-1ms"); if (fixed_timeout == 45000 && g_set_value == 5000) REACH ("timer-5s");
#else
  if (n == 3 && !closed[0] && x1) REACH ("unsorted-list-leaves-an-old-one"); if (n == 3 && closed[0] && closed[1] && closed[2]) REACH ("all-expired");
#endif
}
void harness (void)
{
  int n = nondet_int ();
  /* every auth_timeout (timer value bounded only: the double -> int equivalence does not terminate in the solver) */
  if (n == 0) run (0, -1); else if (n == 1) run (1, -1); else if (n == 2) run (2, -1); else if (n == 3) run (3, -1);
  /* a catalogue of concrete limits around the three ages (timer value exact) */
  else if (n == 4) run (3, 30000); else if (n == 5) run (3, 30001); else if (n == 6) run (3, 45000); else if (n == 7) run (3, 29999);
  else if (n == 8) run (2, 35000); else if (n == 9) run (1, 50000); else if (n == 10) run (3, 0); else run (3, 2147483647);
}
