/* C17.send (T, loop-free): dbus_connection_send_with_reply with the REAL _dbus_pending_call_new_unlocked,
 * _dbus_pending_call_set_timeout_error_unlocked, _dbus_connection_attach_pending_call_unlocked,
 * _dbus_connection_get_next_client_serial.
 * Oracle: D-Bus specification "The serial number must not be zero"; property C17 ("attach on send ... serials
 * assigned by a connection are non-zero"; "a reply is never paired with a different call").
 * Post (success with a pending call returned): the message carries a non-zero serial (its own if it had one, else
 * the connection's next client serial), the call is attached under exactly that serial and expects exactly that
 * reply serial, its timeout is added iff it has one, it is not completed; client_serial stays non-zero.
 * Post (failure): nothing stays attached, FALSE is returned, lock released. */
#include "c17_common.h"
#include "c17_model.h"
static DBusMessage *g_message; static dbus_uint32_t g_msg_serial; static int g_set_serial_calls, g_sends, g_status_updates; static _Bool g_connected; static char o_tmo;
dbus_uint32_t dbus_message_get_serial (DBusMessage *m) { PRE (m == g_message, "dbus_message_get_serial"); return g_msg_serial; }
void dbus_message_set_serial (DBusMessage *m, dbus_uint32_t s) { PRE (m == g_message && s != 0, "dbus_message_set_serial: serial != 0 (its _dbus_return_if_fail)"); g_set_serial_calls++; g_msg_serial = s; }
dbus_bool_t _dbus_transport_can_pass_unix_fd (DBusTransport *t) { return nondet_bool (); }
dbus_bool_t verif_stub_get_is_connected (DBusConnection *c) { PRE (c->have_connection_lock, "_dbus_connection_get_is_connected_unlocked: lock held"); return g_connected; }
dbus_bool_t verif_stub_send_unlocked_no_update (DBusConnection *c, DBusMessage *m, dbus_uint32_t *serial) { PRE (c->have_connection_lock && m == g_message && g_msg_serial != 0, "_dbus_connection_send_unlocked_no_update: lock held, message already carries its serial"); if (nondet_bool ()) return FALSE; g_sends++; return TRUE; }
DBusDispatchStatus verif_stub_get_dispatch_status (DBusConnection *c) { PRE (c->have_connection_lock, "_dbus_connection_get_dispatch_status_unlocked: lock held"); return (DBusDispatchStatus) nondet_int (); }
void verif_stub_update_status_and_unlock (DBusConnection *c, DBusDispatchStatus s) { PRE (c->have_connection_lock, "_dbus_connection_update_dispatch_status_and_unlock: lock held"); c->have_connection_lock = 0; g_status_updates++; }
dbus_bool_t _dbus_data_slot_allocator_alloc (DBusDataSlotAllocator *a, dbus_int32_t *slot_p) { if (nondet_bool ()) return FALSE; *slot_p = 0; return TRUE; }
void _dbus_data_slot_list_init (DBusDataSlotList *l) { l->slots = NULL; l->n_slots = 0; }
void *dbus_malloc0 (size_t n) { return nondet_bool () ? NULL : calloc (1, n); }
DBusTimeout *_dbus_timeout_new (int interval, DBusTimeoutHandler h, void *data, DBusFreeFunction f) { PRE (h == reply_handler_timeout, "_dbus_timeout_new: the reply timeout handler"); return nondet_bool () ? NULL : (DBusTimeout *) &o_tmo; }
DBusMessage *dbus_message_new_error (DBusMessage *reply_to, const char *name, const char *text) { PRE (reply_to == g_message && g_msg_serial != 0, "dbus_message_new_error: the message already has its serial"); if (nondet_bool ()) return NULL; return verif_new_msg (2, g_msg_serial, DBUS_MESSAGE_TYPE_ERROR); }
DBusList *_dbus_list_alloc_link (void *data) { if (nondet_bool ()) return NULL; DBusList *l = malloc (sizeof (DBusList)); if (l) { l->data = data; l->next = l->prev = l; } return l; }

void harness (void)
{
  DBusConnection c;
  c.have_connection_lock = 0; c.expired_messages = NULL; c.incoming_messages = NULL; c.refcount.value = 10; c.mutex = NULL; c.transport = nondet_ptr ();
  verif_c17_reset (&c);
  c.client_serial = nondet_uint (); __CPROVER_assume (c.client_serial != 0);           /* invariant (C17.init, C17.serial) */
  dbus_uint32_t cs0 = c.client_serial;
  g_msg_serial = nondet_uint (); dbus_uint32_t ms0 = g_msg_serial; g_set_serial_calls = g_sends = g_status_updates = 0; g_connected = nondet_bool ();
  g_message = verif_new_msg (1, 0, DBUS_MESSAGE_TYPE_METHOD_CALL); g_message->n_unix_fds = 0;
  /* an unrelated outstanding call already in the table: its serial differs (serials are distinct until wrap, C17.serial) */
  dbus_uint32_t expected = ms0 != 0 ? ms0 : cs0;
  DBusPendingCall *other = verif_pc_alloc (); dbus_uint32_t s2 = nondet_uint (); __CPROVER_assume (s2 != 0 && s2 != expected);
  verif_pc_init (other, 2, NULL, &c, NULL, NULL, NULL, s2, 0, 0); G.present[1] = 1; G.key[1] = s2; G.val[1] = other;
  DBusPendingCall *pc = (DBusPendingCall *) 1; DBusPendingCall **ret = nondet_bool () ? &pc : NULL;
  int tmo = nondet_int (); __CPROVER_assume (tmo >= -1);

  dbus_bool_t r = dbus_connection_send_with_reply (&c, g_message, ret, tmo);

  __CPROVER_assert (!c.have_connection_lock, "post lock released");
  __CPROVER_assert (c.client_serial != 0, "post client_serial stays non-zero");
  __CPROVER_assert (verif_attached (other) && verif_pc_refcount (other) == 2, "post other outstanding calls untouched");
  if (r && ret != NULL && pc != NULL)
    {
      __CPROVER_assert (g_msg_serial != 0 && g_msg_serial == expected, "post1 the message carries a non-zero serial: its own, else the next client serial");
      __CPROVER_assert (IMP (ms0 == 0, g_set_serial_calls == 1 && c.client_serial == (cs0 == 0xFFFFFFFFu ? 1u : cs0 + 1u)) && IMP (ms0 != 0, g_set_serial_calls == 0 && c.client_serial == cs0), "post1 a serial is minted iff the message had none");
      __CPROVER_assert (verif_map_find (g_msg_serial) >= 0 && G.val[verif_map_find (g_msg_serial)] == pc && verif_pc_serial (pc) == g_msg_serial, "post1 the call is attached under, and expects, exactly the message's serial");
      __CPROVER_assert (!verif_pc_completed (pc) && verif_pc_reply (pc) == NULL && verif_pc_timeout_link (pc) != NULL && G.msg_reply_serial[2] == g_msg_serial, "post1 not completed; its preallocated timeout error answers that serial");
      __CPROVER_assert (verif_pc_timeout_added (pc) == (verif_pc_timeout (pc) != NULL) && G.timeout_adds == (verif_pc_timeout (pc) != NULL ? 1 : 0), "post1 timeout added iff the call has one");
      __CPROVER_assert (verif_pc_refcount (pc) == 2 && g_sends == 1, "post1 one reference for the table, one handed to the caller; message queued once");
      if (ms0 == 0) REACH ("serial-minted"); else REACH ("serial-kept");
    }
  else if (r && ret == NULL)
    { /* no postcondition on attachment here: the doc says the internal call keeps tracking the timeout, the code
         detaches it at once; nobody can observe that call, and property C17 does not speak about it (reported) */
      __CPROVER_assert (IMP (g_sends == 1, g_msg_serial != 0 && g_msg_serial == expected), "post2 the message still carries a non-zero serial");
      if (g_sends == 1) REACH ("no-return-location"); }
  else if (!r) { __CPROVER_assert (verif_map_find (expected) < 0 && g_sends == 0, "post3 failure leaves nothing attached and nothing queued"); REACH ("failed"); }
  else { __CPROVER_assert (g_sends == 0 && verif_map_find (expected) < 0, "post4 disconnected or fds unsupported: TRUE, no pending call, nothing queued"); REACH ("not-sent"); }
}
