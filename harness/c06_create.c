/* C06: bus_policy_create_client_policy (bus/policy.c): the per-connection rule list is the concatenation
 *   default -> groups -> user -> console -> mandatory      (dbus-daemon(1), "Policies are applied to a connection as
 *   follows: all context="default" policies are applied / all group="connection's user's group" policies are applied in
 *   undefined order / all user="connection's auth user" policies are applied in undefined order / all at_console="true"
 *   policies are applied / all at_console="false" policies are applied / all context="mandatory" policies are applied.
 *   Policies applied later will override those applied earlier")
 * -DVERIF_PART=0  typestate of bus_policy_create_client_policy; add_list_to_client is bound to its contract (stub) that
 *                 records and *requires* the order.  B only in the number of groups of the connection (<= VERIF_G).
 * -DVERIF_PART=1  add_list_to_client itself (real dbus-list.c traversal, list <= 3): appends exactly the per-connection
 *                 rules (send/receive/own), in list order; user/group rules are "checked when a new connection to the
 *                 message bus is established" only and are not copied. */
#include <config.h>
#include "dbus/dbus-internals.h"
#include "verif_prelude.h"
#include VERIF_TU
#define REACH(tag) __CPROVER_assert(0, "REACH:" tag)
#define IMP(a, b) (!(a) || (b))
#define PRE(c, what) __CPROVER_assert((c), "precondition of " what)
#define ERR_SET(e) ((e)->name != NULL)
_Bool nondet_bool (void); int nondet_int (void); unsigned long nondet_ulong (void);
#ifndef VERIF_G
#define VERIF_G 3
#endif
static char o_conn; static BusClientPolicy the_client; static BusPolicy P; static char o_uidhash, o_gidhash;
#define CONN ((DBusConnection *) &o_conn)

#if VERIF_PART == 0
/* ghost */
enum { PH_NONE, PH_DEFAULT, PH_GROUP, PH_USER, PH_CONSOLE, PH_MANDATORY, PH_OPTIMIZED };
static int g_phase, g_cnt[7], g_client_new, g_client_created, g_client_unref, g_groups_freed, g_groups_given;
static _Bool g_have_uid, g_at_console, g_console_error, g_uid_has_list, g_n_gid_entries_pos, g_n_uid_entries_pos, g_groups_ok;
static int g_n_groups; static unsigned long g_groups[VERIF_G]; static _Bool g_group_has_list[VERIF_G];
static unsigned long g_uid; static DBusList *g_group_list[VERIF_G], *g_uid_list; static int g_console_which;
static const char some_string[] = "e";

dbus_bool_t dbus_connection_get_is_authenticated (DBusConnection *c) { PRE (c == CONN, "dbus_connection_get_is_authenticated"); return TRUE; }
dbus_bool_t dbus_error_is_set (const DBusError *e) { PRE (e != NULL, "dbus_error_is_set"); return ERR_SET (e); }
void dbus_set_error_const (DBusError *e, const char *name, const char *message)
{ PRE (name != NULL && (e == NULL || !ERR_SET (e)), "dbus_set_error_const: error not already set"); if (e) { e->name = name; e->message = message; } }
BusClientPolicy *verif_stub_bus_client_policy_new (void) { g_client_new++; if (nondet_bool ()) return NULL; g_client_created++; return &the_client; }
void verif_stub_bus_client_policy_unref (BusClientPolicy *p) { PRE (p == &the_client, "bus_client_policy_unref"); g_client_unref++; }
void verif_stub_bus_client_policy_optimize (BusClientPolicy *p)
{ PRE (p == &the_client && g_phase == PH_MANDATORY, "bus_client_policy_optimize: only after the mandatory rules were added"); g_phase = PH_OPTIMIZED; g_cnt[PH_OPTIMIZED]++; }
int _dbus_hash_table_get_n_entries (DBusHashTable *t)
{ PRE (t == (DBusHashTable *) &o_uidhash || t == (DBusHashTable *) &o_gidhash, "_dbus_hash_table_get_n_entries"); return (t == (DBusHashTable *) &o_gidhash ? g_n_gid_entries_pos : g_n_uid_entries_pos) ? 1 + (nondet_int () & 0xffff) : 0; }
void *_dbus_hash_table_lookup_uintptr (DBusHashTable *t, uintptr_t key)
{
  if (t == (DBusHashTable *) &o_gidhash)
    { PRE (g_n_gid_entries_pos, "gid lookup only when there are group rules");
      for (int i = 0; i < VERIF_G; i++) if (i < g_n_groups && g_groups[i] == key) return g_group_has_list[i] ? &g_group_list[i] : NULL;
      PRE (0, "_dbus_hash_table_lookup_uintptr: gid is one of the connection's groups"); return NULL; }
  PRE (t == (DBusHashTable *) &o_uidhash && g_have_uid && key == g_uid && g_n_uid_entries_pos, "_dbus_hash_table_lookup_uintptr: uid table asked for the connection's uid");
  return g_uid_has_list ? &g_uid_list : NULL;
}
dbus_bool_t bus_connection_get_unix_groups (DBusConnection *c, unsigned long **groups, int *n_groups, DBusError *error)
{
  PRE (c == CONN && groups != NULL && n_groups != NULL, "bus_connection_get_unix_groups");
  if (!g_groups_ok) { if (error) { error->name = some_string; error->message = some_string; } return FALSE; }
  *groups = g_groups; *n_groups = g_n_groups; g_groups_given++; return TRUE;
}
void dbus_free (void *p) { if (p == g_groups) g_groups_freed++; }
dbus_bool_t dbus_connection_get_unix_user (DBusConnection *c, unsigned long *uid) { PRE (c == CONN && uid != NULL, "dbus_connection_get_unix_user"); if (g_have_uid) *uid = g_uid; return g_have_uid; }
dbus_bool_t _dbus_unix_user_is_at_console (dbus_uid_t uid, DBusError *error)
{ PRE (g_have_uid && uid == g_uid, "_dbus_unix_user_is_at_console"); if (g_at_console) return TRUE; if (g_console_error && error) { error->name = some_string; error->message = some_string; } return FALSE; }

/* contract of add_list_to_client as a typestate stub: the class of the list must not go backwards */
dbus_bool_t verif_stub_add_list_to_client (DBusList **list, BusClientPolicy *client)
{
  int cls = PH_NONE;
  if (list == &P.default_rules) cls = PH_DEFAULT;
  else if (list == &P.mandatory_rules) cls = PH_MANDATORY;
  else if (list == &P.at_console_true_rules) { cls = PH_CONSOLE; g_console_which = 1; }
  else if (list == &P.at_console_false_rules) { cls = PH_CONSOLE; g_console_which = 2; }
  else if (list == &g_uid_list) cls = PH_USER;
  else for (int i = 0; i < VERIF_G; i++) if (list == &g_group_list[i]) cls = PH_GROUP;
  PRE (client == &the_client && cls != PH_NONE, "add_list_to_client: a rule list of this policy, the new client policy");
  PRE (cls == PH_GROUP ? (g_phase == PH_DEFAULT || g_phase == PH_GROUP) : cls > g_phase, "add_list_to_client: order default -> groups -> user -> console -> mandatory");
  g_phase = cls; g_cnt[cls]++;
  return nondet_bool ();
}

void harness (void)
{
  DBusError err; err.name = NULL; err.message = NULL;
  P.refcount = 1; P.rules_by_uid = (DBusHashTable *) &o_uidhash; P.rules_by_gid = (DBusHashTable *) &o_gidhash;
  g_have_uid = nondet_bool (); g_at_console = nondet_bool (); g_console_error = nondet_bool (); g_uid_has_list = nondet_bool ();
  g_n_gid_entries_pos = nondet_bool (); g_n_uid_entries_pos = nondet_bool (); g_groups_ok = nondet_bool (); g_uid = nondet_ulong ();
  g_n_groups = nondet_int (); __CPROVER_assume (g_n_groups >= 0 && g_n_groups <= VERIF_G);
  for (int i = 0; i < VERIF_G; i++) { g_groups[i] = nondet_ulong (); g_group_has_list[i] = nondet_bool (); }
  /* group ids of a connection are distinct (getgrouplist) -- only needed so that the ghost map is a function */
  __CPROVER_assume (g_groups[0] != g_groups[1] && g_groups[0] != g_groups[2] && g_groups[1] != g_groups[2]);
  BusClientPolicy *ret = bus_policy_create_client_policy (&P, CONN, &err);
  int with_lists = 0; for (int i = 0; i < VERIF_G; i++) if (i < g_n_groups && g_group_has_list[i]) with_lists++;
  __CPROVER_assert (ret == NULL || ret == &the_client, "post1 result is the new client policy or NULL");
  __CPROVER_assert ((ret == NULL) == ERR_SET (&err), "post2 NULL iff error set");
  __CPROVER_assert (IMP (ret != NULL, g_phase == PH_OPTIMIZED && g_cnt[PH_DEFAULT] == 1 && g_cnt[PH_MANDATORY] == 1 && g_cnt[PH_OPTIMIZED] == 1), "post3 success: default first (once), mandatory last (once), optimised once, after everything");
  __CPROVER_assert (IMP (ret != NULL, g_cnt[PH_GROUP] == (g_n_gid_entries_pos ? with_lists : 0)), "post4 success: one pass per group of the connection that has rules");
  __CPROVER_assert (IMP (ret != NULL, g_cnt[PH_USER] == (g_have_uid && g_n_uid_entries_pos && g_uid_has_list ? 1 : 0)), "post5 success: the user's rules iff the connection has a unix user with rules");
  __CPROVER_assert (IMP (ret != NULL, g_cnt[PH_CONSOLE] == (g_have_uid ? 1 : 0) && IMP (g_have_uid, g_console_which == (g_at_console ? 1 : 2))), "post6 success: at_console=true rules iff at console, else at_console=false rules");
  __CPROVER_assert (g_client_new == 1 && IMP (ret == NULL, g_cnt[PH_OPTIMIZED] == 0 && g_client_unref == g_client_created), "post7 failure: nothing optimised; the half-built client policy released exactly once");
  __CPROVER_assert (IMP (ret != NULL, g_client_unref == 0), "post8 success: client policy not released");
  __CPROVER_assert (g_groups_freed == g_groups_given && g_groups_given <= 1, "post9 the group array handed out by bus_connection_get_unix_groups is released exactly once");
  if (ret) REACH ("created"); else REACH ("failed");
  if (ret && g_cnt[PH_GROUP] == 2 && g_cnt[PH_USER] == 1 && g_console_which == 1) REACH ("all-five-contexts");
  if (!ret && g_cnt[PH_CONSOLE] == 0 && g_cnt[PH_USER] == 1) REACH ("console-lookup-error");
}
#else
/* ---- PART 1: add_list_to_client on a real list ---- */
static BusPolicyRule R0, R1, R2; static DBusList L0, L1, L2;
static BusPolicyRule *g_appended[4]; static int g_n_appended;
dbus_bool_t verif_stub_bus_client_policy_append_rule (BusClientPolicy *client, BusPolicyRule *rule)
{ PRE (client == &the_client && (rule == &R0 || rule == &R1 || rule == &R2), "bus_client_policy_append_rule");
  if (nondet_bool ()) return FALSE; if (g_n_appended < 4) g_appended[g_n_appended] = rule; g_n_appended++; return TRUE; }
void harness (void)
{
  BusPolicyRule *const Rp[3] = { &R0, &R1, &R2 }; DBusList *const Lp[3] = { &L0, &L1, &L2 }; DBusList *list = NULL;
  int n = nondet_int (); __CPROVER_assume (n >= 0 && n <= 3);
  for (int i = 0; i < 3; i++) if (i < n)
    {
      DBusList *l = Lp[i]; int t = nondet_int (); __CPROVER_assume (t >= BUS_POLICY_RULE_SEND && t <= BUS_POLICY_RULE_GROUP);
      Rp[i]->type = t; Rp[i]->refcount = 1; l->data = Rp[i];
      if (list == NULL) { l->next = l->prev = l; list = l; }
      else { l->next = list; l->prev = list->prev; list->prev->next = l; list->prev = l; }
    }
  dbus_bool_t ok = add_list_to_client (&list, &the_client);
  /* expected: the per-connection rules in order */
  BusPolicyRule *exp[3]; int m = 0;
  for (int i = 0; i < 3; i++) if (i < n && (Rp[i]->type == BUS_POLICY_RULE_SEND || Rp[i]->type == BUS_POLICY_RULE_RECEIVE || Rp[i]->type == BUS_POLICY_RULE_OWN)) exp[m++] = Rp[i];
  __CPROVER_assert (IMP (ok, g_n_appended == m), "post1 success: exactly the send/receive/own rules are appended");
  { int k = nondet_int (); __CPROVER_assume (k >= 0 && k < 3);
    __CPROVER_assert (IMP (k < g_n_appended, k < m && g_appended[k] == exp[k]), "post2 appended rules are the per-connection rules in list order (also a prefix of them on failure)"); }
  __CPROVER_assert (n == 0 ? list == NULL : list == &L0, "post3 source list unchanged");
  if (ok && m == 3) REACH ("three-appended"); if (ok && m == 0 && n == 3) REACH ("only-user-group-rules"); if (!ok) REACH ("oom");
}
#endif
