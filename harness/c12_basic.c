/* C12: the small header edit/read primitives of dbus/dbus-marshal-header.c (real code, loop-free), on a header whose
 * byte string is a heap block of symbolic size (no bound on the header length).  Frame conditions are stated with
 * the ghost index verif_gk (never assigned): "byte gk is unchanged unless gk is one of the bytes the operation owns".
 * Oracle: specification "Message Format": 3rd BYTE = flags, 1st UINT32 (offset 4) = body length, 2nd UINT32
 * (offset 8) = serial, both in the byte order named by byte 0 ('l' little / 'B' big endian); spec/wire.h.
 *  -DVERIF_FN=1 _dbus_header_toggle_flag / _dbus_header_get_flag
 *             2 _dbus_header_set_serial / _dbus_header_get_serial
 *             3 _dbus_header_update_lengths
 *             4 _dbus_header_cache_check (revalidates iff UNKNOWN; _dbus_header_cache_revalidate as a contract stub)
 *             5 reserve_header_padding   6 correct_header_padding  (DBusString length primitives as contract stubs)
 *             7 _dbus_header_get_message_type / _dbus_header_get_byte_order                                        */
#include <config.h>
#include "dbus/dbus-internals.h"
#include "verif_prelude.h"
#include "verif_ghost.h"
#include "dbus/dbus-string.h"
#define DBUS_CAN_USE_DBUS_STRING_PRIVATE 1
#include "dbus/dbus-string-private.h"
#include VERIF_TU
#ifndef IMP
#define IMP(a, b) (!(a) || (b))
#endif
#define REACH(tag) __CPROVER_assert(0, "REACH:" tag)
long verif_gk, verif_gk2, verif_w, verif_w2; int verif_flag;
_Bool nondet_bool (void); int nondet_int (void); unsigned nondet_uint (void); unsigned char nondet_uchar (void);
#define PRE(c, what) __CPROVER_assert ((c), "precondition of " what)
static DBusHeader H; static unsigned char *hb; static int cap;      /* cap: bytes really allocated behind the string */
#define WB(i) (hb[i])
#include "wire.h"
static struct { int revalidations; int lengthen_ok; int aligned; } G_b;

/* ---- contract stubs ---------------------------------------------------------------------------------------- */
/* _dbus_header_cache_revalidate: afterwards no entry is UNKNOWN (C12.cache.revalidate.* checks the positions) */
void verif_stub_cache_revalidate (DBusHeader *h)
{ int i; G_b.revalidations++;
  for (i = 0; i <= DBUS_HEADER_FIELD_LAST; i++) { int p = nondet_int (); __CPROVER_assume (p >= 0 || p == _DBUS_HEADER_FIELD_VALUE_NONEXISTENT); h->fields[i].value_pos = p; } }
#include "c12_strstubs.h"

static void make_header (int min_len)
{
  DBusRealString *d = (DBusRealString *) &H.data; int n = nondet_int (), i;
  __CPROVER_assume (n >= min_len && n <= 0x8000000);
  cap = n + 32; hb = malloc ((size_t) cap); __CPROVER_assume (hb != NULL);
  d->str = hb; d->len = n; d->allocated = n + 8; d->constant = 0; d->locked = 0; d->valid = 1; d->align_offset = 0; hb[n] = 0;
  for (i = 0; i <= DBUS_HEADER_FIELD_LAST; i++) { H.fields[i].value_pos = nondet_int (); __CPROVER_assume (H.fields[i].value_pos >= -2); }
  H.padding = nondet_uchar () & 7;
}

void harness (void)
{
  DBusRealString *d = (DBusRealString *) &H.data; unsigned char old_gk; int len0; unsigned pad0;
  G_b.revalidations = 0; G_b.lengthen_ok = 0; G_b.aligned = 0;
#if VERIF_FN == 1
  { dbus_uint32_t flag = nondet_uint (), other = nondet_uint (); dbus_bool_t value = nondet_int (), before_other; unsigned char old2;
    make_header (16); __CPROVER_assume (verif_gk >= 0 && verif_gk < d->len); old_gk = hb[verif_gk]; old2 = hb[2]; len0 = d->len;
    before_other = _dbus_header_get_flag (&H, other);
    _dbus_header_toggle_flag (&H, flag, value);
    __CPROVER_assert (hb[2] == (unsigned char) (value ? (old2 | (flag & 0xff)) : (old2 & ~(flag & 0xff))), "flag.byte2: exactly the bits of the flag are set / cleared in the flags byte (offset 2)");
    __CPROVER_assert (IMP (verif_gk != 2, hb[verif_gk] == old_gk) && d->len == len0, "flag.frame: no other byte of the header changes, length unchanged");
    __CPROVER_assert (_dbus_header_get_flag (&H, flag) == ((hb[2] & flag) != 0), "flag.get: _dbus_header_get_flag reads the flag bits of byte 2");
    __CPROVER_assert (IMP (flag != 0 && flag <= 0xff, _dbus_header_get_flag (&H, flag) == (value != 0)), "flag.readback: a toggled flag reads back as set");
    __CPROVER_assert (IMP ((other & flag & 0xff) == 0, _dbus_header_get_flag (&H, other) == before_other), "flag.others: every other flag keeps its value");
    if (value && flag == DBUS_HEADER_FLAG_NO_REPLY_EXPECTED) REACH("set-no-reply"); if (!value) REACH("cleared"); }
#elif VERIF_FN == 2
  { dbus_uint32_t serial = nondet_uint (), got; int le;
    make_header (16); __CPROVER_assume (hb[0] == 'l' || hb[0] == 'B'); le = hb[0] == 'l';
    __CPROVER_assume (verif_gk >= 0 && verif_gk < d->len); old_gk = hb[verif_gk]; len0 = d->len;
    __CPROVER_assert (_dbus_header_get_serial (&H) == W_SERIAL, "serial.get: _dbus_header_get_serial decodes bytes 8..11 in the header's byte order");
    __CPROVER_assume (W_SERIAL == 0 || serial == 0);      /* the function's own assertion: set once (or reset to 0 by dbus_message_copy) */
    _dbus_header_set_serial (&H, serial);
    got = _dbus_header_get_serial (&H);
    __CPROVER_assert (got == serial && W_SERIAL == serial, "serial.readback: the serial reads back, and bytes 8..11 are its encoding in the header's byte order");
    __CPROVER_assert (le ? (hb[8] == (serial & 0xff) && hb[11] == (serial >> 24)) : (hb[11] == (serial & 0xff) && hb[8] == (serial >> 24)), "serial.order: least significant byte first for 'l', last for 'B'");
    __CPROVER_assert (IMP (verif_gk < 8 || verif_gk > 11, hb[verif_gk] == old_gk) && d->len == len0, "serial.frame: only bytes 8..11 change, length unchanged");
    if (le && serial == 0x01020304) REACH("little"); if (!le && serial != 0) REACH("big"); }
#elif VERIF_FN == 3
  { int body_len = nondet_int ();
    make_header (16); __CPROVER_assume (hb[0] == 'l' || hb[0] == 'B');
    __CPROVER_assume (verif_gk >= 0 && verif_gk < d->len); old_gk = hb[verif_gk]; len0 = d->len;
    _dbus_header_update_lengths (&H, body_len);
    __CPROVER_assert (W_BODY_LEN == (dbus_uint32_t) body_len, "lengths.body: bytes 4..7 are the body length in the header's byte order");
    __CPROVER_assert (IMP (verif_gk < 4 || verif_gk > 7, hb[verif_gk] == old_gk) && d->len == len0, "lengths.frame: only bytes 4..7 change, length unchanged");
    if (hb[0] == 'B' && body_len == 5) REACH("big"); if (hb[0] == 'l') REACH("little"); }
#elif VERIF_FN == 4
  { int field = nondet_int (), old_f, old_k; dbus_bool_t r;
    make_header (16); __CPROVER_assume (field >= 0 && field <= DBUS_HEADER_FIELD_LAST); __CPROVER_assume (verif_gk >= 0 && verif_gk <= DBUS_HEADER_FIELD_LAST);
    old_f = H.fields[field].value_pos; old_k = H.fields[verif_gk].value_pos;
    r = _dbus_header_cache_check (&H, field);
    __CPROVER_assert (G_b.revalidations == (old_f == _DBUS_HEADER_FIELD_VALUE_UNKNOWN), "cache.check: the cache is rebuilt iff the entry was UNKNOWN, once");
    __CPROVER_assert (IMP (old_f != _DBUS_HEADER_FIELD_VALUE_UNKNOWN, H.fields[verif_gk].value_pos == old_k), "cache.check: a known entry is answered without touching the cache");
    __CPROVER_assert (r == (H.fields[field].value_pos != _DBUS_HEADER_FIELD_VALUE_NONEXISTENT) && H.fields[field].value_pos != _DBUS_HEADER_FIELD_VALUE_UNKNOWN, "cache.check: TRUE iff the field exists; the entry is not UNKNOWN afterwards");
    __CPROVER_assert (IMP (r, H.fields[field].value_pos >= 0), "cache.check: TRUE => a position >= 0 is cached");
    if (r && G_b.revalidations) REACH("revalidated-present"); if (!r && !G_b.revalidations) REACH("known-absent"); }
#elif VERIF_FN == 5
  { dbus_bool_t r; int alloc0;
    make_header (16); __CPROVER_assume (verif_gk >= 0 && verif_gk < d->len); old_gk = hb[verif_gk]; len0 = d->len; pad0 = H.padding; alloc0 = d->allocated;
    r = reserve_header_padding (&H);
    __CPROVER_assert (IMP (r, H.padding == 7 && d->len == len0 + 7 - (int) pad0), "reserve: TRUE => padding == 7 and the string grew by 7 - old padding");
    __CPROVER_assert (IMP (r, d->allocated - 8 >= d->len), "reserve: TRUE => the allocation covers the reserved length (what correct_header_padding relies on)");
    __CPROVER_assert (IMP (!r, H.padding == pad0 && d->len == len0 && d->allocated == alloc0), "reserve: FALSE => padding, length and allocation unchanged");
    __CPROVER_assert (hb[verif_gk] == old_gk && hb[d->len] == 0, "reserve.frame: no existing byte changes; NUL terminated");
    if (r && pad0 == 3) REACH("reserved-4-more"); if (!r) REACH("oom"); if (r && pad0 == 7) REACH("already-7"); }
#elif VERIF_FN == 6
  { int unpadded;
    make_header (16 + 7);
    /* precondition = postcondition of reserve_header_padding + "edits keep the allocation >= length + 8" (DBusString invariant) */
    H.padding = 7; __CPROVER_assume (d->allocated - 8 >= d->len);
    unpadded = d->len - 7; __CPROVER_assume (verif_gk >= 0 && verif_gk < unpadded); old_gk = hb[verif_gk];
    correct_header_padding (&H);
    __CPROVER_assert (d->len % 8 == 0, "correct: header length is a multiple of 8");
    __CPROVER_assert (H.padding <= 7 && d->len == unpadded + (int) H.padding, "correct: padding <= 7 and length = unpadded length + padding (the minimum to reach the 8-boundary)");
    __CPROVER_assert (IMP (verif_gk2 >= unpadded && verif_gk2 < d->len, hb[verif_gk2] == 0), "correct: every padding byte is NUL");
    __CPROVER_assert (hb[verif_gk] == old_gk && hb[d->len] == 0, "correct.frame: no byte before the padding changes; NUL terminated");
    if (H.padding == 0) REACH("no-padding"); if (H.padding == 7) REACH("padding-7"); if (H.padding == 1) REACH("padding-1"); }
#else
  { make_header (16); __CPROVER_assume (hb[1] != 0);
    __CPROVER_assert (_dbus_header_get_message_type (&H) == hb[1], "type.get: _dbus_header_get_message_type is byte 1");
    __CPROVER_assert ((unsigned char) _dbus_header_get_byte_order (&H) == hb[0], "order.get: _dbus_header_get_byte_order is byte 0");
    if (hb[1] == 4) REACH("signal"); }
#endif
}
