/* C19: pending_activation_timed_out (bus/activation.c, static): the activation timeout handler.
 * Property C19: "if starting fails, the started process exits without taking the name, OR THE ACTIVATION TIMES
 * OUT, every waiting sender receives exactly one error".  P unit (loop-free): whenever the handler runs, the
 * activation is failed exactly once with org.freedesktop.DBus.Error.TimedOut -- unconditionally, whatever the
 * state of the started process (still running, already exited, no babysitter at all); a babysitter, if any, is
 * told to kill the child.  pending_activation_failed is bound to its contract (unit C19.pending_activation_failed:
 * every waiter of that activation gets exactly one error, then it is removed from the table). */
#include <config.h>
#include "dbus/dbus-internals.h"
#include <stdlib.h>
#include <string.h>
#include VERIF_TU
#include "../stubs/c19_act_common.c"
static char o_ctx, o_sitter; static BusActivation A; static BusPendingActivation P; static char name[2];
static struct { _Bool exited; unsigned failed, kills, logs; const char *failed_with; int cfg; } F;
int bus_context_get_activation_timeout (BusContext *c) { PRE(c == (BusContext *)&o_ctx, "bus_context_get_activation_timeout"); return F.cfg; }
dbus_bool_t _dbus_babysitter_get_child_exited (DBusBabysitter *s) { return F.exited; }
void _dbus_babysitter_kill_child (DBusBabysitter *s) { PRE(s == (DBusBabysitter *)&o_sitter, "_dbus_babysitter_kill_child: the babysitter of this activation"); F.kills++; }
void verif_stub_log_and_set_error (BusContext *c, DBusSystemLogSeverity sev, DBusError *e, const char *name, const char *fmt, ...)
{ PRE(e != NULL && !ERR_SET(e) && name != NULL, "bus_context_log_and_set_error: error clear"); e->name = name; e->message = some_string; F.logs++; }
void verif_stub_pending_failed (BusPendingActivation *p, const DBusError *how)
{ PRE(p == &P, "pending_activation_failed: this activation"); PRE(how != NULL && ERR_SET(how), "pending_activation_failed: with a set error");
  F.failed++; F.failed_with = how->name; }
void harness (void)
{
  _Bool has_sitter = nondet_bool(); F.exited = nondet_bool(); F.cfg = nondet_int();
  A.context = (BusContext *)&o_ctx; P.refcount = 1; P.activation = &A; P.service_name = name; P.babysitter = has_sitter ? (DBusBabysitter *)&o_sitter : NULL;
  dbus_bool_t r = pending_activation_timed_out (&P);
  __CPROVER_assert(F.failed == 1, "post1 timeout => the activation is failed exactly once (its waiters each get one error), whatever the state of the started process");
  __CPROVER_assert(F.failed != 1 || (F.failed_with != NULL && strcmp (F.failed_with, DBUS_ERROR_TIMED_OUT) == 0), "post2 the error is org.freedesktop.DBus.Error.TimedOut");
#ifdef ENABLE_TRADITIONAL_ACTIVATION
  __CPROVER_assert(!has_sitter || F.exited || F.kills == 1, "post3 a started process that is still running is told to stop");
#endif
  __CPROVER_assert(has_sitter || F.kills == 0, "post4 nothing is killed when nothing was started");
  __CPROVER_assert(r, "post5 the handler reports success to the main loop");
  if (has_sitter && F.exited) REACH("timeout-after-child-exit");
  if (has_sitter && !F.exited) REACH("timeout-child-running");
  if (!has_sitter) REACH("timeout-no-child");
}
