/* C17.block / C17.block_cancelled (T; B: at most VERIF_MAX_WAITS blocking iterations before the peer is seen as
 * disconnected): _dbus_connection_block_pending_call with the REAL check_for_reply_and_update_dispatch_unlocked and
 * the real pending-call accessors; complete_pending_call_and_unlock bound to its contract (enforced in C17.complete),
 * so its preconditions - lock held, not yet completed, no reply stored, STILL ATTACHED, matching serial - are
 * obligations at the three call sites.
 * Oracle: dbus_pending_call_block doc "Block until the pending call is completed ... If the pending call is already
 * completed, this function returns immediately"; dbus_pending_call_cancel doc "any reply or error received will just
 * be ignored"; property C17: "completes exactly once ... A cancelled call is never notified".
 * Initial state of the call: -DVERIF_STATE_CANCELLED: detached by dbus_pending_call_cancel, not completed;
 * otherwise outstanding (attached) or already completed.
 * Environment during a blocking iteration (another dispatcher): nothing, the reply gets queued, or the call gets
 * completed (effects of the complete contract).  The disconnect processing inside
 * _dbus_connection_get_dispatch_status_unlocked is bound to the contract it OUGHT to have (calls stay attached until
 * completed; enforced - and failing - in C17.disconnect). */
#include "c17_common.h"
#include "c17_model.h"
#ifndef VERIF_MAX_WAITS
#define VERIF_MAX_WAITS 2
#endif
static DBusPendingCall *g_p; static dbus_uint32_t g_serial; static DBusMessage *g_reply; static _Bool g_reply_queued; static int g_waits, g_connected_queries, g_flushes, g_status_updates;
static long g_now_s, g_now_us;
DBusDispatchStatus verif_stub_flush (DBusConnection *c) { PRE (c->have_connection_lock, "_dbus_connection_flush_unlocked: lock held"); g_flushes++; return (DBusDispatchStatus) nondet_int (); }
void _dbus_sleep_milliseconds (int ms) { }
static void environment_step (DBusConnection *c)
{
  int ev = nondet_int ();
  if (ev == 1 && !g_reply_queued && !verif_pc_completed (g_p) && G.msg_refs[1] > 0 && verif_pc_reply (g_p) == NULL) g_reply_queued = 1;     /* the reply arrives */
  if (ev == 2 && verif_attached (g_p) && !verif_pc_completed (g_p) && g_reply_queued)
    { /* another dispatcher pops the reply and completes the call */
      g_reply_queued = 0; c->have_connection_lock = 1; verif_stub_complete (c, g_p, g_reply); c->have_connection_lock = 0; dbus_message_unref (g_reply); }
}
void verif_stub_do_iteration (DBusConnection *c, DBusPendingCall *p, unsigned int flags, int timeout_ms)
{ PRE (c->have_connection_lock && p == g_p, "_dbus_connection_do_iteration_unlocked: lock held"); g_waits++;
  c->have_connection_lock = 0; environment_step (c); c->have_connection_lock = 1; }
DBusDispatchStatus verif_stub_get_dispatch_status (DBusConnection *c)
{ PRE (c->have_connection_lock, "_dbus_connection_get_dispatch_status_unlocked: lock held");
  if (g_reply_queued) return DBUS_DISPATCH_DATA_REMAINS; int s = nondet_int (); __CPROVER_assume (s == DBUS_DISPATCH_DATA_REMAINS || s == DBUS_DISPATCH_COMPLETE || s == DBUS_DISPATCH_NEED_MEMORY); return s; }
void verif_stub_update_status_and_unlock (DBusConnection *c, DBusDispatchStatus s) { PRE (c->have_connection_lock, "_dbus_connection_update_dispatch_status_and_unlock: lock held"); c->have_connection_lock = 0; g_status_updates++; }
/* contract of check_for_reply_unlocked: the queued message whose reply serial is the given one (removed from the queue), or NULL */
DBusMessage *verif_stub_check_for_reply (DBusConnection *c, dbus_uint32_t client_serial)
{ PRE (c->have_connection_lock && client_serial == g_serial, "check_for_reply_unlocked: lock held, the call's serial"); if (!g_reply_queued) return NULL; g_reply_queued = 0; return g_reply; }
dbus_bool_t verif_stub_get_is_connected (DBusConnection *c)
{ PRE (c->have_connection_lock, "_dbus_connection_get_is_connected_unlocked: lock held"); g_connected_queries++;
  if (g_connected_queries > VERIF_MAX_WAITS) return FALSE;        /* bound on the schedule: the peer is gone at the latest now */
  return nondet_bool (); }
DBusMessage *verif_stub_generate_local_error (dbus_uint32_t serial, const char *name, const char *text)
{ PRE (serial == g_serial && name != NULL, "generate_local_error_message: for the call's serial"); if (nondet_bool ()) return NULL; return verif_new_msg (2, serial, DBUS_MESSAGE_TYPE_ERROR); }
void _dbus_get_monotonic_time (long *s, long *us) { long ds = nondet_long (), dus = nondet_long (); __CPROVER_assume (-5 <= ds && ds <= 100000 && 0 <= dus && dus < 1000000); g_now_s += ds; g_now_us = dus; *s = g_now_s; *us = g_now_us; }
int dbus_timeout_get_interval (DBusTimeout *t) { int v = nondet_int (); __CPROVER_assume (0 <= v && v <= 0x7fffffff / 2); return v; }

void harness (void)
{
  DBusConnection c; char tmo;
  c.have_connection_lock = 0; c.expired_messages = NULL; c.incoming_messages = NULL; c.refcount.value = 10; c.mutex = NULL; c.disconnect_message_link = nondet_ptr ();
  verif_c17_reset (&c);
  g_waits = g_connected_queries = g_flushes = g_status_updates = 0; g_now_s = 1000000; g_now_us = 0;
  g_serial = nondet_uint (); __CPROVER_assume (g_serial != 0);
  DBusMessage *err = verif_new_msg (0, g_serial, DBUS_MESSAGE_TYPE_ERROR);
  g_reply = verif_new_msg (1, g_serial, DBUS_MESSAGE_TYPE_METHOD_RETURN);
  _Bool has_fn = nondet_bool (), has_timeout = nondet_bool ();
  g_p = verif_pc_alloc ();
#ifdef VERIF_STATE_CANCELLED
  /* after dbus_connection_send_with_reply + dbus_pending_call_cancel (C17.cancel): detached, not completed, timeout no
     longer added, the application's reference left; a reply may or may not already sit in the incoming queue */
  DBusList *tl = malloc (sizeof (DBusList)); __CPROVER_assume (tl != NULL); tl->data = err; tl->next = tl->prev = tl;
  verif_pc_init (g_p, 1, has_fn ? verif_notify : NULL, &c, NULL, has_timeout ? (DBusTimeout *) &tmo : NULL, tl, g_serial, 0, 0);
  g_reply_queued = nondet_bool ();
  _Bool was_completed = 0;
#else
  _Bool was_completed = nondet_bool ();
  DBusList *tl = NULL; if (!was_completed) { tl = malloc (sizeof (DBusList)); __CPROVER_assume (tl != NULL); tl->data = err; tl->next = tl->prev = tl; }
  verif_pc_init (g_p, was_completed ? 1 : 2, has_fn ? verif_notify : NULL, &c, was_completed ? g_reply : NULL, has_timeout ? (DBusTimeout *) &tmo : NULL, tl, g_serial, was_completed, !was_completed && has_timeout);
  if (!was_completed) { G.present[0] = 1; G.key[0] = g_serial; G.val[0] = g_p; }
  g_reply_queued = !was_completed && nondet_bool ();
#endif

  _dbus_connection_block_pending_call (g_p);

  __CPROVER_assert (!c.have_connection_lock, "post returns without the connection lock");
  __CPROVER_assert (G.completions <= 1, "post the call is completed at most once");
  __CPROVER_assert (G.notified <= 1 && !G.notify_locked && !G.notify_attached, "post notified at most once, never under the lock, never while attached");
#ifdef VERIF_STATE_CANCELLED
  __CPROVER_assert (G.notified == 0 && G.completions == 0, "post a cancelled call is never completed nor notified");
  REACH ("cancelled-returned");
#else
  __CPROVER_assert (verif_pc_completed (g_p), "post on return the call is completed");
  __CPROVER_assert (IMP (was_completed, G.completions == 0 && G.notified == 0 && g_flushes == 0), "post an already completed call returns immediately");
  __CPROVER_assert (IMP (!was_completed, G.completions == 1 && !verif_attached (g_p) && verif_pc_reply (g_p) != NULL), "post an outstanding call is completed exactly once, detached, with a reply or a local error");
  __CPROVER_assert (IMP (!was_completed && verif_pc_reply (g_p) != g_reply, !g_reply_queued), "post a reply that arrived first is what the call completes with: never a local error while the matching reply sits in the incoming queue");
  __CPROVER_assert (verif_pc_refcount (g_p) == 1, "post the function's own reference is released, the application's is kept");
  if (was_completed) REACH ("already-completed");
  if (!was_completed && verif_pc_reply (g_p) == g_reply) REACH ("got-reply");
  if (!was_completed && verif_pc_reply (g_p) == err) REACH ("timed-out");
  if (!was_completed && G.msg[2] != NULL && verif_pc_reply (g_p) == G.msg[2]) REACH ("disconnected-error");
  if (g_waits >= 2) REACH ("waited-twice");
#endif
}
