/* C01.8 (P): the real _dbus_marshal_read_basic / _dbus_marshal_read_uint32 of dbus/dbus-marshal-basic.c for every
 * basic type, on a byte string of symbolic size and at a symbolic position: the value delivered equals the
 * specification's decoding of the bytes ("Marshaling": value at the position aligned to the type's alignment, 1/2/4/8
 * bytes in the stated byte order; STRING/OBJECT_PATH: UINT32 length then content; SIGNATURE: BYTE length then content),
 * and *new_pos is the position just behind the value.  Oracle: spec/c01h_value_ref.h (val_ref_uint).  Loop-free. */
#include "verif_str.h"
#include "dbus/dbus-marshal-basic.h"
#include "dbus/dbus-protocol.h"
#define BODY_REF_MAXSTR 1
#include "c01h_value_ref.h"
long verif_gk, verif_gk2, verif_w, verif_w2; int verif_flag;
int nondet_int (void); _Bool nondet_bool (void);
void harness (void)
{
  DBusRealString str; unsigned char *b; int n = nondet_int (), pos = nondet_int (), type = nondet_int (), le = nondet_bool (), bo = le ? DBUS_LITTLE_ENDIAN : DBUS_BIG_ENDIAN, new_pos = -1, a, size, at;
  DBusBasicValue v;
  __CPROVER_assume (n >= 0 && n <= 0x8000000);
  b = malloc ((size_t) n + 8); __CPROVER_assume (b != NULL);
  str.str = b; str.len = n; str.allocated = n + 8; str.constant = 1; str.locked = 1; str.valid = 1; str.align_offset = 0;
  __CPROVER_assume (type == 'y' || type == 'n' || type == 'q' || type == 'i' || type == 'u' || type == 'b' || type == 'h' || type == 'x' || type == 't' || type == 'd' || type == 's' || type == 'o' || type == 'g');
  a = body_ref_alignment (type); size = (type == 'y' || type == 'g') ? 1 : (type == 's' || type == 'o') ? 4 : a;
  __CPROVER_assume (pos >= 0 && pos <= n);
  at = val_ref_align (pos, a);
  __CPROVER_assume (at + size <= n);                 /* the value lies inside the string (established by the validator) */
  if (type == 's' || type == 'o') __CPROVER_assume (val_ref_uint (b, at, 4, le) < (unsigned long long) (n - at - 4));   /* content + NUL inside the string (validator) */
  v.u64 = 0;
  _dbus_marshal_read_basic ((DBusString *) &str, pos, type, &v, bo, &new_pos);
  if (type == 's' || type == 'o')
    { unsigned L = (unsigned) val_ref_uint (b, at, 4, le);
      __CPROVER_assert (v.str == (char *) b + at + 4, "read_basic: a STRING / OBJECT_PATH value points at the content behind the UINT32 length");
      __CPROVER_assert (new_pos == (int) ((unsigned) at + 4u + L + 1u), "read_basic: new position = behind length word, content and NUL");
      REACH("string"); }
  else if (type == 'g')
    { __CPROVER_assert (v.str == (char *) b + at + 1 && new_pos == at + 1 + b[at] + 1, "read_basic: a SIGNATURE value points behind the BYTE length; new position behind the NUL"); REACH("signature"); }
  else
    { unsigned long long want = val_ref_uint (b, at, size, le), got = size == 1 ? v.byt : size == 2 ? v.u16 : size == 4 ? v.u32 : v.u64;
      __CPROVER_assert (got == want, "read_basic: a fixed-size value is the integer formed from its bytes in the stated byte order, at the aligned position");
      __CPROVER_assert (new_pos == at + size, "read_basic: new position = aligned position + size");
      if (size == 8 && !le) REACH("big-endian-64"); if (size == 2 && le) REACH("little-endian-16"); if (type == 'y') REACH("byte"); }
  if (type == 'u')
    { int np = -1; dbus_uint32_t u = _dbus_marshal_read_uint32 ((DBusString *) &str, pos, bo, &np);
      __CPROVER_assert (u == (dbus_uint32_t) val_ref_uint (b, at, 4, le) && np == at + 4, "read_uint32: the UINT32 at the 4-aligned position in the stated byte order"); }
}
