/* C20.dispatch (T; B: chain of the found node and its ancestors <= 3, so handler list <= 3):
 * _dbus_object_tree_dispatch_and_unlock, real body, on the real dbus-list.c (mempool by stub).
 * find_handler -> find_subtree_recurse (root, path, deepest-match) is bound to the whole-lookup contract that
 * follows from C20.find by induction on the path length (paper step):
 *    returns (N, exact): exact => N is the node of the path; !exact => N is the nearest ancestor position whose
 *    node carries the invoke_as_fallback flag; NULL if there is none.
 * Oracle [P]/[D4]: offered first to the handler registered at exactly the path, then to the fallback handlers
 * of successively shorter ancestors, stopping at the first that declares it handled; found_object as in
 * spec/objtree_ref.h. */
#define VERIF_TREE_LOOKUP_STUB verif_tree_lookup
#define VERIF_NO_MEMMOVE_STUB 1
#include "c20_common.h"
#include "dbus/dbus-mempool.h"
VERIF_FSR_PROTO(2) { __CPROVER_assert (0, "outside this unit"); return NULL; }
VERIF_FSR_PROTO(3) { __CPROVER_assert (0, "outside this unit"); return NULL; }
VERIF_FSR_PROTO(4) { __CPROVER_assert (0, "outside this unit"); return NULL; }
VERIF_UFR_PROTO(10) { __CPROVER_assert (0, "outside this unit"); return 0; }
#define MAXD 3
static DBusObjectTree *g_tree; static DBusMessage *g_msg; static char **g_path; static int g_path_mode;   /* 0 oom, 1 no path, 2 path */
static DBusObjectSubtree *g_chain[MAXD]; static int g_depth; static _Bool g_lookup_null, g_exact; static int g_lookups;
static _Bool g_locked; static int g_unlocks, g_locks, g_bad_lock;
static int g_log[MAXD + 1], g_nlog, g_res[MAXD]; static _Bool g_bad_args;
static int g_introspect_calls; static DBusHandlerResult g_introspect_res; static int g_freed_paths;
static void *g_ud[MAXD];

static DBusObjectSubtree *verif_tree_lookup (DBusObjectSubtree *subtree, const char **path, dbus_bool_t create, int *iip, dbus_bool_t *em)
{
  PRE (subtree == g_tree->root && path == (const char **) g_path && create == FALSE && iip == NULL && em != NULL, "find_handler: deepest-match lookup of the message's path from the root");
  PRE (g_locked, "find_handler: connection lock held");
  g_lookups++;
  if (g_lookup_null) { *em = FALSE; return NULL; }
  *em = g_exact; return g_chain[0];
}
dbus_bool_t dbus_message_get_path_decomposed (DBusMessage *message, char ***path)
{ PRE (message == g_msg && path != NULL, "dbus_message_get_path_decomposed"); if (g_path_mode == 0) return FALSE; *path = g_path_mode == 1 ? NULL : g_path; return TRUE; }
void dbus_free_string_array (char **a) { PRE (a == g_path, "dbus_free_string_array: the decomposed path"); g_freed_paths++; }
void _dbus_connection_unlock (DBusConnection *c) { PRE (c == g_tree->connection && c != NULL, "_dbus_connection_unlock"); if (!g_locked) g_bad_lock = 1; g_locked = 0; g_unlocks++; }
void _dbus_connection_lock (DBusConnection *c) { PRE (c == g_tree->connection && c != NULL, "_dbus_connection_lock"); if (g_locked) g_bad_lock = 1; g_locked = 1; g_locks++; }
/* contract of the built-in Introspect fallback: needs the lock, releases it, any result */
DBusHandlerResult verif_stub_default_introspect (DBusObjectTree *tree, DBusMessage *message, const char **path)
{ PRE (tree == g_tree && message == g_msg && path == (const char **) g_path, "handle_default_introspect_and_unlock");
  PRE (g_locked || tree->connection == NULL, "handle_default_introspect_and_unlock: lock held");
  g_introspect_calls++; g_locked = 0; g_unlocks++; return g_introspect_res; }
static DBusHandlerResult handler (int k, DBusConnection *c, DBusMessage *m, void *d)
{ if (g_locked || c != g_tree->connection || m != g_msg || d != g_ud[k]) g_bad_args = 1;
  if (g_nlog < MAXD + 1) g_log[g_nlog] = k; g_nlog++; return (DBusHandlerResult) g_res[k]; }
static DBusHandlerResult h0 (DBusConnection *c, DBusMessage *m, void *d) { return handler (0, c, m, d); }
static DBusHandlerResult h1 (DBusConnection *c, DBusMessage *m, void *d) { return handler (1, c, m, d); }
static DBusHandlerResult h2 (DBusConnection *c, DBusMessage *m, void *d) { return handler (2, c, m, d); }
/* mempool / global lock: documented semantics (assumed) */
struct DBusMemPool { int live; };
static struct DBusMemPool the_pool;
DBusMemPool *_dbus_mem_pool_new (int element_size, dbus_bool_t zero_elements) { if (nondet_bool ()) return NULL; the_pool.live = 0; return &the_pool; }
void _dbus_mem_pool_free (DBusMemPool *pool) { }
void *_dbus_mem_pool_alloc (DBusMemPool *pool) { void *m = dbus_malloc0 (sizeof (DBusList)); if (m) pool->live++; return m; }
dbus_bool_t _dbus_mem_pool_dealloc (DBusMemPool *pool, void *element) { free (element); pool->live--; return pool->live == 0; }
dbus_bool_t _dbus_lock (DBusGlobalLock lock) { return TRUE; }
void _dbus_unlock (DBusGlobalLock lock) { }

void harness (void)
{
  DBusObjectTree tree; DBusObjectSubtree nodes[MAXD]; char conn, msg; char *patharr[1];
  static const DBusObjectPathMessageFunction hs[MAXD] = { h0, h1, h2 };
  tree.connection = (DBusConnection *) &conn; tree.refcount = 1; g_tree = &tree; g_msg = (DBusMessage *) &msg; g_path = patharr; patharr[0] = NULL;
  g_depth = nondet_int (); __CPROVER_assume (1 <= g_depth && g_depth <= MAXD);
  _Bool mf[MAXD], fb[MAXD];
  for (int k = 0; k < MAXD; k++)
    {
      mf[k] = nondet_bool (); fb[k] = nondet_bool (); g_ud[k] = nondet_ptr (); g_res[k] = nondet_int ();
      __CPROVER_assume (g_res[k] == DBUS_HANDLER_RESULT_HANDLED || g_res[k] == DBUS_HANDLER_RESULT_NOT_YET_HANDLED || g_res[k] == DBUS_HANDLER_RESULT_NEED_MEMORY);
      nodes[k].message_function = mf[k] ? hs[k] : NULL; nodes[k].user_data = g_ud[k]; nodes[k].invoke_as_fallback = fb[k];
      nodes[k].refcount.value = nondet_int (); __CPROVER_assume (1 <= nodes[k].refcount.value && nodes[k].refcount.value < 1000);
      nodes[k].parent = (k + 1 < g_depth) ? &nodes[k + 1] : NULL; nodes[k].subtrees = NULL; nodes[k].unregister_function = NULL;
      nodes[k].n_subtrees = nondet_int (); __CPROVER_assume (0 <= nodes[k].n_subtrees && nodes[k].n_subtrees <= 8); nodes[k].max_subtrees = 8;
      g_chain[k] = &nodes[k];
    }
  DBusObjectSubtree *root = &nodes[g_depth - 1]; tree.root = root;
  g_path_mode = nondet_int (); __CPROVER_assume (0 <= g_path_mode && g_path_mode <= 2);
  g_lookup_null = nondet_bool (); g_exact = nondet_bool ();
  /* whole-lookup contract: a non-exact result is a node flagged as fallback; NULL only if no node on the chain is
     an exact match or flagged (here: the harness picks the found node as chain[0]) */
  __CPROVER_assume (g_exact || fb[0]);
  g_introspect_res = nondet_int (); g_lookups = 0; g_locked = 1; g_unlocks = g_locks = g_bad_lock = 0; g_nlog = 0; g_bad_args = 0; g_introspect_calls = 0; g_freed_paths = 0; g_oom_possible = 1;
  int rc0[MAXD]; for (int k = 0; k < MAXD; k++) rc0[k] = nodes[k].refcount.value;
  dbus_bool_t found = nondet_bool (); dbus_bool_t *foundp = nondet_bool () ? &found : NULL; dbus_bool_t found0 = found;

  DBusHandlerResult r = _dbus_object_tree_dispatch_and_unlock (&tree, g_msg, foundp);

  __CPROVER_assert (!g_locked && !g_bad_lock && g_unlocks == g_locks + 1, "post0 returns unlocked; lock/unlock strictly alternate");
  __CPROVER_assert (!g_bad_args, "post0 handlers run without the lock, with the connection, the message and their own user data");
  for (int k = 0; k < MAXD; k++) __CPROVER_assert (nodes[k].refcount.value == rc0[k], "post0 every node reference taken is released");
  if (g_path_mode == 0) { __CPROVER_assert (r == DBUS_HANDLER_RESULT_NEED_MEMORY && g_nlog == 0 && g_lookups == 0 && found == found0, "postA no memory for the path: NEED_MEMORY, nothing invoked"); REACH ("path-oom"); return; }
  if (g_path_mode == 1) { __CPROVER_assert (r == DBUS_HANDLER_RESULT_NOT_YET_HANDLED && g_nlog == 0 && g_lookups == 0 && found == found0, "postA message without path: NOT_YET_HANDLED, nothing invoked"); REACH ("no-path"); return; }
  __CPROVER_assert (g_lookups == 1 && g_freed_paths == 1, "postB one lookup; decomposed path released");
  /* expected offer sequence [P] */
  int exp[MAXD], nexp = 0;
  if (!g_lookup_null)
    for (int k = 0; k < MAXD; k++)
      if (k < g_depth && mf[k] && ((k == 0 && g_exact) || fb[k])) exp[nexp++] = k;
  /* invoked = the longest prefix of exp ending at the first handler that does not decline */
  int ninv = 0; _Bool stopped = 0;
  for (int q = 0; q < MAXD; q++) if (q < nexp && !stopped) { ninv++; if (g_res[exp[q]] != DBUS_HANDLER_RESULT_NOT_YET_HANDLED) stopped = 1; }
  if (r == DBUS_HANDLER_RESULT_NEED_MEMORY && g_nlog == 0 && g_introspect_calls == 0)
    { __CPROVER_assert (nexp > 0, "postC NEED_MEMORY before any handler only when the handler list could not be built"); REACH ("list-oom"); }
  else
    {
      __CPROVER_assert (g_nlog == ninv, "postD exactly the expected handlers are invoked: exact one first, then fallback ancestors, stopping at the first taker");
      for (int q = 0; q < MAXD; q++) __CPROVER_assert (IMP (q < ninv, g_log[q] == exp[q]), "postD in order from the deepest to the root");
      __CPROVER_assert (g_introspect_calls == (stopped ? 0 : 1), "postD built-in Introspect consulted iff every handler declined");
      __CPROVER_assert (r == (stopped ? (DBusHandlerResult) g_res[exp[ninv - 1]] : g_introspect_res), "postD result is the first taker's, else the built-in's");
      if (ninv == 3) REACH ("three-handlers"); if (ninv == 2 && stopped) REACH ("second-takes"); if (nexp == 0) REACH ("no-handler");
      if (nexp > 0 && exp[0] != 0) REACH ("found-node-skipped");
    }
  /* found_object [P]: the path is a node of the registered tree, or lies below a registered fallback handler */
  _Bool spec_found = 0;
  if (!g_lookup_null)
    {
      if (g_exact && (g_chain[0] != root || mf[0] || root->n_subtrees > 0)) spec_found = 1;
      for (int k = 0; k < MAXD; k++) if (k < g_depth && (k > 0 || !g_exact) && mf[k] && fb[k]) spec_found = 1;
    }
#ifdef VERIF_CHECK_FOUND   /* unit C20.found */
  __CPROVER_assert (IMP (foundp != NULL, (found != 0) == spec_found), "postE found_object iff the path is in the registered tree or below a registered fallback handler");
#else                      /* unit C20.dispatch: the direction that does not depend on stale fallback flags */
  __CPROVER_assert (IMP (foundp != NULL && spec_found, found != 0), "postE found_object whenever the path is in the registered tree or below a registered fallback handler");
  __CPROVER_assert (IMP (foundp != NULL, found == 0 || found == 1), "postE found_object is a boolean");
#endif
  if (foundp && found) REACH ("found"); if (foundp && !found) REACH ("not-found");
}
