/* C08.ext / anon / sha1_first / sha1_second / sha1_hash — the three mechanisms' server data functions of
 * dbus/dbus-auth.c (real code), each against the generic contract  MECH(RESP) in { CONTINUE(CHALL), OK, REJECTED }
 * (c08_mech_contract in harness/c08_auth.h) plus what the property statement says about that mechanism:
 *
 *  EXTERNAL (1)  handle_server_data_external_mech
 *      OK only if _dbus_credentials_are_superset (socket credentials, desired identity) was evaluated TRUE on the
 *      desired identity that is then granted; socket credentials without a user identity => never OK;
 *      granted identity: names a user and contains only credentials the kernel reported for the socket.
 *      desired identity = the client's authorization identity string if it sent one, else the socket credentials.
 *      [property: "EXTERNAL with an identity equal to the kernel-reported socket credentials"]
 *  ANONYMOUS (2) handle_server_data_anonymous_mech
 *      OK without any check ("It does not perform any authentication at all"); granted identity has NO user identity, so
 *      the transport's default rule admits it only under allow_anonymous (unit C08.try_auth); invalid UTF-8 trace => REJECTED.
 *  DBUS_COOKIE_SHA1 step 1 (3) handle_server_data_cookie_sha1_mech with no challenge outstanding
 *      never OK; CONTINUE only if the requested user is the user owning the server process and a keyring and a cookie id
 *      exist; then one DATA line is sent and cookie_id >= 0.
 *  DBUS_COOKIE_SHA1 step 2 (4) handle_server_data_cookie_sha1_mech with a challenge outstanding
 *      OK only if _dbus_string_equal (client hash, correct hash) returned TRUE, where client hash is the text after the
 *      blank(s) in the response and correct hash is the non-empty result of sha1_compute_hash (cookie_id, our challenge,
 *      client challenge = text before the blank); never CONTINUE; granted identity = the user of step 1.
 *      [spec: "It compares the hash with the hash received from the client; if the two hashes match, the client is authenticated."]
 *  sha1_compute_hash (5)
 *      the text handed to _dbus_sha_compute is  server challenge ":" client challenge ":" cookie  in that order; unknown
 *      cookie id => TRUE with an empty hash; temporaries zeroed and freed.
 *      [spec: "concatenates the server's decoded challenge, a ":" character, its own challenge, another ":" character, and the cookie"]
 */
#include "c08_model.h"
#include "dbus/dbus-keyring.h"
#include "dbus/dbus-sha.h"
#include "dbus/dbus-sysdeps.h"
#include VERIF_TU
#include "c08_auth.h"

#ifndef VERIF_FN
#define VERIF_FN 1
#endif

/* ---- assumed contracts: keyring, SHA-1, random ---- */
int g_keyring_new_calls, g_keyring_unref_calls, g_best_key_calls, g_random_calls;
static char c08_keyring_obj2;
dbus_bool_t _dbus_keyring_is_for_credentials (DBusKeyring *keyring, DBusCredentials *credentials)
{ PRE (keyring != NULL && CRED_LIVE (credentials), "_dbus_keyring_is_for_credentials"); return nondet_bool (); }
void _dbus_keyring_unref (DBusKeyring *keyring) { PRE (keyring != NULL, "_dbus_keyring_unref"); g_keyring_unref_calls++; }
/* "Creates a new keyring that lives in the ~/.dbus-keyrings directory of the user represented by @p credentials."
 *  returns NULL and sets the error (NoMemory or another one) on failure */
DBusKeyring *_dbus_keyring_new_for_credentials (DBusCredentials *credentials, const DBusString *context, DBusError *error)
{
  PRE (CRED_LIVE (credentials) && STR_LIVE_OK (context), "_dbus_keyring_new_for_credentials");
  g_keyring_new_calls++;
  if (nondet_bool ()) { model_set_error (error, nondet_bool ()); return NULL; }
  return (DBusKeyring *) &c08_keyring_obj2;
}
/* "Gets a recent key to use for authentication. ... @returns key ID to use for auth, or -1 on failure" (error set) */
int _dbus_keyring_get_best_key (DBusKeyring *keyring, DBusError *error)
{
  PRE (keyring != NULL, "_dbus_keyring_get_best_key");
  g_best_key_calls++;
  if (nondet_bool ()) { model_set_error (error, nondet_bool ()); return -1; }
  int k = nondet_int (); __CPROVER_assume (k >= 0);
  return k;
}
dbus_bool_t _dbus_generate_random_bytes (DBusString *str, int n_bytes, DBusError *error)
{
  STR_PRE (str, "_dbus_generate_random_bytes"); PRE (n_bytes >= 0, "_dbus_generate_random_bytes");
  g_random_calls++;
  if (nondet_bool () || !sm_room (str, n_bytes)) { model_set_error (error, nondet_bool ()); return FALSE; }
  SM (str)->len += n_bytes;
  return TRUE;
}

/* ---- provenance of the pieces cut out of the client's response (step 2) ---- */
#define PROV_SERVER_CHALLENGE 11
#define PROV_CLIENT_CHALLENGE 12
#define PROV_COOKIE 13
static void set_prov (DBusString *s, int p) { SM (s)->allocated = (STAG (s) & 0xffff) | (p << 16); }

/* CONTRACT sha1_compute_hash (proved in C08.sha1_hash) */
DBusString *g_correct_hash; int g_hash_calls;
dbus_bool_t verif_stub_sha1_compute_hash (DBusAuth *auth, int cookie_id, const DBusString *server_challenge, const DBusString *client_challenge, DBusString *hash)
{
  PRE (auth->keyring != NULL, "sha1_compute_hash: a keyring is loaded");
  PRE (cookie_id == auth->cookie_id && cookie_id >= 0, "sha1_compute_hash: the cookie id announced in the challenge");
  PRE (server_challenge == &auth->challenge, "sha1_compute_hash: our own challenge");
  PRE (g_copy_len_calls >= 1 && client_challenge == g_cut_dest[1], "sha1_compute_hash: client challenge = first field of the response");
  STR_PRE (hash, "sha1_compute_hash"); PRE (SLEN (hash) == 0, "sha1_compute_hash: empty result buffer");
  g_hash_calls++;
  if (nondet_bool ()) return FALSE;
  g_correct_hash = hash;
  if (nondet_bool ()) return TRUE;                 /* "if cookie_id was invalid, then we get an empty hash" */
  SM (hash)->len = 40;                             /* SHA-1 digest in hex */
  return TRUE;
}
/* send_ok with the evidence computed from the ghosts of the success site's checks */
DBusCredentials g_desired_at_check;
dbus_bool_t verif_stub_send_ok_ev (DBusAuth *auth)
{
#if VERIF_FN == 1
  g_evidence = (g_sup_calls >= 1 && g_sup_a == auth->credentials && g_sup_b == auth->desired_identity && g_sup_result) ? MECH_EXT : 0;
  PRE (g_evidence == MECH_EXT, "send_ok (EXTERNAL): only after _dbus_credentials_are_superset (socket credentials, desired identity) == TRUE");
  PRE (cred_superset (auth->credentials, auth->desired_identity), "send_ok (EXTERNAL): the desired identity was not changed after the check");
#elif VERIF_FN == 2
  g_evidence = MECH_ANON;
#elif VERIF_FN == 4
  _Bool cmp_ok = g_eq_calls >= 1 && g_eq_result && g_correct_hash != NULL && g_eq_b == g_correct_hash && SLIVE (g_correct_hash) && SLEN (g_correct_hash) > 0 &&
                 g_copy_len_calls >= 2 && g_eq_a == g_cut_dest[2];
  g_evidence = cmp_ok ? MECH_SHA1 : 0;
  PRE (g_evidence == MECH_SHA1, "send_ok (DBUS_COOKIE_SHA1): only after _dbus_string_equal (client hash, correct non-empty hash) == TRUE");
#else
  g_evidence = 0;
#endif
  return verif_stub_send_ok (auth);
}

#if VERIF_FN == 5
/* sha1_compute_hash: what is handed to the hash function */
const DBusString *g_sha_input, *g_sha_input_copy; int g_sha_calls;
dbus_bool_t _dbus_keyring_get_hex_key (DBusKeyring *keyring, int key_id, DBusString *hex_key)
{
  PRE (keyring != NULL, "_dbus_keyring_get_hex_key"); STR_PRE (hex_key, "_dbus_keyring_get_hex_key");
  if (nondet_bool ()) return FALSE;
  if (nondet_bool ()) return TRUE;                 /* "Returns #TRUE but empty key on any other error such as unknown key ID." */
  int n = nondet_int (); __CPROVER_assume (n >= 1 && n <= 4096 && sm_room (hex_key, n));
  SM (hex_key)->len += n; set_prov (hex_key, PROV_COOKIE);
  return TRUE;
}
dbus_bool_t _dbus_sha_compute (const DBusString *data, DBusString *ascii_output)
{
  STR_PRE (data, "_dbus_sha_compute"); STR_PRE (ascii_output, "_dbus_sha_compute");
  g_sha_calls++; g_sha_input = data; g_sha_input_copy = data;
  if (nondet_bool () || !sm_room (ascii_output, 40)) return FALSE;
  SM (ascii_output)->len += 40;
  return TRUE;
}
#endif

void harness (void)
{
  DBusAuthServer S; DBusAuth *auth = &S.base;
  DBusString data;
  c08_make_auth (&S);
  c08_havoc_string (&data);
  __CPROVER_assume (AUTH_INV (auth));
  G.sent = 0; G.last = 0; G.mech = 0; G.send_ok_calls = 0; G.send_rejected_calls = 0; G.send_data_calls = 0;
  g_sup_calls = 0; g_eq_calls = 0; g_copy_len_calls = 0; g_add_from_user_calls = 0;

#if VERIF_FN == 5
  DBusString sc, cc, hash; int cookie_id = nondet_int ();
  c08_havoc_string (&sc); c08_havoc_string (&cc); sm_make (&hash, 0, 0);
  set_prov (&sc, PROV_SERVER_CHALLENGE); set_prov (&cc, PROV_CLIENT_CHALLENGE);
  __CPROVER_assume (auth->keyring != NULL);
  g_seq_n = 0; g_sha_calls = 0;
  int live0 = g_str_live;
  dbus_bool_t ret = sha1_compute_hash (auth, cookie_id, &sc, &cc, &hash);
  POST (g_sha_calls <= 1, "sha1_compute_hash: at most one hash computation");
  POST (IMP (g_sha_calls == 1, g_seq_n == 5 && g_seq[0] == PROV_SERVER_CHALLENGE && g_seq[1] == ':' && g_seq[2] == PROV_CLIENT_CHALLENGE && g_seq[3] == ':' && g_seq[4] == PROV_COOKIE &&
                                 g_seq_dest[0] == g_sha_input_copy && g_seq_dest[1] == g_sha_input_copy && g_seq_dest[2] == g_sha_input_copy && g_seq_dest[3] == g_sha_input_copy && g_seq_dest[4] == g_sha_input_copy),
        "sha1_compute_hash: hashed text is  server challenge : client challenge : cookie");
  POST (IMP (ret && SLEN (&hash) > 0, g_sha_calls == 1 && SLEN (&hash) == 40), "sha1_compute_hash: a non-empty result is the digest of that text");
  POST (IMP (ret && g_sha_calls == 0, SLEN (&hash) == 0), "sha1_compute_hash: unknown cookie id => empty hash");
  POST (g_str_live == live0, "sha1_compute_hash: temporaries (cookie, text to hash) freed");
  POST (SLEN (&sc) >= 0 && SLIVE (&sc) && SLIVE (&cc), "sha1_compute_hash: inputs untouched");
  if (ret && SLEN (&hash) > 0) REACH ("hash"); if (ret && SLEN (&hash) == 0) REACH ("unknown-cookie"); if (!ret) REACH ("oom");
#else
  const int M = VERIF_FN == 1 ? MECH_EXT : VERIF_FN == 2 ? MECH_ANON : MECH_SHA1;
  __CPROVER_assume ((ST (auth) == S_WFA || ST (auth) == S_WFD) && MECHID (auth->mech) == M);
  __CPROVER_assume (g_dirty == 0 || g_dirty == M);
#if VERIF_FN == 3
  __CPROVER_assume (auth->cookie_id < 0);
#elif VERIF_FN == 4
  __CPROVER_assume (auth->cookie_id >= 0);
#endif
  struct c08_snap old = c08_take (auth);
  _Bool socket_anon = CRED_ANON (auth->credentials);
  int data_len = SLEN (&data);
  int live0 = g_str_live;
  DBusCredentials old_socket = *auth->credentials; int old_guid_len = SLEN (&S.guid), old_ctx_len = SLEN (&auth->context); DBusKeyring *old_keyring = auth->keyring;

#if VERIF_FN == 1
  dbus_bool_t ret = handle_server_data_external_mech (auth, &data);
#elif VERIF_FN == 2
  dbus_bool_t ret = handle_server_data_anonymous_mech (auth, &data);
#else
  dbus_bool_t ret = handle_server_data_cookie_sha1_mech (auth, &data);
#endif
  /* ghost effect of the contract: an OOM return that leaves (verified) credentials behind marks them */
  if (!ret && !CRED_EMPTY (auth->authorized_identity)) g_dirty = M;
#if VERIF_FN == 3
  if (!ret && auth->cookie_id >= 0) g_dirty = M;
#endif

  ASSERT_AUTH_INV (auth);
  POST (IMP (ret, G.sent == 1), "mechanism: TRUE => exactly one reply");
  POST (IMP (ret, (G.last == SPEC_REPLY_DATA && ST (auth) == S_WFD) || (G.last == SPEC_REPLY_OK && ST (auth) == S_WFB) || (G.last == SPEC_REPLY_REJECTED && (ST (auth) == S_WFA || ST (auth) == S_DISC))),
        "mechanism: TRUE => CONTINUE (DATA, WaitingForData) or OK (WaitingForBegin) or REJECTED (WaitingForAuth/NeedDisconnect)");
  POST (IMP (!ret, ST (auth) == old.state && S.failures == old.failures && G.sent == 0 && g_mech_ok == 0), "mechanism: FALSE => state, failures, replies unchanged");
  POST (IMP (ST (auth) == S_WFB, ret && G.send_ok_calls == 1 && g_mech_ok == M && IDENTITY_OK (auth, M)), "mechanism: WaitingForBegin only through send_ok with this mechanism's identity");
  POST (CRED_EQ (auth->credentials, &old_socket) && SLEN (&auth->incoming) == old.in_len && auth->unix_fd_negotiated == old.fdneg && SLEN (&S.guid) == old_guid_len && SLEN (&auth->context) == old_ctx_len,
        "mechanism: socket credentials, incoming buffer, guid, context, fd negotiation untouched");
  POST (IMP (M != MECH_SHA1, auth->cookie_id == old.cookie_id && auth->keyring == old_keyring), "mechanism: cookie state touched by DBUS_COOKIE_SHA1 only");
  POST (g_str_live == live0, "mechanism: no temporary string leaked");
  POST (!g_myself_out, "mechanism: current-process credentials object released");
#if VERIF_FN == 1
  POST (IMP (socket_anon, G.send_ok_calls == 0 && IMP (ret, G.last == SPEC_REPLY_REJECTED)), "EXTERNAL: no socket credentials => REJECTED, never OK");
  POST (IMP (ST (auth) == S_WFB, g_sup_calls == 1 && g_sup_result), "EXTERNAL: OK only under _dbus_credentials_are_superset == TRUE");
  POST (IMP (g_sup_calls == 1 && !g_sup_result && ret, G.last == SPEC_REPLY_REJECTED), "EXTERNAL: desired identity not covered by the socket credentials => REJECTED");
  POST (IMP (ST (auth) == S_WFB && auth->credentials->unix_uid != DBUS_UID_UNSET && auth->authorized_identity->unix_uid != DBUS_UID_UNSET, auth->authorized_identity->unix_uid == auth->credentials->unix_uid),
        "EXTERNAL: granted uid is the kernel-reported uid");
  POST (IMP (ST (auth) == S_WFB, !CRED_ANON (auth->authorized_identity) && !CRED_ANON (auth->desired_identity)), "EXTERNAL: OK only for an identity that names a user: an empty (anonymous) identity, e.g. the uid spelling of DBUS_UID_UNSET, is REJECTED");
  POST (IMP (ret && G.last == SPEC_REPLY_DATA, data_len == 0 && old.identity_len == 0 && auth->already_asked_for_initial_response && CRED_EQ (auth->authorized_identity, &old.authz)), "EXTERNAL: a challenge is sent only to ask once for a missing identity");
  if (ret && ST (auth) == S_WFB && data_len > 0) REACH ("ok-with-identity");
  if (ret && ST (auth) == S_WFB && data_len == 0) REACH ("ok-from-socket-credentials");
  if (ret && G.last == SPEC_REPLY_DATA) REACH ("poke");
  if (ret && G.last == SPEC_REPLY_REJECTED && g_sup_calls == 1) REACH ("rejected-not-superset");
  if (ret && G.last == SPEC_REPLY_REJECTED && socket_anon) REACH ("rejected-no-credentials");
  if (!ret && g_dirty == M) REACH ("oom-with-leftovers");
#elif VERIF_FN == 2
  POST (IMP (ret, G.last != SPEC_REPLY_DATA), "ANONYMOUS: never a challenge");
  POST (IMP (ST (auth) == S_WFB, CRED_ANON (auth->authorized_identity)), "ANONYMOUS: the granted identity has no user identity");
  POST (g_add_from_user_calls == 0 && g_sup_calls == 0, "ANONYMOUS: no identity lookup");
  if (ret && ST (auth) == S_WFB) REACH ("ok"); if (ret && G.last == SPEC_REPLY_REJECTED) REACH ("rejected-bad-utf8");
#elif VERIF_FN == 3
  POST (G.send_ok_calls == 0 && ST (auth) != S_WFB, "DBUS_COOKIE_SHA1 step 1: never OK");
  POST (IMP (ret && G.last == SPEC_REPLY_DATA, auth->cookie_id >= 0 && auth->keyring != NULL && !CRED_ANON (auth->desired_identity) && CRED_SAME_USER (&g_myself, auth->desired_identity) && g_random_calls == 1 && SLEN (&auth->challenge) == 2 * N_CHALLENGE_BYTES),
        "DBUS_COOKIE_SHA1 step 1: challenge only for the server's own user, with keyring, cookie id and a fresh random challenge");
  POST (IMP (ret && G.last == SPEC_REPLY_DATA, CRED_EQ (auth->authorized_identity, &old.authz)), "DBUS_COOKIE_SHA1 step 1: grants nothing");
  if (ret && G.last == SPEC_REPLY_DATA) REACH ("challenge-sent"); if (ret && G.last == SPEC_REPLY_REJECTED) REACH ("rejected");
#elif VERIF_FN == 4
  POST (IMP (ret, G.last != SPEC_REPLY_DATA), "DBUS_COOKIE_SHA1 step 2: never another challenge");
  POST (IMP (ST (auth) == S_WFB, g_eq_calls == 1 && g_eq_result && g_hash_calls == 1), "DBUS_COOKIE_SHA1 step 2: OK only if the hashes compared equal");
  POST (IMP (g_eq_calls == 1 && !g_eq_result && ret, G.last == SPEC_REPLY_REJECTED), "DBUS_COOKIE_SHA1 step 2: wrong hash => REJECTED");
  POST (IMP (g_copy_len_calls >= 2, g_cut_src[1] == &data && g_cut_start[1] == 0 && g_cut_src[2] == &data && g_cut_start[2] > g_cut_len[1] && g_cut_start[2] + g_cut_len[2] == data_len),
        "DBUS_COOKIE_SHA1 step 2: client challenge = text before the blank, client hash = text after the blanks to the end");
  POST (IMP (ST (auth) == S_WFB, auth->authorized_identity->unix_uid == old.desired.unix_uid && auth->authorized_identity->sid == old.desired.sid), "DBUS_COOKIE_SHA1 step 2: granted user = user of step 1");
  if (ret && ST (auth) == S_WFB) REACH ("ok"); if (ret && g_eq_calls == 1 && !g_eq_result) REACH ("rejected-wrong-hash"); if (ret && g_hash_calls == 1 && g_eq_calls == 0) REACH ("rejected-unknown-cookie");
  if (ret && g_hash_calls == 0) REACH ("rejected-malformed");
#endif
  if (!ret) REACH ("oom");
#endif
}
