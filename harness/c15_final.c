/* C15: descriptors owned by a message / a loader are closed (through close_unix_fds) exactly once
 * and before their array is released:
 *   VERIF_FN == 1  _dbus_message_loader_unref           (P-stub, loop-free)
 *   VERIF_FN == 2  dbus_message_finalize (static)       (P-stub, loop-free)
 *   VERIF_FN == 3  dbus_message_cache_or_finalize (static)  (W: its two cache loops are capped by
 *                  MAX_MESSAGE_CACHE_SIZE == 5 and completely unwound; finalize inlined real code)
 * close_unix_fds is bound to its contract as proved by unit C15.close_unix_fds (n closes of the n
 * entries in order, *n_fds = 0).
 * Oracle: property C15 "every descriptor the bus or the library receives is closed exactly once";
 * dbus-message-private.h, DBusMessage.unix_fds: "These are closed when the message is destroyed". */
#include <config.h>
#include "dbus/dbus-internals.h"
#include "verif_prelude.h"
#include <string.h>
#include <stdlib.h>
#include VERIF_TU
#include "../stubs/c15_msg_stubs.c"
long verif_gk;
static void *g_obj; static int *g_array;       /* the object under destruction and its fd array */
static _Bool freed_p (void *p) { return (G.frees > 0 && G.freed[0] == p) || (G.frees > 1 && G.freed[1] == p) || (G.frees > 2 && G.freed[2] == p) || (G.frees > 3 && G.freed[3] == p); }
/* contract of close_unix_fds (enforced by C15.close_unix_fds) + typestate: array and owner still allocated */
void verif_stub_close_unix_fds (int *fds, unsigned *n_fds)
{ PRE(n_fds != NULL && (*n_fds == 0 || (fds != NULL && __CPROVER_r_ok(fds, *n_fds * sizeof(int)))), "close_unix_fds: n entries readable");
  PRE(fds == g_array, "close_unix_fds: called on the object's own array");
  PRE(!freed_p(fds) || fds == NULL, "close_unix_fds: array not yet freed");
  PRE(!freed_p(g_obj), "close_unix_fds: owner not yet freed");
  G.close_calls++; G.closes_total += *n_fds; if (*n_fds) { G.closed_array = fds; G.closed_n = *n_fds; } *n_fds = 0; }
/* other callees: effects irrelevant for descriptors */
dbus_int32_t _dbus_atomic_get (DBusAtomic *a) { return a->value; }
void _dbus_data_slot_list_free (DBusDataSlotList *l) {}
void _dbus_data_slot_list_clear (DBusDataSlotList *l) {}
void _dbus_list_foreach (DBusList **list, DBusForeachFunction function, void *data) {}
void _dbus_list_clear (DBusList **list) { *list = NULL; }
void _dbus_list_clear_full (DBusList **list, DBusFreeFunction function) { *list = NULL; }
void _dbus_header_free (DBusHeader *h) {}
void _dbus_string_free (DBusString *s) {}
int _dbus_string_get_length (const DBusString *s) { int r = nondet_int(); __CPROVER_assume(r >= 0 && r <= 0x8000000); return r; }
dbus_bool_t _dbus_lock (DBusGlobalLock lock) { return 1; }          /* DESIGN 2: locks are no-ops, sequential reasoning */
void _dbus_unlock (DBusGlobalLock lock) {}
dbus_bool_t _dbus_register_shutdown_func (DBusShutdownFunction function, void *data) { return nondet_bool(); }
dbus_bool_t verif_stub_enable_message_cache (void) { return nondet_bool(); }

void harness (void)
{
  unsigned cap = nondet_unsigned(), old_n = nondet_unsigned();
  __CPROVER_assume(cap <= 1024 && old_n <= cap);
  int *arr = cap ? malloc(cap * sizeof(int)) : NULL; __CPROVER_assume(cap == 0 || arr != NULL);
  g_array = arr; G.frees = 0; G.close_calls = 0; G.closes_total = 0; G.closed_n = 0; G.closed_array = NULL;
#if VERIF_FN == 1
  DBusMessageLoader *L = malloc(sizeof *L); __CPROVER_assume(L != NULL); g_obj = L;
  L->unix_fds = arr; L->n_unix_fds_allocated = cap; L->n_unix_fds = old_n; L->messages = NULL; L->refcount = nondet_int();
  __CPROVER_assume(L->refcount >= 1);
  int rc = L->refcount;
  _dbus_message_loader_unref (L);
  if (rc == 1)
    {
      __CPROVER_assert(G.close_calls == 1 && G.closes_total == old_n && IMP(old_n > 0, G.closed_array == arr && G.closed_n == old_n), "post1 last unref closes every pending descriptor of the loader exactly once");
      __CPROVER_assert(freed_p(L) && IMP(arr != NULL, freed_p(arr)), "post2 last unref releases the array and the loader");
      REACH("finalized"); if (old_n >= 2) REACH("finalized-with-fds");
    }
  else
    {
      __CPROVER_assert(G.close_calls == 0 && G.frees == 0 && L->n_unix_fds == old_n && L->refcount == rc - 1, "post3 other unrefs close and free nothing");
      REACH("still-referenced");
    }
#else
  DBusMessage *M = malloc(sizeof *M); __CPROVER_assume(M != NULL); g_obj = M;
  M->unix_fds = arr; M->n_unix_fds_allocated = cap; M->n_unix_fds = old_n; M->refcount.value = 0; M->counters = NULL;
#if VERIF_FN == 2
  dbus_message_finalize (M);
  __CPROVER_assert(G.close_calls == 1 && G.closes_total == old_n && IMP(old_n > 0, G.closed_array == arr && G.closed_n == old_n), "post1 finalize closes every descriptor of the message exactly once");
  __CPROVER_assert(freed_p(M) && IMP(arr != NULL, freed_p(arr)), "post2 finalize releases the array and the message");
  REACH("finalized"); if (old_n >= 2) REACH("finalized-with-fds");
#else
  /* cache representation invariant: message_cache_count == number of non-NULL slots, <= 5; registered => slots initialised */
  for (int i = 0; i < MAX_MESSAGE_CACHE_SIZE; i++) message_cache[i] = nondet_bool() ? (DBusMessage *)nondet_ptr() : NULL;
  message_cache_shutdown_registered = nondet_bool();
  message_cache_count = nondet_int();
  { int c = 0; for (int i = 0; i < MAX_MESSAGE_CACHE_SIZE; i++) if (message_cache[i] != NULL) c++;
    __CPROVER_assume(message_cache_shutdown_registered ? message_cache_count == c : message_cache_count == 0); }
  for (int i = 0; i < MAX_MESSAGE_CACHE_SIZE; i++) __CPROVER_assume(message_cache[i] != M);
  dbus_message_cache_or_finalize (M);
  _Bool cached = !freed_p(M);
  __CPROVER_assert(G.closes_total == old_n && IMP(old_n > 0, G.closed_array == arr && G.closed_n == old_n), "post1 every descriptor of the message closed exactly once, cached or not");
  __CPROVER_assert(IMP(cached, M->n_unix_fds == 0 && (message_cache[0] == M || message_cache[1] == M || message_cache[2] == M || message_cache[3] == M || message_cache[4] == M)), "post2 a cached message holds no descriptors");
  __CPROVER_assert(IMP(!cached, IMP(arr != NULL, freed_p(arr))), "post3 a finalized message releases its array");
  __CPROVER_assert(IMP(cached, !freed_p(arr) || arr == NULL), "post4 a cached message keeps its (empty) array for recycling");
  if (cached) REACH("cached"); else REACH("finalized");
  if (cached && old_n >= 2) REACH("cached-with-fds");
#endif
#endif
}
