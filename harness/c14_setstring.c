/* C14 — set_string / _dbus_marshal_set_basic (string value) of dbus/dbus-marshal-basic.c (REAL code, static reached by #include):
 * a failed in-place edit of a string value writes nothing.  (Reached from dbus_message_set_destination & co. through
 * _dbus_header_set_field_basic -> _dbus_type_reader_set_basic -> _dbus_marshal_set_basic.)
 *
 * Oracle: doc of _dbus_marshal_set_basic ("Sets an existing basic type value to a new value ... @returns FALSE if no memory");
 * property C14 ("leaves all previously observable state (message contents ...) exactly as it was").
 *
 *  ensures  the one fallible step, _dbus_string_replace_len, is called exactly once and BEFORE anything is written to the string, with
 *           source = the whole new value [0, strlen), dest = the string, replace_at = pos + 4, replace_len = the old length decoded from
 *           the 4 bytes at pos in the given byte order
 *  ensures  FALSE => nothing else happened: the length word is not rewritten, *old_end_pos / *new_end_pos untouched
 *           (with the contract of C14.str.replace_len.*: FALSE => the string is byte-for-byte what it was)
 *  ensures  TRUE  => then the length word at pos is set to strlen (value) in the given byte order; *old_end_pos == pos + 4 + old_len + 1,
 *           *new_end_pos == pos + 4 + new_len + 1
 */
#include <config.h>
#include "dbus/dbus-internals.h"
#include "verif_prelude.h"
#include "verif_ghost.h"
_Bool nondet_bool (void); int nondet_int (void); unsigned nondet_uint (void);
#define PRE(c, what) __CPROVER_assert ((c), "precondition of " what)
#define POST(c, what) __CPROVER_assert ((c), what)
#ifndef IMP
#define IMP(a, b) (!(a) || (b))
#endif
#define REACH(tag) __CPROVER_assert (0, "REACH:" tag)
#include VERIF_TU
long verif_gk, verif_gk2, verif_w, verif_w2; int verif_flag;
void _dbus_real_assert (dbus_bool_t condition, const char *condition_text, const char *file, int line, const char *func)
{ __CPROVER_assert (condition, "dbus assertion (inline helper)"); __CPROVER_assume (condition); }
static DBusString the_str; static const char the_value[] = "v"; static unsigned char word[4];
struct { int replaces, writes, inits; _Bool replace_ok, write_before_replace; int r_start, r_len, r_at, r_rlen, w_pos, w_bo; unsigned w_val; const DBusString *r_src; int new_len; int pos; } GS;
/* "Initializes a constant string" over the C string: length = strlen (ghost: arbitrary) */
void _dbus_string_init_const (DBusString *s, const char *value) { PRE (value == the_value, "_dbus_string_init_const: the new value"); GS.inits++; GS.r_src = s; }
int _dbus_string_get_length (const DBusString *s) { PRE (s == GS.r_src, "_dbus_string_get_length: the constant string over the new value"); return GS.new_len; }
const char *_dbus_string_get_const_data_len (const DBusString *s, int start, int len) { PRE (s == &the_str && start == GS.pos && len == 4, "_dbus_string_get_const_data_len: the length word at pos"); return (const char *) word; }
/* CONTRACT C14.str.replace_len.* (enforced): FALSE => dest unchanged; TRUE => segment replaced */
dbus_bool_t _dbus_string_replace_len (const DBusString *source, int start, int len, DBusString *dest, int replace_at, int replace_len)
{
  PRE (dest == &the_str && source == GS.r_src, "_dbus_string_replace_len: new value into the string");
  GS.replaces++; GS.r_start = start; GS.r_len = len; GS.r_at = replace_at; GS.r_rlen = replace_len;
  GS.replace_ok = nondet_bool (); return GS.replace_ok;
}
void verif_stub_marshal_set_uint32 (DBusString *s, int pos, dbus_uint32_t value, int byte_order)
{
  PRE (s == &the_str, "_dbus_marshal_set_uint32: the string");
  if (GS.replaces == 0 || !GS.replace_ok) GS.write_before_replace = 1;
  PRE (GS.replaces == 1 && GS.replace_ok, "_dbus_marshal_set_uint32: the string is written only after the fallible replace succeeded");
  GS.writes++; GS.w_pos = pos; GS.w_val = value; GS.w_bo = byte_order;
}
void harness (void)
{
  GS.replaces = GS.writes = GS.inits = 0; GS.write_before_replace = 0; GS.r_src = NULL;
  GS.new_len = nondet_int (); __CPROVER_assume (GS.new_len >= 0 && GS.new_len <= 0x0fffffff);
  GS.pos = nondet_int (); __CPROVER_assume (GS.pos >= 0 && GS.pos <= 0x0fffffff && GS.pos % 4 == 0);
  for (int i = 0; i < 4; i++) word[i] = (unsigned char) nondet_uint ();
  int bo = nondet_bool () ? DBUS_LITTLE_ENDIAN : DBUS_BIG_ENDIAN;
  unsigned old_len = bo == DBUS_LITTLE_ENDIAN ? (word[0] | (word[1] << 8) | (word[2] << 16) | ((unsigned) word[3] << 24)) : (word[3] | (word[2] << 8) | (word[1] << 16) | ((unsigned) word[0] << 24));
  __CPROVER_assume (old_len <= 0x0fffffff);      /* validated message: string lengths are below 128 MiB */
  int oe = 77, ne = 88;
#if VERIF_FN == 2
  const char *vp = the_value;
  dbus_bool_t ret = _dbus_marshal_set_basic (&the_str, GS.pos, nondet_bool () ? DBUS_TYPE_STRING : DBUS_TYPE_OBJECT_PATH, &vp, bo, &oe, &ne);
#else
  dbus_bool_t ret = set_string (&the_str, GS.pos, the_value, bo, &oe, &ne);
#endif
  POST (GS.replaces == 1 && !GS.write_before_replace, "set_string: the fallible replace runs exactly once and before anything is written");
  POST (GS.r_start == 0 && GS.r_len == GS.new_len && GS.r_at == GS.pos + 4 && (unsigned) GS.r_rlen == old_len, "set_string: replaces exactly the old text (length word decoded in the given byte order) by the whole new value");
  POST ((ret != FALSE) == (GS.replace_ok != 0), "set_string: FALSE <=> the replace ran out of memory");
  POST (IMP (!ret, GS.writes == 0 && oe == 77 && ne == 88), "set_string: FALSE => nothing written: length word not rewritten, end positions untouched");
  POST (IMP (ret, GS.writes == 1 && GS.w_pos == GS.pos && GS.w_val == (unsigned) GS.new_len && GS.w_bo == bo), "set_string: TRUE => the length word at pos becomes the new length, in the given byte order");
  POST (IMP (ret, oe == GS.pos + 4 + (int) old_len + 1 && ne == GS.pos + 4 + GS.new_len + 1), "set_string: TRUE => old / new end positions as documented (behind the terminating nul)");
  if (ret) REACH ("edited"); else REACH ("oom");
}
