/* Ghost model shared by the C11 framing lemmas (F2 load_message, F3 loader loop): only the
 * *lengths* of loader->data / message->header.data / message->body and the order of events matter. */
#ifndef VERIF_C11_LOADER_H
#define VERIF_C11_LOADER_H
struct verif_loader_ghost {
  int len;               /* length of loader->data */
  int hlen, blen;        /* lengths of message->header.data and message->body */
  int consumed;          /* bytes deleted from the front of loader->data */
  int deletes;           /* number of _dbus_string_delete calls on loader->data */
  int header_loads, body_validations, copies;
  int appended, removed; /* list events for the message */
  int loaded;            /* F3: successful load_message calls */
  int loaded_after_corrupt;
  int new_empty, unrefs;
  int body_validated_before_copy, copy_before_delete;
};
extern struct verif_loader_ghost G_ld;
#endif
