/* C06: rule semantics of bus/policy.c against dbus-daemon(1) (spec/policy_ref.h), B units.
 *   -DVERIF_WHAT=0  bus_client_policy_check_can_send
 *   -DVERIF_WHAT=1  bus_client_policy_check_can_receive
 *   -DVERIF_WHAT=2  bus_client_policy_check_can_own -> bus_rules_check_can_own
 *   -DVERIF_N=k     rule list of length <= k, built by the harness (no mempool)
 *   -DVERIF_GAP=0   main unit: everything outside the two documented man-page/code gaps G1, G2
 *   -DVERIF_GAP=1/2 the gap region G1 / G2 only (policy_ref.h, end): red on the pinned tree; role finder until triaged
 * Real code: bus/policy.c (pristine, #included), dbus/dbus-list.c, dbus/dbus-string.c.
 * Message accessors and registry questions are contracts written as stubs over the facts record F. */
#include "c06_common.h"

void harness (void)
{
  /* rules and list nodes are separate objects (as from malloc), not array elements */
  static BusPolicyRule R0, R1, R2; static DBusList L0, L1, L2;
  BusPolicyRule *const Rp[3] = { &R0, &R1, &R2 }; DBusList *const Lp[3] = { &L0, &L1, &L2 };
#define R(i) (*Rp[i])
#define L(i) (*Lp[i])
  BusClientPolicy pol; spec_rule S[VERIF_N];
  int v[VERIF_N], al[VERIF_N];
  int n = nondet_int (); __CPROVER_assume (n >= 0 && n <= VERIF_N);
  havoc_facts (); __CPROVER_assume (facts_ok ());
  pol.refcount = 1; pol.rules = NULL;
  for (int i = 0; i < VERIF_N; i++) if (i < n)
    {
      build_rule (&R (i), &S[i]);
      L (i).data = &R (i);
      if (pol.rules == NULL) { L (i).next = L (i).prev = &L (i); pol.rules = &L (i); }
      else { L (i).next = pol.rules; L (i).prev = pol.rules->prev; pol.rules->prev->next = &L (i); pol.rules->prev = &L (i); }
    }
  dbus_bool_t ret; dbus_int32_t toggles = nondet_int (); dbus_bool_t log = nondet_int ();
  int in_g1 = 0, in_g2 = spec_in_gap_G2 (&F);
#if VERIF_WHAT == 0
  ret = bus_client_policy_check_can_send (&pol, REG, F.requested_reply, F.peer_is_connection ? PEER : NULL, MSG, &toggles, &log);
  for (int i = 0; i < VERIF_N; i++) if (i < n) { v[i] = spec_send_rule_applies (&S[i], &F); al[i] = S[i].allow; in_g1 |= (S[i].kind == 0 && spec_in_gap_G1 (&S[i], &F)); }
#elif VERIF_WHAT == 1
  DBusConnection *proposed = (DBusConnection *) &o_prop;
  DBusConnection *addressed = F.proposed_is_addressed ? proposed : (nondet_bool () ? (DBusConnection *) &o_addr : NULL);
  ret = bus_client_policy_check_can_receive (&pol, REG, F.requested_reply, F.peer_is_connection ? PEER : NULL, addressed, proposed, MSG, &toggles);
  for (int i = 0; i < VERIF_N; i++) if (i < n) { v[i] = spec_receive_rule_applies (&S[i], &F); al[i] = S[i].allow; in_g1 |= (S[i].kind == 1 && spec_in_gap_G1 (&S[i], &F)); }
#else
  DBusString name; const char *nm = pick (); _dbus_string_init_const (&name, nm);
  ret = bus_client_policy_check_can_own (&pol, &name);
  for (int i = 0; i < VERIF_N; i++) if (i < n) { v[i] = spec_own_rule_applies (&S[i], nm); al[i] = S[i].allow; }
  in_g2 = 0;
#endif
  int d = spec_decide (n, v, al);
  int unspec = 0; for (int i = 0; i < VERIF_N; i++) if (i < n && v[i] == SPEC_UNSPEC) unspec = 1;
  __CPROVER_assert (ret == 0 || ret == 1, "post0 result is a boolean");
#if VERIF_GAP == 0
  __CPROVER_assert (IMP (d != SPEC_UNSPEC && !in_g1 && !in_g2, ret == d), "post1 decision == man page: last matching rule decides, nothing allowed by default");
#if VERIF_WHAT != 2
  __CPROVER_assert (IMP (!unspec && !in_g1 && !in_g2, toggles == spec_count (n, v)), "post2 toggles == number of matching rules");
#endif
#elif VERIF_GAP == 1
  __CPROVER_assert (IMP (d != SPEC_UNSPEC && in_g1 && !in_g2, ret == d), "gapG1 decision == man page for <allow eavesdrop=true> with requested_reply=true and an unrequested reply");
#else
  __CPROVER_assert (IMP (d != SPEC_UNSPEC && in_g2, ret == d), "gapG2 decision == man page for non-reply messages carrying REPLY_SERIAL (requested_reply is to be ignored)");
#endif
  /* frame: the policy is not modified by a check */
  { int k = nondet_int (); __CPROVER_assume (k >= 0 && k < VERIF_N);
    if (k < n) __CPROVER_assert (pol.rules == &L (0) && L (k).data == &R (k) && L (k).next == &L (k + 1 < n ? k + 1 : 0) && L (k).prev == &L (k == 0 ? n - 1 : k - 1)
                                 && R (k).refcount == 1 && R (k).allow == (unsigned) S[k].allow, "post3 rule list unchanged");
    if (n == 0) __CPROVER_assert (pol.rules == NULL, "post3 empty rule list unchanged"); }
  /* vacuity guards */
#if VERIF_GAP == 0
  if (ret && d == 1 && !in_g1 && !in_g2) REACH ("allowed");
  if (!ret && d == 0 && n > 0 && spec_count (n, v) > 0 && !in_g1 && !in_g2) REACH ("denied-by-rule");
  if (!ret && spec_count (n, v) == 0 && !unspec) REACH ("denied-by-default");
#if VERIF_WHAT != 2
  if (d == SPEC_UNSPEC) REACH ("man-page-silent");
#endif
#if VERIF_N >= 3
  if (n == 3 && v[0] == SPEC_YES && v[2] == SPEC_YES && al[0] != al[2] && !in_g1 && !in_g2) REACH ("last-overrides-first");
  if (n == 3 && v[0] == SPEC_YES && v[1] == SPEC_NO && v[2] == SPEC_NO && al[0] && !in_g1 && !in_g2) REACH ("first-stands");
#endif
#else
  if (d != SPEC_UNSPEC && (VERIF_GAP == 1 ? (in_g1 && !in_g2) : in_g2)) REACH ("gap-region");
#endif
}
