/* C08.handle_auth / process_data / find_mech / lookup_command — the argument parsers of dbus/dbus-auth.c
 * (real code) on the DBusString contract model.
 *
 *  handle_auth (1)   [spec, WaitingForAuth: "Receive AUTH -> send REJECTED [mechs]"; "Receive AUTH MECH RESP: MECH not valid
 *                     mechanism -> send REJECTED [mechs]"; otherwise MECH(RESP) decides]
 *     requires  state WaitingForAuth, AUTH_INV
 *     ensures   no arguments                => the mechanism lookup and the mechanism are not consulted; TRUE => REJECTED sent
 *     ensures   lookup says "not valid"     => TRUE => REJECTED sent, mechanism not consulted
 *     ensures   lookup finds MECH           => process_data called exactly once with MECH's server data function and the
 *                                              text after the blanks following the mechanism name; auth->mech == MECH while it runs
 *     ensures   FALSE (OOM)                 => state, failure count, replies unchanged; auth->mech is NULL or what it was
 *     ensures   AUTH_INV; no temporary leaked
 *  process_data (2)  [spec: "DATA <data in hex encoding>"; "ERROR ... did not understand the arguments to the command"]
 *     ensures   argument not entirely hex   => mechanism not consulted, send_error called once, result is send_error's
 *     ensures   argument hex                => mechanism's data function called exactly once on the decoded bytes, no ERROR
 *     ensures   decoding OOM                => FALSE, nothing called
 *  find_mech (3)     returns NULL when an allowed-list exists and does not contain the name; else the table entry whose name
 *                    equals the argument (first match), else NULL
 *  lookup_command (4) returns the enum member whose protocol name (specification's command list) equals the word, else UNKNOWN
 */
#include "c08_model.h"
#include VERIF_TU
#include "c08_auth.h"

#ifndef VERIF_FN
#define VERIF_FN 1
#endif

/* ghost of the lookups */
const DBusAuthMechanismHandler *g_found; int g_find_calls;
int g_pd_calls; DBusAuthDataFunction g_pd_func; int g_pd_args_len; const DBusAuthMechanismHandler *g_pd_mech_at_call;

/* CONTRACT find_mech (proved in C08.find_mech) */
const DBusAuthMechanismHandler *verif_stub_find_mech (const DBusString *name, char **allowed_mechs)
{
  PRE (STR_LIVE_OK (name), "find_mech");
  g_find_calls++;
  int r = nondet_int (); __CPROVER_assume (r >= 0 && r <= 3);
  if (g_dirty != 0) r = g_dirty;                 /* A-retry: the interrupted AUTH <mech> line is parsed again */
  g_found = r == 0 ? NULL : &all_mechanisms[r - 1];
  return g_found;
}
/* process_data, counting wrapper around its contract */
dbus_bool_t verif_stub_process_data_counted (DBusAuth *auth, const DBusString *args, DBusAuthDataFunction data_func)
{
  g_pd_calls++; g_pd_func = data_func; g_pd_args_len = SLEN (args); g_pd_mech_at_call = auth->mech;
  return verif_stub_process_data (auth, args, data_func);
}


void harness (void)
{
  DBusAuthServer S; DBusAuth *auth = &S.base;
  DBusString args;
  c08_make_auth (&S);
  c08_havoc_string (&args);
  __CPROVER_assume (AUTH_INV (auth));
  struct c08_snap old = c08_take (auth);
  G.sent = 0; G.last = 0; G.cls = 0; G.mech = 0; G.mech_calls = 0; G.send_rejected_calls = 0; G.send_error_calls = 0;

#if VERIF_FN == 1
  __CPROVER_assume (ST (auth) == S_WFA);
  __CPROVER_assume (g_dirty == 0 || SLEN (&args) > 0);          /* A-retry */
  int args_len = SLEN (&args);
  dbus_bool_t ret = handle_auth (auth, &args);
  ASSERT_AUTH_INV (auth);
  POST (IMP (args_len == 0, g_find_calls == 0 && g_pd_calls == 0 && G.mech_calls == 0), "handle_auth: AUTH without arguments consults no mechanism");
  POST (IMP (args_len == 0 && ret, G.send_rejected_calls == 1 && G.last == SPEC_REPLY_REJECTED), "handle_auth: AUTH without arguments => REJECTED [mechs]");
  POST (IMP (args_len > 0 && ret, g_find_calls == 1), "handle_auth: the mechanism name is looked up once");
  POST (IMP (g_find_calls == 1 && g_found == NULL, g_pd_calls == 0 && G.mech_calls == 0), "handle_auth: not a valid mechanism => no mechanism consulted");
  POST (IMP (g_find_calls == 1 && g_found == NULL && ret, G.send_rejected_calls == 1 && G.last == SPEC_REPLY_REJECTED), "handle_auth: not a valid mechanism => REJECTED [mechs]");
  POST (IMP (g_find_calls == 1 && g_found != NULL, g_pd_calls == 1 && g_pd_func == g_found->server_data_func && g_pd_mech_at_call == g_found && G.send_rejected_calls == 0),
        "handle_auth: valid mechanism => its server data function gets the initial response, exactly once");
  POST (IMP (g_pd_calls == 1, g_pd_args_len <= args_len - 1), "handle_auth: the initial response is the text after the mechanism name");
  POST (IMP (!ret, ST (auth) == old.state && S.failures == old.failures && G.sent == 0 && (auth->mech == NULL || auth->mech == old.mech)), "handle_auth: FALSE => state, failures, replies unchanged, no new mechanism selected");
  POST (IMP (ret, G.sent == 1), "handle_auth: TRUE => exactly one reply");
  POST (IMP (ret && ST (auth) == S_WFD, auth->mech == g_found && g_found != NULL && G.last == SPEC_REPLY_DATA), "handle_auth: WaitingForData only with the named mechanism selected, after DATA");
  POST (IMP (ST (auth) == S_WFB, ret && G.last == SPEC_REPLY_OK && g_mech_ok == MECHID (g_found)), "handle_auth: WaitingForBegin only via the named mechanism's OK");
  POST (ST (auth) == S_WFA || ST (auth) == S_WFD || ST (auth) == S_WFB || ST (auth) == S_DISC, "handle_auth: never Authenticated");
  if (ret && ST (auth) == S_WFB) REACH ("ok");
  if (ret && ST (auth) == S_WFD) REACH ("continue");
  if (ret && G.last == SPEC_REPLY_REJECTED && g_found != NULL) REACH ("mech-rejected");
  if (ret && G.last == SPEC_REPLY_REJECTED && g_find_calls == 1 && g_found == NULL) REACH ("invalid-mech");
  if (ret && args_len == 0) REACH ("no-args");
  if (ret && G.last == SPEC_REPLY_ERROR) REACH ("bad-hex");
  if (!ret) REACH ("oom");
#elif VERIF_FN == 2
  __CPROVER_assume ((ST (auth) == S_WFA || ST (auth) == S_WFD) && MECHID (auth->mech) != 0);
  __CPROVER_assume (g_dirty == 0 || g_dirty == MECHID (auth->mech));
  g_hex_decode_calls = 0;
  dbus_bool_t ret = process_data (auth, &args, verif_stub_mech_data);
  ASSERT_AUTH_INV (auth);
  POST (g_hex_decode_calls <= 1 && IMP (ret || G.mech_calls > 0 || G.send_error_calls > 0, g_hex_decode_calls == 1), "process_data: the argument is hex-decoded once, before anything else happens");
  POST (IMP (G.mech_calls > 0, g_hex_decode_complete && G.mech_calls == 1 && G.send_error_calls == 0), "process_data: the mechanism sees only completely decoded hex, once, and then no ERROR is sent");
  POST (IMP (G.send_error_calls > 0, !g_hex_decode_complete && G.send_error_calls == 1 && G.mech_calls == 0), "process_data: ERROR only for an argument that is not hex, mechanism not consulted");
  POST (IMP (ret, G.mech_calls + G.send_error_calls == 1 && G.sent == 1), "process_data: TRUE => exactly one reply (ERROR or the mechanism's)");
  POST (IMP (G.send_error_calls == 1, ST (auth) == old.state && S.failures == old.failures && auth->mech == old.mech), "process_data: ERROR leaves the conversation where it was");
  POST (IMP (!ret, ST (auth) == old.state && S.failures == old.failures && G.sent == 0), "process_data: FALSE => state, failures, replies unchanged");
  if (ret && G.send_error_calls) REACH ("bad-hex"); if (ret && G.mech_calls) REACH ("mechanism-ran"); if (!ret) REACH ("oom");
#elif VERIF_FN == 3
  DBusString name; c08_havoc_string (&name);
  char **allowed = nondet_bool () ? c08_allowed : NULL;
  g_contains_calls = 0; g_eqc_true = NULL;
  const DBusAuthMechanismHandler *m = find_mech (&name, allowed);
  POST (m == NULL || m == &all_mechanisms[0] || m == &all_mechanisms[1] || m == &all_mechanisms[2], "find_mech: result is NULL or an entry of the mechanism table");
  POST (IMP (allowed != NULL && !g_allowed_answer, m == NULL), "find_mech: a name that is not in the allowed list is not a valid mechanism");
  POST (IMP (allowed != NULL, g_contains_calls == 1), "find_mech: the allowed list is consulted");
  POST (IMP (m != NULL, g_eqc_true == m->mechanism), "find_mech: the entry returned is the one whose name equals the argument");
  POST (IMP (m == NULL && (allowed == NULL || g_allowed_answer), g_eqc_true == NULL), "find_mech: NULL only if no table name equals the argument");
  POST (all_mechanisms[0].server_decode_func == NULL && all_mechanisms[1].server_decode_func == NULL && all_mechanisms[2].server_decode_func == NULL &&
        all_mechanisms[0].server_encode_func == NULL && all_mechanisms[1].server_encode_func == NULL && all_mechanisms[2].server_encode_func == NULL && all_mechanisms[3].mechanism == NULL,
        "find_mech: the mechanism table has three entries and none has an encode/decode layer");
  if (m) REACH ("found"); else REACH ("not-found");
#elif VERIF_FN == 4
  DBusString word; c08_havoc_string (&word);
  g_eqc_true = NULL;
  DBusAuthCommand c = lookup_command_from_name (&word);
  /* the specification's command names */
  POST (IMP (c == DBUS_AUTH_COMMAND_AUTH, g_eqc_true && lit_eq (g_eqc_true, "AUTH")), "lookup: AUTH");
  POST (IMP (c == DBUS_AUTH_COMMAND_CANCEL, g_eqc_true && lit_eq (g_eqc_true, "CANCEL")), "lookup: CANCEL");
  POST (IMP (c == DBUS_AUTH_COMMAND_DATA, g_eqc_true && lit_eq (g_eqc_true, "DATA")), "lookup: DATA");
  POST (IMP (c == DBUS_AUTH_COMMAND_BEGIN, g_eqc_true && lit_eq (g_eqc_true, "BEGIN")), "lookup: BEGIN");
  POST (IMP (c == DBUS_AUTH_COMMAND_REJECTED, g_eqc_true && lit_eq (g_eqc_true, "REJECTED")), "lookup: REJECTED");
  POST (IMP (c == DBUS_AUTH_COMMAND_OK, g_eqc_true && lit_eq (g_eqc_true, "OK")), "lookup: OK");
  POST (IMP (c == DBUS_AUTH_COMMAND_ERROR, g_eqc_true && lit_eq (g_eqc_true, "ERROR")), "lookup: ERROR");
  POST (IMP (c == DBUS_AUTH_COMMAND_NEGOTIATE_UNIX_FD, g_eqc_true && lit_eq (g_eqc_true, "NEGOTIATE_UNIX_FD")), "lookup: NEGOTIATE_UNIX_FD");
  POST (IMP (c == DBUS_AUTH_COMMAND_AGREE_UNIX_FD, g_eqc_true && lit_eq (g_eqc_true, "AGREE_UNIX_FD")), "lookup: AGREE_UNIX_FD");
  POST ((c == DBUS_AUTH_COMMAND_UNKNOWN) == (g_eqc_true == NULL), "lookup: UNKNOWN exactly when no command name equals the word");
  POST (c >= DBUS_AUTH_COMMAND_AUTH && c <= DBUS_AUTH_COMMAND_AGREE_UNIX_FD, "lookup: result is an enum member");
  if (c == DBUS_AUTH_COMMAND_UNKNOWN) REACH ("unknown"); if (c == DBUS_AUTH_COMMAND_BEGIN) REACH ("begin"); if (c == DBUS_AUTH_COMMAND_AGREE_UNIX_FD) REACH ("last-entry");
#endif
  POST (g_str_live == 0, "no temporary string leaked");
}
