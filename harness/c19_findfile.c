/* C19: desktop_file_for_name (bus/activation-helper.c, static): where the helper looks for the service
 * file.  B unit: the list of configured service directories has <= VERIF_NDIRS (3) entries, built in the
 * harness; the real list accessors of dbus/dbus-list.c are linked.  String building and file loading
 * are contracts written as stubs that record WHAT is concatenated.
 * Oracle (spec/activation_ref.h): A2 "The service filename of "org.me.test.service" is then searched for
 * in /usr/share/dbus-1/system-services or other specified directories"; S2 "the name of a service
 * description file must be its well-known name plus .service"; D1 "the first directory listed in the
 * configuration file takes precedence". */
#include <config.h>
#include "dbus/dbus-internals.h"
#include <stdlib.h>
#include <string.h>
#include VERIF_TU
_Bool nondet_bool(void); int nondet_int(void); unsigned nondet_unsigned(void);
#define PRE(c, what) __CPROVER_assert((c), "precondition of " what)
#define IMP(a,b) (!(a) || (b))
#define REACH(tag) __CPROVER_assert(0, "REACH:" tag)
#define ERR_SET(e) ((e)->name != NULL)
#ifndef VERIF_NDIRS
#define VERIF_NDIRS 3
#endif
static const char some_string[] = "s";
void _dbus_real_assert (dbus_bool_t condition, const char *condition_text, const char *file, int line, const char *func)
{ __CPROVER_assert(condition, "dbus internal assertion"); __CPROVER_assume(condition); }
void _dbus_verbose_real (const char *file, const int line, const char *function, const char *format, ...) {}
static _Bool same_lit (const char *p, const char *lit, unsigned n) { for (unsigned i = 0; i < n; i++) if (p[i] != lit[i]) return 0; return 1; }
#define SAME_LIT(p, lit) same_lit((p), (lit), sizeof(lit))
/* ghost model of the two DBusStrings: the sequence of pieces appended */
struct gstr { const DBusString *id; _Bool inited; unsigned n; const char *piece[3]; _Bool has_file; };
static struct gstr S[2]; static unsigned n_inited;
static struct gstr *gs (const DBusString *s) { if (S[0].id == s) return &S[0]; if (S[1].id == s) return &S[1]; return NULL; }
static const char *g_name; static char o_parser; static char dirs[VERIF_NDIRS][2]; static unsigned n_dirs;
static DBusList links[VERIF_NDIRS]; static DBusList *dir_list;
static char files[VERIF_NDIRS];                     /* one BusDesktopFile object per directory */
struct { _Bool found[VERIF_NDIRS], oom[VERIF_NDIRS]; unsigned loads; int load_dir[VERIF_NDIRS + 1]; _Bool path_ok[VERIF_NDIRS + 1]; } F;
void dbus_error_init (DBusError *e) { e->name = NULL; e->message = NULL; }
void dbus_error_free (DBusError *e) { e->name = NULL; e->message = NULL; }
dbus_bool_t dbus_error_is_set (const DBusError *e) { return ERR_SET(e); }
static const char oom_name[] = DBUS_ERROR_NO_MEMORY;
dbus_bool_t dbus_error_has_name (const DBusError *e, const char *name) { PRE(e != NULL && name != NULL && SAME_LIT(name, DBUS_ERROR_NO_MEMORY), "dbus_error_has_name(NoMemory)"); return e->name != NULL && SAME_LIT(e->name, DBUS_ERROR_NO_MEMORY); }
void dbus_move_error (DBusError *src, DBusError *dest) { PRE(src != NULL && (dest == NULL || !ERR_SET(dest)), "dbus_move_error: destination clear"); if (dest) { dest->name = src->name; dest->message = src->message; } src->name = NULL; src->message = NULL; }
void verif_stub_dbus_set_error (DBusError *e, const char *name, const char *format, ...) { PRE(name != NULL && (e == NULL || !ERR_SET(e)), "dbus_set_error: error not already set"); if (e) { e->name = name; e->message = some_string; } }
void dbus_set_error_const (DBusError *e, const char *name, const char *message) { PRE(name != NULL && (e == NULL || !ERR_SET(e)), "dbus_set_error_const: error not already set"); if (e) { e->name = name; e->message = message; } }
dbus_bool_t _dbus_string_init (DBusString *str) { if (nondet_bool()) return 0; PRE(n_inited < 2, "_dbus_string_init: two strings"); S[n_inited].id = str; S[n_inited].inited = 1; S[n_inited].n = 0; S[n_inited].has_file = 0; n_inited++; return 1; }
void _dbus_string_free (DBusString *str) { struct gstr *g = gs(str); PRE(g != NULL && g->inited, "_dbus_string_free: initialised string"); g->inited = 0; }
dbus_bool_t _dbus_string_append (DBusString *str, const char *buffer) { struct gstr *g = gs(str); PRE(g != NULL && g->inited && buffer != NULL && g->n < 3, "_dbus_string_append"); if (nondet_bool()) return 0; g->piece[g->n++] = buffer; return 1; }
dbus_bool_t _dbus_string_set_length (DBusString *str, int length) { struct gstr *g = gs(str); PRE(g != NULL && g->inited && length == 0, "_dbus_string_set_length(0)"); g->n = 0; g->has_file = 0; return 1; }
/* is this ghost string exactly <name> ".service" ? */
static _Bool is_service_filename (struct gstr *g) { return g && g->inited && g->n == 2 && g->piece[0] == g_name && SAME_LIT(g->piece[1], ".service"); }
dbus_bool_t _dbus_concat_dir_and_file (DBusString *dir, const DBusString *next_component)
{ struct gstr *d = gs(dir), *f = gs(next_component); PRE(d && f && d != f && d->n == 1 && !d->has_file, "_dbus_concat_dir_and_file: one directory, then the file name");
  PRE(is_service_filename(f), "_dbus_concat_dir_and_file: file name is exactly <name>.service (S2)");
  if (nondet_bool()) return 0; d->has_file = 1; return 1; }
const char *_dbus_string_get_const_data (const DBusString *str) { return some_string; }
char *_dbus_string_get_data (DBusString *str) { static char b[2]; return b; }
DBusList **bus_config_parser_get_service_paths (BusConfigParser *parser) { PRE(parser == (BusConfigParser *)&o_parser, "bus_config_parser_get_service_paths"); return &dir_list; }
BusDesktopFile *bus_desktop_file_load (DBusString *filename, DBusError *error)
{ struct gstr *p = gs(filename); PRE(p && p->n == 1 && p->has_file, "bus_desktop_file_load: path is <dir>/<name>.service");
  PRE(error != NULL && !ERR_SET(error), "bus_desktop_file_load: error clear");
  int k = -1; for (int i = 0; i < VERIF_NDIRS; i++) if ((unsigned)i < n_dirs && p->piece[0] == dirs[i]) k = i;
  PRE(k >= 0, "bus_desktop_file_load: the directory is one of the configured service directories (A2)");
  PRE(F.loads < VERIF_NDIRS, "bus_desktop_file_load: at most one attempt per directory");
  F.load_dir[F.loads] = k; F.loads++; __CPROVER_assume(k >= 0);
  if (F.found[k]) return (BusDesktopFile *)&files[k];
  error->name = F.oom[k] ? oom_name : DBUS_ERROR_FAILED; return NULL; }
void harness (void)
{
  static char name_buf[4]; g_name = name_buf; DBusError err; err.name = NULL; err.message = NULL;
  n_dirs = nondet_unsigned(); __CPROVER_assume(n_dirs <= VERIF_NDIRS);
  for (int i = 0; i < VERIF_NDIRS; i++) { links[i].data = dirs[i]; links[i].next = &links[((unsigned)i + 1 < n_dirs) ? i + 1 : 0]; links[i].prev = &links[i == 0 ? (n_dirs ? n_dirs - 1 : 0) : i - 1]; F.found[i] = nondet_bool(); F.oom[i] = nondet_bool(); }
  dir_list = n_dirs ? &links[0] : NULL; F.loads = 0; n_inited = 0;
  BusDesktopFile *ret = desktop_file_for_name ((BusConfigParser *)&o_parser, g_name, &err);
  /* attempts are made in list order, one per directory, and stop at the first hit or OOM */
  for (int i = 0; i < VERIF_NDIRS; i++) if ((unsigned)i < F.loads) __CPROVER_assert(F.load_dir[i] == i, "post1 directories are tried in configuration order (D1)");
  if (ret != NULL)
    {
      int j = F.loads - 1;
      __CPROVER_assert(F.loads >= 1 && ret == (BusDesktopFile *)&files[j] && F.found[j], "post2 the file returned is the one loaded from the first directory that has <name>.service");
      for (int i = 0; i < VERIF_NDIRS; i++) if (i < j) __CPROVER_assert(!F.found[i] && !F.oom[i], "post3 every earlier directory was tried and had no such file");
      __CPROVER_assert(!ERR_SET(&err), "post4 success leaves the error clear");
      REACH("found"); if (j == 2) REACH("found-in-third");
    }
  else
    {
      __CPROVER_assert(ERR_SET(&err), "post5 NULL carries an error");
      _Bool any = 0; for (int i = 0; i < VERIF_NDIRS; i++) if ((unsigned)i < n_dirs && F.found[i]) any = 1;
      __CPROVER_assert(IMP(!SAME_LIT(err.name, DBUS_ERROR_NO_MEMORY), F.loads == n_dirs && !any), "post6 'not found' only after every configured directory was tried without a hit");
      REACH("not-found-or-oom"); if (F.loads == n_dirs && n_dirs == 3) REACH("all-three-tried");
    }
  __CPROVER_assert(!S[0].inited && !S[1].inited, "post7 both scratch strings released");
}
