/* C01.5a (B): the real body validator (_dbus_validate_body_with_reason -> validate_body_helper with the
 * real types-only DBusTypeReader) agrees EXACTLY with the reference decoder spec/body_ref.h for one
 * constant signature VERIF_SIG, every body of at most VERIF_N bytes, byte order VERIF_LE.
 * CBMC's pointer checks are on, so this is also the bounded memory-safety statement for the validator. */
#include "verif_str.h"
#include "dbus/dbus-marshal-validate.h"
#include "dbus/dbus-protocol.h"
#ifndef VERIF_N
#define VERIF_N 16
#endif
#define BODY_REF_MAXSTR (VERIF_N + 1)
#define SIG_REF_MAXRUN (VERIF_N + 1)
#include "body_ref.h"
long verif_gk, verif_gk2, verif_w, verif_w2; int verif_flag;
unsigned char in_buf[VERIF_N + 16] __attribute__ ((aligned (8)));
int in_len;
unsigned char nondet_uchar (void); int nondet_int (void);
static const char the_sig[] = VERIF_SIG;
void harness (void)
{
  DBusRealString body, sig; int i; DBusValidity got; int want;
  in_len = nondet_int ();
  __CPROVER_assume (in_len >= 0 && in_len <= VERIF_N);
  for (i = 0; i < VERIF_N; i++) in_buf[i] = nondet_uchar ();
#ifdef VERIF_BODY_ASSUME
  VERIF_BODY_ASSUME
#endif
  body.str = in_buf; body.len = in_len; body.allocated = VERIF_N + 16; body.constant = 1; body.locked = 1; body.valid = 1; body.align_offset = 0;
  sig.str = (unsigned char *) the_sig; sig.len = sizeof (the_sig) - 1; sig.allocated = sizeof (the_sig) + 8; sig.constant = 1; sig.locked = 1; sig.valid = 1; sig.align_offset = 0;
  got = _dbus_validate_body_with_reason ((DBusString *) &sig, 0, VERIF_LE ? DBUS_LITTLE_ENDIAN : DBUS_BIG_ENDIAN, NULL, (DBusString *) &body, 0, in_len);
  want = body_ref_valid (the_sig, in_buf, in_len, VERIF_LE);
  __CPROVER_assert ((got == DBUS_VALID) == (want != 0), "body validator agrees with the reference decoder");
  if (got == DBUS_VALID) REACH("accept"); else REACH("reject");
}
