/* C19: bus_activation_activate_service (bus/activation.c).  P-stub route.  The function is loop-free; its
 * single recursive call (asking to start org.freedesktop.systemd1 itself) is executed as real code: in the
 * inner call the name is the literal "org.freedesktop.systemd1" and systemd activation is on, so the inner
 * call returns before it can recurse again (CBMC explores both levels completely, no unwinding bound).
 * Every callee is a contract written as a stub; the table of pending activations is a two-entry ghost map
 * (key 1 = "org.freedesktop.systemd1", key 0 = any other name), never an executed hash table.
 * bus_pending_activation_unref (the table's value destructor, which walks the waiter list) is bound to its
 * contract; the list walk itself is exercised by C19.send_pending_n3.
 * Oracle (spec/activation_ref.h): S1, S5, S8, S4; property C19 "starts the service at most once per
 * activation, holds the messages"; dbus-daemon(1) <limit name="max_pending_service_starts">. */
#include <config.h>
#include "dbus/dbus-internals.h"
#include <stdlib.h>
#include <stddef.h>
#include <string.h>
#include VERIF_TU
#include "../stubs/c19_act_common.c"
static char o_ptable, o_etable, o_ctx, o_txn, o_txn2, o_conn, o_msg, o_reply, o_signal, o_registry, o_service, o_sd_service, o_sd_conn, o_timeout, o_loop, o_sitter;
static const char n_systemd[] = "org.freedesktop.systemd1"; static const char n_other[] = "x.y";
#define KEY(p) ((p)[0] == 'o' ? 1 : 0)
static BusActivation A; static BusActivationEntry E; static char e_exec[] = "/bin/e", e_user[] = "u", e_unit[] = "e.service", helper_path[] = "/h";
struct {
  struct { _Bool systemd_activation, entry_found, policy_ok, active, sd_active, helper, entry_has_user, entry_has_unit, argv_ok, env_ok, envp_ok, spawn_ok, watch_ok, sd_dispatch_ok; int limit; } in;
  BusPendingActivation *map[2]; _Bool was_pending[2];
  unsigned lookups, policy_checks, driver_sends, msg_refs, msg_unrefs, conn_refs, conn_unrefs, sig_refs, sig_unrefs, appended[2], inserted[2], removed[2], freed[2], released_entries, prepended,
           hooks, timeouts_new, timeouts_added, spawns, sd_dispatches, txn2_new, txn2_exec, txn2_cancel, captures, reply_unrefs;
  BusPendingActivationEntry *held[2]; _Bool spawn_argv_helper, spawn_argv_exec;
  void *hook_data[2]; unsigned held_released[2];
  const DBusString *cmd; unsigned cmd_n; const char *cmd_piece[3];
} G;
/* ---- configuration / context ---- */
int bus_context_get_max_pending_activations (BusContext *c) { return G.in.limit; }
dbus_bool_t bus_context_get_systemd_activation (BusContext *c) { return G.in.systemd_activation; }
BusRegistry *bus_context_get_registry (BusContext *c) { return (BusRegistry *)&o_registry; }
BusRegistry *bus_connection_get_registry (DBusConnection *c) { PRE(c != NULL, "bus_connection_get_registry: connection != NULL"); return (BusRegistry *)&o_registry; }
int bus_context_get_activation_timeout (BusContext *c) { return nondet_int(); }
DBusLoop *bus_context_get_loop (BusContext *c) { return (DBusLoop *)&o_loop; }
const char *bus_context_get_servicehelper (BusContext *c) { return G.in.helper ? helper_path : NULL; }
dbus_bool_t bus_context_get_quiet_log (BusContext *c) { return nondet_bool(); }
dbus_bool_t bus_context_get_using_syslog (BusContext *c) { return nondet_bool(); }
const char *bus_connection_get_name (DBusConnection *c) { return some_string; }
const char *bus_connection_get_loginfo (DBusConnection *c) { return some_string; }
int strcmp (const char *a, const char *b) { PRE(a != NULL && b != NULL, "strcmp"); return KEY(a) == KEY(b) ? 0 : 1; }       /* names are identified by their key (first byte) */
/* ---- service-file cache and policy ---- */
BusActivationEntry *verif_stub_find_entry (BusActivation *a, const char *service_name, DBusError *error)
{ PRE(a == &A && error != NULL && !ERR_SET(error), "activation_find_entry"); G.lookups++; if (G.in.entry_found) return &E; error->name = nondet_bool() ? DBUS_ERROR_SERVICE_UNKNOWN : DBUS_ERROR_NO_MEMORY; return NULL; }
dbus_bool_t bus_context_check_security_policy (BusContext *context, BusTransaction *transaction, DBusConnection *sender, DBusConnection *addressed, DBusConnection *proposed, DBusMessage *message, BusActivationEntry *entry, DBusError *error)
{ PRE(sender == (DBusConnection *)&o_conn && addressed == NULL && proposed == NULL && message == (DBusMessage *)&o_msg && entry == &E && transaction == (BusTransaction *)&o_txn, "bus_context_check_security_policy: the auto-starting sender's message against the activatable entry");
  PRE(G.held[0] == NULL && G.held[1] == NULL && G.spawns == 0, "bus_context_check_security_policy: before anything is held or started");
  G.policy_checks++; if (G.in.policy_ok) return 1; if (error) error->name = DBUS_ERROR_ACCESS_DENIED; return 0; }
void _dbus_string_init_const (DBusString *s, const char *v) {}
static unsigned registry_lookups;
BusService *bus_registry_lookup (BusRegistry *r, const DBusString *name) { registry_lookups++; if (G.txn2_new) return G.in.sd_active ? (BusService *)&o_sd_service : NULL; return G.in.active ? (BusService *)&o_service : NULL; }
DBusConnection *bus_service_get_primary_owners_connection (BusService *s) { return (DBusConnection *)&o_sd_conn; }
/* ---- messages ---- */
DBusMessage *dbus_message_new_method_return (DBusMessage *m) { PRE(m == (DBusMessage *)&o_msg, "dbus_message_new_method_return"); return nondet_bool() ? (DBusMessage *)&o_reply : NULL; }
DBusMessage *dbus_message_new_signal (const char *p, const char *i, const char *n) { return nondet_bool() ? (DBusMessage *)&o_signal : NULL; }
dbus_bool_t dbus_message_append_args (DBusMessage *m, int first, ...) { return nondet_bool(); }
dbus_bool_t dbus_message_set_sender (DBusMessage *m, const char *s) { return nondet_bool(); }
dbus_bool_t dbus_message_set_destination (DBusMessage *m, const char *s) { return nondet_bool(); }
DBusMessage *dbus_message_ref (DBusMessage *m) { if (m == (DBusMessage *)&o_msg) G.msg_refs++; else { PRE(m == (DBusMessage *)&o_signal, "dbus_message_ref"); G.sig_refs++; } return m; }
void dbus_message_unref (DBusMessage *m) { if (m == (DBusMessage *)&o_msg) G.msg_unrefs++; else if (m == (DBusMessage *)&o_signal) G.sig_unrefs++; else { PRE(m == (DBusMessage *)&o_reply, "dbus_message_unref"); G.reply_unrefs++; } }
DBusConnection *dbus_connection_ref (DBusConnection *c) { PRE(c == (DBusConnection *)&o_conn, "dbus_connection_ref"); G.conn_refs++; return c; }
void dbus_connection_unref (DBusConnection *c) { PRE(c == (DBusConnection *)&o_conn, "dbus_connection_unref"); G.conn_unrefs++; }
dbus_bool_t bus_transaction_send_from_driver (BusTransaction *t, DBusConnection *c, DBusMessage *m) { PRE(t == (BusTransaction *)&o_txn && c == (DBusConnection *)&o_conn && m == (DBusMessage *)&o_reply, "bus_transaction_send_from_driver: reply to the caller"); if (nondet_bool()) return 0; G.driver_sends++; return 1; }
/* ---- memory ---- */
void *dbus_malloc0 (size_t n) { return nondet_bool() ? calloc(1, n) : NULL; }
void dbus_free (void *p) { free(p); }
char *_dbus_strdup (const char *s) { if (s == NULL || nondet_bool()) return NULL; char *c = malloc(2); __CPROVER_assume(c != NULL); c[0] = s[0]; c[1] = 0; return c; }
/* ---- table of pending activations: ghost map ---- */
void *_dbus_hash_table_lookup_string (DBusHashTable *t, const char *key) { PRE(t == (DBusHashTable *)&o_ptable && key != NULL, "_dbus_hash_table_lookup_string: pending activations"); return G.map[KEY(key)]; }
dbus_bool_t _dbus_hash_table_insert_string (DBusHashTable *t, char *key, void *value)
{ PRE(t == (DBusHashTable *)&o_ptable && key != NULL && value != NULL && G.map[KEY(key)] == NULL && key == ((BusPendingActivation *)value)->service_name, "_dbus_hash_table_insert_string: new pending activation under its own name");
  if (nondet_bool()) return 0; G.map[KEY(key)] = value; G.inserted[KEY(key)]++; return 1; }
/* contract of bus_pending_activation_unref (real code walks the waiter list): last reference => timeout removed, every held entry released, counter reduced */
void verif_stub_pending_unref (BusPendingActivation *p)
{ if (p == NULL) return; PRE(p->refcount > 0, "bus_pending_activation_unref: live object"); p->refcount -= 1; if (p->refcount > 0) return;
  if (p->service_name != NULL)   /* (a half-built object without a name has no entries and is in no table) */
    { int k = KEY(p->service_name); G.freed[k]++; G.released_entries += p->n_entries; if (G.appended[k] && p->n_entries > 0) G.held_released[k]++;   /* the entry appended by this call is among those released (each release = one message unref + one connection unref, bus_pending_activation_entry_free) */
      p->activation->n_pending_activations -= p->n_entries; if (G.map[k] == p) G.map[k] = NULL; }
  else PRE(p->n_entries == 0, "bus_pending_activation_unref: unnamed object holds no entries");
  free(p->service_name); free(p->exec); free(p->systemd_service); free(p); }
dbus_bool_t _dbus_hash_table_remove_string (DBusHashTable *t, const char *key)
{ PRE(t == (DBusHashTable *)&o_ptable && key != NULL, "_dbus_hash_table_remove_string: pending activations"); int k = KEY(key); G.removed[k]++; BusPendingActivation *p = G.map[k]; if (!p) return 0; G.map[k] = NULL; verif_stub_pending_unref (p); return 1; }
dbus_bool_t _dbus_list_append (DBusList **list, void *data)
{ BusPendingActivation *owner = (BusPendingActivation *)((char *)list - offsetof(BusPendingActivation, entries));      /* the list is the `entries` member of a pending activation */
  PRE(owner->service_name != NULL, "_dbus_list_append: waiter list of a named pending activation"); int k = KEY(owner->service_name); BusPendingActivationEntry *e = data;
  PRE(e != NULL && e->activation_message != NULL, "_dbus_list_append: a pending-activation entry"); if (nondet_bool()) return 0; G.appended[k]++; G.held[k] = e; *list = (DBusList *)e; return 1; }
/* a waiter must go to the END of the list: bus_activation_send_pending_auto_activation_messages walks it first to last and the
 * property promises delivery "in arrival order".  A prepend is recorded and refuted by post-order below. */
dbus_bool_t _dbus_list_prepend (DBusList **list, void *data) { G.prepended++; return _dbus_list_append (list, data); }
DBusTimeout *_dbus_timeout_new (int interval, DBusTimeoutHandler handler, void *data, DBusFreeFunction f) { PRE(handler == pending_activation_timed_out && data != NULL, "_dbus_timeout_new: start timeout of this pending activation"); if (nondet_bool()) return NULL; G.timeouts_new++; return (DBusTimeout *)&o_timeout; }
dbus_bool_t _dbus_loop_add_timeout (DBusLoop *l, DBusTimeout *t) { if (nondet_bool()) return 0; G.timeouts_added++; return 1; }
dbus_bool_t bus_transaction_add_cancel_hook (BusTransaction *t, BusTransactionCancelFunction f, void *data, DBusFreeFunction ff)
{ PRE((t == (BusTransaction *)&o_txn || t == (BusTransaction *)&o_txn2) && f == cancel_pending && data != NULL, "bus_transaction_add_cancel_hook: cancel_pending for this pending activation"); PRE(ff == free_pending_cancel_data, "bus_transaction_add_cancel_hook: data released by free_pending_cancel_data"); if (nondet_bool()) return 0; if (G.hooks < 2) G.hook_data[G.hooks] = data; G.hooks++; return 1; }
/* ---- systemd hand-off ---- */
BusTransaction *bus_transaction_new (BusContext *c) { G.txn2_new++; return nondet_bool() ? (BusTransaction *)&o_txn2 : NULL; }
dbus_bool_t bus_transaction_capture (BusTransaction *t, DBusConnection *c, DBusConnection *r, DBusMessage *m) { if (nondet_bool()) return 0; G.captures++; return 1; }
dbus_bool_t bus_dispatch_matches (BusTransaction *t, DBusConnection *sender, DBusConnection *recipient, DBusMessage *m, DBusError *error)
{ PRE(t == (BusTransaction *)&o_txn2 && sender == NULL && recipient == (DBusConnection *)&o_sd_conn && m == (DBusMessage *)&o_signal && !G.was_pending[0], "bus_dispatch_matches: one ActivationRequest to systemd per new pending activation");
  G.sd_dispatches++; if (G.in.sd_dispatch_ok) return 1; if (error) error->name = DBUS_ERROR_NO_MEMORY; return 0; }
void bus_transaction_execute_and_free (BusTransaction *t) { PRE(t == (BusTransaction *)&o_txn2, "execute: the activation transaction"); G.txn2_exec++; }
void bus_transaction_cancel_and_free (BusTransaction *t) { PRE(t == (BusTransaction *)&o_txn2, "cancel: the activation transaction"); G.txn2_cancel++; }
/* ---- traditional activation ---- */
dbus_bool_t _dbus_string_init (DBusString *s) { if (nondet_bool()) return 0; G.cmd = s; G.cmd_n = 0; return 1; }
dbus_bool_t _dbus_string_append (DBusString *s, const char *b) { PRE(s == G.cmd && b != NULL && G.cmd_n < 3, "_dbus_string_append: the command string"); if (nondet_bool()) return 0; G.cmd_piece[G.cmd_n++] = b; return 1; }
void _dbus_string_free (DBusString *s) {}
const char *_dbus_string_get_const_data (const DBusString *s) { return some_string; }
static char *argv_store[2]; static char *envp_store[1];
dbus_bool_t _dbus_shell_parse_argv (const char *cl, int *argcp, char ***argvp, DBusError *error) { if (!G.in.argv_ok) { if (error) error->name = DBUS_ERROR_SPAWN_FILE_INVALID; return 0; } *argcp = 1; *argvp = argv_store; return 1; }
dbus_bool_t verif_stub_add_bus_environment (BusActivation *a, DBusError *error) { if (G.in.env_ok) return 1; if (error) error->name = DBUS_ERROR_NO_MEMORY; return 0; }
char **verif_stub_get_environment (BusActivation *a) { return G.in.envp_ok ? envp_store : NULL; }
void dbus_free_string_array (char **a) {}
static const char *g_service_name;
dbus_bool_t _dbus_spawn_async_with_babysitter (DBusBabysitter **sitter_p, const char *log_name, char * const *argv, char * const *env, DBusSpawnFlags flags, DBusSpawnChildSetupFunc child_setup, void *user_data, DBusError *error)
{ BusPendingActivation *p = G.map[KEY(g_service_name)];
  PRE(G.spawns == 0, "spawn: at most once per call (ACT_ONE_SPAWN)");
  PRE(!G.was_pending[KEY(g_service_name)], "spawn: never for a name whose activation is already pending (ACT_ONE_SPAWN)");
  PRE(p != NULL && sitter_p == &p->babysitter && p->babysitter == NULL && G.inserted[KEY(g_service_name)] == 1 && G.appended[KEY(g_service_name)] == 1 && p->timeout_added, "spawn: the request is already registered (table, held entry, start timeout) and has no child yet");
  PRE(IMP(G.in.helper, E.user != NULL), "spawn via the setuid helper only for a service file with User (S4)");
  PRE(G.in.helper ? (G.cmd_n == 3 && G.cmd_piece[0] == helper_path && G.cmd_piece[2] == g_service_name) : (G.cmd_n == 1 && G.cmd_piece[0] == E.exec), "spawn: command is '<servicehelper> <name>' or the Exec line of the service file");
  PRE(argv == argv_store && env == envp_store, "spawn: parsed argv and the activation environment");
  G.spawns++; REACH("spawn"); if (!G.in.spawn_ok) { if (error) error->name = DBUS_ERROR_SPAWN_EXEC_FAILED; return 0; } *sitter_p = (DBusBabysitter *)&o_sitter; return 1; }
void _dbus_babysitter_set_result_function (DBusBabysitter *s, DBusBabysitterFinishedFunc f, void *d) { PRE(f == pending_activation_finished_cb, "_dbus_babysitter_set_result_function"); }
dbus_bool_t _dbus_babysitter_set_watch_functions (DBusBabysitter *s, DBusAddWatchFunction a, DBusRemoveWatchFunction r, DBusWatchToggledFunction t, void *d, DBusFreeFunction f) { return G.in.watch_ok; }
void _dbus_babysitter_kill_child (DBusBabysitter *s) {}

void harness (void)
{
  DBusError err; err.name = NULL; err.message = NULL;
  G.in.systemd_activation = nondet_bool(); G.in.entry_found = nondet_bool(); G.in.policy_ok = nondet_bool(); G.in.active = nondet_bool(); G.in.sd_active = nondet_bool(); G.in.helper = nondet_bool();
  G.in.entry_has_user = nondet_bool(); G.in.entry_has_unit = nondet_bool(); G.in.argv_ok = nondet_bool(); G.in.env_ok = nondet_bool(); G.in.envp_ok = nondet_bool(); G.in.spawn_ok = nondet_bool(); G.in.watch_ok = nondet_bool(); G.in.sd_dispatch_ok = nondet_bool();
  G.in.limit = nondet_int();
  A.pending_activations = (DBusHashTable *)&o_ptable; A.entries = (DBusHashTable *)&o_etable; A.context = (BusContext *)&o_ctx;
  E.name = (char *)n_other; E.exec = e_exec; E.user = G.in.entry_has_user ? e_user : NULL; E.systemd_service = G.in.entry_has_unit ? e_unit : NULL; E.refcount = 1;
  dbus_bool_t auto_activation = nondet_bool();
  const char *service_name = nondet_bool() ? n_systemd : n_other; g_service_name = service_name; int k = KEY(service_name);
  /* pre-existing pending activations (ghost map) with 1..3 waiters each */
  int total = 0;
  for (int i = 0; i < 2; i++)
    {
      G.map[i] = NULL; G.was_pending[i] = nondet_bool();
      if (G.was_pending[i])
        {
          BusPendingActivation *p = malloc(sizeof *p); __CPROVER_assume(p != NULL);
          p->refcount = 1; p->activation = &A; p->service_name = malloc(2); __CPROVER_assume(p->service_name != NULL); p->service_name[0] = i ? 'o' : 'x'; p->service_name[1] = 0;
          p->exec = NULL; p->systemd_service = NULL; p->entries = nondet_ptr(); p->n_entries = nondet_int(); __CPROVER_assume(p->n_entries >= 1 && p->n_entries <= 3);
          p->babysitter = NULL; p->timeout = NULL; p->timeout_added = 0; G.map[i] = p; total += p->n_entries;
        }
    }
  int others = nondet_int(); __CPROVER_assume(others >= 0 && others <= 1000);
  A.n_pending_activations = total + others; int old_count = A.n_pending_activations;
  BusPendingActivation *old_p = G.map[k]; int old_entries = old_p ? old_p->n_entries : 0;

  dbus_bool_t ret = bus_activation_activate_service (&A, (DBusConnection *)&o_conn, (BusTransaction *)&o_txn, auto_activation, (DBusMessage *)&o_msg, service_name, &err);

  _Bool replied_running = ret && G.driver_sends == 1;
  __CPROVER_assert(G.spawns <= 1, "post1 at most one spawn per request");
  __CPROVER_assert(IMP(G.was_pending[k], G.spawns == 0 && G.sd_dispatches == 0 && G.txn2_new == 0), "post2 a request for a name whose activation is pending joins it: no second spawn, no second systemd request (ACT_ONE_SPAWN)");
  __CPROVER_assert(G.prepended == 0, "post-order a held request is appended at the end of the waiter list (messages are later delivered first to last = arrival order)");
  __CPROVER_assert(IMP(old_count >= G.in.limit, !ret && G.lookups == 0 && G.msg_refs == 0 && G.appended[0] + G.appended[1] == 0 && A.n_pending_activations == old_count), "post3 at the limit of pending activations the request is refused before anything is touched (C13)");
  __CPROVER_assert(IMP(!ret, ERR_SET(&err)), "post4 refusal carries an error (S5)");
  __CPROVER_assert(IMP(ret && !replied_running, G.map[k] != NULL && G.appended[k] == 1 && G.held[k] != NULL && G.held[k]->activation_message == (DBusMessage *)&o_msg && G.held[k]->connection == (DBusConnection *)&o_conn && (G.held[k]->auto_activation != 0) == (auto_activation != 0)),
                   "post5 success => the request (message, sender, auto flag) is held exactly once under its name in the pending table (S1)");
  __CPROVER_assert(IMP(ret && !replied_running, G.msg_refs == 1 && G.msg_unrefs == 0 && G.conn_refs == 1 && G.conn_unrefs == 0), "post6 a held message and its sender are referenced exactly once");
  __CPROVER_assert(IMP(ret && !replied_running, A.n_pending_activations == old_count + 1 + (int)G.appended[1 - k]), "post7 the pending-request counter grows by the number of requests held");
  __CPROVER_assert(IMP(ret && !replied_running && G.was_pending[k], G.map[k] == old_p && old_p->n_entries == old_entries + 1), "post8 a joining request is appended to the existing pending activation");
  __CPROVER_assert(IMP(auto_activation && G.in.entry_found && !G.in.policy_ok && old_count < G.in.limit && !(G.in.systemd_activation && k == 1), !ret && G.appended[0] + G.appended[1] == 0 && G.spawns == 0 && G.msg_refs == 0), "post9 auto-start is subject to policy: a denied message is neither held nor does it start anything");
  __CPROVER_assert(IMP(auto_activation && (G.appended[k] > 0 || G.spawns > 0) && !(G.in.systemd_activation && k == 1), G.policy_checks == 1), "post10 policy is consulted exactly once before an auto-start message is held");
  __CPROVER_assert(IMP(replied_running, !auto_activation && G.in.active && G.appended[0] + G.appended[1] == 0 && G.spawns == 0 && A.n_pending_activations == old_count), "post11 StartServiceByName for a name that has an owner: reply only, nothing held or started (S8)");
  if (!ret)
    { /* the caller's transaction ends (cancelled on OOM, executed after queuing an error reply): its hooks run (real code) */
      _Bool cancelled = nondet_bool();
      for (int i = 0; i < 2; i++) if ((unsigned)i < G.hooks) { if (cancelled) cancel_pending (G.hook_data[i]); free_pending_cancel_data (G.hook_data[i]); }
    }
  __CPROVER_assert(IMP(!ret && !G.was_pending[k], G.map[k] == NULL), "post12 a failed new activation leaves no half-registered pending activation behind");
  __CPROVER_assert(IMP(!ret, G.msg_refs == G.msg_unrefs + G.held_released[k] && G.conn_refs == G.conn_unrefs + G.held_released[k] && G.held_released[k] <= 1), "post13 a refused request keeps no reference to the message or its sender once the caller's transaction has ended");
  __CPROVER_assert(IMP(!ret && !G.was_pending[k] && !G.was_pending[1 - k] && G.appended[1 - k] == 0, A.n_pending_activations == old_count), "post14 a refused request leaves the pending-request counter unchanged once the caller's transaction has ended");
  __CPROVER_assert(IMP(G.spawns == 1 && G.in.helper, G.in.entry_has_user), "post15 system-bus (helper) activation only for service files with a User (S4)");
#ifdef VERIF_JOIN_ATOMIC
  __CPROVER_assert(IMP(!ret && G.was_pending[k], G.map[k] == old_p && G.freed[k] == 0 && G.released_entries == 0), "post16 a joining request that fails leaves the pending activation and its earlier waiters in place (they still get their message or exactly one error)");
#endif
  if (ret && G.spawns == 1) REACH("spawned"); if (ret && G.was_pending[k]) REACH("joined"); if (replied_running) REACH("already-running");
  if (!ret && old_count >= G.in.limit) REACH("limit"); if (!ret && G.policy_checks == 1 && !G.in.policy_ok) REACH("denied");
  if (ret && G.sd_dispatches == 1) REACH("systemd-request"); if (ret && G.appended[1] == 1 && k == 0) REACH("systemd-nested-activation");
  if (!ret && G.spawns == 1) REACH("spawn-failed"); if (ret && k == 1 && G.in.systemd_activation) REACH("waiting-for-systemd");
  if (!ret && G.was_pending[k] && G.freed[k]) REACH("join-failed-dropped-others");
}
