/* C12 (B): "edited field reads back as set, other header fields, flags, serial unchanged, serialised form well-formed"
 * through the REAL _dbus_header_set_field_basic for a fixed-size field that already exists (REPLY_SERIAL / UNIX_FDS,
 * UINT32): real reserve_header_padding, _dbus_header_cache_check + _dbus_header_cache_revalidate,
 * find_field_for_modification, set_basic_field, _dbus_type_reader_set_basic (in-place branch
 * reader_set_basic_fixed_length -> _dbus_marshal_set_basic), correct_header_padding, _dbus_header_cache_invalidate_all,
 * then the independent decoding of the result.  Header image: valid per the reference, at most VERIF_N bytes, skeleton as in
 * C01.hdr.exact.* plus concrete field codes (byte order, lengths, variant signatures, field codes constant; values,
 * message type, flags, serial symbolic).
 * DBusString length primitives: contract stubs (harness/c12_strstubs.h; CBMC's realloc/memmove models are out of reach).
 * The realignment branch (variable-length values) and the append branch (typed writer) are NOT reached here.      */
#include <config.h>
#include "dbus/dbus-internals.h"
#include "verif_prelude.h"
#include "verif_ghost.h"
#include "dbus/dbus-string.h"
#define DBUS_CAN_USE_DBUS_STRING_PRIVATE 1
#include "dbus/dbus-string-private.h"
#include VERIF_TU
#ifndef VERIF_N
#define VERIF_N 32
#endif
#define BODY_REF_MAXSTR (VERIF_N + 1)
#define SIG_REF_MAXRUN (VERIF_N - 15)
#define HDR_REF_MAXFIELDS ((VERIF_N - 21) / 8 + 1)
#include "header_ref.h"
#ifndef IMP
#define IMP(a, b) (!(a) || (b))
#endif
#define REACH(tag) __CPROVER_assert(0, "REACH:" tag)
#define PRE(c, what) __CPROVER_assert ((c), "precondition of " what)
long verif_gk, verif_gk2, verif_w, verif_w2; int verif_flag;
_Bool nondet_bool (void); int nondet_int (void); unsigned nondet_uint (void); unsigned char nondet_uchar (void);
unsigned char in_buf[VERIF_N + 24] __attribute__ ((aligned (8)));
int in_len;
static DBusHeader H; static unsigned char *hb = in_buf; static int cap = VERIF_N + 24;
static struct { int revalidations; int lengthen_ok; int aligned; } G_b;
#include "c12_strstubs.h"
/* branches that the precondition (the field exists, its type is fixed-size) excludes: proved unreachable here, and cut
 * so that symbolic execution does not wander into the typed writer / the realignment code */
dbus_bool_t verif_nr_write_basic_field (DBusTypeWriter *writer, int field, int type, const void *value)
{ __CPROVER_assert (0, "setfixed: append branch (write_basic_field) not reached for an existing field"); __CPROVER_assume (0); return 0; }
void verif_nr_writer_init_values_only (DBusTypeWriter *w, int byte_order, const DBusString *type_str, int type_pos, DBusString *value_str, int value_pos)
{ __CPROVER_assert (0, "setfixed: typed writer not reached for an existing field"); __CPROVER_assume (0); }
dbus_bool_t verif_nr_set_basic_variable_length (DBusTypeReader *reader, int current_type, const void *value, const DBusTypeReader *realign_root)
{ __CPROVER_assert (0, "setfixed: realignment branch (reader_set_basic_variable_length) not reached for a fixed-size value"); __CPROVER_assume (0); return 0; }
static struct hdr_ref_fields RF, RF2;
void harness (void)
{
  DBusRealString *hd = (DBusRealString *) &H.data; int i, c, rhl = 0, rhl2 = 0, want, field, le, v_at; unsigned char old[VERIF_N]; dbus_uint32_t v = nondet_uint (), got = 0; dbus_bool_t r;
  in_len = nondet_int ();
  __CPROVER_assume (in_len >= 16 && in_len <= VERIF_N);
  for (i = 0; i < VERIF_N; i++) in_buf[i] = nondet_uchar ();
#ifdef VERIF_HDR_ASSUME
  VERIF_HDR_ASSUME
#endif
  hdr_ref_walk (in_buf, in_len, &RF);
  want = hdr_ref_valid_walked (in_buf, in_len, &rhl, &RF);
  __CPROVER_assume (want == 1 && rhl == in_len);
#ifdef VERIF_FIELD
  field = VERIF_FIELD;    /* concrete: with a symbolic code find_field_for_modification leaves the reader at a symbolic position and the real reader is then explored on garbage type codes (no result in 25 min) */
#else
  field = nondet_int ();
#endif
  __CPROVER_assume (field == DBUS_HEADER_FIELD_REPLY_SERIAL || field == DBUS_HEADER_FIELD_UNIX_FDS);
  __CPROVER_assume (RF.count[field] == 1);                                    /* the field exists: in-place branch */
  __CPROVER_assume (field != DBUS_HEADER_FIELD_REPLY_SERIAL || v != 0);         /* dbus_message_set_reply_serial's own precondition */
  le = HDR_REF_LE (in_buf); v_at = VERIF_VAT;      /* concrete value position of the skeleton, checked against the reference decoding: */
  __CPROVER_assume (RF.val_at[field] == v_at);
  hd->str = in_buf; hd->len = in_len; hd->allocated = in_len + 8; hd->constant = 0; hd->locked = 0; hd->valid = 1; hd->align_offset = 0; in_buf[in_len] = 0;
  H.padding = (unsigned) (rhl - (16 + (int) hdr_ref_fields_len (in_buf)));
  for (i = 0; i <= DBUS_HEADER_FIELD_LAST; i++) { int p = nondet_int (); H.fields[i].value_pos = nondet_bool () ? _DBUS_HEADER_FIELD_VALUE_UNKNOWN : (RF.count[i] ? RF.val_at[i] : _DBUS_HEADER_FIELD_VALUE_NONEXISTENT); }  /* a consistent cache, partly unknown */
  for (i = 0; i < VERIF_N; i++) old[i] = in_buf[i];

  r = _dbus_header_set_field_basic (&H, field, DBUS_TYPE_UINT32, &v);

  __CPROVER_assert (hd->len == in_len && hd->len % 8 == 0 && (int) H.padding == rhl - (16 + (int) hdr_ref_fields_len (in_buf)), "setfixed: header length and padding as before, length a multiple of 8 (success or failure)");
  for (i = 0; i < VERIF_N; i++)
    if (i < in_len && (!r || i < v_at || i >= v_at + 4)) __CPROVER_assert (in_buf[i] == old[i], "setfixed: every byte outside the edited value is unchanged (all bytes unchanged on failure)");
  /* Re-concretisation (sound because of the assertions just made: each assignment writes the value that the byte
   * was asserted to have): lets symbolic execution see the constant skeleton bytes again, which the symbolic-index
   * writes of the string stubs hide. */
  for (i = 0; i < VERIF_N; i++) if (i < in_len && (i < v_at || i >= v_at + 4)) in_buf[i] = old[i];
  hd->len = in_len;
  if (r)
    {
      __CPROVER_assert (body_ref_u32 (in_buf, v_at, le) == v, "setfixed: the four value bytes are the new value in the header's byte order");
      for (i = 0; i <= DBUS_HEADER_FIELD_LAST; i++) __CPROVER_assert (H.fields[i].value_pos == _DBUS_HEADER_FIELD_VALUE_UNKNOWN, "setfixed: the position cache was invalidated");
      hdr_ref_walk (in_buf, in_len, &RF2);
      __CPROVER_assert (hdr_ref_valid_walked (in_buf, in_len, &rhl2, &RF2) == 1 && rhl2 == rhl, "setfixed: the serialised header is still valid per the reference decoder");
      /* read-back: by the independent decoding of the new bytes.  (The real accessors on a valid header with an
       * invalidated cache are the subject of C12.cache.revalidate.* and C01.hdr.exact.*; calling them here after the
       * edit was measured infeasible: the real reader is explored on symbolic type codes.) */
      __CPROVER_assert (RF2.count[field] == 1 && RF2.val_at[field] == v_at && RF2.type[field] == 'u' && body_ref_u32 (in_buf, RF2.val_at[field], le) == v, "setfixed: the edited field decodes to the value that was set");
      for (c = 0; c <= DBUS_HEADER_FIELD_LAST; c++)
        __CPROVER_assert (RF2.count[c] == RF.count[c] && RF2.val_at[c] == RF.val_at[c] && RF2.type[c] == RF.type[c], "setfixed: every field decodes where and as it did before");
      __CPROVER_assert (_dbus_header_get_serial (&H) == hdr_ref_serial (old) && _dbus_header_get_message_type (&H) == old[1] && in_buf[2] == old[2], "setfixed: serial, message type and flags unchanged");
      REACH("edited"); if (v == 0x01020304 && in_buf[1] > 4) REACH("edited-message-of-unknown-type");
    }
  else REACH("oom-in-reserve");
}
