/* C02 (P, loop-free, all 2^64 values): the fixed-width pack/unpack primitives of dbus-marshal-basic.c
 * implement the specification's byte orders ("l" little endian, "B" big endian) and are inverse. */
#include <config.h>
#include "dbus/dbus-internals.h"
#include "verif_prelude.h"
#include "verif_ghost.h"
#include VERIF_TU
long verif_gk, verif_gk2, verif_w, verif_w2; int verif_flag;
unsigned nondet_uint (void); unsigned long nondet_ulong (void); unsigned short nondet_ushort (void); _Bool nondet_bool (void); int nondet_int (void);
void harness (void)
{
  unsigned char d[8] __attribute__ ((aligned (8))); int k; int le = nondet_bool (); int order = le ? DBUS_LITTLE_ENDIAN : DBUS_BIG_ENDIAN;
  dbus_uint32_t v32 = nondet_uint (); dbus_uint64_t v64 = nondet_ulong (); dbus_uint16_t v16 = nondet_ushort ();
  pack_4_octets (v32, order, d);
  for (k = 0; k < 4; k++) __CPROVER_assert (d[k] == (unsigned char) (v32 >> (8 * (le ? k : 3 - k))), "pack_4_octets: byte k is bits 8k.. (little) / mirrored (big)");
  __CPROVER_assert (_dbus_unpack_uint32 (order, d) == v32, "unpack_uint32 (pack (v)) == v");
  _dbus_pack_uint32 (v32, order, d);
  __CPROVER_assert (_dbus_unpack_uint32 (order, d) == v32, "_dbus_pack_uint32 / _dbus_unpack_uint32 round trip");
  pack_2_octets (v16, order, d);
  for (k = 0; k < 2; k++) __CPROVER_assert (d[k] == (unsigned char) (v16 >> (8 * (le ? k : 1 - k))), "pack_2_octets wire order");
  __CPROVER_assert (_dbus_unpack_uint16 (order, d) == v16, "unpack_uint16 (pack (v)) == v");
  pack_8_octets (v64, order, d);
  for (k = 0; k < 8; k++) __CPROVER_assert (d[k] == (unsigned char) (v64 >> (8 * (le ? k : 7 - k))), "pack_8_octets wire order");
  { dbus_uint64_t w = v64; swap_8_octets (&w, order); swap_8_octets (&w, order); __CPROVER_assert (w == v64, "swap_8_octets is an involution"); }
  /* alignment table = specification */
  { int t = nondet_int (); int a = 0;
    switch (t) { case 'y': case 'g': case 'v': a = 1; break; case 'n': case 'q': a = 2; break;
                 case 'b': case 'i': case 'u': case 's': case 'o': case 'a': case 'h': a = 4; break;
                 case 'x': case 't': case 'd': case 'r': case 'e': a = 8; break; default: a = 0; }
    if (a) __CPROVER_assert (_dbus_type_get_alignment (t) == a, "_dbus_type_get_alignment == specification table");
    if (a == 8) __CPROVER_assert (0, "REACH:align8"); }
  __CPROVER_assert (0, "REACH:end");
}
