/* C07 (B): who receives a broadcast, and rule removal.
 *   VERIF_PART=1  bus_matchmaker_get_recipients + get_recipients_from_list + bus_matchmaker_get_rules (bus/signals.c) with the
 *                 real bus_connection_mark_stamp / bus_connections_increment_stamp (bus/connection.c) and the real dbus-list.c:
 *                 at most 3 rules owned by at most 3 connections, spread over the four rule lists a message selects
 *                 (no type & no interface, interface only, type only, both).
 *                 match_rule_matches is replaced by its contract (unit C07.match): an arbitrary verdict per rule, and it must be
 *                 asked with already_matched = MESSAGE_TYPE|INTERFACE about the same sender / recipient / message.
 *                 Post: each connection appears in the recipient list exactly once if one of its rules matches and it is not
 *                 the addressed recipient, and not at all otherwise; OOM => FALSE and an empty list.
 *   VERIF_PART=2  bus_matchmaker_remove_rule_by_value (+ real match_rule_equal): removes exactly one rule equal to the value — the
 *                 most recently added one — or fails with MatchRuleNotFound and changes nothing.
 *   VERIF_PART=3  bus_matchmaker_disconnected / rule_list_remove_by_connection on one list: every rule owned by the connection is
 *                 removed, the others stay in order.
 * Hash tables are not executed: _dbus_hash_table_lookup_string is a contract over the (at most one) interface bucket per pool.
 */
#include <config.h>
#include "dbus/dbus-internals.h"
#include "verif_prelude.h"
#include "verif_ghost.h"
#include "match_ref.h"
#include <stdlib.h>
long verif_gk, verif_gk2, verif_w, verif_w2; int verif_flag;
#include VERIF_TU
#include VERIF_TU2
#include "c07_common.h"
void _dbus_real_assert (dbus_bool_t condition, const char *condition_text, const char *file, int line, const char *func)
{ __CPROVER_assert (condition, "dbus assertion"); __CPROVER_assume (condition); }
void _dbus_real_assert_not_reached (const char *explanation, const char *file, int line) { __CPROVER_assert (0, "dbus assert_not_reached"); __CPROVER_assume (0); }
void _dbus_verbose_real (const char *file, const int line, const char *function, const char *format, ...) {}
#ifndef C07_NR
#define C07_NR 3
#endif
#define NR 3           /* rule objects; C07_NR (<= 3) is how many of them may be stored */
#define NC 3
/* ---- connections: opaque DBusConnection handles with their real BusConnectionData ---- */
static char conn_o0, conn_o1, conn_o2; static BusConnectionData cdata_o0, cdata_o1, cdata_o2; static BusConnections conns;
static char *const connp[3] = { &conn_o0, &conn_o1, &conn_o2 }; static BusConnectionData *const cdatap[3] = { &cdata_o0, &cdata_o1, &cdata_o2 };
#define CONN(k) ((DBusConnection *) connp[k])
#define cdata(k) (*cdatap[k])
void *verif_stub_connection_get_data (DBusConnection *c, dbus_int32_t slot)
{ PRE (c == CONN (0) || c == CONN (1) || c == CONN (2), "dbus_connection_get_data: a connection of the bus"); return c == CONN (0) ? &cdata_o0 : c == CONN (1) ? &cdata_o1 : &cdata_o2; }
/* ---- list links from a static pool (dbus-list.c's alloc_link / free_link: mempool + lock) ---- */
static DBusList lk0, lk1, lk2, lk3; static int link_used; static int g_links_freed;
DBusList *verif_alloc_link (void *data) { if (nondet_bool () || link_used >= 4) return NULL; DBusList *l = link_used == 0 ? &lk0 : link_used == 1 ? &lk1 : link_used == 2 ? &lk2 : &lk3; link_used++; l->data = data; l->prev = l->next = NULL; return l; }
void verif_free_link (DBusList *l) { g_links_freed++; }
/* index of a stored rule (by comparison: pointer subtraction would put 64-bit dividers into the formula) */
#define RIDX(rule) ((rule) == &rule_o0 ? 0 : (rule) == &rule_o1 ? 1 : 2)
/* match_rule_to_string: only feeds _dbus_verbose (logging, dropped); may return NULL ("nomem") */
char *verif_stub_to_string (BusMatchRule *rule) { return NULL; }
/* ---- rules ---- */
/* separate objects, not arrays of structs: a pointer into an array of structs makes every dereference a byte extraction at a symbolic offset */
static BusMatchRule rule_o0, rule_o1, rule_o2; static DBusList rnode_o0, rnode_o1, rnode_o2;
static BusMatchRule *const rulep[3] = { &rule_o0, &rule_o1, &rule_o2 }; static DBusList *const rnodep[3] = { &rnode_o0, &rnode_o1, &rnode_o2 };
#define rules(k) (*rulep[k])
#define rnode(k) (*rnodep[k])
#define IS_RULE(r) ((r) == &rule_o0 || (r) == &rule_o1 || (r) == &rule_o2)
static _Bool g_match[NR]; static int g_match_calls[NR];
static DBusMessage *g_msg; static DBusConnection *g_sender, *g_addressed;
dbus_bool_t verif_stub_match_rule_matches (BusMatchRule *rule, DBusConnection *sender, DBusConnection *addressed, DBusMessage *message, BusMatchFlags already_matched)
{
  PRE (IS_RULE (rule), "match_rule_matches: a rule of the matchmaker");
  PRE (sender == g_sender && addressed == g_addressed && message == g_msg, "match_rule_matches: asked about this sender / addressed recipient / message");
  PRE (already_matched == (BUS_MATCH_MESSAGE_TYPE | BUS_MATCH_INTERFACE), "match_rule_matches: type and interface are matched by the choice of list");
  int k = RIDX (rule); g_match_calls[k]++; return g_match[k];
}
static void list_add (DBusList **head, DBusList *n)
{ if (*head == NULL) { n->next = n->prev = n; *head = n; } else { n->next = *head; n->prev = (*head)->prev; (*head)->prev->next = n; (*head)->prev = n; } }
static int list_count (DBusList *head, void *data)
{ int c = 0, guard = 0; DBusList *l = head; if (l) do { if (l->data == data) c++; l = l->next; guard++; } while (l != head && guard < 4); return c; }
static int list_len (DBusList *head) { int c = 0; DBusList *l = head; if (l) do { c++; l = l->next; } while (l != head && c < 4); return c; }

#if VERIF_PART == 1
static int f_type; static const char *f_iface; static const char iface_name[] = "a.b";
static DBusList *bucket[DBUS_NUM_MESSAGE_TYPES]; static char table_obj[DBUS_NUM_MESSAGE_TYPES]; static _Bool bucket_exists[DBUS_NUM_MESSAGE_TYPES];
int verif_stub_get_type (DBusMessage *m) { PRE (m == g_msg, "dbus_message_get_type"); return f_type; }
const char *verif_stub_get_interface (DBusMessage *m) { PRE (m == g_msg, "dbus_message_get_interface"); return f_iface; }
/* hash lookup: the bucket of the message's interface in the pool whose table this is, if there is one */
void *verif_stub_hash_lookup_string (DBusHashTable *table, const char *key)
{
  PRE (__CPROVER_same_object (table, table_obj) && key == f_iface && key != NULL, "_dbus_hash_table_lookup_string: a pool's table, the message's interface");
  int t = (int) ((char *) table - table_obj); return bucket_exists[t] ? &bucket[t] : NULL;
}
/* one run for a concrete message type T (the pools are indexed by it; with constants the symbolic execution stays small):
 * rules sit in pool 0 (no type key), pool T (type key equal to the message's) or pool OTHER (a type the message does not have) */
static void run (const int T, const int OTHER)
{
  BusMatchmaker mm; static char mo; g_msg = (DBusMessage *) &mo;
  f_type = T;
  f_iface = nondet_bool () ? iface_name : NULL;
  for (int t = 0; t < DBUS_NUM_MESSAGE_TYPES; t++) { mm.rules_by_type[t].rules_by_iface = (DBusHashTable *) &table_obj[t]; mm.rules_by_type[t].rules_without_iface = NULL; bucket[t] = NULL; bucket_exists[t] = nondet_bool (); }
  mm.refcount = 1;
  conns.stamp = nondet_int (); __CPROVER_assume (conns.stamp < 0x7fffffff);
  for (int k = 0; k < NC; k++) { cdata (k).connections = &conns; cdata (k).stamp = nondet_int (); __CPROVER_assume (cdata (k).stamp <= conns.stamp); }   /* stamps come from earlier rounds */
  int ci = nondet_int (); __CPROVER_assume (ci >= -1 && ci < NC); g_sender = ci < 0 ? NULL : CONN (ci);
  int ai = nondet_int (); __CPROVER_assume (ai >= -1 && ai < NC); g_addressed = ai < 0 ? NULL : CONN (ai);
  int nr = nondet_int (); __CPROVER_assume (nr >= 0 && nr <= C07_NR);
  int owner[3]; int pool[3]; _Bool by_iface[3];
  for (int r = 0; r < 3; r++)
    {
      g_match[r] = nondet_bool (); g_match_calls[r] = 0; owner[r] = nondet_int (); __CPROVER_assume (owner[r] >= 0 && owner[r] < NC);
      rules (r).refcount = 1; rules (r).matches_go_to = CONN (owner[r]); rules (r).flags = 0; rnode (r).data = &rules (r);
      int w = nondet_int (); __CPROVER_assume (w >= 0 && w <= 2); pool[r] = w == 0 ? 0 : w == 1 ? ((T > 0 && T < DBUS_NUM_MESSAGE_TYPES) ? T : OTHER) : OTHER; by_iface[r] = nondet_bool ();
      if (r < nr)
        {
          if (pool[r] == 0) { if (by_iface[r]) { __CPROVER_assume (bucket_exists[0]); list_add (&bucket[0], &rnode (r)); } else list_add (&mm.rules_by_type[0].rules_without_iface, &rnode (r)); }
          else if (pool[r] == OTHER) { if (by_iface[r]) { __CPROVER_assume (bucket_exists[OTHER]); list_add (&bucket[OTHER], &rnode (r)); } else list_add (&mm.rules_by_type[OTHER].rules_without_iface, &rnode (r)); }
          else { if (by_iface[r]) { __CPROVER_assume (bucket_exists[T]); list_add (&bucket[T], &rnode (r)); } else list_add (&mm.rules_by_type[T].rules_without_iface, &rnode (r)); }
          rules (r).message_type = pool[r];
        }
    }
  DBusList *recipients = NULL; link_used = 0;
  dbus_bool_t ok = bus_matchmaker_get_recipients (&mm, &conns, g_sender, g_addressed, g_msg, &recipients);
  __CPROVER_assert (ok == 0 || ok == 1, "post0 boolean");
  verif_gk = nondet_int ();
  if (ok && verif_gk >= 0 && verif_gk < NC)
    {
      /* specification: "delivered to a connection exactly once if at least one match rule that connection currently holds matches
       * it, and not at all otherwise"; the addressed recipient gets the message anyway and must not be listed a second time.
       * A rule is consulted iff its type key (pool) is absent or equals the message's type, and its interface key (bucket) is
       * absent or equals the message's interface. */
      _Bool wants = 0;
      for (int r = 0; r < NR; r++) if (r < nr && owner[r] == verif_gk && g_match[r])
        {
          _Bool selected = (pool[r] == 0 || (pool[r] == T && T > 0 && T < DBUS_NUM_MESSAGE_TYPES));
          if (selected && (!by_iface[r] || f_iface != NULL)) wants = 1;
        }
      int cnt = list_count (recipients, CONN (verif_gk));
      __CPROVER_assert (cnt <= 1, "post1 no connection is listed twice");
      __CPROVER_assert (IMP (g_addressed == CONN (verif_gk), cnt == 0), "post2 the addressed recipient is never listed");
      __CPROVER_assert (IMP (g_addressed != CONN (verif_gk), (cnt == 1) == wants), "post3 a connection is listed iff one of its rules (in a list the message selects) matches");
    }
  if (ok) __CPROVER_assert (list_len (recipients) <= NC, "post4 at most one entry per connection");
  if (!ok) __CPROVER_assert (recipients == NULL, "post5 OOM => FALSE and an empty recipient list");
  if (ok && list_len (recipients) == 2) REACH ("two-recipients"); if (!ok) REACH ("oom");
  if (ok && nr >= 2 && owner[0] == owner[1] && g_match[0] && g_match[1] && list_len (recipients) == 1) REACH ("dedupe");
  if (ok && g_addressed && list_len (recipients) >= 1) REACH ("eavesdropper-besides-addressed");
}
void harness (void)
{
  int sel = nondet_int ();
  if (sel == 0) run (DBUS_MESSAGE_TYPE_INVALID, 1);                 /* a message without a valid type: only the type-less pool is consulted */
  else if (sel == 1) run (DBUS_MESSAGE_TYPE_SIGNAL, 2);             /* a signal (stands for the four valid types) */
  else run (DBUS_NUM_MESSAGE_TYPES, 3);                             /* an unknown type code */
}
#elif VERIF_PART == 2
static int g_conn_removed[NR]; static int g_unrefs[NR];
void verif_stub_connection_remove_match_rule (DBusConnection *c, BusMatchRule *rule)
{ PRE (IS_RULE (rule) && c == rule->matches_go_to, "bus_connection_remove_match_rule: the rule's owner"); g_conn_removed[RIDX (rule)]++; }
void verif_stub_rule_unref (BusMatchRule *rule) { PRE (IS_RULE (rule), "bus_match_rule_unref: a stored rule"); g_unrefs[RIDX (rule)]++; }
static const char *g_err_name;
void verif_stub_set_error (DBusError *e, const char *name, const char *format, ...) { PRE (name != NULL, "dbus_set_error"); g_err_name = name; if (e) { e->name = name; e->message = format; } }
void harness (void)
{
  /* one list (the one the value's type / interface select: rules_without_iface of pool 0) with up to 3 rules; each rule is one
   * of two "shapes" (member 'x' / member 'y', both without other keys) owned by one of two connections, so that equal and
   * unequal rules, and equal rules of another owner, all occur */
  BusMatchmaker mm; BusMatchRule value; DBusError err; err.name = NULL; err.message = NULL; static char mx[] = "x", my[] = "y", vx[] = "x", vy[] = "y";
  for (int t = 0; t < DBUS_NUM_MESSAGE_TYPES; t++) { mm.rules_by_type[t].rules_by_iface = NULL; mm.rules_by_type[t].rules_without_iface = NULL; }
  int nr = nondet_int (); __CPROVER_assume (nr >= 0 && nr <= C07_NR);
  _Bool shape[NR]; int owner[NR];
  for (int r = 0; r < NR; r++)
    {
      shape[r] = nondet_bool (); owner[r] = nondet_bool () ? 1 : 0; g_conn_removed[r] = 0; g_unrefs[r] = 0;
      rules (r).refcount = 1; rules (r).matches_go_to = CONN (owner[r]); rules (r).flags = BUS_MATCH_MEMBER; rules (r).message_type = 0; rules (r).interface = NULL;
      rules (r).member = shape[r] ? mx : my; rules (r).sender = rules (r).destination = rules (r).path = NULL; rules (r).args = NULL; rules (r).arg_lens = NULL; rules (r).args_len = 0;
      rnode (r).data = &rules (r); if (r < nr) list_add (&mm.rules_by_type[0].rules_without_iface, &rnode (r));
    }
  _Bool vshape = nondet_bool (); int vowner = nondet_bool () ? 1 : 0;
  value = rules (0); value.matches_go_to = CONN (vowner); value.member = vshape ? vx : vy;      /* an equal rule is equal by value, not by pointer */
  g_err_name = NULL; g_links_freed = 0;
  dbus_bool_t ok = bus_matchmaker_remove_rule_by_value (&mm, &value, &err);
  /* specification: "RemoveMatch removes one rule equal to its argument or fails with MatchRuleNotFound" */
  int last_equal = -1; for (int r = 0; r < NR; r++) if (r < nr && shape[r] == vshape && owner[r] == vowner) last_equal = r;
  __CPROVER_assert ((ok != 0) == (last_equal >= 0), "post1 TRUE iff a rule equal to the argument (same owner, same keys) is stored");
  __CPROVER_assert (IMP (!ok, g_err_name != NULL && g_err_name[27] == 'M' && g_err_name[36] == 'N' && list_len (mm.rules_by_type[0].rules_without_iface) == nr && g_links_freed == 0), "post2 FALSE => MatchRuleNotFound and nothing removed");
  __CPROVER_assert (IMP (ok, list_len (mm.rules_by_type[0].rules_without_iface) == nr - 1 && g_links_freed == 1), "post3 TRUE => exactly one rule removed");
  verif_gk = nondet_int ();
  if (ok && verif_gk >= 0 && verif_gk < nr)
    __CPROVER_assert (list_count (mm.rules_by_type[0].rules_without_iface, &rules (verif_gk)) == (verif_gk == last_equal ? 0 : 1) &&
                      g_conn_removed[verif_gk] == (verif_gk == last_equal) && g_unrefs[verif_gk] == (verif_gk == last_equal),
                      "post4 TRUE => the removed rule is the most recently added equal one: it leaves the list and its owner's list and is released once; every other rule stays");
  if (ok) REACH ("removed"); else REACH ("not-found"); if (ok && nr == 3 && shape[0] == shape[2] && owner[0] == owner[2] && last_equal == 2) REACH ("two-equal-rules-one-removed");
}
#else
static int g_conn_removed[NR]; static int g_unrefs[NR]; static const char name0[] = ":1.0";
void verif_stub_connection_remove_match_rule (DBusConnection *c, BusMatchRule *rule)
{ PRE (IS_RULE (rule) && c == rule->matches_go_to, "bus_connection_remove_match_rule: the rule's owner"); g_conn_removed[RIDX (rule)]++; }
void verif_stub_rule_unref (BusMatchRule *rule) { PRE (IS_RULE (rule), "bus_match_rule_unref: a stored rule"); g_unrefs[RIDX (rule)]++; }
const char *verif_stub_connection_get_name (DBusConnection *c) { PRE (c == CONN (0), "bus_connection_get_name: the disconnecting connection"); return name0; }
void harness (void)
{
  /* rule_list_remove_by_connection on one list of up to 3 rules; connection 0 (unique name :1.0) disconnects.
   * A rule is owned by connection 0 or 1 and may name a unique sender: ":1.0" (the one going away) or ":1.7". */
  DBusList *list = NULL; static char s10[] = ":1.0", s17[] = ":1.7", sw[] = "a.b";
  int nr = nondet_int (); __CPROVER_assume (nr >= 0 && nr <= C07_NR); int owner[NR]; int snd[NR];
  for (int r = 0; r < NR; r++)
    {
      owner[r] = nondet_bool () ? 1 : 0; snd[r] = nondet_int (); __CPROVER_assume (snd[r] >= 0 && snd[r] <= 3); g_conn_removed[r] = 0; g_unrefs[r] = 0;
      rules (r).refcount = 1; rules (r).matches_go_to = CONN (owner[r]); rules (r).flags = snd[r] ? BUS_MATCH_SENDER : 0; rules (r).sender = snd[r] == 1 ? s10 : snd[r] == 2 ? s17 : snd[r] == 3 ? sw : NULL;
      rules (r).destination = NULL; rules (r).member = rules (r).interface = rules (r).path = NULL; rules (r).args = NULL; rules (r).args_len = 0;
      rnode (r).data = &rules (r); if (r < nr) list_add (&list, &rnode (r));
    }
  g_links_freed = 0;
  rule_list_remove_by_connection (&list, CONN (0));
  /* property: "a connection's rules cease to have effect when it disconnects"; rules naming the unique name that can never
   * come back are dropped too */
  verif_gk = nondet_int ();
  if (verif_gk >= 0 && verif_gk < nr)
    {
      _Bool gone = owner[verif_gk] == 0 || snd[verif_gk] == 1;
      __CPROVER_assert (list_count (list, &rules (verif_gk)) == (gone ? 0 : 1), "post1 a rule is removed iff the disconnecting connection owns it or it names that connection's unique name as sender; the others stay");
      __CPROVER_assert (g_conn_removed[verif_gk] == gone && g_unrefs[verif_gk] == gone, "post2 a removed rule leaves its owner's list and is released exactly once");
    }
  int keep = 0; for (int r = 0; r < NR; r++) if (r < nr && !(owner[r] == 0 || snd[r] == 1)) keep++;
  __CPROVER_assert (list_len (list) == keep, "post3 exactly the other rules remain");
  if (keep == 0 && nr == 3) REACH ("all-removed"); if (keep == 2) REACH ("two-kept"); if (nr == 0) REACH ("empty");
}
#endif
