/* C13: the configured max_message_size reaches the message loader of the connection (T chain on real code):
 * dbus_connection_set_max_message_size (dbus-connection.c) -> _dbus_transport_set_max_message_size (dbus-transport.c)
 * -> _dbus_message_loader_set_max_message_size (dbus-message.c).  All three bodies are the real ones.
 * Post: loader->max_message_size == min (size, DBUS_MAXIMUM_MESSAGE_LENGTH); nothing else of the loader changes.
 * (That a message longer than loader->max_message_size corrupts the loader is C01.1 / C11.) */
#include <config.h>
#include "dbus/dbus-internals.h"
#include VERIF_TU
#include "dbus/dbus-transport-protected.h"
#include "dbus/dbus-message-private.h"
#include "c04_common.h"

void _dbus_rmutex_lock (DBusRMutex *m) { }
void _dbus_rmutex_unlock (DBusRMutex *m) { }
DBusList *_dbus_list_pop_first_link (DBusList **list) { PRE (*list == NULL, "_dbus_list_pop_first_link: no expired messages"); return NULL; }

void harness (void)
{
  static DBusConnection conn; static DBusTransport tr; static DBusMessageLoader ld; long size = nondet_long ();
  conn.transport = &tr; conn.expired_messages = NULL; conn.have_connection_lock = FALSE; conn.refcount.value = 1;
  tr.loader = &ld; ld.max_message_size = nondet_long (); ld.max_message_unix_fds = nondet_long (); ld.corrupted = nondet_bool (); ld.refcount = 1;
  long fds0 = ld.max_message_unix_fds; unsigned c0 = ld.corrupted;
  dbus_connection_set_max_message_size (&conn, size);
  POST (ld.max_message_size == (size > DBUS_MAXIMUM_MESSAGE_LENGTH ? DBUS_MAXIMUM_MESSAGE_LENGTH : size), "size.post1 loader limit = configured size, capped at the protocol maximum (128 MiB)");
  POST (ld.max_message_unix_fds == fds0 && ld.corrupted == c0 && tr.loader == &ld && conn.transport == &tr && !conn.have_connection_lock, "size.post2 nothing else changes; lock released");
  if (size > DBUS_MAXIMUM_MESSAGE_LENGTH) REACH ("capped"); else REACH ("as-configured");
}
