/* C17 model shared by the connection-side harnesses (included after c17_common.h):
 *   - messages: opaque objects; their reply serial / type / serial are ghost attributes (G.msg[])
 *   - the pending_replies hash table: a ghost map of <= 2 entries (serial -> pending call); the stubs implement the
 *     documented DBusHashTable semantics incl. calling the value free function on removal
 *   - timeouts: add/remove counters;  notify callback: counter + state observed when it runs. */
#ifndef C17_MODEL_H
#define C17_MODEL_H
#include <stdlib.h>
/* accessors of harness/c17_pc.c */
void verif_pc_global_init (void);
DBusPendingCall *verif_pc_alloc (void);
void verif_pc_init (DBusPendingCall *p, int refcount, DBusPendingCallNotifyFunction fn, DBusConnection *c, DBusMessage *reply, DBusTimeout *t,
                    DBusList *timeout_link, dbus_uint32_t serial, _Bool completed, _Bool timeout_added);
int verif_pc_refcount (DBusPendingCall *p); _Bool verif_pc_completed (DBusPendingCall *p); _Bool verif_pc_timeout_added (DBusPendingCall *p);
DBusMessage *verif_pc_reply (DBusPendingCall *p); DBusList *verif_pc_timeout_link (DBusPendingCall *p); DBusTimeout *verif_pc_timeout (DBusPendingCall *p);
dbus_uint32_t verif_pc_serial (DBusPendingCall *p); DBusConnection *verif_pc_connection (DBusPendingCall *p);
DBusPendingCallNotifyFunction verif_pc_function (DBusPendingCall *p);

void verif_pc_complete_effect (DBusPendingCall *p, DBusMessage *m); void verif_pc_detach_effect (DBusPendingCall *p);
#define NMSG 4
#define NMAP 2
struct verif_c17_ghost {
  DBusConnection *conn;
  /* messages */
  DBusMessage *msg[NMSG]; dbus_uint32_t msg_reply_serial[NMSG]; int msg_type[NMSG]; int msg_refs[NMSG];
  /* ghost map */
  DBusHashTable *table; _Bool present[NMAP]; dbus_uint32_t key[NMAP]; DBusPendingCall *val[NMAP]; int removals, lookups; dbus_uint32_t lookup_key;
  /* timeouts */
  int timeout_adds, timeout_removes; DBusTimeout *timeout_removed;
  /* notify */
  int notified; _Bool notify_locked, notify_attached, notify_incomplete, notify_no_reply; DBusPendingCall *notify_arg;
  /* removal observations */
  _Bool removed_before_completion, removed_unlocked;
  int synthesized; DBusList *synth_link;
  /* contract-stub of complete_pending_call_and_unlock */
  int completions; DBusPendingCall *completed_call; DBusMessage *completed_with;
} G;
int _dbus_current_generation = 1;
static int verif_msg_index (DBusMessage *m) { for (int i = 0; i < NMSG; i++) if (G.msg[i] == m) return i; return -1; }
dbus_uint32_t dbus_message_get_reply_serial (DBusMessage *m) { int i = verif_msg_index (m); PRE (i >= 0, "dbus_message_get_reply_serial: a live message"); return G.msg_reply_serial[i]; }
int dbus_message_get_type (DBusMessage *m) { int i = verif_msg_index (m); PRE (i >= 0, "dbus_message_get_type: a live message"); return G.msg_type[i]; }
DBusMessage *dbus_message_ref (DBusMessage *m) { int i = verif_msg_index (m); PRE (i >= 0 && G.msg_refs[i] > 0, "dbus_message_ref: a live message"); G.msg_refs[i]++; return m; }
void dbus_message_unref (DBusMessage *m) { int i = verif_msg_index (m); PRE (i >= 0 && G.msg_refs[i] > 0, "dbus_message_unref: a live message"); G.msg_refs[i]--; }
static int verif_map_find (dbus_uint32_t key) { for (int i = 0; i < NMAP; i++) if (G.present[i] && G.key[i] == key) return i; return -1; }
static _Bool verif_attached (DBusPendingCall *p) { for (int i = 0; i < NMAP; i++) if (G.present[i] && G.val[i] == p) return 1; return 0; }
void *_dbus_hash_table_lookup_int (DBusHashTable *t, int key) { PRE (t == G.table, "_dbus_hash_table_lookup_int: pending_replies"); G.lookups++; G.lookup_key = (dbus_uint32_t) key; int i = verif_map_find ((dbus_uint32_t) key); return i < 0 ? NULL : G.val[i]; }
int _dbus_hash_table_get_n_entries (DBusHashTable *t) { PRE (t == G.table, "_dbus_hash_table_get_n_entries"); int n = 0; for (int i = 0; i < NMAP; i++) if (G.present[i]) n++; return n; }
static void verif_map_remove (int i)
{
  DBusPendingCall *p = G.val[i];
  if (!verif_pc_completed (p)) G.removed_before_completion = 1;
  if (!G.conn->have_connection_lock) G.removed_unlocked = 1;
  G.present[i] = 0; G.removals++;
  free_pending_call_on_hash_removal (p);         /* the table's value free function, REAL (dbus-connection.c) */
}
dbus_bool_t _dbus_hash_table_remove_int (DBusHashTable *t, int key) { PRE (t == G.table, "_dbus_hash_table_remove_int: pending_replies"); int i = verif_map_find ((dbus_uint32_t) key); if (i < 0) return FALSE; verif_map_remove (i); return TRUE; }
dbus_bool_t _dbus_hash_table_insert_int (DBusHashTable *t, int key, void *value)
{ PRE (t == G.table && verif_map_find ((dbus_uint32_t) key) < 0, "_dbus_hash_table_insert_int: serial not yet in pending_replies");
  if (nondet_bool ()) return FALSE;
  for (int i = 0; i < NMAP; i++) if (!G.present[i]) { G.present[i] = 1; G.key[i] = (dbus_uint32_t) key; G.val[i] = value; return TRUE; }
  __CPROVER_assume (0); return FALSE; }
/* timeouts (contracts of _dbus_connection_add/remove_timeout_unlocked: need the lock, keep it) */
dbus_bool_t verif_stub_add_timeout (DBusConnection *c, DBusTimeout *t) { PRE (c == G.conn && c->have_connection_lock && t != NULL, "_dbus_connection_add_timeout_unlocked: lock held"); if (nondet_bool ()) return FALSE; G.timeout_adds++; return TRUE; }
void verif_stub_remove_timeout (DBusConnection *c, DBusTimeout *t) { PRE (c == G.conn && c->have_connection_lock && t != NULL, "_dbus_connection_remove_timeout_unlocked: lock held"); G.timeout_removes++; G.timeout_removed = t; }
void verif_stub_connection_last_unref (DBusConnection *c) { __CPROVER_assert (0, "connection finalized while in use"); __CPROVER_assume (0); }
/* the application's notify function */
static void verif_notify (DBusPendingCall *p, void *user_data)
{ G.notified++; G.notify_arg = p; if (G.conn->have_connection_lock) G.notify_locked = 1; if (verif_attached (p)) G.notify_attached = 1;
  if (!verif_pc_completed (p)) G.notify_incomplete = 1; if (verif_pc_reply (p) == NULL) G.notify_no_reply = 1; }
void *dbus_pending_call_get_data_stub_unused;
/* data slots / misc used by the pending-call code */
void *_dbus_data_slot_list_get (DBusDataSlotAllocator *a, DBusDataSlotList *l, int slot) { return nondet_ptr (); }
void _dbus_data_slot_list_free (DBusDataSlotList *l) { }
void _dbus_data_slot_allocator_free (DBusDataSlotAllocator *a, dbus_int32_t *slot_p) { }
void _dbus_timeout_unref (DBusTimeout *t) { }
void _dbus_list_free_link (DBusList *l) { free (l); }
/* expired_messages is empty in every C17 unit (precondition): popping from it yields NULL */
/* the expired-messages list holds at most one link in every C17 unit */
DBusList *_dbus_list_pop_first_link (DBusList **list) { DBusList *l = *list; PRE (l == NULL || l->next == l, "_dbus_list_pop_first_link: at most one expired message (unit bound)"); *list = NULL; return l; }
void _dbus_list_prepend_link (DBusList **list, DBusList *link) { PRE (*list == NULL, "_dbus_list_prepend_link: list empty (unit bound)"); link->next = link->prev = link; *list = link; }
void _dbus_list_clear (DBusList **list) { PRE (*list != NULL && (*list)->next == *list, "_dbus_list_clear: single preallocated link"); free (*list); *list = NULL; }
void _dbus_warn_return_if_fail (const char *function, const char *assertion, const char *file, int line) { __CPROVER_assert (0, "an API precondition check (_dbus_return_if_fail) fired"); }
void dbus_free (void *p) { free (p); }
static void verif_c17_reset (DBusConnection *c)
{
  G.conn = c; G.table = (DBusHashTable *) &G.table; c->pending_replies = G.table; _dbus_current_generation = 1; c->generation = 1; verif_pc_global_init ();
  for (int i = 0; i < NMSG; i++) { G.msg[i] = NULL; G.msg_refs[i] = 0; }
  for (int i = 0; i < NMAP; i++) G.present[i] = 0;
  G.completions = 0; G.completed_call = NULL; G.completed_with = NULL;
  G.removals = G.lookups = G.timeout_adds = G.timeout_removes = G.notified = G.synthesized = 0; G.timeout_removed = NULL; G.synth_link = NULL;
  G.notify_locked = G.notify_attached = G.notify_incomplete = G.notify_no_reply = 0; G.notify_arg = NULL; G.removed_before_completion = G.removed_unlocked = 0;
}
static DBusMessage *verif_new_msg (int slot, dbus_uint32_t reply_serial, int type)
{ DBusMessage *m = malloc (sizeof (DBusMessage)); __CPROVER_assume (m != NULL); G.msg[slot] = m; G.msg_reply_serial[slot] = reply_serial; G.msg_type[slot] = type; G.msg_refs[slot] = 1; return m; }
/* ---- contract of complete_pending_call_and_unlock (enforced on the real code in unit C17.complete) as a stub ---- */
void verif_stub_complete (DBusConnection *c, DBusPendingCall *p, DBusMessage *m)
{
  PRE (c == G.conn && c->have_connection_lock, "complete_pending_call_and_unlock: connection lock held");
  PRE (p != NULL && !verif_pc_completed (p), "complete_pending_call_and_unlock: the call is not yet completed (completes at most once)");
  PRE (verif_pc_reply (p) == NULL, "complete_pending_call_and_unlock: no reply stored yet");
#ifndef VERIF_STATE_CANCELLED   /* in C17.block_cancelled the same fact is the unit's single postcondition */
  PRE (verif_attached (p), "complete_pending_call_and_unlock: the call is still attached (a cancelled or detached call is never completed)");
#endif
  PRE (IMP (m != NULL, dbus_message_get_reply_serial (m) == verif_pc_serial (p)), "complete_pending_call_and_unlock: the message's reply serial is the call's serial");
  PRE (IMP (m == NULL, verif_pc_timeout_link (p) != NULL), "complete_pending_call_and_unlock: without a message the preallocated timeout error is still there");
  PRE (verif_pc_refcount (p) >= 1, "complete_pending_call_and_unlock: the table holds a reference");
  G.completions++; G.completed_call = p; G.completed_with = m;
  for (int i = 0; i < NMAP; i++) if (G.present[i] && G.val[i] == p) G.present[i] = 0;
  if (m != NULL) dbus_message_ref (m);
  verif_pc_complete_effect (p, m);
  c->have_connection_lock = 0;
  if (verif_pc_function (p) != NULL) verif_notify (p, NULL);
  if (verif_pc_refcount (p) == 0) free (p);        /* the table's reference was the last one: the call is finalized */
}
#endif
