/* C01 read-back (B): the real _dbus_type_reader_read_fixed_multi() of dbus/dbus-marshal-recursive.c (what
 * dbus_message_iter_get_fixed_array returns) on a validator-accepted body of signature VERIF_SIG = [prefix]a<fixed type>,
 * at most VERIF_N bytes, byte order VERIF_LE; total length and the array length word are constants of the unit
 * (-DVERIF_BODY_ASSIGN, as in C01.iter.*), element values and padding symbolic.
 * After recursing into the array and calling _dbus_type_reader_next k times, for EVERY k = 0 .. n-1 (n = number of
 * elements per the independent decoding): *value points at element k of the reference decoding (array start + k *
 * element size) and *n_elements == n - k, the REMAINING elements, so the block [value, value + n_elements * size) ends
 * exactly at the end of the array; for an empty array: NULL and 0.  Each element value read through the block equals
 * the reference decoding (host byte order = little endian: compared when VERIF_LE).                                */
#include "verif_str.h"
#include "dbus/dbus-marshal-validate.h"
#include "dbus/dbus-marshal-recursive.h"
#include "dbus/dbus-protocol.h"
#ifndef VERIF_N
#define VERIF_N 16
#endif
#define BODY_REF_MAXSTR (VERIF_N + 1)
#define SIG_REF_MAXRUN (VERIF_N + 1)
#include "c01h_value_ref.h"
long verif_gk, verif_gk2, verif_w, verif_w2; int verif_flag;
unsigned char in_buf[VERIF_N + 16] __attribute__ ((aligned (8)));
int in_len;
unsigned char nondet_uchar (void); int nondet_int (void);
static const char the_sig[] = VERIF_SIG;
void harness (void)
{
  DBusRealString body, sig; int i, k, asig, elem, esize, lenpos, start, nbytes, n; DBusValidity v; DBusTypeReader reader, sub;
  in_len = nondet_int ();
  __CPROVER_assume (in_len >= 0 && in_len <= VERIF_N);
  for (i = 0; i < VERIF_N; i++) in_buf[i] = nondet_uchar ();
#ifdef VERIF_BODY_ASSIGN
  VERIF_BODY_ASSIGN
#endif
  body.str = in_buf; body.len = in_len; body.allocated = VERIF_N + 16; body.constant = 1; body.locked = 1; body.valid = 1; body.align_offset = 0;
  sig.str = (unsigned char *) the_sig; sig.len = sizeof (the_sig) - 1; sig.allocated = sizeof (the_sig) + 8; sig.constant = 1; sig.locked = 1; sig.valid = 1; sig.align_offset = 0;
  v = _dbus_validate_body_with_reason ((DBusString *) &sig, 0, VERIF_LE ? DBUS_LITTLE_ENDIAN : DBUS_BIG_ENDIAN, NULL, (DBusString *) &body, 0, in_len);
  if (v != DBUS_VALID) return;
  __CPROVER_assert (body_ref_valid (the_sig, in_buf, in_len, VERIF_LE), "fixed_multi: an accepted body is valid per the reference decoder");
  /* independent decoding of the array extent: signature = optional leading 'y's, then 'a' + element type */
  asig = (int) sizeof (the_sig) - 3; elem = the_sig[asig + 1]; esize = elem == 'y' ? 1 : body_ref_alignment (elem);
  lenpos = val_ref_align (asig, 4);                      /* asig BYTE values precede the array */
  nbytes = (int) body_ref_u32 (in_buf, lenpos, VERIF_LE); start = val_ref_align (lenpos + 4, body_ref_alignment (elem)); n = nbytes / esize;
  _dbus_type_reader_init (&reader, VERIF_LE ? DBUS_LITTLE_ENDIAN : DBUS_BIG_ENDIAN, (DBusString *) &sig, 0, (DBusString *) &body, 0);
  for (k = 0; k < asig; k++) _dbus_type_reader_next (&reader);
  __CPROVER_assert (_dbus_type_reader_get_current_type (&reader) == DBUS_TYPE_ARRAY, "fixed_multi: the reader stands at the array");
  _dbus_type_reader_recurse (&reader, &sub);
  for (k = 0; k < VERIF_N; k++)
    {
      const void *block = (const void *) in_buf; int cnt = -1;
      if (k >= n && !(n == 0 && k == 0)) break;
      _dbus_type_reader_read_fixed_multi (&sub, &block, &cnt);
      __CPROVER_assert (cnt == n - k, "fixed_multi: *n_elements is the number of REMAINING elements (n - k after k next() calls)");
      __CPROVER_assert (n - k == 0 ? block == NULL : block == (const void *) (in_buf + start + k * esize), "fixed_multi: *value points at element k of the reference decoding (NULL when nothing remains)");
      __CPROVER_assert (n - k == 0 || start + k * esize + cnt * esize == start + nbytes, "fixed_multi: the block ends exactly at the end of the array");
#if VERIF_LE
      if (cnt > 0) { unsigned long long got = esize == 1 ? *(const unsigned char *) block : esize == 2 ? *(const dbus_uint16_t *) block : esize == 4 ? *(const dbus_uint32_t *) block : *(const dbus_uint64_t *) block;
                     __CPROVER_assert (got == val_ref_uint (in_buf, start + k * esize, esize, 1), "fixed_multi: the first element of the block equals the reference decoding"); }
#endif
      if (n == 0) break;
      _dbus_type_reader_next (&sub);
    }
  __CPROVER_assert (_dbus_type_reader_get_current_type (&sub) == DBUS_TYPE_INVALID, "fixed_multi: after n next() calls the array reader is at its end");
  REACH("accepted");
  __CPROVER_assert (n == VERIF_NELEMS, "fixed_multi: the skeleton has the planned number of elements");
#if VERIF_NELEMS == 0
  REACH("empty-array");
#else
  if (k == VERIF_NELEMS) REACH("every-position-of-the-array-visited");
#endif
}
