/* C07 "RemoveMatch removes one rule EQUAL to its argument" (B: key strings <= 2 bytes, <= 2 argument matches):
 * the real static match_rule_equal() of bus/signals.c is the equality of rules as the specification sees them:
 * same owner, same set of keys, and for every key present the same value - for path AND path_namespace, and for
 * each argN / argNpath / arg0namespace the same index, the same kind and the same string. */
#include <config.h>
#include "dbus/dbus-internals.h"
#include VERIF_TU
#include <string.h>
_Bool nondet_bool (void); int nondet_int (void); unsigned nondet_uint (void); char nondet_char (void);
void _dbus_real_assert (dbus_bool_t c, const char *t, const char *f, int l, const char *fn) { __CPROVER_assert (c, "dbus internal assertion"); __CPROVER_assume (c); }
void _dbus_verbose_real (const char *file, const int line, const char *function, const char *format, ...) { }
#define NS 3
typedef struct { char interface[NS], member[NS], sender[NS], destination[NS], path[NS], a0[NS], a1[NS]; unsigned lens[3]; char *args[3]; } Store;
static void mk_str (char *b) { int n = nondet_int (); __CPROVER_assume (n >= 0 && n < NS); for (int i = 0; i < NS; i++) { char c = nondet_char (); if (i < n) { __CPROVER_assume (c != 0); b[i] = c; } else b[i] = 0; } }
static int slen (const char *b) { return b[0] == 0 ? 0 : (b[1] == 0 ? 1 : 2); }
static int seq (const char *x, const char *y) { return x[0] == y[0] && (x[0] == 0 || (x[1] == y[1] && (x[1] == 0 || x[2] == y[2]))); }
static void mk_rule (BusMatchRule *r, Store *s, DBusConnection *owner)
{
  unsigned keys = nondet_uint ();
  r->refcount = 1; r->matches_go_to = owner; r->message_type = nondet_int ();
  mk_str (s->interface); mk_str (s->member); mk_str (s->sender); mk_str (s->destination); mk_str (s->path); mk_str (s->a0); mk_str (s->a1);
  /* RULE_OK as the setters establish it: a key's flag is set iff its field is present; PATH and PATH_NAMESPACE exclude each other */
  __CPROVER_assume ((keys & ~(BUS_MATCH_MESSAGE_TYPE | BUS_MATCH_INTERFACE | BUS_MATCH_MEMBER | BUS_MATCH_SENDER | BUS_MATCH_DESTINATION | BUS_MATCH_PATH | BUS_MATCH_ARGS | BUS_MATCH_PATH_NAMESPACE | BUS_MATCH_CLIENT_IS_EAVESDROPPING)) == 0);
  __CPROVER_assume (!((keys & BUS_MATCH_PATH) && (keys & BUS_MATCH_PATH_NAMESPACE)));
  r->flags = keys;
  r->interface = (keys & BUS_MATCH_INTERFACE) ? s->interface : NULL; r->member = (keys & BUS_MATCH_MEMBER) ? s->member : NULL;
  r->sender = (keys & BUS_MATCH_SENDER) ? s->sender : NULL; r->destination = (keys & BUS_MATCH_DESTINATION) ? s->destination : NULL;
  r->path = (keys & (BUS_MATCH_PATH | BUS_MATCH_PATH_NAMESPACE)) ? s->path : NULL;
  r->args = NULL; r->arg_lens = NULL; r->args_len = 0;
  if (keys & BUS_MATCH_ARGS)
    {
      int n = nondet_int (); __CPROVER_assume (n >= 1 && n <= 2);
      r->args_len = n; r->args = s->args; r->arg_lens = s->lens;
      for (int i = 0; i < 3; i++) { s->args[i] = NULL; s->lens[i] = 0; }
      for (int i = 0; i < 2; i++) if (i < n)
        { char *v = i == 0 ? s->a0 : s->a1; unsigned kind = nondet_uint ();
          __CPROVER_assume (kind == 0 || kind == BUS_MATCH_ARG_IS_PATH || kind == BUS_MATCH_ARG_NAMESPACE);
          if (i == n - 1 || nondet_bool ()) { s->args[i] = v; s->lens[i] = (unsigned) slen (v) | kind; } }
    }
}
static int arg_eq (const BusMatchRule *a, const BusMatchRule *b, int i)
{ if ((a->args[i] != NULL) != (b->args[i] != NULL)) return 0; if (a->args[i] == NULL) return 1;
  return a->arg_lens[i] == b->arg_lens[i] && seq (a->args[i], b->args[i]); }
void harness (void)
{
  BusMatchRule A, B; Store sa, sb; char c1, c2; DBusConnection *o1 = (DBusConnection *) &c1, *o2 = nondet_bool () ? o1 : (DBusConnection *) &c2;
  mk_rule (&A, &sa, o1); mk_rule (&B, &sb, o2);
  dbus_bool_t got = match_rule_equal (&A, &B);
  int want = A.matches_go_to == B.matches_go_to && A.flags == B.flags
    && (!(A.flags & BUS_MATCH_MESSAGE_TYPE) || A.message_type == B.message_type)
    && (!(A.flags & BUS_MATCH_INTERFACE) || seq (A.interface, B.interface))
    && (!(A.flags & BUS_MATCH_MEMBER) || seq (A.member, B.member))
    && (!(A.flags & BUS_MATCH_SENDER) || seq (A.sender, B.sender))
    && (!(A.flags & BUS_MATCH_DESTINATION) || seq (A.destination, B.destination))
    && (!(A.flags & (BUS_MATCH_PATH | BUS_MATCH_PATH_NAMESPACE)) || seq (A.path, B.path))
    && (!(A.flags & BUS_MATCH_ARGS) || (A.args_len == B.args_len && arg_eq (&A, &B, 0) && (A.args_len < 2 || arg_eq (&A, &B, 1))));
  __CPROVER_assert ((got != 0) == (want != 0), "equal.post1 match_rule_equal is TRUE iff owner, key set and every present key's value (incl. path_namespace and each argument match's index, kind and string) are the same");
  if (got) __CPROVER_assert (0, "REACH:equal"); else __CPROVER_assert (0, "REACH:different");
  if (got && (A.flags & BUS_MATCH_ARGS) && A.args_len == 2) __CPROVER_assert (0, "REACH:equal-two-args");
  if (got && (A.flags & BUS_MATCH_PATH_NAMESPACE)) __CPROVER_assert (0, "REACH:equal-path-namespace");
}
